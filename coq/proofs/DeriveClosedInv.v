(** C20, last clause -- the invariant of the SchemaBuilder run of the derive model on the supported fragment.

    The builder threads a table [b_built : lookup key -> node index] (already_built_types). An entry is
    registered BEFORE its node is built (that is how recursion works), so during the run some entries are
    pending. What is proved here, by induction over the execution ([append_post]):

    - the table only grows, and an entry is never overwritten                        ([ext])
    - the nodes below the length at entry are never touched again                    (prefix clause of [grows])
    - every entry registered during a call is, when the call returns, GOOD: its node has the local shape of
      its key, the children being resolved through the table at return              ([good], stable under
      later growth: [good_stable])
    - every node pushed during a call is the node of an entry                        (coverage clause)

    [good] is phrased on lookup keys, not on types: types with the same key (u16 / i32, Box<T> / T, a newtype
    struct and its field) share one node, and the shape is the same for all of them. *)
From Coq Require Import NArith List Lia Bool Arith.
Import ListNotations.
Require Import Base Schema Text Wf Derive DeriveProofs DeriveFitsDefs.
Arguments N.add : simpl never.
Arguments N.mul : simpl never.
Open Scope nat_scope.

(* ------------------------------------------------------------------ *)
(** * lists *)
Lemma Forall2_mono : forall A B (R1 R2 : A -> B -> Prop) l l',
  (forall a b, R1 a b -> R2 a b) -> Forall2 R1 l l' -> Forall2 R2 l l'.
Proof. intros A B R1 R2 l l' H F. induction F; constructor; auto. Qed.

Lemma set_nth_same : forall A i (x : A) l, i < length l -> nth_error (set_nth i x l) i = Some x.
Proof.
  induction i as [|i IH]; intros x l H; destruct l as [|h t]; cbn [length] in H; try lia; cbn [set_nth nth_error].
  - reflexivity.
  - apply IH. lia.
Qed.

Lemma set_nth_other : forall A i j (x : A) l, j <> i -> nth_error (set_nth i x l) j = nth_error l j.
Proof.
  induction i as [|i IH]; intros j x l H; destruct l as [|h t]; cbn [set_nth]; try reflexivity.
  - destruct j as [|j]; [lia|reflexivity].
  - destruct j as [|j]; [reflexivity|]. cbn [nth_error]. apply IH. lia.
Qed.

Lemma nth_error_push_old : forall A (l : list A) x j, j < length l -> nth_error (l ++ [x]) j = nth_error l j.
Proof. intros A l x j H. apply nth_error_app1. exact H. Qed.

Lemma nth_error_push_new : forall A (l : list A) x, nth_error (l ++ [x]) (length l) = Some x.
Proof. intros A l x. rewrite nth_error_app2; [|lia]. rewrite Nat.sub_diag. reflexivity. Qed.

Lemma nth_error_lt : forall A (l : list A) i x, nth_error l i = Some x -> i < length l.
Proof. intros A l i x H. apply nth_error_Some. rewrite H. discriminate. Qed.

Lemma filter_all : forall A (p : A -> bool) l, forallb p l = true -> filter p l = l.
Proof.
  induction l as [|x t IH]; cbn [forallb filter]; intro H; [reflexivity|].
  apply andb_prop in H. destruct H as [Hx Ht]. rewrite Hx. rewrite (IH Ht). reflexivity.
Qed.

(* ------------------------------------------------------------------ *)
(** * TypeLookup: unfolding, inversion, monotonicity in the fuel *)
Lemma lk_eqb_refl : forall k, lk_eqb k k = true.
Proof. intro k. apply lk_eqb_eq. reflexivity. Qed.

Lemma lookup_pos : forall f ds t k, lookup f ds t = Some k -> exists f', f = S f'.
Proof. intros [|f] ds t k H; [discriminate H|]. exists f. reflexivity. Qed.

Lemma sequence_map_mono : forall A B (g g' : A -> option B) l ks,
  (forall x k, g x = Some k -> g' x = Some k) ->
  sequence (map g l) = Some ks -> sequence (map g' l) = Some ks.
Proof.
  induction l as [|x t IH]; intros ks Hg H; cbn [map sequence] in *; [exact H|].
  destruct (g x) as [k|] eqn:E; [|discriminate H].
  rewrite (Hg _ _ E).
  destruct (sequence (map g t)) as [r|] eqn:Er; [|discriminate H].
  rewrite (IH r Hg eq_refl). exact H.
Qed.

Lemma lookup_mono_S : forall f ds t k, lookup f ds t = Some k -> lookup (S f) ds t = Some k.
Proof.
  induction f as [|f IH]; intros ds t k H; [discriminate H|].
  cbn [lookup] in H. remember (S f) as g eqn:Eg. cbn [lookup].
  destruct t as [p| | |n|t'|t'|t'|t'|id args|i]; try exact H.
  - destruct (lookup f ds t') as [k'|] eqn:E; [|discriminate H]. subst g. rewrite (IH _ _ _ E). exact H.
  - destruct (lookup f ds t') as [k'|] eqn:E; [|discriminate H]. subst g. rewrite (IH _ _ _ E). exact H.
  - destruct (lookup f ds t') as [k'|] eqn:E; [|discriminate H]. subst g. rewrite (IH _ _ _ E). exact H.
  - subst g. apply IH. exact H.
  - destruct (nth_error ds id) as [[h fs|h s|h syms|h vs]|]; try exact H.
    + destruct (Nat.eqb (h_nparams h) 0); [exact H|].
      destruct (sequence (map (fun fd => lookup f ds (subst args (eff_type (f_slot fd)))) (live_fields fs))) as [ks|] eqn:E;
        [|discriminate H].
      subst g.
      rewrite (sequence_map_mono _ _ (fun fd => lookup f ds (subst args (eff_type (f_slot fd))))
                 (fun fd => lookup (S f) ds (subst args (eff_type (f_slot fd)))) _ ks); [exact H| |exact E].
      intros x k0 Hx. apply IH. exact Hx.
    + destruct (slot_direct s); [|exact H]. subst g. apply IH. exact H.
Qed.

Lemma lookup_mono : forall f f' ds t k, lookup f ds t = Some k -> f <= f' -> lookup f' ds t = Some k.
Proof.
  intros f f' ds t k H Hle. induction Hle as [|m Hm IH]; [exact H|]. apply lookup_mono_S. exact IH.
Qed.

Lemma lookup_det : forall f f' ds t k k', lookup f ds t = Some k -> lookup f' ds t = Some k' -> k = k'.
Proof.
  intros f f' ds t k k' H H'.
  pose proof (lookup_mono f (Nat.max f f') ds t k H (Nat.le_max_l _ _)) as A.
  pose proof (lookup_mono f' (Nat.max f f') ds t k' H' (Nat.le_max_r _ _)) as B.
  rewrite A in B. inversion B. reflexivity.
Qed.

Lemma lookup_peel : forall ds t f k, lookup f ds (peel t) = Some k -> exists f', lookup f' ds t = Some k.
Proof.
  induction t; intros f k H; cbn [peel] in H; try (exists f; exact H).
  destruct (IHt _ _ H) as [f' Hf']. exists (S f'). cbn [lookup]. exact Hf'.
Qed.

Section LookupInv.
Variable ds : defs.

Lemma lookup_prim_inv : forall f p k, lookup f ds (TPrim p) = Some k -> k = LkPrim (prim_avro p).
Proof. intros [|f] p k H; [discriminate H|]. cbn [lookup] in H. inversion H. reflexivity. Qed.
Lemma lookup_string_inv : forall f k, lookup f ds TString = Some k -> k = LkPrim AString.
Proof. intros [|f] k H; [discriminate H|]. cbn [lookup] in H. inversion H. reflexivity. Qed.
Lemma lookup_bytes_inv : forall f k, lookup f ds TBytes = Some k -> k = LkPrim ABytes.
Proof. intros [|f] k H; [discriminate H|]. cbn [lookup] in H. inversion H. reflexivity. Qed.

Lemma lookup_option_inv : forall f t' k, lookup f ds (TOption t') = Some k ->
  exists f' k', f = S f' /\ k = LkOption k' /\ lookup f' ds t' = Some k'.
Proof.
  intros [|f] t' k H; [discriminate H|]. cbn [lookup] in H.
  destruct (lookup f ds t') as [k'|] eqn:E; [|discriminate H]. inversion H. exists f, k'. auto.
Qed.
Lemma lookup_vec_inv : forall f t' k, lookup f ds (TVec t') = Some k ->
  exists f' k', f = S f' /\ k = LkVec k' /\ lookup f' ds t' = Some k'.
Proof.
  intros [|f] t' k H; [discriminate H|]. cbn [lookup] in H.
  destruct (lookup f ds t') as [k'|] eqn:E; [|discriminate H]. inversion H. exists f, k'. auto.
Qed.
Lemma lookup_map_inv : forall f t' k, lookup f ds (TMap t') = Some k ->
  exists f' k', f = S f' /\ k = LkMap k' /\ lookup f' ds t' = Some k'.
Proof.
  intros [|f] t' k H; [discriminate H|]. cbn [lookup] in H.
  destruct (lookup f ds t') as [k'|] eqn:E; [|discriminate H]. inversion H. exists f, k'. auto.
Qed.
Lemma lookup_ptr_inv : forall f t' k, lookup f ds (TPtr t') = Some k -> exists f', f = S f' /\ lookup f' ds t' = Some k.
Proof. intros [|f] t' k H; [discriminate H|]. cbn [lookup] in H. exists f. auto. Qed.

(* a named type without type parameters *)
Lemma lookup_struct_inv : forall f id args h fs k, nth_error ds id = Some (DStruct h fs) -> h_nparams h = 0 ->
  lookup f ds (TNamed id args) = Some k -> k = LkNamed id [].
Proof.
  intros [|f] id args h fs k Hd Hn H; [discriminate H|]. cbn [lookup] in H. rewrite Hd, Hn in H.
  cbn [Nat.eqb] in H. inversion H. reflexivity.
Qed.
Lemma lookup_uenum_inv : forall f id args h syms k, nth_error ds id = Some (DUnitEnum h syms) ->
  lookup f ds (TNamed id args) = Some k -> k = LkNamed id [].
Proof. intros [|f] id args h syms k Hd H; [discriminate H|]. cbn [lookup] in H. rewrite Hd in H. inversion H. reflexivity. Qed.
Lemma lookup_union_inv : forall f id args h vs k, nth_error ds id = Some (DUnionEnum h vs) ->
  lookup f ds (TNamed id args) = Some k -> k = LkNamed id [].
Proof. intros [|f] id args h vs k Hd H; [discriminate H|]. cbn [lookup] in H. rewrite Hd in H. inversion H. reflexivity. Qed.
Lemma lookup_newtype_inv : forall f id args h s k, nth_error ds id = Some (DNewtype h s) -> slot_direct s = true ->
  lookup f ds (TNamed id args) = Some k -> exists f', f = S f' /\ lookup f' ds (subst args (peel (sl_type s))) = Some k.
Proof.
  intros [|f] id args h s k Hd Hs H; [discriminate H|]. cbn [lookup] in H. rewrite Hd, Hs in H. exists f. auto.
Qed.
End LookupInv.

(* ------------------------------------------------------------------ *)
(** * the supported fragment: what def_ok gives *)
Lemma subst_nil : forall ds t, type_ok ds t = true -> subst [] t = t.
Proof.
  induction t; intro H; cbn [type_ok] in H; cbn [subst]; try reflexivity; try discriminate H.
  - apply andb_prop in H. destruct H as [H _]. rewrite (IHt H). reflexivity.
  - rewrite (IHt H). reflexivity.
  - rewrite (IHt H). reflexivity.
  - rewrite (IHt H). reflexivity.
  - destruct args; [reflexivity|discriminate H].
Qed.

Lemma type_ok_peel' : forall ds t, type_ok ds t = true -> type_ok ds (peel t) = true.
Proof. induction t; intro H; cbn [peel]; try exact H. apply IHt. exact H. Qed.

Lemma def_ok_nth : forall ds id d, defs_ok ds = true -> nth_error ds id = Some d -> def_ok ds d = true.
Proof.
  intros ds id d Hds H. unfold defs_ok in Hds. rewrite forallb_forall in Hds. apply Hds. eapply nth_error_In. exact H.
Qed.

Lemma slot_ok_inv : forall ds s, slot_ok ds s = true -> sl_logical s = None /\ type_ok ds (sl_type s) = true.
Proof. intros ds s H. unfold slot_ok in H. destruct (sl_logical s); [discriminate H|]. auto. Qed.

Lemma slot_ok_direct : forall ds s, slot_ok ds s = true -> slot_direct s = true.
Proof.
  intros ds s H. destruct (slot_ok_inv _ _ H) as [Hl Ht]. apply type_ok_peel' in Ht.
  unfold slot_direct. rewrite Hl. destruct (peel (sl_type s)); try reflexivity. discriminate Ht.
Qed.

Lemma header_ok_nparams : forall h, header_ok h = true -> h_nparams h = 0.
Proof.
  intros h H. unfold header_ok in H. repeat (apply andb_prop in H; destruct H as [H _]).
  apply Nat.eqb_eq. exact H.
Qed.

(* ------------------------------------------------------------------ *)
(** * tables, good entries *)
Definition tbl := list (lk * nat).
Definition ext (T T' : tbl) : Prop := forall k i, assoc_lk k T = Some i -> assoc_lk k T' = Some i.

Lemma ext_refl : forall T, ext T T.
Proof. intros T k i H. exact H. Qed.
Lemma ext_trans : forall T1 T2 T3, ext T1 T2 -> ext T2 T3 -> ext T1 T3.
Proof. intros T1 T2 T3 A B k i H. apply B. apply A. exact H. Qed.

Definition plain (r : regular) : mnode := mkNode r None.

Section Inv.
Variable ds : defs.
Variable L : nat.                (* the fuel of the lookup function the builder uses *)
Hypothesis Hds : defs_ok ds = true.

Definition key_at (T : tbl) (t : rtype) (c : nat) : Prop :=
  exists f k, lookup f ds t = Some k /\ assoc_lk k T = Some c.
Definition null_at (T : tbl) (c : nat) : Prop := assoc_lk (LkPrim ANull) T = Some c.
Definition gfield (T : tbl) (fd : field) (fk : bytes * nat) : Prop :=
  fst fk = f_name fd /\ key_at T (ftype fd) (snd fk).
Definition gvariant (T : tbl) (v : variant) (c : nat) : Prop :=
  match v with VUnit => null_at T c | VNewtype _ s => key_at T (sl_type s) c end.

(* node i of N has the local shape of key k, children through T *)
Definition good (N : list mnode) (T : tbl) (k : lk) (i : nat) : Prop :=
  match k with
  | LkPrim a => nth_error N i = Some (plain (aprim_regular a))
  | LkArr _ => False
  | LkOption k' =>
      exists c0 c1, nth_error N i = Some (plain (RUnion [c0; c1])) /\ null_at T c0 /\ assoc_lk k' T = Some c1
  | LkVec k' => exists c, nth_error N i = Some (plain (RArray c)) /\ assoc_lk k' T = Some c
  | LkMap k' => exists c, nth_error N i = Some (plain (RMap c)) /\ assoc_lk k' T = Some c
  | LkNamed id _ =>
      match nth_error ds id with
      | Some (DStruct h fs) =>
          exists fields, nth_error N i = Some (plain (RRecord (name_of_fqn (type_name h)) fields)) /\
                         Forall2 (gfield T) fs fields
      | Some (DUnitEnum h syms) => nth_error N i = Some (plain (REnum (name_of_fqn (type_name h)) (map fst syms)))
      | Some (DUnionEnum h vs) => exists cs, nth_error N i = Some (plain (RUnion cs)) /\ Forall2 (gvariant T) vs cs
      | _ => False
      end
  end.

(* the key is the key of a supported type *)
Definition wit (k : lk) : Prop := exists t, type_ok ds t = true /\ lookup L ds t = Some k.

Lemma key_at_ext : forall T T' t c, ext T T' -> key_at T t c -> key_at T' t c.
Proof. intros T T' t c E (f & k & A & B). exists f, k. split; [exact A|apply E; exact B]. Qed.

Lemma good_stable : forall N T N' T' k i,
  good N T k i -> nth_error N' i = nth_error N i -> ext T T' -> good N' T' k i.
Proof.
  intros N T N' T' k i G Hn E. destruct k as [a|n|k'|k'|k'|id args]; unfold good in *.
  - rewrite Hn. exact G.
  - exact G.
  - destruct G as (c0 & c1 & A & B & C). exists c0, c1. rewrite Hn. split; [exact A|]. split; [apply E; exact B|apply E; exact C].
  - destruct G as (c & A & B). exists c. rewrite Hn. split; [exact A|apply E; exact B].
  - destruct G as (c & A & B). exists c. rewrite Hn. split; [exact A|apply E; exact B].
  - destruct (nth_error ds id) as [[h fs|h s|h syms|h vs]|]; try exact G.
    + destruct G as (fields & A & B). exists fields. rewrite Hn. split; [exact A|].
      eapply Forall2_mono; [|exact B]. intros fd fk [X Y]. split; [exact X|eapply key_at_ext; eassumption].
    + rewrite Hn. exact G.
    + destruct G as (cs & A & B). exists cs. rewrite Hn. split; [exact A|].
      eapply Forall2_mono; [|exact B]. intros v c X. destruct v as [|ident s]; cbn [gvariant] in *.
      * apply E. exact X.
      * eapply key_at_ext; eassumption.
Qed.

Lemma good_lt : forall N T k i, good N T k i -> i < length N.
Proof.
  intros N T k i G. destruct k as [a|n|k'|k'|k'|id args]; unfold good in G.
  - eapply nth_error_lt; exact G.
  - destruct G.
  - destruct G as (c0 & c1 & A & _). eapply nth_error_lt; exact A.
  - destruct G as (c & A & _). eapply nth_error_lt; exact A.
  - destruct G as (c & A & _). eapply nth_error_lt; exact A.
  - destruct (nth_error ds id) as [[h fs|h s|h syms|h vs]|].
    + destruct G as (fields & A & _). eapply nth_error_lt; exact A.
    + destruct G.
    + eapply nth_error_lt; exact G.
    + destruct G as (cs & A & _). eapply nth_error_lt; exact A.
    + destruct G.
Qed.

(* ------------------------------------------------------------------ *)
(** * one call: what it may change *)
Definition grows (keep lo : nat) (b b' : builder) : Prop :=
  (forall j, j < keep -> nth_error (b_nodes b') j = nth_error (b_nodes b) j) /\
  ext (b_built b) (b_built b') /\
  b_len b <= b_len b' /\
  (forall k i, assoc_lk k (b_built b') = Some i -> assoc_lk k (b_built b) = None ->
               lo <= i /\ good (b_nodes b') (b_built b') k i /\ wit k) /\
  (forall j, lo <= j < b_len b' -> exists k, assoc_lk k (b_built b') = Some j).

Lemma grows_refl : forall b, grows (b_len b) (b_len b) b b.
Proof.
  intro b. split; [reflexivity|]. split; [apply ext_refl|]. split; [apply le_n|]. split.
  - intros k i A B. rewrite A in B. discriminate B.
  - intros j Hj. lia.
Qed.

Lemma grows_trans : forall keep lo b b1 b2,
  grows keep lo b b1 -> grows (b_len b1) (b_len b1) b1 b2 -> keep <= b_len b1 -> lo <= b_len b1 ->
  grows keep lo b b2.
Proof.
  intros keep lo b b1 b2 (P1 & E1 & L1 & N1 & C1) (P2 & E2 & L2 & N2 & C2) Hk Hl.
  split; [|split; [|split; [|split]]].
  - intros j Hj. rewrite P2 by lia. apply P1. exact Hj.
  - eapply ext_trans; eassumption.
  - lia.
  - intros k i A B. destruct (assoc_lk k (b_built b1)) as [i1|] eqn:E.
    + pose proof (E2 _ _ E) as A'. rewrite A in A'. inversion A'; subst i1.
      destruct (N1 _ _ E B) as (X & G & W). split; [exact X|]. split; [|exact W].
      eapply good_stable; [exact G| |exact E2]. apply P2. apply good_lt in G. exact G.
    + destruct (N2 _ _ A E) as (X & G & W). split; [lia|]. split; [exact G|exact W].
  - intros j Hj. destruct (Nat.lt_ge_cases j (b_len b1)) as [Hlt|Hge].
    + destruct (C1 j (conj (proj1 Hj) Hlt)) as [k Hk']. exists k. apply E2. exact Hk'.
    + apply C2. lia.
Qed.

Lemma reserve_len : forall b, b_len (reserve b) = S (b_len b).
Proof. intro b. unfold reserve, push, b_len. cbn [b_nodes]. rewrite app_length. cbn [length]. lia. Qed.

(* a leaf: one node pushed, nothing registered *)
Lemma push_grows : forall n b,
  grows (b_len b) (S (b_len b)) b (push n b) /\ nth_error (b_nodes (push n b)) (b_len b) = Some n.
Proof.
  intros n b. unfold grows, push, b_len. cbn [b_nodes b_built]. split; [|apply nth_error_push_new].
  split; [intros j Hj; apply nth_error_push_old; exact Hj|]. split; [apply ext_refl|].
  split; [rewrite app_length; cbn [length]; lia|]. split.
  - intros k i A B. rewrite A in B. discriminate B.
  - intros j Hj. rewrite app_length in Hj. cbn [length] in Hj. lia.
Qed.

(* reserve, build the children, fill the reserved slot *)
Lemma wrap : forall b b2 nd,
  grows (S (b_len b)) (S (b_len b)) (reserve b) b2 ->
  grows (b_len b) (S (b_len b)) b (set_node (b_len b) nd b2) /\
  nth_error (b_nodes (set_node (b_len b) nd b2)) (b_len b) = Some nd.
Proof.
  intros b b2 nd (P2 & E2 & L2 & N2 & C2). rewrite reserve_len in L2.
  unfold set_node. cbn [b_nodes b_built]. split; [|apply set_nth_same; unfold b_len in *; lia].
  split; [|split; [|split; [|split]]]; cbn [b_nodes b_built].
  - intros j Hj. rewrite set_nth_other by lia. rewrite P2 by lia.
    unfold reserve, push. cbn [b_nodes]. apply nth_error_push_old. exact Hj.
  - exact E2.
  - unfold b_len in *. cbn [b_nodes]. rewrite set_nth_length. lia.
  - intros k i A B. destruct (N2 _ _ A B) as (X & G & W). split; [exact X|]. split; [|exact W].
    eapply good_stable; [exact G| |apply ext_refl]. apply set_nth_other. lia.
  - intros j Hj. apply C2. unfold b_len in *. cbn [b_nodes] in Hj. rewrite set_nth_length in Hj. exact Hj.
Qed.

(* ------------------------------------------------------------------ *)
(** * the specification of append_schema, and what follows for the pieces built over it *)
Definition app_post (app : rtype -> builder -> result builder) : Prop :=
  forall t k b b', type_ok ds t = true -> lookup L ds t = Some k -> app t b = Ok b' ->
    grows (b_len b) (S (b_len b)) b b' /\ good (b_nodes b') (b_built b') k (b_len b).

Section over_app.
  Variable app : rtype -> builder -> result builder.
  Hypothesis Happ : app_post app.
  Let lkf := lookup L ds.

  Lemma fob_post : forall t b i b', type_ok ds t = true -> find_or_build_with app lkf t b = Ok (i, b') ->
    exists k, lookup L ds t = Some k /\ grows (b_len b) (b_len b) b b' /\ assoc_lk k (b_built b') = Some i /\
              (assoc_lk k (b_built b) = None -> i = b_len b).
  Proof.
    intros t b i b' Hok H. unfold find_or_build_with in H. unfold lkf in H.
    destruct (lookup L ds t) as [k|] eqn:Ek; [|discriminate H]. exists k. split; [reflexivity|].
    destruct (assoc_lk k (b_built b)) as [j|] eqn:Ea.
    - inversion H; subst. split; [apply grows_refl|]. split; [exact Ea|]. intro X. discriminate X.
    - apply rbind_ok in H. destruct H as [b2 [Hb2 H]].
      destruct (Nat.ltb (b_len b) (b_len b2)) eqn:Elt; [|discriminate H]. inversion H; subst i b'. clear H.
      apply Nat.ltb_lt in Elt.
      destruct (Happ _ _ _ _ Hok Ek Hb2) as [(P2 & E2 & L2 & N2 & C2) G].
      unfold b_len in P2, L2, N2, C2, G. cbn [b_nodes b_built] in P2, E2, L2, N2, C2, G. fold (b_len b) in *. fold (b_len b2) in *.
      assert (Ak : assoc_lk k (b_built b2) = Some (b_len b)).
      { apply E2. cbn [assoc_lk]. rewrite lk_eqb_refl. reflexivity. }
      split; [|split; [exact Ak|intros _; reflexivity]].
      split; [exact P2|]. split; [|split; [lia|split]].
      + intros k' i' A. apply E2. cbn [assoc_lk]. destruct (lk_eqb k' k) eqn:Eq; [|exact A].
        apply lk_eqb_eq in Eq. subst k'. rewrite Ea in A. discriminate A.
      + intros k' i' A B. destruct (lk_eqb k' k) eqn:Eq.
        * apply lk_eqb_eq in Eq. subst k'. rewrite Ak in A. inversion A; subst i'.
          split; [apply le_n|]. split; [exact G|]. exists t. split; [exact Hok|exact Ek].
        * destruct (N2 k' i' A) as (X & G' & W); [cbn [assoc_lk]; rewrite Eq; exact B|].
          split; [lia|]. split; [exact G'|exact W].
      + intros j Hj. destruct (Nat.eq_dec j (b_len b)) as [->|Hne]; [exists k; exact Ak|]. apply C2. lia.
  Qed.

  (* a field / payload slot of the fragment is instantiated by find_or_build of its peeled type *)
  Lemma field_inst_direct : forall h fk s b, slot_ok ds s = true ->
    field_inst app lkf h fk [] s b = find_or_build_with app lkf (peel (sl_type s)) b.
  Proof.
    intros h fk s b H. destruct (slot_ok_inv _ _ H) as [Hl Ht]. apply type_ok_peel' in Ht.
    pose proof (subst_nil _ _ Ht) as Hs.
    unfold field_inst. rewrite Hl.
    destruct (peel (sl_type s)) eqn:Ep; try discriminate Ht; try (rewrite Hs; reflexivity);
      destruct fk; rewrite Hs; reflexivity.
  Qed.

  Lemma slot_post : forall h fk s b i b', slot_ok ds s = true -> field_inst app lkf h fk [] s b = Ok (i, b') ->
    grows (b_len b) (b_len b) b b' /\ key_at (b_built b') (sl_type s) i.
  Proof.
    intros h fk s b i b' Hs H. rewrite (field_inst_direct _ _ _ _ Hs) in H.
    destruct (slot_ok_inv _ _ Hs) as [_ Ht].
    destruct (fob_post _ _ _ _ (type_ok_peel' _ _ Ht) H) as (k & Hk & G & A & _).
    split; [exact G|]. destruct (lookup_peel _ _ _ _ Hk) as [f' Hf']. exists f', k. split; assumption.
  Qed.

  Lemma fields_post : forall h tn fs b ks b',
    (forall fd, In fd fs -> slot_ok ds (f_slot fd) = true) ->
    fields_inst app lkf h tn [] fs b = Ok (ks, b') ->
    grows (b_len b) (b_len b) b b' /\ Forall2 (gfield (b_built b')) fs ks.
  Proof.
    induction fs as [|fd rest IH]; intros b ks b' Hfs H; cbn [fields_inst] in H.
    - inversion H; subst. split; [apply grows_refl|constructor].
    - apply rbind_ok in H. destruct H as [[k1 b1] [H1 H]].
      apply rbind_ok in H. destruct H as [[ks2 b2] [H2 H]]. inversion H; subst ks b'. clear H.
      destruct (slot_post _ _ _ _ _ _ (Hfs fd (or_introl eq_refl)) H1) as [G1 K1].
      destruct (IH _ _ _ (fun x Hx => Hfs x (or_intror Hx)) H2) as [G2 F2].
      pose proof G1 as (_ & _ & L1 & _). pose proof G2 as (_ & E2 & _).
      split; [eapply grows_trans; [exact G1|exact G2|exact L1|exact L1]|].
      constructor; [|exact F2]. split; [reflexivity|]. cbn [snd]. eapply key_at_ext; [exact E2|exact K1].
  Qed.

  Lemma variants_post : forall h vs b ks b',
    (forall ident s, In (VNewtype ident s) vs -> slot_ok ds s = true) ->
    variants_inst app lkf h vs b = Ok (ks, b') ->
    grows (b_len b) (b_len b) b b' /\ Forall2 (gvariant (b_built b')) vs ks.
  Proof.
    induction vs as [|v rest IH]; intros b ks b' Hvs H; cbn [variants_inst] in H.
    - inversion H; subst. split; [apply grows_refl|constructor].
    - apply rbind_ok in H. destruct H as [[k1 b1] [H1 H]].
      apply rbind_ok in H. destruct H as [[ks2 b2] [H2 H]]. inversion H; subst ks b'. clear H.
      assert (Hv : grows (b_len b) (b_len b) b b1 /\ gvariant (b_built b1) v k1).
      { destruct v as [|ident s]; cbn [gvariant].
        - destruct (fob_post (TPrim PUnit) _ _ _ eq_refl H1) as (k & Hk & G & A & _).
          apply lookup_prim_inv in Hk. subst k. split; [exact G|exact A].
        - eapply slot_post; [|exact H1]. eapply Hvs. left. reflexivity. }
      destruct Hv as [G1 K1].
      destruct (IH _ _ _ (fun i s Hx => Hvs i s (or_intror Hx)) H2) as [G2 F2].
      pose proof G1 as (_ & _ & L1 & _). pose proof G2 as (_ & E2 & _).
      split; [eapply grows_trans; [exact G1|exact G2|exact L1|exact L1]|].
      constructor; [|exact F2]. destruct v as [|ident s]; cbn [gvariant] in *.
      + apply E2. exact K1.
      + eapply key_at_ext; [exact E2|exact K1].
  Qed.
End over_app.

End Inv.

(* ------------------------------------------------------------------ *)
(** * append_schema meets the specification (any fuel, any oracle) *)
Section Append.
Variable ds : defs.
Hypothesis Hds : defs_ok ds = true.

(* a composite: the node filled into the reserved slot *)
Lemma fill_post : forall L b b2 nd k,
  grows ds L (S (b_len b)) (S (b_len b)) (reserve b) b2 ->
  (forall N, nth_error N (b_len b) = Some nd -> good ds N (b_built b2) k (b_len b)) ->
  grows ds L (b_len b) (S (b_len b)) b (set_node (b_len b) nd b2) /\
  good ds (b_nodes (set_node (b_len b) nd b2)) (b_built (set_node (b_len b) nd b2)) k (b_len b).
Proof.
  intros L b b2 nd k G Hg. destruct (wrap ds L b b2 nd G) as [G' Hn]. split; [exact G'|].
  apply Hg. exact Hn.
Qed.

Theorem append_post : forall fuel o, app_post ds LKFUEL (append fuel ds o).
Proof.
  induction fuel as [|f IH]; intros o t k b b' Hok Hk H; [discriminate H|].
  specialize (IH o). cbn [append] in H.
  assert (Hleaf : forall a, k = LkPrim a -> Ok (push (mkNode (aprim_regular a) None) b) = Ok b' ->
            grows ds LKFUEL (b_len b) (S (b_len b)) b b' /\ good ds (b_nodes b') (b_built b') k (b_len b)).
  { intros a -> E. inversion E; subst b'. destruct (push_grows ds LKFUEL (mkNode (aprim_regular a) None) b) as [G Hn].
    split; [exact G|]. unfold good. exact Hn. }
  destruct t as [p| | |n|t'|t'|t'|t'|id args|i].
  - apply (Hleaf (prim_avro p)); [eapply lookup_prim_inv; exact Hk|exact H].
  - apply (Hleaf AString); [eapply lookup_string_inv; exact Hk|exact H].
  - apply (Hleaf ABytes); [eapply lookup_bytes_inv; exact Hk|exact H].
  - discriminate Hok.
  - (* Option *)
    cbn [type_ok] in Hok. apply andb_prop in Hok. destruct Hok as [Hok' _].
    destruct (lookup_option_inv _ _ _ _ Hk) as (f' & k' & Ef & -> & Hk').
    assert (Hk'' : lookup LKFUEL ds t' = Some k') by (eapply lookup_mono; [exact Hk'|rewrite Ef; lia]).
    apply rbind_ok in H. destruct H as [[k0 b1] [H0 H]].
    apply rbind_ok in H. destruct H as [[k1 b2] [H1 H]]. inversion H; subst b'. clear H.
    destruct (fob_post ds LKFUEL _ IH (TPrim PUnit) _ _ _ eq_refl H0) as (ka & Ka & G0 & A0 & _).
    apply lookup_prim_inv in Ka. subst ka.
    destruct (fob_post ds LKFUEL _ IH t' _ _ _ Hok' H1) as (kb & Kb & G1 & A1 & _).
    rewrite Hk'' in Kb. inversion Kb; subst kb.
    pose proof G0 as (_ & _ & L0 & _). pose proof G1 as (_ & E1 & _).
    pose proof (grows_trans ds LKFUEL _ _ _ _ _ G0 G1 L0 L0) as G. rewrite reserve_len in G.
    apply fill_post; [exact G|]. intros N HN. unfold good. exists k0, k1. split; [exact HN|].
    split; [apply E1; exact A0|exact A1].
  - (* Vec *)
    cbn [type_ok] in Hok.
    destruct (lookup_vec_inv _ _ _ _ Hk) as (f' & k' & Ef & -> & Hk').
    assert (Hk'' : lookup LKFUEL ds t' = Some k') by (eapply lookup_mono; [exact Hk'|rewrite Ef; lia]).
    apply rbind_ok in H. destruct H as [[k0 b1] [H0 H]]. inversion H; subst b'. clear H.
    destruct (fob_post ds LKFUEL _ IH t' _ _ _ Hok H0) as (kb & Kb & G & A & _).
    rewrite Hk'' in Kb. inversion Kb; subst kb. rewrite reserve_len in G.
    apply fill_post; [exact G|]. intros N HN. unfold good. exists k0. split; [exact HN|exact A].
  - (* Map *)
    cbn [type_ok] in Hok.
    destruct (lookup_map_inv _ _ _ _ Hk) as (f' & k' & Ef & -> & Hk').
    assert (Hk'' : lookup LKFUEL ds t' = Some k') by (eapply lookup_mono; [exact Hk'|rewrite Ef; lia]).
    apply rbind_ok in H. destruct H as [[k0 b1] [H0 H]]. inversion H; subst b'. clear H.
    destruct (fob_post ds LKFUEL _ IH t' _ _ _ Hok H0) as (kb & Kb & G & A & _).
    rewrite Hk'' in Kb. inversion Kb; subst kb. rewrite reserve_len in G.
    apply fill_post; [exact G|]. intros N HN. unfold good. exists k0. split; [exact HN|exact A].
  - (* pointer: forwarded *)
    cbn [type_ok] in Hok.
    destruct (lookup_ptr_inv _ _ _ _ Hk) as (f' & Ef & Hk').
    eapply IH; [exact Hok| |exact H]. eapply lookup_mono; [exact Hk'|rewrite Ef; lia].
  - (* named *)
    cbn [type_ok] in Hok. destruct args as [|a0 args]; [|discriminate Hok].
    destruct (nth_error ds id) as [[h fs|h s|h syms|h vs]|] eqn:Hd; [| | | |discriminate Hok].
    + (* record *)
      pose proof (def_ok_nth _ _ _ Hds Hd) as Hdef. cbn [def_ok] in Hdef.
      apply andb_prop in Hdef. destruct Hdef as [Hdef _]. apply andb_prop in Hdef. destruct Hdef as [Hh Hfs].
      pose proof (header_ok_nparams _ Hh) as Hnp.
      rewrite (lookup_struct_inv _ _ _ _ _ _ _ Hd Hnp Hk).
      rewrite Hnp in H. cbn [Nat.eqb rbind] in H.
      apply rbind_ok in H. destruct H as [[fields b1] [H1 H]]. inversion H; subst b'. clear H.
      rewrite forallb_forall in Hfs.
      assert (Hlive : live_fields fs = fs).
      { unfold live_fields. apply filter_all. apply forallb_forall. intros fd Hfd. specialize (Hfs fd Hfd).
        apply andb_prop in Hfs. destruct Hfs as [Hfs _]. apply andb_prop in Hfs. destruct Hfs as [Hfs _]. exact Hfs. }
      rewrite Hlive in H1.
      assert (Hslots : forall fd, In fd fs -> slot_ok ds (f_slot fd) = true).
      { intros fd Hfd. specialize (Hfs fd Hfd).
        apply andb_prop in Hfs. destruct Hfs as [Hfs _]. apply andb_prop in Hfs. destruct Hfs as [_ Hfs]. exact Hfs. }
      destruct (fields_post ds LKFUEL _ IH _ _ _ _ _ _ Hslots H1) as [G F]. rewrite reserve_len in G.
      apply fill_post; [exact G|]. intros N HN. unfold good. rewrite Hd. exists fields. split; [exact HN|exact F].
    + (* newtype struct: forwarded to its field *)
      pose proof (def_ok_nth _ _ _ Hds Hd) as Hdef. cbn [def_ok] in Hdef.
      apply andb_prop in Hdef. destruct Hdef as [Hdef _]. apply andb_prop in Hdef. destruct Hdef as [_ Hs].
      pose proof (slot_ok_direct _ _ Hs) as Hdir. rewrite Hdir in H.
      destruct (slot_ok_inv _ _ Hs) as [_ Ht]. apply type_ok_peel' in Ht.
      destruct (lookup_newtype_inv _ _ _ _ _ _ _ Hd Hdir Hk) as (f' & Ef & Hk').
      rewrite (subst_nil _ _ Ht) in H, Hk'.
      eapply IH; [exact Ht| |exact H]. eapply lookup_mono; [exact Hk'|rewrite Ef; lia].
    + (* unit enum *)
      pose proof (def_ok_nth _ _ _ Hds Hd) as Hdef. cbn [def_ok] in Hdef.
      apply andb_prop in Hdef. destruct Hdef as [Hdef _]. apply andb_prop in Hdef. destruct Hdef as [_ Hsy].
      rewrite (lookup_uenum_inv _ _ _ _ _ _ _ Hd Hk).
      assert (Hlive : filter (fun s : bytes * bool => negb (snd s)) syms = syms).
      { apply filter_all. apply forallb_forall. intros sy Hin. rewrite forallb_forall in Hsy. specialize (Hsy sy Hin).
        repeat (apply andb_prop in Hsy; destruct Hsy as [Hsy _]). exact Hsy. }
      rewrite Hlive in H. inversion H; subst b'.
      destruct (push_grows ds LKFUEL (mkNode (REnum (name_of_fqn (type_name h)) (map fst syms)) None) b) as [G Hn].
      split; [exact G|]. unfold good. rewrite Hd. exact Hn.
    + (* union enum *)
      pose proof (def_ok_nth _ _ _ Hds Hd) as Hdef. cbn [def_ok] in Hdef.
      apply andb_prop in Hdef. destruct Hdef as [Hdef _]. apply andb_prop in Hdef. destruct Hdef as [_ Hvs].
      rewrite (lookup_union_inv _ _ _ _ _ _ _ Hd Hk).
      apply rbind_ok in H. destruct H as [[ks b1] [H1 H]]. inversion H; subst b'. clear H.
      rewrite forallb_forall in Hvs.
      assert (Hslots : forall ident s, In (VNewtype ident s) vs -> slot_ok ds s = true).
      { intros ident s Hin. specialize (Hvs _ Hin). cbn beta iota in Hvs.
        apply andb_prop in Hvs. destruct Hvs as [Hvs _]. apply andb_prop in Hvs. destruct Hvs as [Hvs _]. exact Hvs. }
      destruct (variants_post ds LKFUEL _ IH _ _ _ _ _ Hslots H1) as [G F]. rewrite reserve_len in G.
      apply fill_post; [exact G|]. intros N HN. unfold good. rewrite Hd. exists ks. split; [exact HN|exact F].
  - discriminate Hok.
Qed.

End Append.
