(** C04 -- safety of the datum deserializer on untrusted bytes.

    For ARBITRARY input bytes, targets, reader modes (slice / chunked), fuel and limit configurations:
    - [de_no_panic], [de_no_panic_keys], [de_datum_no_panic]
                             no Panic site is reachable when every key stored in the schema is in range
                             (no side condition on targets; [de_panic_needs_keys_ok] shows the schema
                             condition is needed)
    - [de_fuel_mono]         OutOfFuel is the only fuel-dependent outcome (result AND reader state)
    - [de_consumes_prefix], [de_consumes_prefix_slice]
                             the reader only moves forward inside its input, position = bytes dropped
    - [de_depth_zero], [de_depth_zero_err], [de_depth_limit]      the depth budget is enforced
    - [seq_array_loop_limit], [map_loop_limit], [struct_loop_limit], [de_seq_limit], [has_more_over_limit]
                             c_max_seq is enforced (for c_max_seq < usize::MAX, see [has_more_saturates])
    - [de_alloc_limit_chunked], [read_slice_chunked_ok], [read_slice_slice_borrows]
                             rd_max_alloc is enforced, slice mode borrows
    - [de_total_any], [de_any_ok_or_err], [de_datum_any_ok_or_err]
                             an explicit fuel bound [work_bound] for TAny / TIgnored targets, and with it
                             "the result is Ok or Err" *)
From Coq Require Import NArith ZArith List Lia Bool.
From Coq Require Import ZifyN ZifyBool ZifyNat.
Require Import Base Kinds Schema Varint Utf8 Sval Target Reader Text De.
Require Import AvroValue Encoding Denote Wf VarintProofs DeProofs ReaderProofs.
Import ListNotations.
Open Scope N_scope.
Notation length := List.length (only parsing).

Ltac Zify.zify_post_hook ::= Z.to_euclidean_division_equations.

Arguments N.add : simpl never.
Arguments N.sub : simpl never.
Arguments N.mul : simpl never.
Arguments N.div : simpl never.
Arguments N.modulo : simpl never.
Arguments N.pow : simpl never.
Arguments N.shiftl : simpl never.
Arguments N.shiftr : simpl never.
Arguments N.land : simpl never.
Arguments N.lor : simpl never.
Arguments N.ltb : simpl never.
Arguments N.leb : simpl never.
Arguments N.eqb : simpl never.
Arguments N.of_nat : simpl never.
Arguments N.to_nat : simpl never.
Arguments N.min : simpl never.
Arguments Z.of_nat : simpl never.
Arguments Z.of_N : simpl never.
Arguments Z.to_N : simpl never.
Arguments Z.to_nat : simpl never.
Arguments Z.add : simpl never.
Arguments Z.sub : simpl never.
Arguments Z.mul : simpl never.
Arguments Z.pow : simpl never.
Arguments Z.ltb : simpl never.
Arguments Z.leb : simpl never.
Arguments Z.eqb : simpl never.
Arguments Z.opp : simpl never.
Arguments Z.abs : simpl never.
Arguments Z.modulo : simpl never.

(* ------------------------------------------------------------------ *)
(** * 1. "The reader only moves forward inside its input" *)

(** [adv rs rs']: rs' is rs after consuming a prefix [pre] of the remaining input: the remaining
    input of rs' is a suffix of that of rs, the position advanced by exactly [length pre], the
    allocation cap and the reader mode are unchanged.  Works for slice and chunked readers. *)
Definition adv (rs rs' : rstate) : Prop :=
  exists pre, rd_inp rs = pre ++ rd_inp rs' /\
              rd_pos rs' = rd_pos rs + blen pre /\
              rd_max_alloc rs' = rd_max_alloc rs /\
              (rd_chunks rs = None <-> rd_chunks rs' = None).

Lemma adv_refl rs : adv rs rs.
Proof. exists []. cbn. unfold blen. cbn. repeat split; auto; lia. Qed.

Lemma adv_trans a b c : adv a b -> adv b c -> adv a c.
Proof.
  intros (p & H1 & H2 & H3 & H4) (q & G1 & G2 & G3 & G4).
  exists (p ++ q). rewrite H1, G1, app_assoc. repeat split.
  - rewrite G2, H2. unfold blen. rewrite app_length. lia.
  - congruence.
  - intro. apply G4, H4; auto.
  - intro. apply H4, G4; auto.
Qed.

Lemma adv_consume k rs : k <= blen (rd_inp rs) -> adv rs (consume k rs).
Proof.
  intro H. exists (firstn (N.to_nat k) (rd_inp rs)). unfold consume; cbn [rd_inp rd_pos rd_max_alloc rd_chunks].
  rewrite firstn_skipn. repeat split; auto.
  - unfold blen in *. rewrite firstn_length. lia.
  - intro E; rewrite E; reflexivity.
  - destruct (rd_chunks rs); [discriminate|reflexivity].
Qed.

Lemma adv_len rs rs' : adv rs rs' -> blen (rd_inp rs') <= blen (rd_inp rs).
Proof. intros (p & H & _). rewrite H. unfold blen. rewrite app_length. lia. Qed.

(** In slice mode [adv] determines the final state completely: it is [consume k]. *)
Lemma adv_slice rs rs' : rd_chunks rs = None -> adv rs rs' ->
  exists k, k <= blen (rd_inp rs) /\ rs' = consume k rs.
Proof.
  intros Hc (p & H1 & H2 & H3 & H4). exists (blen p). split.
  - rewrite H1. unfold blen. rewrite app_length. lia.
  - destruct rs' as [i' p' c' m']. cbn [rd_inp rd_pos rd_max_alloc rd_chunks] in *.
    unfold consume. rewrite Hc, H1. unfold blen. rewrite Nat2N.id, skipn_app_len.
    f_equal; auto. apply H4, Hc.
Qed.

(* ------------------------------------------------------------------ *)
(** * 2. A Hoare-style predicate: no Panic, only forward moves, postcondition on Ok *)

Definition safe {A} (Q : A -> Prop) (m : RM A) : Prop :=
  forall rs, adv rs (snd (m rs)) /\
             match fst (m rs) with Ok a => Q a | Panic _ => False | _ => True end.

Definition benign {A} (x : result A) : Prop :=
  match x with Ok _ | Panic _ => False | _ => True end.

Lemma safe_bind {A B} (R : A -> Prop) (Q : B -> Prop) (m : RM A) (k : A -> RM B) :
  safe R m -> (forall a, R a -> safe Q (k a)) -> safe Q (sbind m k).
Proof.
  intros Hm Hk rs. unfold sbind. specialize (Hm rs). destruct (m rs) as [x s'].
  cbn [fst snd] in Hm. destruct Hm as [Ha Hx].
  destruct x; cbn [fst snd]; try contradiction; auto.
  specialize (Hk a Hx s'). destruct Hk as [Ha' Hq]. split; auto. eapply adv_trans; eauto.
Qed.

Lemma safe_ret {A} (Q : A -> Prop) a : Q a -> safe Q (sret a).
Proof. intros H rs. unfold sret; cbn. split; auto. apply adv_refl. Qed.

Lemma safe_fail {A} (Q : A -> Prop) (x : result A) : benign x -> safe Q (rfail x).
Proof. intros H rs. unfold rfail; cbn [fst snd]. split; [apply adv_refl|]. destruct x; cbn in H; try contradiction; auto. Qed.

Lemma safe_weaken {A} (R Q : A -> Prop) m : (forall a, R a -> Q a) -> safe R m -> safe Q m.
Proof.
  intros HRQ Hm rs. specialize (Hm rs). destruct Hm as [Ha Hx]. split; auto.
  destruct (fst (m rs)); auto.
Qed.

Definition tt1 {A} : A -> Prop := fun _ => True.

Lemma safe_tt {A} (R : A -> Prop) m : safe R m -> safe tt1 m.
Proof. apply safe_weaken. intros; exact I. Qed.

(* ------------------------------------------------------------------ *)
(** * 3. The primitive readers *)

Lemma gather_len_le src : blen (gather src) <= blen src.
Proof.
  destruct (gather_prefix src) as [tl H]. unfold blen. rewrite H at 2. rewrite app_length. lia.
Qed.

Lemma decode_var_consumed t src v k : decode_var t src = Some (v, k) -> k <= blen src.
Proof.
  unfold decode_var, decode_i64, blen. intro H.
  destruct (decode_u64 src) as [[n k']|] eqn:E; [|destruct t; discriminate].
  apply decode_u64_consumed in E. destruct E as [_ E].
  destruct t; try (inversion H; subst; lia).
  - destruct (Zin I32_MIN I32_MAX (unzigzag n)); inversion H; subst; lia.
  - destruct (n <? 2 ^ 32); inversion H; subst; lia.
Qed.

Lemma safe_read_varint t : safe tt1 (read_varint t).
Proof.
  intro rs. unfold read_varint. destruct (rd_chunks rs) eqn:Ec.
  - destruct (decode_var t (buffer rs)) as [[v k]|] eqn:Eb.
    + cbn [fst snd]. split; [|exact I]. apply adv_consume.
      apply decode_var_consumed in Eb. pose proof (buffer_len_le rs). lia.
    + pose proof (gather_len_le (rd_inp rs)).
      destruct (decode_var t (gather (rd_inp rs))) as [[v k]|]; cbn [fst snd];
        (split; [apply adv_consume; auto|exact I]).
  - destruct (decode_var t (rd_inp rs)) as [[v k]|] eqn:E; cbn [fst snd].
    + split; [|exact I]. apply adv_consume. eapply decode_var_consumed; eauto.
    + split; [apply adv_refl|exact I].
Qed.

Lemma safe_read_exact n : safe tt1 (read_exact n).
Proof.
  intro rs. unfold read_exact. destruct (N.ltb_spec (blen (rd_inp rs)) n); cbn [fst snd];
    (split; [apply adv_consume; lia|exact I]).
Qed.

Lemma safe_read_slice n : safe tt1 (read_slice n).
Proof.
  intro rs. unfold read_slice. pose proof (buffer_len_le rs) as Hb. destruct (rd_chunks rs).
  - destruct (N.leb_spec n (blen (buffer rs))); cbn [fst snd].
    + split; [apply adv_consume; lia|exact I].
    + destruct (rd_max_alloc rs <? n); cbn [fst snd]; [split; [apply adv_refl|exact I]|].
      destruct (N.ltb_spec (blen (rd_inp rs)) n); cbn [fst snd];
        (split; [apply adv_consume; lia|exact I]).
  - destruct (N.ltb_spec (blen (rd_inp rs)) n); cbn [fst snd].
    + split; [apply adv_refl|exact I].
    + split; [apply adv_consume; lia|exact I].
Qed.

Lemma safe_skip_bytes n : safe tt1 (skip_bytes n).
Proof.
  intro rs. unfold skip_bytes. destruct (N.ltb_spec (blen (rd_inp rs)) n); cbn [fst snd].
  - split; [|exact I]. destruct (rd_chunks rs); [apply adv_consume; lia|apply adv_refl].
  - split; [apply adv_consume; lia|exact I].
Qed.

Lemma firstn_min_len (l : bytes) lim : blen (firstn (N.to_nat (N.min lim (blen l))) l) <= blen l.
Proof. unfold blen. rewrite firstn_length. lia. Qed.

Lemma safe_take_varint l : safe tt1 (take_varint l).
Proof.
  intro rs. unfold take_varint.
  pose proof (firstn_min_len (rd_inp rs) l) as H1.
  pose proof (gather_len_le (firstn (N.to_nat (N.min l (blen (rd_inp rs)))) (rd_inp rs))) as H2.
  destruct (decode_i64 _) as [[v k]|]; cbn [fst snd]; (split; [apply adv_consume; lia|exact I]).
Qed.

Lemma safe_take_exact l n : safe tt1 (take_exact l n).
Proof.
  intro rs. unfold take_exact.
  pose proof (firstn_min_len (rd_inp rs) l) as H1.
  destruct (N.ltb_spec (blen (firstn (N.to_nat (N.min l (blen (rd_inp rs)))) (rd_inp rs))) n); cbn [fst snd];
    (split; [apply adv_consume; lia|exact I]).
Qed.

Create HintDb safedb.
#[local] Hint Resolve safe_read_varint safe_read_exact safe_read_slice safe_skip_bytes
  safe_take_varint safe_take_exact : safedb.

(** walking through monadic code *)
Ltac safe_prim := solve [ eauto with safedb ].
Ltac safe_fin := solve [ exact I | unfold tt1; auto with safedb ].

Ltac safe_step :=
  lazymatch goal with
  | |- safe _ (let _ := _ in _) => cbv zeta
  | |- safe _ (sret _) => apply safe_ret; safe_fin
  | |- safe _ (rfail _) => apply safe_fail; exact I
  | |- safe _ (sbind _ _) =>
      eapply safe_bind; [ safe_prim | let a := fresh "a" in let Ha := fresh "Ha" in intros a Ha ]
  | |- safe _ (if ?c then _ else _) => destruct c
  | |- safe _ (match nth_N ?l ?i with _ => _ end) =>
      let E := fresh "Enth" in destruct (nth_N l i) eqn:E
  | |- safe _ (match ?x with _ => _ end) => destruct x
  | |- safe _ _ => safe_prim
  end.
Ltac safe_walk := repeat safe_step.

Lemma safe_dec_depth d : safe tt1 (dec_depth d).
Proof. unfold dec_depth. safe_walk. Qed.
#[local] Hint Resolve safe_dec_depth : safedb.

Lemma safe_read_usize : safe tt1 read_usize.
Proof. unfold read_usize. safe_walk. Qed.
#[local] Hint Resolve safe_read_usize : safedb.

Lemma safe_read_bool : safe tt1 read_bool.
Proof.
  unfold read_bool. eapply safe_bind; [apply safe_read_slice|]. intros [bs o] _. cbn [fst].
  destruct bs as [|b [|c r]]; try (apply safe_fail; exact I);
  destruct b as [|[p|p|]]; try (apply safe_fail; exact I); apply safe_ret; exact I.
Qed.
#[local] Hint Resolve safe_read_bool : safedb.

Lemma safe_str_event r : safe tt1 (str_event r).
Proof. unfold str_event. safe_walk. Qed.
#[local] Hint Resolve safe_str_event : safedb.

Lemma safe_read_ld_bytes : safe tt1 read_ld_bytes.
Proof. unfold read_ld_bytes. safe_walk. Qed.
Lemma safe_read_ld_str : safe tt1 read_ld_str.
Proof. unfold read_ld_str. safe_walk. Qed.
#[local] Hint Resolve safe_read_ld_bytes safe_read_ld_str : safedb.

Lemma safe_finish_decimal u sc h : safe tt1 (finish_decimal u sc h).
Proof. unfold finish_decimal. cbv zeta. safe_walk. Qed.
#[local] Hint Resolve safe_finish_decimal : safedb.

Definition is_decimal (n : fnode) : Prop :=
  match n with FDecimal _ _ _ | FBigDecimal => True | _ => False end.

Lemma safe_read_decimal n h : is_decimal n -> safe tt1 (read_decimal n h).
Proof. destruct n; cbn [is_decimal]; intro H; try contradiction; unfold read_decimal; safe_walk. Qed.

Lemma safe_read_block_len fuel : forall ignored, safe tt1 (read_block_len fuel ignored).
Proof. induction fuel as [|f IH]; intro ignored; cbn [read_block_len]; safe_walk. Qed.
#[local] Hint Resolve safe_read_block_len : safedb.

Lemma safe_has_more fuel cfg ignored b : safe tt1 (has_more fuel cfg ignored b).
Proof. unfold has_more. safe_walk. Qed.
#[local] Hint Resolve safe_has_more : safedb.

(* ------------------------------------------------------------------ *)
(** * 4. Vocabulary: keys in range, container nesting of the delivered events *)

(** every key stored in a node is a valid index: what [freeze] (key_to_ref) guarantees, and the first
    conjunct of [node_wf] *)
Definition keys_okb (Sc : fschema) (n : fnode) : bool :=
  forallb (fun k => Nat.ltb k (length Sc)) (keys_of n).
Definition schema_keys_okb (Sc : fschema) : bool := forallb (keys_okb Sc) Sc.

Lemma node_wf_keys_ok Sc n : node_wf Sc n = true -> keys_okb Sc n = true.
Proof. unfold node_wf, keys_okb. intro H. apply andb_prop in H. apply H. Qed.

Lemma schema_wf_keys_ok Sc : schema_wf Sc = true -> schema_keys_okb Sc = true.
Proof.
  unfold schema_wf, schema_keys_okb. intro H. apply andb_prop in H. destruct H as [_ H].
  rewrite forallb_forall in *. intros x Hx. apply node_wf_keys_ok, H, Hx.
Qed.

(** nesting of the container callbacks (visit_seq / visit_map) in an event tree *)
Fixpoint cdepth (d : dval) : nat :=
  match d with
  | DSeq ds => S (fold_right (fun x acc => Nat.max (cdepth x) acc) O ds)
  | DMap kvs => S (fold_right (fun kv acc => Nat.max (Nat.max (cdepth (fst kv)) (cdepth (snd kv))) acc) O kvs)
  | DStruct fs => S (fold_right (fun kv acc => Nat.max (cdepth (snd kv)) acc) O fs)
  | DSome d | DNewtype d | DEnum _ d => cdepth d
  | _ => O
  end.

Definition lf (d : dval) : Prop := cdepth d = O.

Lemma cdepth_seq D ds : Forall (fun d => (cdepth d <= D)%nat) ds -> (cdepth (DSeq ds) <= S D)%nat.
Proof.
  intro H. cbn [cdepth]. apply le_n_S. induction H; cbn [fold_right]; [lia|]. lia.
Qed.
Lemma cdepth_map D kvs :
  Forall (fun kv => (cdepth (fst kv) <= D)%nat /\ (cdepth (snd kv) <= D)%nat) kvs -> (cdepth (DMap kvs) <= S D)%nat.
Proof.
  intro H. cbn [cdepth]. apply le_n_S. induction H; cbn [fold_right]; [lia|]. lia.
Qed.
Lemma cdepth_struct D fs :
  Forall (fun kv : bytes * dval => (cdepth (snd kv) <= D)%nat) fs -> (cdepth (DStruct fs) <= S D)%nat.
Proof.
  intro H. cbn [cdepth]. apply le_n_S. induction H; cbn [fold_right]; [lia|]. lia.
Qed.

Lemma Forall_combine_snd {A B} (P : B -> Prop) (l1 : list A) : forall (l2 : list B),
  Forall P l2 -> Forall (fun kv => P (snd kv)) (combine l1 l2).
Proof.
  induction l1 as [|a l1 IH]; intros l2 H; cbn [combine]; [constructor|].
  destruct l2 as [|b l2]; [constructor|]. inversion H; subst. constructor; auto.
Qed.

Lemma cdepth_shape_seq D sh ds : Forall (fun d => (cdepth d <= D)%nat) ds -> (cdepth (shape_seq sh ds) <= S D)%nat.
Proof.
  intro H. destruct sh; cbn [shape_seq].
  - apply cdepth_seq, H.
  - apply cdepth_struct. apply Forall_combine_snd with (P := fun d => (cdepth d <= D)%nat), H.
  - cbn. lia.
Qed.

Lemma lf_leaf t e : lf e -> lf (leaf t e).
Proof. unfold lf, leaf, prim_event. destruct t; auto. Qed.
Lemma lf_prim t e : lf e -> lf (prim_event t e).
Proof. apply lf_leaf. Qed.
Lemma lf_bytes_event r : lf (bytes_event r).
Proof. unfold bytes_event. destruct (snd r); reflexivity. Qed.
Lemma lf_le D d : lf d -> (cdepth d <= D)%nat.
Proof. unfold lf. lia. Qed.

#[local] Hint Resolve lf_leaf lf_prim lf_bytes_event lf_le : safedb.
#[local] Hint Extern 1 (lf _) => reflexivity : safedb.
#[local] Hint Extern 1 (is_decimal _) => exact I : safedb.

Lemma safe_weaken' {A} (R Q : A -> Prop) m : safe R m -> (forall a, R a -> Q a) -> safe Q m.
Proof. intros; eapply safe_weaken; eauto. Qed.

(** leaf readers deliver leaf events *)
Lemma safe_read_bool_lf : safe lf read_bool.
Proof.
  unfold read_bool. eapply safe_bind; [apply safe_read_slice|]. intros [bs o] _. cbn [fst].
  destruct bs as [|b [|c r]]; try (apply safe_fail; exact I);
  destruct b as [|[p|p|]]; try (apply safe_fail; exact I); apply safe_ret; reflexivity.
Qed.
Lemma safe_str_event_lf r : safe lf (str_event r).
Proof.
  unfold str_event. destruct (utf8_valid (fst r)); [|apply safe_fail; exact I].
  apply safe_ret. destruct (snd r); reflexivity.
Qed.
#[local] Hint Resolve safe_read_bool_lf safe_str_event_lf : safedb.
Lemma safe_read_ld_bytes_lf : safe lf read_ld_bytes.
Proof. unfold read_ld_bytes. safe_walk. Qed.
Lemma safe_read_ld_str_lf : safe lf read_ld_str.
Proof. unfold read_ld_str. safe_walk. Qed.
Lemma safe_finish_decimal_lf u sc h : safe lf (finish_decimal u sc h).
Proof. unfold finish_decimal. cbv zeta. safe_walk. Qed.
#[local] Hint Resolve safe_read_ld_bytes_lf safe_read_ld_str_lf safe_finish_decimal_lf : safedb.
Lemma safe_read_decimal_lf n h : is_decimal n -> safe lf (read_decimal n h).
Proof. destruct n; cbn [is_decimal]; intro H; try contradiction; unfold read_decimal; safe_walk. Qed.
#[local] Hint Resolve safe_read_decimal_lf : safedb.

Lemma safe_dec_depth_eq d : safe (fun d' => d = S d') (dec_depth d).
Proof. unfold dec_depth. destruct d; [apply safe_fail; exact I|apply safe_ret; reflexivity]. Qed.

#[local] Remove Hints safe_dec_depth safe_read_bool safe_str_event safe_read_ld_bytes safe_read_ld_str
  safe_finish_decimal : safedb.
#[local] Hint Resolve safe_dec_depth_eq : safedb.

(* ------------------------------------------------------------------ *)
(** * 5. The induction step of the safety invariant *)

#[local] Opaque de seq_array seq_array_loop seq_duration map_visit map_next_key map_next_value map_loop struct_loop enum_payload.
#[local] Opaque read_varint read_exact read_slice skip_bytes take_varint take_exact read_usize read_bool read_ld_bytes read_ld_str
  read_decimal finish_decimal has_more read_block_len dec_depth str_event.

Definition src_depth (src : mapsrc) : nat :=
  match src with MSMap _ d _ _ | MSRecord _ d => S d | MSDuration _ _ => O end.
Definition src_ready (src : mapsrc) : Prop :=
  match src with MSRecord [] _ | MSDuration [] _ => False | _ => True end.

Definition Qd (depth : nat) (d : dval) : Prop := (cdepth d <= S depth)%nat.
Definition dle (D : nat) (d : dval) : Prop := (cdepth d <= D)%nat.
Definition kvle (D : nat) (kv : dval * dval) : Prop := (cdepth (fst kv) <= D)%nat /\ (cdepth (snd kv) <= D)%nat.
Definition fle (D : nat) (kv : bytes * dval) : Prop := (cdepth (snd kv) <= D)%nat.

Lemma lf_dle D d : lf d -> dle D d.
Proof. unfold lf, dle. lia. Qed.
#[local] Hint Resolve lf_dle : safedb.

Ltac safe_arith :=
  solve [ unfold Qd, dle, kvle, fle, lf in *; cbn [cdepth src_depth fst snd] in *; subst; auto; lia ].

Ltac safe_prim ::=
  solve [ eauto with safedb
        | eapply safe_weaken'; [ solve [eauto with safedb] | cbv beta; intros; safe_arith ] ].
Ltac safe_fin ::= solve [ exact I | unfold tt1; auto with safedb | safe_arith ].

Section Step.
Variable Sc : fschema.
Variable cfg : dcfg.
Hypothesis HSc : schema_keys_okb Sc = true.

Definition kok (k : nat) : Prop := (k < length Sc)%nat.
Definition nok (n : fnode) : Prop := keys_okb Sc n = true.
Definition src_kok (src : mapsrc) : Prop :=
  match src with
  | MSMap v _ _ _ => kok v
  | MSRecord fs _ => Forall kok (map snd fs)
  | MSDuration _ _ => True
  end.

Lemma nok_keys n : nok n -> Forall kok (keys_of n).
Proof.
  unfold nok, keys_okb. rewrite forallb_forall, Forall_forall. intros H k Hk.
  specialize (H k Hk). unfold kok. apply PeanoNat.Nat.ltb_lt, H.
Qed.
Lemma nok_array k : nok (FArray k) -> kok k.
Proof. intro H. apply nok_keys in H. cbn in H. inversion H; auto. Qed.
Lemma nok_map k : nok (FMap k) -> kok k.
Proof. intro H. apply nok_keys in H. cbn in H. inversion H; auto. Qed.
Lemma nok_map_src k d i b : nok (FMap k) -> src_kok (MSMap k d i b).
Proof. apply nok_map. Qed.
Lemma nok_record_src nm fs d : nok (FRecord nm fs) -> src_kok (MSRecord fs d).
Proof. intro H. apply nok_keys in H. exact H. Qed.
Lemma nth_N_In {A} (l : list A) i x : nth_N l i = Some x -> In x l.
Proof. unfold nth_N. destruct (i <? N.of_nat (length l)); [|discriminate]. apply nth_error_In. Qed.
Lemma nok_union vs i k : nok (FUnion vs) -> nth_N vs i = Some k -> kok k.
Proof.
  intros H E. apply nok_keys in H. cbn [keys_of] in H. rewrite Forall_forall in H.
  apply H. eapply nth_N_In; eauto.
Qed.
Lemma src_kok_duration vals idx : src_kok (MSDuration vals idx).
Proof. exact I. Qed.

Lemma safe_node_at k : kok k -> safe nok (node_at Sc k).
Proof.
  intro H. unfold node_at, fnode_at. destruct (nth_error Sc k) eqn:E.
  - apply safe_ret. apply nth_error_In in E. unfold schema_keys_okb in HSc.
    rewrite forallb_forall in HSc. apply HSc, E.
  - apply nth_error_None in E. unfold kok in H. lia.
Qed.

Hint Resolve nok_array nok_map nok_map_src nok_record_src nok_union src_kok_duration safe_node_at : safedb.
#[local] Opaque node_at.

Lemma safe_enum_by_key D variants key : safe (dle D) (de_enum_by_key variants key).
Proof.
  unfold de_enum_by_key. destruct (enum_idx variants key); [|apply safe_fail; exact I].
  destruct (nth_error variants n) as [[vname p]|]; [|apply safe_fail; exact I].
  destruct p; try (apply safe_fail; exact I). apply safe_ret. unfold dle. cbn. lia.
Qed.
Lemma safe_ep_seq D nm d : dle D d -> safe (dle D) (ep_seq nm d).
Proof. intro H. unfold ep_seq. destruct d; try (apply safe_fail; exact I). apply safe_ret. exact H. Qed.
Lemma safe_ep_struct D nm d : dle D d -> safe (dle D) (ep_struct nm d).
Proof. intro H. unfold ep_struct. destruct d; try (apply safe_fail; exact I). apply safe_ret. exact H. Qed.
Hint Resolve safe_enum_by_key safe_ep_seq safe_ep_struct : safedb.

Variable f : nat.

Hypothesis IHde : forall n depth favor force t, nok n ->
  safe (dle (S depth)) (de Sc cfg f n depth favor force t).
Hypothesis IHsa : forall items depth ignored t b ee, kok items ->
  safe (dle (S (S depth))) (seq_array Sc cfg f items depth ignored t b ee).
Hypothesis IHsl : forall items depth ignored pol b acc, kok items -> Forall (dle (S depth)) acc ->
  safe (fun r => Forall (dle (S depth)) (fst r)) (seq_array_loop Sc cfg f items depth ignored pol b acc).
Hypothesis IHsd : forall vals t, safe (dle 1) (seq_duration Sc cfg f vals t).
Hypothesis IHmv : forall src t, src_kok src ->
  safe (dle (S (src_depth src))) (map_visit Sc cfg f src t).
Hypothesis IHnk : forall src tk, src_kok src ->
  safe (fun o => match o with
                 | None => True
                 | Some (k, src1) => lf k /\ src_kok src1 /\ src_ready src1 /\ src_depth src1 = src_depth src
                 end) (map_next_key Sc cfg f src tk).
Hypothesis IHnv : forall src tv, src_kok src -> src_ready src ->
  safe (fun r => dle (src_depth src) (fst r) /\ src_kok (snd r) /\ src_depth (snd r) = src_depth src)
       (map_next_value Sc cfg f src tv).
Hypothesis IHml : forall src tk tv acc D, src_kok src -> src_depth src = D -> Forall (kvle D) acc ->
  safe (Forall (kvle D)) (map_loop Sc cfg f src tk tv acc).
Hypothesis IHst : forall src fs seen acc D, src_kok src -> src_depth src = D -> Forall (fle D) acc ->
  safe (Forall (fle D)) (struct_loop Sc cfg f src fs seen acc).
Hypothesis IHep : forall variants vname vn depth, nok vn ->
  safe (dle (S depth)) (enum_payload Sc cfg f variants vname vn depth).

Lemma step_any n depth t : nok n -> safe (dle (S depth)) (de_any Sc cfg f n depth t).
Proof. intro Hn. unfold de_any. destruct n; safe_walk. Qed.

Lemma step_duration_seq depth t : safe (dle (S depth)) (de_duration_seq Sc cfg f t).
Proof. unfold de_duration_seq. safe_walk. Qed.

Hint Resolve step_any step_duration_seq : safedb.
#[local] Opaque de_any de_duration_seq.

Lemma step_decimal_hint n depth t h : nok n -> safe (dle (S depth)) (de_decimal_hint Sc cfg f n depth t h).
Proof. intro Hn. unfold de_decimal_hint. destruct n; safe_walk. Qed.

Lemma step_identifier n depth t : nok n -> safe (dle (S depth)) (de_identifier Sc cfg f n depth t).
Proof. intro Hn. unfold de_identifier. destruct n; safe_walk. Qed.

Hint Resolve step_decimal_hint step_identifier : safedb.
#[local] Opaque de_decimal_hint de_identifier.

Lemma step_de n depth favor force t : nok n ->
  safe (dle (S depth)) (de Sc cfg (S f) n depth favor force t).
Proof.
  intro Hn. rewrite de_unfold. destruct force; [apply step_any; exact Hn|].
  destruct t; try (destruct h); safe_walk.
Qed.

Lemma index_of_lt x : forall l i, index_of x l = Some i -> (i < length l)%nat.
Proof.
  induction l as [|y l IH]; intros i H; cbn [index_of] in H; [discriminate|].
  destruct (bytes_eqb x y); [inversion H; cbn; lia|].
  destruct (index_of x l) as [j|]; [|discriminate]. inversion H; subst. specialize (IH j eq_refl). cbn. lia.
Qed.

Lemma Forall_rev' {A} (P : A -> Prop) l : Forall P l -> Forall P (rev l).
Proof. rewrite !Forall_forall. intros H x Hx. apply H, in_rev, Hx. Qed.

Lemma step_sa items depth ignored t b ee : kok items ->
  safe (dle (S (S depth))) (seq_array Sc cfg (S f) items depth ignored t b ee).
Proof.
  intro Hk. rewrite seq_array_unfold. destruct (seq_policy t) as [pol sh].
  eapply safe_bind; [apply IHsl; [exact Hk|constructor]|].
  intros [ds b'] Hds. cbn [fst] in Hds.
  assert (Hsh : dle (S (S depth)) (shape_seq sh ds)) by (apply cdepth_shape_seq, Hds).
  safe_walk.
Qed.

Lemma step_sl items depth ignored pol b acc : kok items -> Forall (dle (S depth)) acc ->
  safe (fun r => Forall (dle (S depth)) (fst r)) (seq_array_loop Sc cfg (S f) items depth ignored pol b acc).
Proof.
  intros Hk Hacc. rewrite seq_array_loop_unfold.
  destruct pol as [t1|[|t1 ts]].
  - eapply safe_bind; [apply safe_has_more|]. intros hm _. destruct (fst hm).
    + eapply safe_bind; [apply safe_node_at, Hk|]. intros n' Hn'.
      eapply safe_bind; [apply IHde, Hn'|]. intros d Hd. apply IHsl; auto.
    + apply safe_ret. cbn [fst]. apply Forall_rev', Hacc.
  - apply safe_ret. cbn [fst]. apply Forall_rev', Hacc.
  - eapply safe_bind; [apply safe_has_more|]. intros hm _. destruct (fst hm).
    + eapply safe_bind; [apply safe_node_at, Hk|]. intros n' Hn'.
      eapply safe_bind; [apply IHde, Hn'|]. intros d Hd. apply IHsl; auto.
    + apply safe_fail; exact I.
Qed.

Lemma step_sd vals t : safe (dle 1) (seq_duration Sc cfg (S f) vals t).
Proof.
  rewrite seq_duration_unfold. destruct (seq_policy t) as [pol sh]. destruct pol as [t1|ts].
  - apply safe_ret. apply cdepth_shape_seq. rewrite Forall_forall. intros x Hx.
    apply in_map_iff in Hx. destruct Hx as (v & <- & _). apply lf_le, lf_prim. reflexivity.
  - destruct (Nat.ltb _ _); [apply safe_fail; exact I|].
    apply safe_ret. apply cdepth_shape_seq. rewrite Forall_forall. intros x Hx.
    apply in_map_iff in Hx. destruct Hx as (v & <- & _). apply lf_le, lf_prim. reflexivity.
Qed.

Lemma step_mv src t : src_kok src ->
  safe (dle (S (src_depth src))) (map_visit Sc cfg (S f) src t).
Proof.
  intro Hs. rewrite map_visit_unfold. destruct (map_policy t).
  - eapply safe_bind; [apply (IHml src tk tv [] (src_depth src)); auto|].
    intros kvs Hkvs. apply safe_ret. destruct ignored_result; [unfold dle; cbn; lia|].
    apply cdepth_map, Hkvs.
  - eapply safe_bind; [apply (IHst src fs _ [] (src_depth src)); auto|].
    intros r Hr. apply safe_ret. apply cdepth_struct, Hr.
Qed.

Lemma step_nk src tk : src_kok src ->
  safe (fun o => match o with
                 | None => True
                 | Some (k, src1) => lf k /\ src_kok src1 /\ src_ready src1 /\ src_depth src1 = src_depth src
                 end) (map_next_key Sc cfg (S f) src tk).
Proof.
  intro Hs. rewrite map_next_key_unfold. destruct src as [values depth ignored b|fields depth|vals idx].
  - eapply safe_bind; [apply safe_has_more|]. intros hm _. destruct (fst hm); [|apply safe_ret; exact I].
    assert (Hk : safe lf (match tk with
                          | TIgnored => do* _ <- read_ld_bytes; sret DIgnored
                          | _ => read_ld_str
                          end)) by (destruct tk; safe_walk).
    eapply safe_bind; [exact Hk|]. intros k Hlf. apply safe_ret. repeat split; auto.
  - destruct fields as [|[nm k] rest]; [apply safe_ret; exact I|].
    destruct tk; try (apply safe_fail; exact I); apply safe_ret; repeat split; auto;
      apply lf_prim; reflexivity.
  - destruct vals as [|v rest]; [apply safe_ret; exact I|]. cbv zeta.
    apply safe_ret. repeat split; auto. destruct tk; try reflexivity. destruct h; reflexivity.
Qed.

Lemma step_nv src tv : src_kok src -> src_ready src ->
  safe (fun r => dle (src_depth src) (fst r) /\ src_kok (snd r) /\ src_depth (snd r) = src_depth src)
       (map_next_value Sc cfg (S f) src tv).
Proof.
  intros Hs Hr. rewrite map_next_value_unfold. destruct src as [values depth ignored b|fields depth|vals idx].
  - eapply safe_bind; [apply safe_node_at, Hs|]. intros n' Hn'.
    eapply safe_bind; [apply IHde, Hn'|]. intros d Hd. apply safe_ret. cbn [fst snd src_depth]. auto.
  - destruct fields as [|[nm k] rest]; [contradiction|]. cbn [src_kok map snd] in Hs. inversion Hs; subst.
    eapply safe_bind; [apply safe_node_at; assumption|]. intros n' Hn'.
    eapply safe_bind; [apply IHde, Hn'|]. intros d Hd. apply safe_ret. cbn [fst snd src_depth src_kok]. auto.
  - destruct vals as [|v rest]; [contradiction|]. apply safe_ret. cbn [fst snd src_depth src_kok].
    repeat split; auto. apply lf_dle, lf_prim. reflexivity.
Qed.

Lemma step_ml src tk tv acc D : src_kok src -> src_depth src = D -> Forall (kvle D) acc ->
  safe (Forall (kvle D)) (map_loop Sc cfg (S f) src tk tv acc).
Proof.
  intros Hs HD Hacc. rewrite map_loop_unfold.
  eapply safe_bind; [apply IHnk, Hs|].
  intros [[k s1]|] Hk; [|apply safe_ret, Forall_rev', Hacc].
  destruct Hk as (Hlf & Hs1 & Hr1 & Hd1).
  eapply safe_bind; [apply IHnv; assumption|]. intros [v s2] (Hv & Hs2 & Hd2). cbn [fst snd] in *.
  apply IHml; [exact Hs2|congruence|]. constructor; [|exact Hacc].
  unfold kvle, dle, lf in *. cbn [fst snd]. split; [lia|]. rewrite <- HD, <- Hd1. exact Hv.
Qed.

Lemma missing_fields_fle D fs : forall seen, Forall (fle D) (missing_fields fs seen).
Proof.
  induction fs as [|[nm t] fs IH]; intro seen; cbn [missing_fields]; [constructor|].
  destruct seen as [|s seen]; [constructor|]. apply Forall_app. split; [|apply IH].
  destruct s; constructor; [|constructor]. unfold fle. cbn. lia.
Qed.

Lemma step_st src fs seen acc D : src_kok src -> src_depth src = D -> Forall (fle D) acc ->
  safe (Forall (fle D)) (struct_loop Sc cfg (S f) src fs seen acc).
Proof.
  intros Hs HD Hacc. rewrite struct_loop_unfold.
  eapply safe_bind; [apply IHnk, Hs|].
  intros [[k s1]|] Hk.
  - destruct Hk as (Hlf & Hs1 & Hr1 & Hd1).
    destruct (sl_found fs k) as [[[i nm] tf]|].
    + destruct (nth i seen false); [apply safe_fail; exact I|].
      eapply safe_bind; [apply IHnv; assumption|]. intros [v s2] (Hv & Hs2 & Hd2). cbn [fst snd] in *.
      apply IHst; [exact Hs2|congruence|]. constructor; [|exact Hacc].
      unfold fle, dle in *. cbn [snd]. rewrite <- HD, <- Hd1. exact Hv.
    + eapply safe_bind; [apply IHnv; assumption|]. intros [v s2] (Hv & Hs2 & Hd2). cbn [fst snd] in *.
      apply IHst; [exact Hs2|congruence|exact Hacc].
  - apply safe_ret. apply Forall_app. split; [apply Forall_rev', Hacc|apply missing_fields_fle].
Qed.

Lemma step_ep variants vname vn depth : nok vn ->
  safe (dle (S depth)) (enum_payload Sc cfg (S f) variants vname vn depth).
Proof.
  intro Hn. rewrite enum_payload_unfold.
  destruct (index_of vname (map fst variants)) as [i|] eqn:Ei; [|apply safe_fail; exact I].
  apply index_of_lt in Ei. rewrite map_length in Ei.
  destruct (nth_error variants i) as [[nm payload]|] eqn:En; [|apply nth_error_None in En; lia].
  safe_walk.
Qed.

End Step.

(* ------------------------------------------------------------------ *)
(** * 6. The mutual induction on fuel *)

Section Main.
Variable Sc : fschema.
Variable cfg : dcfg.
Hypothesis HSc : schema_keys_okb Sc = true.

Definition all_safe (f : nat) : Prop :=
  (forall n depth favor force t, nok Sc n ->
     safe (dle (S depth)) (de Sc cfg f n depth favor force t)) /\
  (forall items depth ignored t b ee, kok Sc items ->
     safe (dle (S (S depth))) (seq_array Sc cfg f items depth ignored t b ee)) /\
  (forall items depth ignored pol b acc, kok Sc items -> Forall (dle (S depth)) acc ->
     safe (fun r => Forall (dle (S depth)) (fst r)) (seq_array_loop Sc cfg f items depth ignored pol b acc)) /\
  (forall vals t, safe (dle 1) (seq_duration Sc cfg f vals t)) /\
  (forall src t, src_kok Sc src -> safe (dle (S (src_depth src))) (map_visit Sc cfg f src t)) /\
  (forall src tk, src_kok Sc src ->
     safe (fun o => match o with
                    | None => True
                    | Some (k, src1) => lf k /\ src_kok Sc src1 /\ src_ready src1 /\ src_depth src1 = src_depth src
                    end) (map_next_key Sc cfg f src tk)) /\
  (forall src tv, src_kok Sc src -> src_ready src ->
     safe (fun r => dle (src_depth src) (fst r) /\ src_kok Sc (snd r) /\ src_depth (snd r) = src_depth src)
          (map_next_value Sc cfg f src tv)) /\
  (forall src tk tv acc D, src_kok Sc src -> src_depth src = D -> Forall (kvle D) acc ->
     safe (Forall (kvle D)) (map_loop Sc cfg f src tk tv acc)) /\
  (forall src fs seen acc D, src_kok Sc src -> src_depth src = D -> Forall (fle D) acc ->
     safe (Forall (fle D)) (struct_loop Sc cfg f src fs seen acc)) /\
  (forall variants vname vn depth, nok Sc vn ->
     safe (dle (S depth)) (enum_payload Sc cfg f variants vname vn depth)).

Lemma all_safe_holds : forall f, all_safe f.
Proof.
  induction f as [|f IH].
  - unfold all_safe. repeat match goal with |- _ /\ _ => split end; intros.
    + rewrite de_zero. apply safe_fail; exact I.
    + rewrite seq_array_zero. apply safe_fail; exact I.
    + rewrite seq_array_loop_zero. apply safe_fail; exact I.
    + rewrite seq_duration_zero. apply safe_fail; exact I.
    + rewrite map_visit_zero. apply safe_fail; exact I.
    + rewrite map_next_key_zero. apply safe_fail; exact I.
    + rewrite map_next_value_zero. apply safe_fail; exact I.
    + rewrite map_loop_zero. apply safe_fail; exact I.
    + rewrite struct_loop_zero. apply safe_fail; exact I.
    + rewrite enum_payload_zero. apply safe_fail; exact I.
  - destruct IH as (H1 & H2 & H3 & H4 & H5 & H6 & H7 & H8 & H9 & H10).
    unfold all_safe. repeat match goal with |- _ /\ _ => split end; intros.
    + apply step_de; assumption.
    + apply step_sa; assumption.
    + apply step_sl; assumption.
    + apply step_sd; assumption.
    + apply step_mv; assumption.
    + apply step_nk; assumption.
    + apply step_nv; assumption.
    + apply step_ml; assumption.
    + apply step_st; assumption.
    + apply step_ep; assumption.
Qed.

Lemma de_safe fuel n depth favor force t : nok Sc n ->
  safe (dle (S depth)) (de Sc cfg fuel n depth favor force t).
Proof. intro H. apply (all_safe_holds fuel); exact H. Qed.

End Main.

(* ------------------------------------------------------------------ *)
(** * 7. Item 1: no panic;  item 3: consumes a prefix;  item 4 (general form): depth limit *)

(** No Panic site of the deserializer is reachable, for ANY target (including targets that ask for
    a value before a key: the model's visitors cannot do that, the map loops are part of [de]),
    any bytes, any reader mode, any fuel, depth, flags -- provided every key stored in the schema
    is in range.  PIndex is reachable exactly when a key is out of range ([de_panic_needs_keys_ok]). *)
Theorem de_no_panic_keys : forall Sc cfg fuel n depth favor force t rs p,
  schema_keys_okb Sc = true -> keys_okb Sc n = true ->
  fst (de Sc cfg fuel n depth favor force t rs) <> Panic p.
Proof.
  intros Sc cfg fuel n depth favor force t rs p HSc Hn E.
  destruct (de_safe Sc cfg HSc fuel n depth favor force t Hn rs) as [_ H].
  rewrite E in H. exact H.
Qed.

Theorem de_no_panic : forall Sc cfg fuel n depth favor force t rs p,
  schema_wf Sc = true -> node_wf Sc n = true ->
  fst (de Sc cfg fuel n depth favor force t rs) <> Panic p.
Proof.
  intros. apply de_no_panic_keys; [apply schema_wf_keys_ok|apply node_wf_keys_ok]; assumption.
Qed.

(** the top-level entry point: the root is node 0 of a well-formed (hence non-empty) schema *)
Theorem de_datum_no_panic : forall Sc cfg fuel t rs p,
  schema_wf Sc = true -> de_datum fuel Sc cfg t rs <> Panic p.
Proof.
  intros Sc cfg fuel t rs p H. unfold de_datum, fnode_at.
  destruct Sc as [|root Sc'] eqn:ESc; [discriminate|]. cbn [nth_error]. rewrite <- ESc in *.
  assert (Hroot : node_wf Sc root = true).
  { unfold schema_wf in H. apply andb_prop in H. destruct H as [_ H]. rewrite forallb_forall in H.
    apply H. rewrite ESc. left. reflexivity. }
  pose proof (de_no_panic Sc cfg fuel root (c_depth cfg) false false t rs) as NP.
  destruct (de Sc cfg fuel root (c_depth cfg) false false t rs) as [[d|e|q| |] st]; cbn [fst] in NP;
    try discriminate. intro E. inversion E; subst. eapply NP; eauto.
Qed.

(** the side condition is needed: a key out of range reaches PIndex *)
Example de_panic_needs_keys_ok :
  fst (de [FArray 7] cfg_default 10 (FArray 7) 5 false false TAny (slice_reader [2; 0])) = Panic PIndex.
Proof. vm_compute. reflexivity. Qed.

(** Item 3. Whatever the outcome, the final reader state is the initial one advanced over a prefix
    of the remaining input (slice and chunked mode). *)
Theorem de_consumes_prefix_adv : forall Sc cfg fuel n depth favor force t rs,
  schema_keys_okb Sc = true -> keys_okb Sc n = true ->
  adv rs (snd (de Sc cfg fuel n depth favor force t rs)).
Proof.
  intros Sc cfg fuel n depth favor force t rs HSc Hn.
  apply (de_safe Sc cfg HSc fuel n depth favor force t Hn rs).
Qed.

Theorem de_consumes_prefix : forall Sc cfg fuel n depth favor force t rs,
  schema_wf Sc = true -> node_wf Sc n = true ->
  let rs' := snd (de Sc cfg fuel n depth favor force t rs) in
  exists pre, rd_inp rs = pre ++ rd_inp rs' /\
              rd_pos rs' = rd_pos rs + blen pre /\
              rd_max_alloc rs' = rd_max_alloc rs /\
              (rd_chunks rs = None <-> rd_chunks rs' = None).
Proof.
  intros. apply de_consumes_prefix_adv; [apply schema_wf_keys_ok|apply node_wf_keys_ok]; assumption.
Qed.

(** slice mode: the final state is exactly [consume k] of the initial one, k within the input *)
Theorem de_consumes_prefix_slice : forall Sc cfg fuel n depth favor force t rs,
  schema_wf Sc = true -> node_wf Sc n = true -> rd_chunks rs = None ->
  exists k, k <= blen (rd_inp rs) /\
            snd (de Sc cfg fuel n depth favor force t rs) = consume k rs.
Proof.
  intros. apply adv_slice; [assumption|].
  apply de_consumes_prefix_adv; [apply schema_wf_keys_ok|apply node_wf_keys_ok]; assumption.
Qed.

(** Item 4, general form: the container callbacks delivered by a successful call nest at most
    [depth + 1] deep; the "+ 1" is the flat seq/map/struct of a duration, which costs no depth. *)
Theorem de_depth_limit : forall Sc cfg fuel n depth favor force t rs d rs',
  schema_keys_okb Sc = true -> keys_okb Sc n = true ->
  de Sc cfg fuel n depth favor force t rs = (Ok d, rs') ->
  (cdepth d <= S depth)%nat.
Proof.
  intros Sc cfg fuel n depth favor force t rs d rs' HSc Hn E.
  destruct (de_safe Sc cfg HSc fuel n depth favor force t Hn rs) as [_ H].
  rewrite E in H. exact H.
Qed.

Example de_depth_limit_tight :
  exists d rs', de [FArray 1; FDuration] cfg_default 20 (FArray 1) 1 false false TAny
                   (slice_reader [2; 1;0;0;0; 2;0;0;0; 3;0;0;0; 0]) = (Ok d, rs') /\ cdepth d = 2%nat.
Proof. eexists. eexists. split; [vm_compute; reflexivity|reflexivity]. Qed.

(** the Panic sites of the map access are guarded by the loop invariant [src_ready] only:
    called directly on an exhausted source they do fire *)
Example next_value_without_key_site :
  fst (map_next_value [FNull] cfg_default 5 (MSRecord [] 3) TAny (slice_reader [])) = Panic PNextValueWithoutKey.
Proof. vm_compute. reflexivity. Qed.

(* ------------------------------------------------------------------ *)
(** * 8. Item 2: OutOfFuel is the only fuel-dependent outcome *)

Definition mono {A} (m m' : RM A) : Prop :=
  forall rs, fst (m rs) <> OutOfFuel -> m' rs = m rs.

Lemma mono_refl {A} (m : RM A) : mono m m.
Proof. intros rs _. reflexivity. Qed.

Lemma mono_bind {A B} (m m' : RM A) (k k' : A -> RM B) :
  mono m m' -> (forall a, mono (k a) (k' a)) -> mono (sbind m k) (sbind m' k').
Proof.
  intros Hm Hk rs H. unfold sbind in *. specialize (Hm rs).
  destruct (m rs) as [x s'] eqn:E. cbn [fst] in Hm.
  assert (Hx : x <> OutOfFuel) by (intro; subst x; apply H; reflexivity).
  rewrite (Hm Hx). destruct x; try reflexivity. apply Hk. exact H.
Qed.

Lemma mono_oof {A} (m' : RM A) : mono (rfail OutOfFuel) m'.
Proof. intros rs H. exfalso. apply H. reflexivity. Qed.

Create HintDb monodb.
Ltac mono_prim := solve [ eauto with monodb ].
Ltac mono_step :=
  first [ apply mono_refl
        | lazymatch goal with
          | |- mono (let _ := _ in _) _ => cbv zeta
          | |- mono (sbind _ _) (sbind _ _) => apply mono_bind; [ mono_prim | intro ]
          | |- mono (if ?c then _ else _) _ => destruct c
          | |- mono (match ?x with _ => _ end) _ => destruct x
          | |- mono _ _ => mono_prim
          end ].
Ltac mono_walk := repeat mono_step.

#[local] Transparent read_block_len has_more.
#[local] Hint Resolve mono_refl : monodb.
Lemma mono_read_block_len k : forall f ignored,
  mono (read_block_len f ignored) (read_block_len (f + k) ignored).
Proof.
  induction f as [|f IH]; intro ignored; [apply mono_oof|].
  cbn [Nat.add read_block_len]. mono_walk.
Qed.
#[local] Hint Resolve mono_read_block_len : monodb.
Lemma mono_has_more f k cfg ignored b :
  mono (has_more f cfg ignored b) (has_more (f + k) cfg ignored b).
Proof. unfold has_more. mono_walk. Qed.
#[local] Hint Resolve mono_has_more : monodb.
#[local] Opaque read_block_len has_more.

Section MonoStep.
Variable Sc : fschema.
Variable cfg : dcfg.
Variable f k : nat.

Hypothesis IHde : forall n depth favor force t,
  mono (de Sc cfg f n depth favor force t) (de Sc cfg (f + k) n depth favor force t).
Hypothesis IHsa : forall items depth ignored t b ee,
  mono (seq_array Sc cfg f items depth ignored t b ee) (seq_array Sc cfg (f + k) items depth ignored t b ee).
Hypothesis IHsl : forall items depth ignored pol b acc,
  mono (seq_array_loop Sc cfg f items depth ignored pol b acc)
       (seq_array_loop Sc cfg (f + k) items depth ignored pol b acc).
Hypothesis IHsd : forall vals t,
  mono (seq_duration Sc cfg f vals t) (seq_duration Sc cfg (f + k) vals t).
Hypothesis IHmv : forall src t,
  mono (map_visit Sc cfg f src t) (map_visit Sc cfg (f + k) src t).
Hypothesis IHnk : forall src tk,
  mono (map_next_key Sc cfg f src tk) (map_next_key Sc cfg (f + k) src tk).
Hypothesis IHnv : forall src tv,
  mono (map_next_value Sc cfg f src tv) (map_next_value Sc cfg (f + k) src tv).
Hypothesis IHml : forall src tk tv acc,
  mono (map_loop Sc cfg f src tk tv acc) (map_loop Sc cfg (f + k) src tk tv acc).
Hypothesis IHst : forall src fs seen acc,
  mono (struct_loop Sc cfg f src fs seen acc) (struct_loop Sc cfg (f + k) src fs seen acc).
Hypothesis IHep : forall variants vname vn depth,
  mono (enum_payload Sc cfg f variants vname vn depth) (enum_payload Sc cfg (f + k) variants vname vn depth).

Lemma mstep_any n depth t : mono (de_any Sc cfg f n depth t) (de_any Sc cfg (f + k) n depth t).
Proof. unfold de_any. destruct n; mono_walk. Qed.
Lemma mstep_duration_seq t : mono (de_duration_seq Sc cfg f t) (de_duration_seq Sc cfg (f + k) t).
Proof. unfold de_duration_seq. mono_walk. Qed.
Hint Resolve mstep_any mstep_duration_seq : monodb.
#[local] Opaque de_any de_duration_seq.
Lemma mstep_decimal_hint n depth t h :
  mono (de_decimal_hint Sc cfg f n depth t h) (de_decimal_hint Sc cfg (f + k) n depth t h).
Proof. unfold de_decimal_hint. destruct n; mono_walk. Qed.
Lemma mstep_identifier n depth t :
  mono (de_identifier Sc cfg f n depth t) (de_identifier Sc cfg (f + k) n depth t).
Proof. unfold de_identifier. destruct n; mono_walk. Qed.
Hint Resolve mstep_decimal_hint mstep_identifier : monodb.
#[local] Opaque de_decimal_hint de_identifier.

Lemma mstep_de n depth favor force t :
  mono (de Sc cfg (S f) n depth favor force t) (de Sc cfg (S f + k) n depth favor force t).
Proof.
  cbn [Nat.add]. rewrite !de_unfold. destruct force; [apply mstep_any|].
  destruct t; try (destruct h); mono_walk.
Qed.
Lemma mstep_sa items depth ignored t b ee :
  mono (seq_array Sc cfg (S f) items depth ignored t b ee) (seq_array Sc cfg (S f + k) items depth ignored t b ee).
Proof. cbn [Nat.add]. rewrite !seq_array_unfold. destruct (seq_policy t) as [pol sh]. mono_walk. Qed.
Lemma mstep_sl items depth ignored pol b acc :
  mono (seq_array_loop Sc cfg (S f) items depth ignored pol b acc)
       (seq_array_loop Sc cfg (S f + k) items depth ignored pol b acc).
Proof. cbn [Nat.add]. rewrite !seq_array_loop_unfold. mono_walk. Qed.
Lemma mstep_sd vals t :
  mono (seq_duration Sc cfg (S f) vals t) (seq_duration Sc cfg (S f + k) vals t).
Proof. cbn [Nat.add]. rewrite !seq_duration_unfold. apply mono_refl. Qed.
Lemma mstep_mv src t :
  mono (map_visit Sc cfg (S f) src t) (map_visit Sc cfg (S f + k) src t).
Proof. cbn [Nat.add]. rewrite !map_visit_unfold. mono_walk. Qed.
Lemma mstep_nk src tk :
  mono (map_next_key Sc cfg (S f) src tk) (map_next_key Sc cfg (S f + k) src tk).
Proof. cbn [Nat.add]. rewrite !map_next_key_unfold. mono_walk. Qed.
Lemma mstep_nv src tv :
  mono (map_next_value Sc cfg (S f) src tv) (map_next_value Sc cfg (S f + k) src tv).
Proof. cbn [Nat.add]. rewrite !map_next_value_unfold. mono_walk. Qed.
Lemma mstep_ml src tk tv acc :
  mono (map_loop Sc cfg (S f) src tk tv acc) (map_loop Sc cfg (S f + k) src tk tv acc).
Proof. cbn [Nat.add]. rewrite !map_loop_unfold. mono_walk. Qed.
Lemma mstep_st src fs seen acc :
  mono (struct_loop Sc cfg (S f) src fs seen acc) (struct_loop Sc cfg (S f + k) src fs seen acc).
Proof. cbn [Nat.add]. rewrite !struct_loop_unfold. mono_walk. Qed.
Lemma mstep_ep variants vname vn depth :
  mono (enum_payload Sc cfg (S f) variants vname vn depth) (enum_payload Sc cfg (S f + k) variants vname vn depth).
Proof. cbn [Nat.add]. rewrite !enum_payload_unfold. mono_walk. Qed.

End MonoStep.

Section MonoMain.
Variable Sc : fschema.
Variable cfg : dcfg.
Variable k : nat.

Definition all_mono (f : nat) : Prop :=
  (forall n depth favor force t,
     mono (de Sc cfg f n depth favor force t) (de Sc cfg (f + k) n depth favor force t)) /\
  (forall items depth ignored t b ee,
     mono (seq_array Sc cfg f items depth ignored t b ee) (seq_array Sc cfg (f + k) items depth ignored t b ee)) /\
  (forall items depth ignored pol b acc,
     mono (seq_array_loop Sc cfg f items depth ignored pol b acc)
          (seq_array_loop Sc cfg (f + k) items depth ignored pol b acc)) /\
  (forall vals t, mono (seq_duration Sc cfg f vals t) (seq_duration Sc cfg (f + k) vals t)) /\
  (forall src t, mono (map_visit Sc cfg f src t) (map_visit Sc cfg (f + k) src t)) /\
  (forall src tk, mono (map_next_key Sc cfg f src tk) (map_next_key Sc cfg (f + k) src tk)) /\
  (forall src tv, mono (map_next_value Sc cfg f src tv) (map_next_value Sc cfg (f + k) src tv)) /\
  (forall src tk tv acc, mono (map_loop Sc cfg f src tk tv acc) (map_loop Sc cfg (f + k) src tk tv acc)) /\
  (forall src fs seen acc,
     mono (struct_loop Sc cfg f src fs seen acc) (struct_loop Sc cfg (f + k) src fs seen acc)) /\
  (forall variants vname vn depth,
     mono (enum_payload Sc cfg f variants vname vn depth) (enum_payload Sc cfg (f + k) variants vname vn depth)).

Lemma all_mono_holds : forall f, all_mono f.
Proof.
  induction f as [|f IH].
  - unfold all_mono. repeat match goal with |- _ /\ _ => split end; intros.
    + rewrite de_zero. apply mono_oof.
    + rewrite seq_array_zero. apply mono_oof.
    + rewrite seq_array_loop_zero. apply mono_oof.
    + rewrite seq_duration_zero. apply mono_oof.
    + rewrite map_visit_zero. apply mono_oof.
    + rewrite map_next_key_zero. apply mono_oof.
    + rewrite map_next_value_zero. apply mono_oof.
    + rewrite map_loop_zero. apply mono_oof.
    + rewrite struct_loop_zero. apply mono_oof.
    + rewrite enum_payload_zero. apply mono_oof.
  - destruct IH as (H1 & H2 & H3 & H4 & H5 & H6 & H7 & H8 & H9 & H10).
    unfold all_mono. repeat match goal with |- _ /\ _ => split end; intros.
    + apply mstep_de; assumption.
    + apply mstep_sa; assumption.
    + apply mstep_sl; assumption.
    + apply mstep_sd; assumption.
    + apply mstep_mv; assumption.
    + apply mstep_nk; assumption.
    + apply mstep_nv; assumption.
    + apply mstep_ml; assumption.
    + apply mstep_st; assumption.
    + apply mstep_ep; assumption.
Qed.
End MonoMain.

(** Item 2 (no hypothesis on the schema is needed). *)
Theorem de_fuel_mono : forall Sc cfg fuel n depth favor force t rs,
  fst (de Sc cfg fuel n depth favor force t rs) <> OutOfFuel ->
  forall k, de Sc cfg (fuel + k) n depth favor force t rs = de Sc cfg fuel n depth favor force t rs.
Proof. intros Sc cfg fuel n depth favor force t rs H k. apply (all_mono_holds Sc cfg k fuel); exact H. Qed.

Corollary de_fuel_mono_le : forall Sc cfg fuel fuel' n depth favor force t rs,
  (fuel <= fuel')%nat -> fst (de Sc cfg fuel n depth favor force t rs) <> OutOfFuel ->
  de Sc cfg fuel' n depth favor force t rs = de Sc cfg fuel n depth favor force t rs.
Proof.
  intros Sc cfg fuel fuel' n depth favor force t rs Hle H.
  replace fuel' with (fuel + (fuel' - fuel))%nat by lia. apply de_fuel_mono, H.
Qed.

Corollary de_datum_fuel_mono : forall Sc cfg fuel t rs,
  de_datum fuel Sc cfg t rs <> OutOfFuel ->
  forall k, de_datum (fuel + k) Sc cfg t rs = de_datum fuel Sc cfg t rs.
Proof.
  intros Sc cfg fuel t rs H k. unfold de_datum in *. destruct (fnode_at Sc 0); [|reflexivity].
  rewrite de_fuel_mono; [reflexivity|]. intro E.
  destruct (de Sc cfg fuel f (c_depth cfg) false false t rs) as [x st]. cbn [fst] in E. subst x. apply H. reflexivity.
Qed.

(* ------------------------------------------------------------------ *)
(** * 9. Item 4, depth budget exhausted: every descent is refused *)

Definition never_ok {A} (m : RM A) : Prop := forall rs, is_ok (fst (m rs)) = false.

Lemma never_ok_bind_l {A B} (m : RM A) (k : A -> RM B) : never_ok m -> never_ok (sbind m k).
Proof. intros H rs. unfold sbind. specialize (H rs). destruct (m rs) as [[a|e|p| |] s]; cbn in *; congruence. Qed.
Lemma never_ok_bind_r {A B} (m : RM A) (k : A -> RM B) : (forall a, never_ok (k a)) -> never_ok (sbind m k).
Proof. intros H rs. unfold sbind. destruct (m rs) as [[a|e|p| |] s]; cbn; auto. apply H. Qed.
Lemma never_ok_fail {A} (x : result A) : is_ok x = false -> never_ok (rfail x).
Proof. intros H rs. exact H. Qed.
#[local] Transparent dec_depth node_at.
Lemma never_ok_dec0 : never_ok (dec_depth 0).
Proof. intro rs. reflexivity. Qed.

(** the nodes whose decoding starts with a descent (AllowedDepth::dec): arrays, maps, records and
    unions; for a union the Option visitor short-cuts a null branch to visit_none BEFORE the descent,
    so unions with a null branch are excluded (see [de_depth_zero_union_null]) *)
Definition descends (Sc : fschema) (n : fnode) : Prop :=
  match n with
  | FArray _ | FMap _ | FRecord _ _ => True
  | FUnion vs => forall k, In k vs -> fnode_at Sc k <> Some FNull
  | _ => False
  end.

Section DepthZero.
Variable Sc : fschema.
Variable cfg : dcfg.
Variable f : nat.
Hypothesis IHde : forall n favor force t, descends Sc n -> never_ok (de Sc cfg f n 0 favor force t).
Hypothesis IHep : forall variants vname vn, descends Sc vn -> never_ok (enum_payload Sc cfg f variants vname vn 0).

Ltac nv_step :=
  first [ apply never_ok_dec0
        | apply IHde; assumption
        | apply IHep; assumption
        | apply never_ok_fail; reflexivity
        | apply never_ok_bind_l; nv_step ].

#[local] Transparent de_any de_decimal_hint de_identifier.
Lemma nv_any n t : descends Sc n -> never_ok (de_any Sc cfg f n 0 t).
Proof.
  intro H. destruct n; try contradiction; unfold de_any; try nv_step.
  apply never_ok_bind_r. intro disc. destruct (nth_N variants disc); nv_step.
Qed.
Lemma nv_decimal_hint n t h : descends Sc n -> never_ok (de_decimal_hint Sc cfg f n 0 t h).
Proof. intro H. destruct n; try contradiction; unfold de_decimal_hint; apply nv_any; exact H. Qed.
Lemma nv_identifier n t : descends Sc n -> never_ok (de_identifier Sc cfg f n 0 t).
Proof. intro H. destruct n; try contradiction; unfold de_identifier; apply nv_any; exact H. Qed.

Lemma nv_de n favor force t : descends Sc n -> never_ok (de Sc cfg (S f) n 0 favor force t).
Proof.
  intro H. rewrite de_unfold. destruct force; [apply nv_any, H|].
  destruct t; try destruct h;
    try (apply nv_any, H); try (apply nv_decimal_hint, H); try (apply nv_identifier, H);
    try (destruct n; try contradiction;
         first [ apply nv_any, H | apply nv_decimal_hint, H | apply nv_identifier, H | nv_step ]; fail).
  - (* TOption *)
    destruct n; try contradiction; try nv_step.
    apply never_ok_bind_r. intro disc. destruct (nth_N variants disc) as [k|] eqn:E; [|nv_step].
    unfold node_at. destruct (fnode_at Sc k) as [vn|] eqn:Ek; [|intro rs; reflexivity].
    rewrite sbind_sret. apply nth_N_In in E. specialize (H k E).
    destruct vn; try congruence; cbv zeta; nv_step.
  - (* TEnum *)
    destruct favor; [nv_step|].
    destruct n; try contradiction; try nv_step.
    apply never_ok_bind_r. intro disc. destruct (nth_N variants0 disc); nv_step.
Qed.

Lemma nv_ep variants vname vn : descends Sc vn -> never_ok (enum_payload Sc cfg (S f) variants vname vn 0).
Proof.
  intro H. rewrite enum_payload_unfold.
  destruct (index_of vname (map fst variants)); [|nv_step].
  destruct (nth_error variants n) as [[nm payload]|]; [|nv_step].
  destruct payload; nv_step.
Qed.
End DepthZero.

Lemma depth_zero_all Sc cfg : forall f,
  (forall n favor force t, descends Sc n -> never_ok (de Sc cfg f n 0 favor force t)) /\
  (forall variants vname vn, descends Sc vn -> never_ok (enum_payload Sc cfg f variants vname vn 0)).
Proof.
  induction f as [|f [IH1 IH2]].
  - split; intros; intro rs; reflexivity.
  - split; intros; [apply nv_de|apply nv_ep]; assumption.
Qed.

(** With the budget exhausted, a call on an array / map / record node, or on a union without null
    branch, never succeeds -- for every target, fuel, flag and input. *)
Theorem de_depth_zero : forall Sc cfg fuel n favor force t rs d rs',
  descends Sc n -> de Sc cfg fuel n 0 favor force t rs <> (Ok d, rs').
Proof.
  intros Sc cfg fuel n favor force t rs d rs' H E.
  pose proof (proj1 (depth_zero_all Sc cfg fuel) n favor force t H rs) as N.
  rewrite E in N. discriminate.
Qed.

(** ... and when there is enough fuel and the schema keys are in range it is an [Err] *)
Corollary de_depth_zero_err : forall Sc cfg fuel n favor force t rs,
  schema_keys_okb Sc = true -> keys_okb Sc n = true -> descends Sc n ->
  match fst (de Sc cfg fuel n 0 favor force t rs) with
  | Err _ | OutOfFuel | Unmodelled => True
  | _ => False
  end.
Proof.
  intros Sc cfg fuel n favor force t rs HSc Hn H.
  pose proof (de_no_panic_keys Sc cfg fuel n 0 favor force t rs) as NP.
  pose proof (de_depth_zero Sc cfg fuel n favor force t rs) as NO.
  destruct (de Sc cfg fuel n 0 favor force t rs) as [[d|e|p| |] st]; cbn [fst] in *; auto.
  - eapply NO; eauto.
  - eapply NP; eauto.
Qed.

(** the exclusion is needed: Option over ["null", T] with the null branch selected is visit_none
    without any descent *)
Example de_depth_zero_union_null :
  de [FUnion [1; 2]%nat; FNull; FInt] cfg_default 5 (FUnion [1; 2]%nat) 0 false false (TOption TAny) (slice_reader [0])
  = (Ok DNone, consume 1 (slice_reader [0])).
Proof. vm_compute. reflexivity. Qed.

Example de_depth_zero_triggers :
  fst (de [FArray 1; FInt] cfg_default 50 (FArray 1) 0 false false TAny (slice_reader [2; 4; 0])) = Err EData /\
  fst (de [FArray 0] (mkCfg 1000 2) 50 (FArray 0) 2 false false TAny (slice_reader [2; 2; 2; 0; 0; 0])) = Err EData /\
  is_ok (fst (de [FArray 0] (mkCfg 1000 3) 50 (FArray 0) 3 false false TAny (slice_reader [2; 2; 0; 0; 0]))) = true.
Proof. vm_compute. auto. Qed.

(* ------------------------------------------------------------------ *)
(** * 10. Item 5: the sequence-length limit *)

Definition post {A} (Q : A -> Prop) (m : RM A) : Prop :=
  forall rs a rs', m rs = (Ok a, rs') -> Q a.

Lemma post_bind {A B} (R : A -> Prop) (Q : B -> Prop) (m : RM A) (k : A -> RM B) :
  post R m -> (forall a, R a -> post Q (k a)) -> post Q (sbind m k).
Proof.
  intros Hm Hk rs b rs' E. unfold sbind in E. destruct (m rs) as [[a|e|p| |] s] eqn:Em; try discriminate.
  eapply Hk; eauto.
Qed.
Lemma post_ret {A} (Q : A -> Prop) a : Q a -> post Q (sret a).
Proof. intros H rs b rs' E. unfold sret in E. inversion E; subst. exact H. Qed.
Lemma post_fail {A} (Q : A -> Prop) (x : result A) : is_ok x = false -> post Q (rfail x).
Proof. intros H rs b rs' E. unfold rfail in E. inversion E; subst. discriminate. Qed.
Lemma post_any {A} (m : RM A) : post tt1 m.
Proof. intros rs a rs' _. exact I. Qed.
Lemma post_weaken {A} (R Q : A -> Prop) m : post R m -> (forall a, R a -> Q a) -> post Q m.
Proof. intros H HRQ rs a rs' E. eapply HRQ, H, E. Qed.

#[local] Transparent read_block_len has_more read_usize.

Lemma post_read_block_len : forall fuel ignored,
  post (fun o => match o with Some l => 1 <= l | None => True end) (read_block_len fuel ignored).
Proof.
  induction fuel as [|f IH]; intro ignored; [apply post_fail; reflexivity|].
  cbn [read_block_len]. eapply post_bind; [apply post_any|]. intros len _.
  destruct (Z.ltb_spec len 0).
  - destruct ignored.
    + eapply post_bind; [apply post_any|]. intros nb _. destruct (nb <? 0)%Z; [apply post_fail; reflexivity|].
      eapply post_bind; [apply post_any|]. intros _ _. apply IH.
    + eapply post_bind; [apply post_any|]. intros _ _. apply post_ret. lia.
  - apply post_ret. destruct (Z.eqb_spec len 0); [exact I|lia].
Qed.

(** the BlockReader invariant: [b_nread] counts every element announced so far, [b_cur] those of the
    current block not yet handed out; their difference is the number of elements handed out *)
Definition binv (M : N) (b : blk) : Prop := b_cur b <= b_nread b /\ b_nread b <= M.
Definition delivered (b : blk) : N := b_nread b - b_cur b.

Lemma binv_blk0 M : binv M blk0.
Proof. unfold binv, blk0; cbn. lia. Qed.

Definition U64M : N := 18446744073709551615.

Lemma post_has_more fuel cfg ignored b : c_max_seq cfg < U64M -> binv (c_max_seq cfg) b ->
  post (fun hm : bool * blk => binv (c_max_seq cfg) (snd hm) /\
                  delivered (snd hm) = delivered b + (if fst hm then 1 else 0))
       (has_more fuel cfg ignored b).
Proof.
  intros HM [Hb1 Hb2]. unfold has_more. destruct (N.eqb_spec (b_cur b) 0) as [Hc|Hc].
  - eapply post_bind; [apply post_read_block_len|]. intros [l|] Hl.
    + change (2 ^ 64 - 1) with U64M.
      destruct (N.ltb_spec (c_max_seq cfg) (N.min (b_nread b + l) U64M)); [apply post_fail; reflexivity|].
      apply post_ret. unfold binv, delivered. cbn [fst snd b_cur b_nread]. unfold U64M in *. lia.
    + apply post_ret. unfold binv, delivered. cbn [fst snd b_cur b_nread]. lia.
  - apply post_ret. unfold binv, delivered. cbn [fst snd b_cur b_nread]. lia.
Qed.

(** "a block count that would exceed the limit yields Err before any element beyond the limit is
    produced": right after the block header, with the reader still at the first element *)
Lemma has_more_over_limit fuel cfg ignored b rs l rs1 :
  b_cur b = 0 -> read_block_len fuel ignored rs = (Ok (Some l), rs1) ->
  c_max_seq cfg < N.min (b_nread b + l) (2 ^ 64 - 1) ->
  has_more fuel cfg ignored b rs = (Err EData, rs1).
Proof.
  intros Hc E H. unfold has_more, sbind. rewrite Hc. change (0 =? 0) with true. cbv beta iota.
  rewrite E. apply N.ltb_lt in H. rewrite H. reflexivity.
Qed.

Ltac zero_fuel :=
  first [ rewrite de_zero | rewrite seq_array_zero | rewrite seq_array_loop_zero | rewrite seq_duration_zero
        | rewrite map_visit_zero | rewrite map_next_key_zero | rewrite map_next_value_zero
        | rewrite map_loop_zero | rewrite struct_loop_zero | rewrite enum_payload_zero ];
  apply post_fail; reflexivity.

(** ... so the array loop stops there, with nothing produced from the offending block *)
Lemma seq_array_loop_over_limit Sc cfg f items depth ignored t1 b acc rs l rs1 :
  b_cur b = 0 -> read_block_len f ignored rs = (Ok (Some l), rs1) ->
  c_max_seq cfg < N.min (b_nread b + l) (2 ^ 64 - 1) ->
  seq_array_loop Sc cfg (S f) items depth ignored (PRepeat t1) b acc rs = (Err EData, rs1).
Proof.
  intros Hc E H. rewrite seq_array_loop_unfold. unfold sbind.
  rewrite (has_more_over_limit f cfg ignored b rs l rs1 Hc E H). reflexivity.
Qed.

Section SeqLimit.
Variable Sc : fschema.
Variable cfg : dcfg.
Hypothesis HM : c_max_seq cfg < U64M.
Let M := c_max_seq cfg.

(** arrays: the loop hands out at most [M - delivered b] more elements *)
Lemma seq_array_loop_limit : forall fuel items depth ignored pol b acc,
  binv M b ->
  post (fun r => binv M (snd r) /\
                 N.of_nat (length (fst r)) + delivered b = N.of_nat (length acc) + delivered (snd r))
       (seq_array_loop Sc cfg fuel items depth ignored pol b acc).
Proof.
  induction fuel as [|f IH]; intros items depth ignored pol b acc Hb; [zero_fuel|].
  rewrite seq_array_loop_unfold. destruct pol as [t1|[|t1 ts]].
  - eapply post_bind; [apply post_has_more; assumption|]. intros [more b1] [Hb1 Hd]. cbn [fst snd] in *.
    destruct more.
    + eapply post_bind; [apply post_any|]. intros n' _.
      eapply post_bind; [apply post_any|]. intros d _.
      eapply post_weaken; [apply IH, Hb1|]. intros r [Hr1 Hr2]. split; [exact Hr1|].
      cbn [length] in Hr2. lia.
    + apply post_ret. cbn [fst snd]. split; [exact Hb1|]. rewrite rev_length. lia.
  - apply post_ret. cbn [fst snd]. split; [exact Hb|]. rewrite rev_length. lia.
  - eapply post_bind; [apply post_has_more; assumption|]. intros [more b1] [Hb1 Hd]. cbn [fst snd] in *.
    destruct more; [|apply post_fail; reflexivity].
    eapply post_bind; [apply post_any|]. intros n' _.
    eapply post_bind; [apply post_any|]. intros d _.
    eapply post_weaken; [apply IH, Hb1|]. intros r [Hr1 Hr2]. split; [exact Hr1|].
    cbn [length] in Hr2. lia.
Qed.

Corollary seq_array_loop_le : forall fuel items depth ignored pol rs ds b' rs',
  seq_array_loop Sc cfg fuel items depth ignored pol blk0 [] rs = (Ok (ds, b'), rs') ->
  N.of_nat (length ds) <= c_max_seq cfg.
Proof.
  intros fuel items depth ignored pol rs ds b' rs' E.
  destruct (seq_array_loop_limit fuel items depth ignored pol blk0 [] (binv_blk0 M) rs _ _ E) as [[H1 H2] H3].
  cbn [fst snd length] in *. unfold delivered in *. cbn [blk0 b_cur b_nread] in H3. fold M. lia.
Qed.

(** the events of one array / map: elements of the seq, entries of the map, fields of the struct that
    actually arrived (the DMissing fillers of a struct visitor do not come from the input) *)
Definition is_missing (d : dval) : bool := match d with DMissing => true | _ => false end.
Fixpoint elems (d : dval) : nat :=
  match d with
  | DSeq ds => length ds
  | DMap kvs => length kvs
  | DStruct fs => length (filter (fun kv => negb (is_missing (snd kv))) fs)
  | DNewtype d | DSome d | DEnum _ d => elems d       (* transparent wrappers *)
  | _ => O
  end.

Lemma filter_length_le {A} (p : A -> bool) l : (length (filter p l) <= length l)%nat.
Proof. induction l as [|x l IH]; cbn; [lia|]. destruct (p x); cbn; lia. Qed.

Lemma combine_length_le {A B} (l1 : list A) (l2 : list B) : (length (combine l1 l2) <= length l2)%nat.
Proof. rewrite combine_length. lia. Qed.

Lemma elems_shape_seq sh ds : (elems (shape_seq sh ds) <= length ds)%nat.
Proof.
  destruct sh; cbn [shape_seq elems]; try lia.
  etransitivity; [apply filter_length_le|apply combine_length_le].
Qed.

Lemma seq_array_limit : forall fuel items depth ignored t ee,
  post (fun d => N.of_nat (elems d) <= M) (seq_array Sc cfg fuel items depth ignored t blk0 ee).
Proof.
  intros [|f] items depth ignored t ee; [zero_fuel|].
  rewrite seq_array_unfold. destruct (seq_policy t) as [pol sh].
  intros rs d rs' E. unfold sbind in E.
  destruct (seq_array_loop Sc cfg f items depth ignored pol blk0 [] rs) as [[[ds b']|e|p| |] s] eqn:El; try discriminate.
  apply seq_array_loop_le in El. fold M in El.
  assert (Hd : N.of_nat (elems (shape_seq sh ds)) <= M) by (pose proof (elems_shape_seq sh ds); lia).
  destruct (ee && negb (b_finished b')).
  - destruct (has_more f cfg ignored b' s) as [[hm|e|p| |] s2]; try discriminate.
    destruct (fst hm); [discriminate|]. inversion E; subst. exact Hd.
  - inversion E; subst. exact Hd.
Qed.

(** maps: one key/value round of a map source *)
Lemma post_next_key_map : forall fuel values depth ignored b tk, binv M b ->
  post (fun o => match o with
                 | None => True
                 | Some (_, src1) => exists b1, src1 = MSMap values depth ignored b1 /\ binv M b1 /\
                                                delivered b1 = delivered b + 1
                 end) (map_next_key Sc cfg fuel (MSMap values depth ignored b) tk).
Proof.
  intros [|f] values depth ignored b tk Hb; [zero_fuel|].
  rewrite map_next_key_unfold.
  eapply post_bind; [apply post_has_more; assumption|]. intros [more b1] [Hb1 Hd]. cbn [fst snd] in *.
  destruct more; [|apply post_ret; exact I].
  eapply post_bind; [apply post_any|]. intros k _. apply post_ret. exists b1. auto.
Qed.

Lemma post_next_value_map : forall fuel values depth ignored b tv,
  post (fun r => snd r = MSMap values depth ignored b)
       (map_next_value Sc cfg fuel (MSMap values depth ignored b) tv).
Proof.
  intros [|f] values depth ignored b tv; [zero_fuel|].
  rewrite map_next_value_unfold.
  eapply post_bind; [apply post_any|]. intros n' _.
  eapply post_bind; [apply post_any|]. intros d _. apply post_ret. reflexivity.
Qed.

Lemma map_loop_limit : forall fuel values depth ignored b tk tv acc, binv M b ->
  post (fun r => N.of_nat (length r) + delivered b <= N.of_nat (length acc) + M)
       (map_loop Sc cfg fuel (MSMap values depth ignored b) tk tv acc).
Proof.
  induction fuel as [|f IH]; intros values depth ignored b tk tv acc Hb; [zero_fuel|].
  rewrite map_loop_unfold.
  eapply post_bind; [apply post_next_key_map, Hb|]. intros [[k src1]|] Hk.
  - destruct Hk as (b1 & -> & Hb1 & Hd1).
    eapply post_bind; [apply post_next_value_map|]. intros [v src2] Hv. cbn [fst snd] in *. subst src2.
    eapply post_weaken; [apply IH, Hb1|]. cbv beta. intros r Hr. cbn [length] in Hr. lia.
  - apply post_ret. rewrite rev_length. destruct Hb. unfold delivered. lia.
Qed.

(** the struct visitor over a map: the fields that arrived are at most the limit; the rest of the
    result are the DMissing fillers *)
Lemma struct_loop_limit : forall fuel values depth ignored b fs seen acc, binv M b ->
  post (fun r => exists acc' seen', r = rev acc' ++ missing_fields fs seen' /\
                   N.of_nat (length acc') + delivered b <= N.of_nat (length acc) + M)
       (struct_loop Sc cfg fuel (MSMap values depth ignored b) fs seen acc).
Proof.
  induction fuel as [|f IH]; intros values depth ignored b fs seen acc Hb; [zero_fuel|].
  rewrite struct_loop_unfold.
  eapply post_bind; [apply post_next_key_map, Hb|]. intros [[k src1]|] Hk.
  - destruct Hk as (b1 & -> & Hb1 & Hd1).
    destruct (sl_found fs k) as [[[i nm] tf]|].
    + destruct (nth i seen false); [apply post_fail; reflexivity|].
      eapply post_bind; [apply post_next_value_map|]. intros [v src2] Hv. cbn [fst snd] in *. subst src2.
      eapply post_weaken; [apply IH, Hb1|]. cbv beta. intros r (acc' & seen' & Hr & Hl).
      exists acc', seen'. split; [exact Hr|]. cbn [length] in Hl. lia.
    + eapply post_bind; [apply post_next_value_map|]. intros [v src2] Hv. cbn [fst snd] in *. subst src2.
      eapply post_weaken; [apply IH, Hb1|]. cbv beta. intros r (acc' & seen' & Hr & Hl).
      exists acc', seen'. split; [exact Hr|]. lia.
  - apply post_ret. exists acc, seen. split; [reflexivity|]. destruct Hb. unfold delivered. lia.
Qed.

Lemma missing_fields_all_missing fs : forall seen,
  filter (fun kv : bytes * dval => negb (is_missing (snd kv))) (missing_fields fs seen) = [].
Proof.
  induction fs as [|[nm t] fs IH]; intro seen; cbn [missing_fields]; [reflexivity|].
  destruct seen as [|s seen]; [reflexivity|]. rewrite filter_app, IH. destruct s; reflexivity.
Qed.

Lemma map_visit_limit : forall fuel values depth ignored t,
  post (fun d => N.of_nat (elems d) <= M) (map_visit Sc cfg fuel (MSMap values depth ignored blk0) t).
Proof.
  intros [|f] values depth ignored t; [zero_fuel|].
  rewrite map_visit_unfold. destruct (map_policy t).
  - eapply post_bind; [apply map_loop_limit, binv_blk0|]. cbv beta. intros kvs H. apply post_ret.
    cbn [length] in H. unfold delivered, blk0 in H. cbn [b_cur b_nread] in H.
    destruct ignored_result; cbn [elems]; lia.
  - eapply post_bind; [apply struct_loop_limit, binv_blk0|]. cbv beta. intros r (acc' & seen' & -> & H).
    apply post_ret. cbn [elems length] in *. unfold delivered, blk0 in H. cbn [b_cur b_nread] in H.
    rewrite filter_app, missing_fields_all_missing, app_nil_r.
    pose proof (filter_length_le (fun kv : bytes * dval => negb (is_missing (snd kv))) (rev acc')) as L.
    rewrite rev_length in L. lia.
Qed.

Definition EL (d : dval) : Prop := N.of_nat (elems d) <= M.
Definition is_seq_node (n : fnode) : Prop := match n with FArray _ | FMap _ => True | _ => False end.

Section SeqDe.
Variable f : nat.
Hypothesis IHde : forall n depth favor force t, is_seq_node n -> post EL (de Sc cfg f n depth favor force t).
Hypothesis IHep : forall variants vname vn depth, is_seq_node vn ->
  post EL (enum_payload Sc cfg f variants vname vn depth).

Lemma sl_any n depth t : is_seq_node n -> post EL (de_any Sc cfg f n depth t).
Proof.
  intro H. destruct n; try contradiction; unfold de_any;
    (eapply post_bind; [apply post_any|]; intros d' _); [apply seq_array_limit|apply map_visit_limit].
Qed.
Lemma sl_decimal_hint n depth t h : is_seq_node n -> post EL (de_decimal_hint Sc cfg f n depth t h).
Proof. intro H. destruct n; try contradiction; unfold de_decimal_hint; apply sl_any; exact H. Qed.
Lemma sl_identifier n depth t : is_seq_node n -> post EL (de_identifier Sc cfg f n depth t).
Proof. intro H. destruct n; try contradiction; unfold de_identifier; apply sl_any; exact H. Qed.

Ltac sl_step :=
  first [ apply sl_any; exact I | apply sl_decimal_hint; exact I | apply sl_identifier; exact I
        | apply seq_array_limit | apply map_visit_limit
        | apply IHde; exact I | apply IHep; exact I
        | eapply post_bind; [ apply IHde; exact I | let d := fresh "d" in let Hd := fresh "Hd" in
                                                     intros d Hd; apply post_ret; exact Hd ]
        | eapply post_bind; [ apply post_any | intros ? _; sl_step ]
        | apply post_fail; reflexivity ].

Lemma sl_de n depth favor force t : is_seq_node n -> post EL (de Sc cfg (S f) n depth favor force t).
Proof.
  intro H. rewrite de_unfold. destruct force; [apply sl_any, H|].
  destruct n; try contradiction; destruct t; try destruct h; try destruct favor; sl_step.
Qed.

Lemma sl_ep variants vname vn depth : is_seq_node vn ->
  post EL (enum_payload Sc cfg (S f) variants vname vn depth).
Proof.
  intro H. rewrite enum_payload_unfold.
  destruct (index_of vname (map fst variants)); [|apply post_fail; reflexivity].
  destruct (nth_error variants n) as [[nm payload]|]; [|apply post_fail; reflexivity].
  destruct payload; try (apply post_fail; reflexivity).
  - eapply post_bind; [apply IHde, H|]. intros d Hd. unfold ep_seq.
    destruct d; try (apply post_fail; reflexivity). apply post_ret. exact Hd.
  - eapply post_bind; [apply IHde, H|]. intros d Hd. unfold ep_struct.
    destruct d; try (apply post_fail; reflexivity). apply post_ret. exact Hd.
  - eapply post_bind; [apply post_any|]. intros _ _. apply post_ret. unfold EL. cbn. lia.
  - eapply post_bind; [apply IHde, H|]. intros d Hd. apply post_ret. exact Hd.
Qed.
End SeqDe.

Lemma seq_limit_all : forall f,
  (forall n depth favor force t, is_seq_node n -> post EL (de Sc cfg f n depth favor force t)) /\
  (forall variants vname vn depth, is_seq_node vn -> post EL (enum_payload Sc cfg f variants vname vn depth)).
Proof.
  induction f as [|f [IH1 IH2]].
  - split; intros; zero_fuel.
  - split; intros; [apply sl_de|apply sl_ep]; assumption.
Qed.

End SeqLimit.

(** Item 5.  Decoding an array or a map node against ANY target: if the call succeeds, the number of
    elements / entries / arrived fields delivered for that array or map is at most [c_max_seq].
    ([c_max_seq < 2^64 - 1]: the crate saturates its counter at usize::MAX, see [has_more_saturates].) *)
Theorem de_seq_limit : forall Sc cfg fuel n depth favor force t rs d rs',
  c_max_seq cfg < 2 ^ 64 - 1 ->
  (exists k, n = FArray k \/ n = FMap k) ->
  de Sc cfg fuel n depth favor force t rs = (Ok d, rs') ->
  N.of_nat (elems d) <= c_max_seq cfg.
Proof.
  intros Sc cfg fuel n depth favor force t rs d rs' HM [k Hn] E.
  assert (Hs : is_seq_node n) by (destruct Hn; subst; exact I).
  exact (proj1 (seq_limit_all Sc cfg HM fuel) n depth favor force t Hs rs d rs' E).
Qed.

(** the saturating counter: with the limit at usize::MAX a block that overflows the count is accepted *)
Example has_more_saturates :
  fst (has_more 5 (mkCfg (2 ^ 64 - 1) 64) false (mkBlk 0 (2 ^ 64 - 2) false) (slice_reader [10]))
  = Ok (true, mkBlk 4 (2 ^ 64 - 1) false).
Proof. vm_compute. reflexivity. Qed.

(** the limit triggers: three elements announced against a limit of two, in one block or across blocks,
    with a negative (byte-sized) count, and i64::MIN as a count *)
Example de_seq_limit_triggers :
  let Sc := [FArray 1%nat; FNull] in
  fst (de Sc (mkCfg 2 64) 50 (FArray 1%nat) 5 false false TAny (slice_reader [6; 0])) = Err EData /\
  fst (de Sc (mkCfg 2 64) 50 (FArray 1%nat) 5 false false TAny (slice_reader [4; 2; 0])) = Err EData /\
  fst (de Sc (mkCfg 2 64) 50 (FArray 1%nat) 5 false false TAny (slice_reader [5; 0; 0])) = Err EData /\
  fst (de Sc (mkCfg 2 64) 50 (FArray 1%nat) 5 false false TAny
          (slice_reader [255;255;255;255;255;255;255;255;255;1; 0; 0])) = Err EData /\
  fst (de Sc (mkCfg 2 64) 50 (FArray 1%nat) 5 false false TAny (slice_reader [4; 0]))
    = Ok (DSeq [DUnit; DUnit]).
Proof. vm_compute. repeat split; reflexivity. Qed.

(* ------------------------------------------------------------------ *)
(** * 11. Item 6: the allocation cap of the reader input *)

#[local] Transparent read_slice.

(** chunked mode: a field that is not entirely in the current fill_buf chunk has to be copied; when it is
    larger than max_alloc_size it is refused, before anything is consumed or allocated *)
Theorem de_alloc_limit_chunked : forall n rs c,
  rd_chunks rs = Some c -> blen (buffer rs) < n -> rd_max_alloc rs < n ->
  read_slice n rs = (Err EData, rs).
Proof.
  intros n rs c Hc Hb Hm. unfold read_slice. rewrite Hc.
  destruct (N.leb_spec n (blen (buffer rs))); [lia|].
  apply N.ltb_lt in Hm. rewrite Hm. reflexivity.
Qed.

(** chunked mode, general: whenever read_slice succeeds the bytes were in the buffer or within the cap *)
Theorem read_slice_chunked_ok : forall n rs c r rs',
  rd_chunks rs = Some c -> read_slice n rs = (Ok r, rs') ->
  snd r = None /\ fst r = firstn (N.to_nat n) (rd_inp rs) /\ blen (fst r) = n /\
  (n <= blen (buffer rs) \/ n <= rd_max_alloc rs).
Proof.
  intros n rs c r rs' Hc E. unfold read_slice in E. rewrite Hc in E.
  pose proof (buffer_len_le rs) as Hb.
  destruct (N.leb_spec n (blen (buffer rs))).
  - inversion E; subst; cbn [fst snd]. repeat split; auto. unfold blen in *. rewrite firstn_length. lia.
  - destruct (N.ltb_spec (rd_max_alloc rs) n); [discriminate|].
    destruct (N.ltb_spec (blen (rd_inp rs)) n); [discriminate|].
    inversion E; subst; cbn [fst snd]. repeat split; auto. unfold blen in *. rewrite firstn_length. lia.
Qed.

(** slice mode: read_slice never copies: it returns a borrow of the input at the current offset, and
    never fails because of the cap *)
Theorem read_slice_slice_borrows : forall n rs r rs',
  rd_chunks rs = None -> read_slice n rs = (Ok r, rs') ->
  snd r = Some (rd_pos rs) /\ fst r = firstn (N.to_nat n) (rd_inp rs) /\ blen (fst r) = n /\ rs' = consume n rs.
Proof.
  intros n rs r rs' Hc E. unfold read_slice in E. rewrite Hc in E.
  destruct (N.ltb_spec (blen (rd_inp rs)) n); [discriminate|].
  inversion E; subst; cbn [fst snd]. repeat split; auto. unfold blen in *. rewrite firstn_length. lia.
Qed.

Theorem read_slice_slice_total : forall n rs,
  rd_chunks rs = None -> n <= blen (rd_inp rs) -> is_ok (fst (read_slice n rs)) = true.
Proof.
  intros n rs Hc H. unfold read_slice. rewrite Hc.
  destruct (N.ltb_spec (blen (rd_inp rs)) n); [lia|reflexivity].
Qed.

(** at the level of [de]: a bytes field of 4 bytes announced over 2-byte chunks with a cap of 3 is refused;
    with a cap of 4 it is copied; in slice mode it is borrowed at offset 1 *)
Example de_alloc_limit_triggers :
  fst (de [FBytes] cfg_default 5 FBytes 5 false false TAny (chunked_reader [8; 1; 2; 3; 4] [2] 3)) = Err EData /\
  fst (de [FBytes] cfg_default 5 FBytes 5 false false TAny (chunked_reader [8; 1; 2; 3; 4] [2] 4))
    = Ok (DBytes [1; 2; 3; 4]) /\
  fst (de [FBytes] cfg_default 5 FBytes 5 false false TAny (slice_reader [8; 1; 2; 3; 4]))
    = Ok (DBBytes 1 4 [1; 2; 3; 4]).
Proof. vm_compute. repeat split; reflexivity. Qed.

(* ------------------------------------------------------------------ *)
(** * 12. Item 7: an explicit fuel bound (TAny and TIgnored targets) *)

(** [tot L Q m]: on inputs of at most L bytes, m does not run out of fuel, leaves at most L bytes, and
    its Ok results satisfy Q *)
Definition tot {A} (L : N) (Q : A -> Prop) (m : RM A) : Prop :=
  forall rs, blen (rd_inp rs) <= L ->
    blen (rd_inp (snd (m rs))) <= L /\
    match fst (m rs) with Ok a => Q a | OutOfFuel | Unmodelled => False | _ => True end.

Definition fuel_free {A} (x : result A) : Prop :=
  match x with Ok _ | OutOfFuel | Unmodelled => False | _ => True end.

Lemma tot_bind {A B} L (R : A -> Prop) (Q : B -> Prop) (m : RM A) (k : A -> RM B) :
  tot L R m -> (forall a, R a -> tot L Q (k a)) -> tot L Q (sbind m k).
Proof.
  intros Hm Hk rs Hl. unfold sbind. specialize (Hm rs Hl). destruct (m rs) as [x s'].
  cbn [fst snd] in Hm. destruct Hm as [Hl' Hx].
  destruct x; cbn [fst snd]; try contradiction; auto.
  apply Hk; auto.
Qed.
Lemma tot_ret {A} L (Q : A -> Prop) a : Q a -> tot L Q (sret a).
Proof. intros H rs Hl. unfold sret; cbn. auto. Qed.
Lemma tot_fail {A} L (Q : A -> Prop) (x : result A) : fuel_free x -> tot L Q (rfail x).
Proof. intros H rs Hl. unfold rfail; cbn [fst snd]. split; auto. destruct x; cbn in H; try contradiction; auto. Qed.
Lemma tot_weaken {A} L (R Q : A -> Prop) m : tot L R m -> (forall a, R a -> Q a) -> tot L Q m.
Proof.
  intros Hm HRQ rs Hl. specialize (Hm rs Hl). destruct Hm as [H1 H2]. split; auto.
  destruct (fst (m rs)); auto.
Qed.
Lemma tot_post {A} L (R1 R2 : A -> Prop) m : tot L R1 m -> post R2 m -> tot L (fun a => R1 a /\ R2 a) m.
Proof.
  intros Hm Hp rs Hl. specialize (Hm rs Hl). specialize (Hp rs). destruct (m rs) as [x s'].
  cbn [fst snd] in *. destruct Hm as [H1 H2]. split; auto. destruct x; auto. split; auto. eapply Hp; reflexivity.
Qed.
Lemma tot_of_safe {A} L (R : A -> Prop) m :
  safe R m -> (forall rs, match fst (m rs) with OutOfFuel | Unmodelled => False | _ => True end) -> tot L R m.
Proof.
  intros Hs Hn rs Hl. specialize (Hs rs). specialize (Hn rs). destruct Hs as [Ha Hx].
  apply adv_len in Ha. split; [lia|]. destruct (fst (m rs)); auto.
Qed.

#[local] Transparent read_varint read_exact read_slice skip_bytes take_varint take_exact.

Lemma tot_read_varint L t : tot L tt1 (read_varint t).
Proof.
  apply tot_of_safe; [apply safe_read_varint|]. intro rs. unfold read_varint.
  destruct (rd_chunks rs).
  - destruct (decode_var t (buffer rs)) as [[v k]|]; [exact I|].
    destruct (decode_var t (gather (rd_inp rs))) as [[v k]|]; exact I.
  - destruct (decode_var t (rd_inp rs)) as [[v k]|]; exact I.
Qed.
Lemma tot_read_exact L n : tot L tt1 (read_exact n).
Proof.
  apply tot_of_safe; [apply safe_read_exact|]. intro rs. unfold read_exact.
  destruct (blen (rd_inp rs) <? n); exact I.
Qed.
Lemma tot_read_slice L n : tot L tt1 (read_slice n).
Proof.
  apply tot_of_safe; [apply safe_read_slice|]. intro rs. unfold read_slice.
  destruct (rd_chunks rs).
  - destruct (n <=? blen (buffer rs)); [exact I|]. destruct (rd_max_alloc rs <? n); [exact I|].
    destruct (blen (rd_inp rs) <? n); exact I.
  - destruct (blen (rd_inp rs) <? n); exact I.
Qed.
Lemma tot_skip_bytes L n : tot L tt1 (skip_bytes n).
Proof.
  apply tot_of_safe; [apply safe_skip_bytes|]. intro rs. unfold skip_bytes.
  destruct (blen (rd_inp rs) <? n); exact I.
Qed.
Lemma tot_take_varint L l : tot L tt1 (take_varint l).
Proof.
  apply tot_of_safe; [apply safe_take_varint|]. intro rs. unfold take_varint.
  destruct (decode_i64 _) as [[v k]|]; exact I.
Qed.
Lemma tot_take_exact L l n : tot L tt1 (take_exact l n).
Proof.
  apply tot_of_safe; [apply safe_take_exact|]. intro rs. unfold take_exact.
  destruct (_ <? n); exact I.
Qed.

#[local] Opaque read_varint read_exact read_slice skip_bytes take_varint take_exact.

Create HintDb totdb.
#[local] Hint Resolve tot_read_varint tot_read_exact tot_read_slice tot_skip_bytes tot_take_varint tot_take_exact : totdb.

Ltac tot_prim := solve [ eauto with totdb | eapply tot_weaken; [ solve [eauto with totdb] | intros; exact I ] ].
Ltac tot_step :=
  lazymatch goal with
  | |- tot _ _ (let _ := _ in _) => cbv zeta
  | |- tot _ _ (sret _) => apply tot_ret; solve [ exact I | auto with totdb ]
  | |- tot _ _ (rfail _) => apply tot_fail; exact I
  | |- tot _ _ (sbind _ _) =>
      eapply tot_bind; [ tot_prim | let a := fresh "a" in let Ha := fresh "Ha" in intros a Ha ]
  | |- tot _ _ (if ?c then _ else _) => destruct c
  | |- tot _ _ (match ?x with _ => _ end) => destruct x
  | |- tot _ _ _ => tot_prim
  end.
Ltac tot_walk := repeat tot_step.

#[local] Transparent read_usize read_bool str_event read_ld_bytes read_ld_str finish_decimal read_decimal.
Lemma tot_read_usize L : tot L tt1 read_usize.
Proof. unfold read_usize. tot_walk. Qed.
#[local] Hint Resolve tot_read_usize : totdb.
Lemma tot_read_bool L : tot L tt1 read_bool.
Proof.
  unfold read_bool. eapply tot_bind; [apply tot_read_slice|]. intros [bs o] _. cbn [fst].
  destruct bs as [|b [|c r]]; try (apply tot_fail; exact I);
  destruct b as [|[p|p|]]; try (apply tot_fail; exact I); apply tot_ret; exact I.
Qed.
Lemma tot_str_event L r : tot L tt1 (str_event r).
Proof. unfold str_event. tot_walk. Qed.
#[local] Hint Resolve tot_read_bool tot_str_event : totdb.
Lemma tot_read_ld_bytes L : tot L tt1 read_ld_bytes.
Proof. unfold read_ld_bytes. tot_walk. Qed.
Lemma tot_read_ld_str L : tot L tt1 read_ld_str.
Proof. unfold read_ld_str. tot_walk. Qed.
Lemma tot_finish_decimal L u sc : tot L tt1 (finish_decimal u sc VHStr).
Proof. unfold finish_decimal. cbv zeta. tot_walk. Qed.
#[local] Hint Resolve tot_read_ld_bytes tot_read_ld_str tot_finish_decimal : totdb.
Lemma tot_read_decimal L n : tot L tt1 (read_decimal n VHStr).
Proof. unfold read_decimal. destruct n; tot_walk. Qed.
#[local] Hint Resolve tot_read_decimal : totdb.
Lemma tot_dec_depth L d : tot L (fun d' => d = S d') (dec_depth d).
Proof. unfold dec_depth. destruct d; [apply tot_fail; exact I|apply tot_ret; reflexivity]. Qed.
Lemma tot_node_at L Sc k : tot L (fun n => In n Sc) (node_at Sc k).
Proof.
  unfold node_at, fnode_at. destruct (nth_error Sc k) eqn:E; [|apply tot_fail; exact I].
  apply tot_ret. eapply nth_error_In; eauto.
Qed.
#[local] Opaque read_usize read_bool str_event read_ld_bytes read_ld_str finish_decimal read_decimal dec_depth node_at.

(** a successful varint read consumes at least one byte: this bounds the skip loop of read_block_len *)
Definition stot {A} (L : N) (R : A -> Prop) (m : RM A) : Prop :=
  forall rs, blen (rd_inp rs) <= L ->
    blen (rd_inp (snd (m rs))) <= L /\
    match fst (m rs) with
    | Ok a => R a /\ blen (rd_inp (snd (m rs))) + 1 <= blen (rd_inp rs)
    | OutOfFuel | Unmodelled => False
    | _ => True
    end.

Lemma tot_bind_strict {A B} L (R : A -> Prop) (Q : B -> Prop) (m : RM A) (k : A -> RM B) :
  stot L R m -> (forall a, R a -> 1 <= L -> tot (L - 1) Q (k a)) -> tot L Q (sbind m k).
Proof.
  intros Hm Hk rs Hl. unfold sbind. specialize (Hm rs Hl). destruct (m rs) as [x s'].
  cbn [fst snd] in Hm. destruct Hm as [Hl' Hx].
  destruct x; cbn [fst snd]; try contradiction; auto.
  destruct Hx as [Hr Hs]. assert (H1 : 1 <= L) by lia.
  specialize (Hk a Hr H1 s'). destruct Hk as [K1 K2]; [lia|]. split; [lia|exact K2].
Qed.

Lemma decode_var_consumed1 t src v k : decode_var t src = Some (v, k) -> 1 <= k.
Proof.
  unfold decode_var, decode_i64. intro H.
  destruct (decode_u64 src) as [[n k']|] eqn:E; [|destruct t; discriminate].
  apply decode_u64_consumed in E. destruct E as [E _].
  destruct t; try (inversion H; subst; lia).
  - destruct (Zin I32_MIN I32_MAX (unzigzag n)); inversion H; subst; lia.
  - destruct (n <? 2 ^ 32); inversion H; subst; lia.
Qed.

Lemma consume_len k rs : k <= blen (rd_inp rs) -> blen (rd_inp (consume k rs)) + k = blen (rd_inp rs).
Proof. intro H. unfold consume, blen in *. cbn [rd_inp]. rewrite skipn_length. lia. Qed.

#[local] Transparent read_varint.
Lemma stot_read_varint L t : stot L tt1 (read_varint t).
Proof.
  intros rs Hl. pose proof (tot_read_varint L t rs Hl) as [T1 T2]. split; [exact T1|].
  clear T1 T2. unfold read_varint. destruct (rd_chunks rs).
  - destruct (decode_var t (buffer rs)) as [[v k]|] eqn:Eb.
    + cbn [fst snd]. split; [exact I|].
      pose proof (decode_var_consumed1 _ _ _ _ Eb). apply decode_var_consumed in Eb.
      pose proof (buffer_len_le rs). pose proof (consume_len k rs). lia.
    + pose proof (gather_len_le (rd_inp rs)) as G.
      destruct (decode_var t (gather (rd_inp rs))) as [[v k]|] eqn:Eg; cbn [fst snd]; [|exact I].
      split; [exact I|]. pose proof (decode_var_consumed1 _ _ _ _ Eg). apply decode_var_consumed in Eg.
      pose proof (consume_len (blen (gather (rd_inp rs))) rs). lia.
  - destruct (decode_var t (rd_inp rs)) as [[v k]|] eqn:E; cbn [fst snd]; [|exact I].
    split; [exact I|]. pose proof (decode_var_consumed1 _ _ _ _ E). apply decode_var_consumed in E.
    pose proof (consume_len k rs). lia.
Qed.
#[local] Opaque read_varint.

#[local] Transparent read_block_len has_more.
Lemma tot_read_block_len : forall f ignored L, (N.to_nat L + 1 <= f)%nat ->
  tot L tt1 (read_block_len f ignored).
Proof.
  induction f as [|f IH]; intros ignored L Hf; [lia|].
  cbn [read_block_len]. eapply tot_bind_strict; [apply stot_read_varint|]. intros len _ HL.
  destruct (len <? 0)%Z; [|tot_walk]. destruct ignored; [|tot_walk].
  eapply tot_bind; [apply tot_read_varint|]. intros nb _. destruct (nb <? 0)%Z; [tot_walk|].
  eapply tot_bind; [apply tot_skip_bytes|]. intros _ _. apply IH. lia.
Qed.

Lemma tot_has_more f cfg ignored b L : (N.to_nat L + 1 <= f)%nat ->
  tot L tt1 (has_more f cfg ignored b).
Proof.
  intro Hf. unfold has_more. destruct (b_cur b =? 0); [|tot_walk].
  eapply tot_bind; [apply tot_read_block_len, Hf|]. intros nl _. tot_walk.
Qed.
#[local] Opaque read_block_len has_more.

Definition nfields (n : fnode) : nat := match n with FRecord _ fs => length fs | _ => O end.
Definition max_fields (Sc : fschema) : nat := fold_right (fun n acc => Nat.max (nfields n) acc) O Sc.
Lemma max_fields_in Sc n : In n Sc -> (nfields n <= max_fields Sc)%nat.
Proof.
  induction Sc as [|x Sc IH]; intro H; [contradiction|]. cbn [max_fields fold_right].
  destruct H as [->|H]; [lia|]. specialize (IH H). unfold max_fields in IH. lia.
Qed.

(** the dynamically-typed targets: deserialize_any all the way down / IgnoredAny all the way down *)
Definition simple (t : dtarget) : Prop := t = TAny \/ t = TIgnored.

(** the explicit bound: [loop_width] bounds the iterations of one array / map / record loop (plus the
    constant overhead of one level), one such width per level of the depth budget, plus the input length
    (the block-skipping loop of IgnoredAny consumes at least two bytes per iteration) *)
Definition loop_width (Sc : fschema) (cfg : dcfg) : nat :=
  (Nat.max (N.to_nat (c_max_seq cfg)) (max_fields Sc) + 10)%nat.
Fixpoint depth_work (W d : nat) : nat :=
  match d with O => W | S d' => (W + depth_work W d')%nat end.
Definition work_bound (Sc : fschema) (cfg : dcfg) (depth : nat) (len : N) : nat :=
  (depth_work (loop_width Sc cfg) depth + N.to_nat len)%nat.

Lemma depth_work_closed W d : depth_work W d = (S d * W)%nat.
Proof. induction d as [|d IH]; cbn [depth_work]; [lia|]. rewrite IH. lia. Qed.

Section TotalStep.
Variable Sc : fschema.
Variable cfg : dcfg.
Variable L : N.
Hypothesis HM : c_max_seq cfg < U64M.
Let M := c_max_seq cfg.
Let F := max_fields Sc.
Let W := loop_width Sc cfg.
Variable d : nat.
Let B := match d with O => O | S dd => depth_work W dd end.

Hypothesis IHde : forall dd f n favor force t, d = S dd -> simple t -> (nfields n <= F)%nat ->
  (B + N.to_nat L <= f)%nat -> tot L tt1 (de Sc cfg f n dd favor force t).

Lemma sl_fin : forall fuel dd items ign t b acc, d = S dd -> simple t -> binv M b ->
  (N.to_nat (M - delivered b) + 2 + B + N.to_nat L <= fuel)%nat ->
  tot L tt1 (seq_array_loop Sc cfg fuel items dd ign (PRepeat t) b acc).
Proof.
  induction fuel as [|f IH]; intros dd items ign t b acc Hd Ht Hb Hf; [lia|].
  rewrite seq_array_loop_unfold.
  eapply tot_bind; [apply tot_post; [apply (tot_has_more f cfg ign b L); lia|apply post_has_more; assumption]|].
  intros [more b1] [_ [Hb1 Hd1]]. cbn [fst snd] in *. destruct more; [|apply tot_ret; exact I].
  eapply tot_bind; [apply tot_node_at|]. intros n' Hin.
  eapply tot_bind; [apply IHde; auto; [apply max_fields_in, Hin|lia]|]. intros dv _.
  apply IH; auto. destruct Hb1, Hb. unfold delivered, M in *. lia.
Qed.

Lemma sa_fin : forall fuel dd items ign t, d = S dd -> simple t ->
  (N.to_nat M + 3 + B + N.to_nat L <= fuel)%nat ->
  tot L tt1 (seq_array Sc cfg fuel items dd ign t blk0 false).
Proof.
  intros [|f] dd items ign t Hd Ht Hf; [lia|]. rewrite seq_array_unfold.
  assert (Hl : forall acc, tot L tt1 (seq_array_loop Sc cfg f items dd ign (PRepeat t) blk0 acc)).
  { intro acc. apply sl_fin; auto; [apply binv_blk0|]. unfold delivered, blk0; cbn [b_cur b_nread]. lia. }
  destruct Ht as [-> | ->]; cbn [seq_policy]; (eapply tot_bind; [apply Hl|]); intros [ds b'] _;
    cbn [andb]; apply tot_ret; exact I.
Qed.

Definition src_ok (src : mapsrc) : Prop :=
  match src with
  | MSMap _ dd _ b => d = S dd /\ binv M b
  | MSRecord fs dd => d = S dd /\ (length fs <= F)%nat
  | MSDuration _ _ => True
  end.
Definition room (src : mapsrc) : nat :=
  match src with
  | MSMap _ _ _ b => N.to_nat (M - delivered b)
  | MSRecord fs _ => length fs
  | MSDuration vals _ => length vals
  end.
Definition is_map (src : mapsrc) : bool := match src with MSMap _ _ _ _ => true | _ => false end.

Lemma nk_fin : forall fuel src tk, simple tk -> src_ok src -> (N.to_nat L + 2 <= fuel)%nat ->
  tot L (fun o => match o with
                  | None => True
                  | Some (_, src1) => src_ok src1 /\ src_ready src1 /\ is_map src1 = is_map src /\
                                      (room src1 + (if is_map src then 1 else 0) <= room src)%nat
                  end) (map_next_key Sc cfg fuel src tk).
Proof.
  intros [|f] src tk Htk Hs Hf; [lia|]. rewrite map_next_key_unfold.
  destruct src as [values dd ign b|fields dd|vals idx].
  - destruct Hs as [Hd Hb].
    eapply tot_bind; [apply tot_post; [apply (tot_has_more f cfg ign b L); lia|apply post_has_more; assumption]|].
    intros [more b1] [_ [Hb1 Hd1]]. cbn [fst snd] in *. destruct more; [|apply tot_ret; exact I].
    assert (Hk : tot L tt1 (match tk with
                            | TIgnored => do* _ <- read_ld_bytes; sret DIgnored
                            | _ => read_ld_str
                            end)) by (destruct Htk as [-> | ->]; tot_walk).
    eapply tot_bind; [exact Hk|]. intros k _. apply tot_ret. cbn [src_ok src_ready is_map room].
    split; [split; assumption|]. split; [exact I|]. split; [reflexivity|].
    destruct Hb1, Hb. unfold delivered, M in *. lia.
  - destruct fields as [|[nm k] rest]; [apply tot_ret; exact I|].
    destruct Htk as [-> | ->]; apply tot_ret; cbn [src_ok src_ready is_map room]; repeat split; try apply Hs; auto; lia.
  - destruct vals as [|v rest]; [apply tot_ret; exact I|]. cbv zeta.
    apply tot_ret; cbn [src_ok src_ready is_map room]; repeat split; auto; lia.
Qed.

Lemma nv_fin : forall fuel src tv, simple tv -> src_ok src -> src_ready src ->
  (1 + B + N.to_nat L <= fuel)%nat ->
  tot L (fun r => src_ok (snd r) /\ is_map (snd r) = is_map src /\
                  (room (snd r) + (if is_map src then 0 else 1) <= room src)%nat)
      (map_next_value Sc cfg fuel src tv).
Proof.
  intros [|f] src tv Htv Hs Hr Hf; [lia|]. rewrite map_next_value_unfold.
  destruct src as [values dd ign b|fields dd|vals idx].
  - destruct Hs as [Hd Hb].
    eapply tot_bind; [apply tot_node_at|]. intros n' Hin.
    eapply tot_bind; [apply IHde; auto; [apply max_fields_in, Hin|lia]|]. intros dv _.
    apply tot_ret. cbn [fst snd src_ok is_map room]. split; [split; assumption|]. split; [reflexivity|lia].
  - destruct fields as [|[nm k] rest]; [contradiction|]. destruct Hs as [Hd Hl]. cbn [length] in Hl.
    eapply tot_bind; [apply tot_node_at|]. intros n' Hin.
    eapply tot_bind; [apply IHde; auto; [apply max_fields_in, Hin|lia]|]. intros dv _.
    apply tot_ret. cbn [fst snd src_ok is_map room length]. repeat split; auto; lia.
  - destruct vals as [|v rest]; [contradiction|].
    apply tot_ret. cbn [fst snd src_ok is_map room length]. repeat split; auto; lia.
Qed.

Lemma ml_fin : forall fuel src tk tv acc, simple tk -> simple tv -> src_ok src ->
  (room src + 3 + B + N.to_nat L <= fuel)%nat ->
  tot L tt1 (map_loop Sc cfg fuel src tk tv acc).
Proof.
  induction fuel as [|f IH]; intros src tk tv acc Htk Htv Hs Hf; [lia|].
  rewrite map_loop_unfold.
  eapply tot_bind; [apply nk_fin; auto; lia|]. intros [[k src1]|] Hk; [|apply tot_ret; exact I].
  destruct Hk as (Hs1 & Hr1 & Hm1 & Hroom1).
  eapply tot_bind; [apply nv_fin; auto; lia|]. intros [v src2] (Hs2 & Hm2 & Hroom2). cbn [fst snd] in *.
  apply IH; auto. rewrite Hm1 in Hroom2. destruct (is_map src); lia.
Qed.

Lemma mv_fin : forall fuel src t, simple t -> src_ok src ->
  (room src + 4 + B + N.to_nat L <= fuel)%nat ->
  tot L tt1 (map_visit Sc cfg fuel src t).
Proof.
  intros [|f] src t Ht Hs Hf; [lia|]. rewrite map_visit_unfold.
  destruct Ht as [-> | ->]; cbn [map_policy];
    (eapply tot_bind; [apply ml_fin; unfold simple; auto; lia|]); intros kvs _; apply tot_ret; exact I.
Qed.

Lemma W_ge : (N.to_nat M + 10 <= W)%nat /\ (F + 10 <= W)%nat.
Proof. unfold W, loop_width, M, F. lia. Qed.

Lemma any_fin : forall f n t, simple t -> (nfields n <= F)%nat -> (W + B + N.to_nat L <= S f)%nat ->
  tot L tt1 (de_any Sc cfg f n d t).
Proof.
  intros f n t Ht Hn Hf. pose proof W_ge as [HW1 HW2]. unfold de_any. destruct n; try solve [tot_walk].
  - (* array *)
    eapply tot_bind; [apply tot_dec_depth|]. intros dd Hd. apply sa_fin; auto. lia.
  - (* map *)
    eapply tot_bind; [apply tot_dec_depth|]. intros dd Hd. apply mv_fin; auto.
    + split; [exact Hd|apply binv_blk0].
    + cbn [room]. unfold delivered, blk0; cbn [b_cur b_nread]. lia.
  - (* union *)
    eapply tot_bind; [apply tot_read_usize|]. intros disc _.
    destruct (nth_N variants disc); [|apply tot_fail; exact I].
    eapply tot_bind; [apply tot_dec_depth|]. intros dd Hd.
    eapply tot_bind; [apply tot_node_at|]. intros n' Hin.
    apply IHde; auto; [apply max_fields_in, Hin|lia].
  - (* record *)
    cbn [nfields] in Hn.
    eapply tot_bind; [apply tot_dec_depth|]. intros dd Hd. apply mv_fin; auto.
    + split; [exact Hd|exact Hn].
    + cbn [room]. lia.
  - (* duration *)
    eapply tot_bind; [apply tot_read_exact|]. intros bs _. apply mv_fin; auto.
    + exact I.
    + cbn [room length]. lia.
Qed.

Lemma de_fin_step : forall fuel n favor force t, simple t -> (nfields n <= F)%nat ->
  (W + B + N.to_nat L <= fuel)%nat -> tot L tt1 (de Sc cfg fuel n d favor force t).
Proof.
  intros [|f] n favor force t Ht Hn Hf; [pose proof W_ge; lia|].
  rewrite de_unfold. destruct force; [apply any_fin; auto|].
  destruct Ht as [-> | ->]; [apply any_fin; unfold simple; auto|].
  pose proof W_ge as [HW1 HW2].
  destruct n; try solve [apply any_fin; unfold simple; auto]; try solve [tot_walk].
  - eapply tot_bind; [apply tot_dec_depth|]. intros dd Hd. apply sa_fin; unfold simple; auto. lia.
  - eapply tot_bind; [apply tot_dec_depth|]. intros dd Hd. apply mv_fin; unfold simple; auto.
    + split; [exact Hd|apply binv_blk0].
    + cbn [room]. unfold delivered, blk0; cbn [b_cur b_nread]. lia.
Qed.

End TotalStep.

Lemma de_fin Sc cfg L : c_max_seq cfg < U64M ->
  forall d fuel n favor force t, simple t -> (nfields n <= max_fields Sc)%nat ->
  (depth_work (loop_width Sc cfg) d + N.to_nat L <= fuel)%nat ->
  tot L tt1 (de Sc cfg fuel n d favor force t).
Proof.
  intro HM. induction d as [|d IH]; intros fuel n favor force t Ht Hn Hf.
  - apply (de_fin_step Sc cfg L HM 0%nat); auto; try (cbn [depth_work] in Hf; lia);
      try (intros dd f0 n0 fv fc t0 Hd; discriminate Hd).
  - apply (de_fin_step Sc cfg L HM (S d)); auto; try (cbn [depth_work] in Hf; lia).
    intros dd f0 n0 fv fc t0 Hd Ht0 Hn0 Hf0. injection Hd as <-. apply IH; auto.
Qed.

(** Item 7.  With at least [work_bound] fuel -- a function of the schema (its widest record), the two
    limits and the input length, NOT of any number written in the input -- decoding against TAny or
    TIgnored terminates: the result is not OutOfFuel.  By [de_fuel_mono] the outcome is then the same
    for every larger amount of fuel. *)
Theorem de_total_any : forall Sc cfg fuel n depth favor force t rs,
  c_max_seq cfg < 2 ^ 64 - 1 -> t = TAny \/ t = TIgnored ->
  (nfields n <= max_fields Sc)%nat ->
  (work_bound Sc cfg depth (blen (rd_inp rs)) <= fuel)%nat ->
  fst (de Sc cfg fuel n depth favor force t rs) <> OutOfFuel /\
  fst (de Sc cfg fuel n depth favor force t rs) <> Unmodelled.
Proof.
  intros Sc cfg fuel n depth favor force t rs HM Ht Hn Hf.
  destruct (de_fin Sc cfg (blen (rd_inp rs)) HM depth fuel n favor force t Ht Hn Hf rs) as [_ H]; [lia|].
  split; intro E; rewrite E in H; exact H.
Qed.

(** The informal property for the dynamically-typed targets: Ok or Err, nothing else. *)
Theorem de_any_ok_or_err : forall Sc cfg fuel n depth favor force t rs,
  schema_wf Sc = true -> In n Sc ->
  c_max_seq cfg < 2 ^ 64 - 1 -> t = TAny \/ t = TIgnored ->
  (work_bound Sc cfg depth (blen (rd_inp rs)) <= fuel)%nat ->
  (exists d, fst (de Sc cfg fuel n depth favor force t rs) = Ok d) \/
  (exists e, fst (de Sc cfg fuel n depth favor force t rs) = Err e).
Proof.
  intros Sc cfg fuel n depth favor force t rs Hwf Hin HM Ht Hf.
  assert (Hn : node_wf Sc n = true).
  { unfold schema_wf in Hwf. apply andb_prop in Hwf. destruct Hwf as [_ H]. rewrite forallb_forall in H. auto. }
  pose proof (de_no_panic Sc cfg fuel n depth favor force t rs) as NP.
  destruct (de_total_any Sc cfg fuel n depth favor force t rs HM Ht (max_fields_in Sc n Hin) Hf) as [T1 T2].
  destruct (fst (de Sc cfg fuel n depth favor force t rs)) as [d|e|p| |].
  - left; eauto.
  - right; eauto.
  - exfalso. eapply NP; eauto.
  - congruence.
  - congruence.
Qed.

Corollary de_datum_any_ok_or_err : forall Sc cfg fuel t rs,
  schema_wf Sc = true -> c_max_seq cfg < 2 ^ 64 - 1 -> t = TAny \/ t = TIgnored ->
  (work_bound Sc cfg (c_depth cfg) (blen (rd_inp rs)) <= fuel)%nat ->
  (exists d r, de_datum fuel Sc cfg t rs = Ok (d, r)) \/ (exists e, de_datum fuel Sc cfg t rs = Err e).
Proof.
  intros Sc cfg fuel t rs Hwf HM Ht Hf. unfold de_datum, fnode_at.
  destruct (nth_error Sc 0) as [root|] eqn:E.
  - apply nth_error_In in E.
    destruct (de_any_ok_or_err Sc cfg fuel root (c_depth cfg) false false t rs Hwf E HM Ht Hf) as [[d H]|[e H]];
      destruct (de Sc cfg fuel root (c_depth cfg) false false t rs) as [x st]; cbn [fst] in H; subst x; eauto.
  - destruct Sc; [discriminate Hwf|discriminate E].
Qed.

(** the bound in closed form *)
Lemma work_bound_closed Sc cfg depth len :
  work_bound Sc cfg depth len =
  (S depth * (Nat.max (N.to_nat (c_max_seq cfg)) (max_fields Sc) + 10) + N.to_nat len)%nat.
Proof. unfold work_bound, loop_width. rewrite depth_work_closed. reflexivity. Qed.

(** zero-byte elements: the fuel needed is not bounded by the input length alone (2 bytes of input,
    five elements, fuel 7 is not enough; the bound is) *)
Example de_total_needs_limit_not_length :
  let Sc := [FArray 1%nat; FNull] in
  fst (de Sc (mkCfg 5 4) 7 (FArray 1%nat) 4 false false TAny (slice_reader [10; 0])) = OutOfFuel /\
  work_bound Sc (mkCfg 5 4) 4 2 = 77%nat /\
  fst (de Sc (mkCfg 5 4) 77 (FArray 1%nat) 4 false false TAny (slice_reader [10; 0]))
    = Ok (DSeq [DUnit; DUnit; DUnit; DUnit; DUnit]).
Proof. vm_compute. repeat split; reflexivity. Qed.

(** two sufficient amounts of fuel give the same answer and the same final reader state *)
Corollary de_fuel_agree : forall Sc cfg f1 f2 n depth favor force t rs,
  fst (de Sc cfg f1 n depth favor force t rs) <> OutOfFuel ->
  fst (de Sc cfg f2 n depth favor force t rs) <> OutOfFuel ->
  de Sc cfg f1 n depth favor force t rs = de Sc cfg f2 n depth favor force t rs.
Proof.
  intros Sc cfg f1 f2 n depth favor force t rs H1 H2.
  destruct (Nat.le_ge_cases f1 f2) as [Hle|Hle].
  - symmetry. apply de_fuel_mono_le; assumption.
  - apply de_fuel_mono_le; assumption.
Qed.

(** every target, every input: the only possible outcomes on a well-formed schema *)
Corollary de_outcome : forall Sc cfg fuel n depth favor force t rs,
  schema_wf Sc = true -> node_wf Sc n = true ->
  match fst (de Sc cfg fuel n depth favor force t rs) with
  | Ok _ | Err _ | OutOfFuel | Unmodelled => True
  | Panic _ => False
  end.
Proof.
  intros Sc cfg fuel n depth favor force t rs H1 H2.
  pose proof (de_no_panic Sc cfg fuel n depth favor force t rs) as NP.
  destruct (fst (de Sc cfg fuel n depth favor force t rs)); auto. eapply NP; eauto.
Qed.

(** the PUnreachable site of read_decimal exists but [de] only calls it on decimal nodes *)
Example read_decimal_unreachable_site :
  fst (read_decimal FInt VHStr (slice_reader [2])) = Panic PUnreachable.
Proof. vm_compute. reflexivity. Qed.

(** chunked mode: a truncated input is an Err, the reader stopped inside the input (3 of 3 bytes read) *)
Example de_chunked_truncated :
  let r := de [FString] cfg_default 5 FString 5 false false TAny (chunked_reader [10; 97; 98] [1] 100) in
  fst r = Err EIo /\ rd_inp (snd r) = [] /\ rd_pos (snd r) = 3.
Proof. vm_compute. repeat split; reflexivity. Qed.

(* ------------------------------------------------------------------ *)
(** * 13. Satisfiability of the hypotheses *)

Example hyps_satisfiable :
  let Sc := [FRecord (mkName [114] None) [([97], 1%nat); ([98], 2%nat)]; FArray 3%nat;
             FUnion [4; 3]%nat; FLong; FNull] in
  schema_wf Sc = true /\ schema_keys_okb Sc = true /\ c_max_seq cfg_default < 2 ^ 64 - 1 /\
  de_datum 200 Sc cfg_default TAny (slice_reader [4; 2; 4; 0; 2; 6]) =
    Ok (DMap [(DStr [97], DSeq [DInt true W64 1; DInt true W64 2]);
              (DStr [98], DInt true W64 3)], 0).
Proof. vm_compute. repeat split; reflexivity. Qed.

Print Assumptions de_no_panic.
Print Assumptions de_datum_no_panic.
Print Assumptions de_fuel_mono.
Print Assumptions de_consumes_prefix.
Print Assumptions de_consumes_prefix_slice.
Print Assumptions de_depth_zero.
Print Assumptions de_depth_zero_err.
Print Assumptions de_depth_limit.
Print Assumptions de_seq_limit.
Print Assumptions seq_array_loop_le.
Print Assumptions has_more_over_limit.
Print Assumptions de_alloc_limit_chunked.
Print Assumptions read_slice_slice_borrows.
Print Assumptions de_total_any.
Print Assumptions de_fuel_agree.
Print Assumptions de_outcome.
Print Assumptions de_any_ok_or_err.
Print Assumptions de_datum_any_ok_or_err.
