(** C07: the schema parser resolves names as the specification prescribes.

    [spec_valid_backward j]  (decidable) : the document has the shape the derived Deserialize
       accepts ([raw_of_json j] is Ok), its fixed sizes are canonical decimal tokens, and the
       tree is valid by the specification's rules ([rv]): fullnames by [spec_fullname], every
       reference names a record/enum/fixed whose definition has already started, no fullname is
       defined twice, required attributes present.
    [C07_resolve_backward]   : for such documents without an unconditional record cycle the parser
       succeeds and the canonical form of the parsed graph is the specification's [pcf] of the
       document: every reference resolved to the type the specification designates.
    [C07_reject_*]           : rejection theorems.
    (Stages: proofs/ParseBridge.v, proofs/ParseLayout.v, proofs/ParseCf.v.) *)
From Coq Require Import NArith ZArith List Lia Bool Arith String ZifyN ZifyBool ZifyNat Relations.
Import ListNotations.
Require Import Base Schema Text Json Parse CanonicalForm Rabin CrcSpec.
Require Import PcfSpec SchemaTextProofs CanonicalFormProofs RabinProofs.
Require Import ParseResolveDefs ParseBridge ParseLayout ParseCf.
Require Export ParseRejectProofs.
Open Scope N_scope.
Notation length := List.length (only parsing).

Arguments N.eqb : simpl never.
Arguments N.leb : simpl never.
Arguments N.ltb : simpl never.
Arguments N.add : simpl never.

(* ------------------------------------------------------------------ *)
(** * validity and the designated graph *)

Definition spec_valid_backward (j : json) : bool :=
  sizes_ok j &&
  match raw_of_json j with
  | Ok r => match rv r None [] with Some _ => true | None => false end
  | _ => false
  end.

(* the node vector the specification designates for the document: the definitions in document
   order, every reference pointing at the node of the definition it names *)
Definition graph_of (j : json) : schema_mut :=
  match raw_of_json j with
  | Ok r => map (fix_node []) (snd (fst (lay r None [] O)))
  | _ => []
  end.

Lemma lay_key_top : forall r enc E E' nm n0, rv r enc [] = Some E' -> E = E' \/ True ->
  fst (fst (lay r enc nm n0)) = pk_node n0.
Proof.
  intros r enc E E' nm n0 Hrv _. destruct r; cbn [lay fst]; try reflexivity.
  - cbn [rv elook] in Hrv. discriminate.
  - destruct ty; try reflexivity; [destruct items|destruct values|destruct fields]; reflexivity.
Qed.

Lemma nth_repeat_zero : forall n k, nth k (repeat O n) O = O.
Proof. induction n as [|n IH]; intros [|k]; cbn [repeat nth]; auto. Qed.

Lemma resolve_core : forall j r E' fuel,
  raw_of_json j = Ok r -> sizes_ok j = true -> rv r None [] = Some E' -> (jsize j < fuel)%nat ->
  let g := map (fix_node []) (snd (fst (lay r None [] O))) in
  canonical_form fuel g = Ok (pcf fuel None j) /\
  parse_schema j = match check_for_cycles g with Some _ => Ok g | None => Err EData end.
Proof.
  intros j r E' fuel Hr Hs Hrv Hf g.
  assert (Hns : ns_ok None) by (left; reflexivity).
  split.
  - pose proof (cf_lay r None [] O [] E' fuel) as C.
    destruct (lay r None [] O) as [[k nds] nm'] eqn:EL.
    assert (Hk : k = pk_node O).
    { pose proof (lay_key_top r None [] E' [] O Hrv (or_intror I)) as K. rewrite EL in K. exact K. }
    cbn [fst snd] in g.
    specialize (C k nds nm' g (cf_init g) Hrv).
    destruct C as (st' & R & O' & _).
    + pose proof (rdepth_le (S (jsize j)) j r ltac:(lia) Hr). lia.
    + reflexivity.
    + intros i x Hx. cbn [Nat.add]. unfold g. apply map_nth_error. exact Hx.
    + constructor.
    + exact Hns.
    + cbn [cf_init cf_written]. split; [apply repeat_length|]. intros i _. rewrite nth_repeat_false. reflexivity.
    + cbn [cf_init cf_being]. intros k0 _. apply nth_repeat_zero.
    + unfold canonical_form. subst k. rewrite fix_key_node in R. rewrite R. cbn [rbind].
      rewrite O'. cbn [cf_init cf_out app]. f_equal. symmetry.
      eapply bridge; [exact Hf|exact Hr|exact Hs|exact Hrv].
  - unfold parse_schema. rewrite Hr. cbn [rbind].
    destruct (reg_lay r None (mkP [] [] []) [] E' Hrv (Forall2_nil _) Hns eq_refl) as [R _].
    cbv zeta in R. cbn [p_names p_nodes List.length app] in R. rewrite R. cbn [rbind fst snd p_unresolved p_nodes rmap_list].
    reflexivity.
Qed.

Lemma spec_valid_backward_inv : forall j, spec_valid_backward j = true ->
  exists r E', raw_of_json j = Ok r /\ sizes_ok j = true /\ rv r None [] = Some E'.
Proof.
  intros j H. unfold spec_valid_backward in H. apply andb_prop in H. destruct H as [Hs H].
  destruct (raw_of_json j) as [r| | | |]; try discriminate.
  destruct (rv r None []) as [E'|] eqn:E; [|discriminate]. eauto.
Qed.

(** the graph-independent part: the canonical form of the designated graph is the
    specification's Parsing Canonical Form, and the parser returns exactly that graph unless
    its cycle check fails *)
Theorem C07_resolve_backward_graph : forall j fuel,
  spec_valid_backward j = true -> (jsize j < fuel)%nat ->
  canonical_form fuel (graph_of j) = Ok (pcf fuel None j) /\
  parse_schema j = match check_for_cycles (graph_of j) with Some _ => Ok (graph_of j) | None => Err EData end.
Proof.
  intros j fuel Hv Hf. destruct (spec_valid_backward_inv j Hv) as (r & E' & Hr & Hs & Hrv).
  unfold graph_of. rewrite Hr. exact (resolve_core j r E' fuel Hr Hs Hrv Hf).
Qed.

(** C07_resolve (documents whose references follow the start of the definition) *)
Theorem C07_resolve_backward : forall j fuel,
  spec_valid_backward j = true -> ~ rec_cycle (graph_of j) -> (jsize j < fuel)%nat ->
  exists g, parse_schema j = Ok g /\ canonical_form fuel g = Ok (pcf fuel None j).
Proof.
  intros j fuel Hv Hc Hf. destruct (C07_resolve_backward_graph j fuel Hv Hf) as [C P].
  exists (graph_of j). split; [|exact C]. rewrite P.
  destruct (check_for_cycles (graph_of j)) eqn:E; [reflexivity|].
  exfalso. apply Hc. apply cyc_none_cycle. exact E.
Qed.

(** with the exact cycle check: a valid document is accepted iff its designated graph has no
    record cycle, and then the parsed graph is the designated one *)
Theorem C07_resolve_backward_iff : forall j,
  spec_valid_backward j = true ->
  (rec_cycle (graph_of j) -> parse_schema j = Err EData) /\
  (~ rec_cycle (graph_of j) -> parse_schema j = Ok (graph_of j)).
Proof.
  intros j Hv. destruct (C07_resolve_backward_graph j (S (jsize j)) Hv ltac:(lia)) as [_ P].
  split; intro Hc; rewrite P.
  - apply check_for_cycles_exact in Hc. rewrite Hc. reflexivity.
  - destruct (check_for_cycles (graph_of j)) eqn:E; [reflexivity|].
    exfalso. apply Hc. apply cyc_none_cycle. exact E.
Qed.

(** C07_reject, cycles: a record that unconditionally contains itself *)
Theorem C07_reject_cycle : forall j,
  spec_valid_backward j = true -> rec_cycle (graph_of j) -> parse_schema j = Err EData.
Proof. intros j Hv. apply C07_resolve_backward_iff. exact Hv. Qed.

(* the record of [doc_self] below has itself as a field *)
Example doc_self_cycle_shape :
  graph_of (JObj [(lit "type", JStr (lit "record")); (lit "name", JStr (lit "R"));
        (lit "fields", JArr [JObj [(lit "name", JStr (lit "f")); (lit "type", JStr (lit "R"))]])])
  = [mkNode (RRecord (mkName (lit "R") None) [(lit "f", O)]) None].
Proof. vm_compute. reflexivity. Qed.

(** C08 on parsed schemas: the fingerprint is CRC-64-AVRO of the specification's canonical form *)
Corollary C08_fingerprint_parsed : forall j fuel,
  spec_valid_backward j = true -> ~ rec_cycle (graph_of j) -> (jsize j < fuel)%nat ->
  exists g, parse_schema j = Ok g /\ fingerprint fuel g = Ok (le64 (crc64_avro (pcf fuel None j))).
Proof.
  intros j fuel Hv Hc Hf. destruct (C07_resolve_backward j fuel Hv Hc Hf) as (g & P & C).
  exists g. split; [exact P|]. apply fingerprint_is_crc. exact C.
Qed.

(* the cycle hypothesis cannot be dropped: a valid document that the parser rejects *)
Definition doc_self : json :=
  JObj [(lit "type", JStr (lit "record")); (lit "name", JStr (lit "R"));
        (lit "fields", JArr [JObj [(lit "name", JStr (lit "f")); (lit "type", JStr (lit "R"))]])].
Example C07_resolve_needs_acyclic :
  spec_valid_backward doc_self = true /\ parse_schema doc_self = Err EData.
Proof. split; vm_compute; reflexivity. Qed.

(* ------------------------------------------------------------------ *)
(** * attributes of the definitions in the parsed graph (priority 4)

    By [reg_lay]/[C07_resolve_backward_graph] the parsed graph is [lay] (keys halved by
    [fix_node]); the node [lay] puts at the index of a definition carries the document's
    attributes: *)

Lemma lay_fields_names : forall F fl nm n, map fst (fst (fst (lay_fields F fl nm n))) = map fst fl.
Proof.
  intros F. induction fl as [|f t IH]; intros nm n; cbn [lay_fields fst snd map]; [reflexivity|].
  f_equal. apply IH.
Qed.

Theorem lay_record_node : forall lg nm ns fl syms items values sz pr sc enc nmm n0,
  exists ks rest,
    snd (fst (lay (RwObject TyRecord lg (Some nm) ns (Some fl) syms items values sz pr sc) enc nmm n0))
    = mkNode (RRecord (name_of_key (key_of_def enc nm ns)) ks) (the_logical lg pr sc) :: rest /\
    map fst ks = map fst fl.                       (* field names, in document order *)
Proof.
  intros. cbn [lay fst snd]. do 2 eexists. split; [reflexivity|]. apply lay_fields_names.
Qed.

Theorem lay_enum_node : forall lg nm ns fields sl items values sz pr sc enc nmm n0,
  snd (fst (lay (RwObject TyEnum lg (Some nm) ns fields (Some sl) items values sz pr sc) enc nmm n0))
  = [mkNode (REnum (name_of_key (key_of_def enc nm ns)) sl) (the_logical lg pr sc)].
Proof. reflexivity. Qed.

Theorem lay_fixed_node : forall lg nm ns fields syms items values n pr sc enc nmm n0,
  snd (fst (lay (RwObject TyFixed lg (Some nm) ns fields syms items values (Some n) pr sc) enc nmm n0))
  = [mkNode (RFixed (name_of_key (key_of_def enc nm ns)) n) (the_logical lg pr sc)].
Proof. reflexivity. Qed.

(* the logical type and its parameters *)
Theorem the_logical_decimal : forall p sc,
  the_logical (Some (lit "decimal")) (Some p) sc = Some (LDecimal (match sc with Some s => s | None => 0 end) p).
Proof. intros. reflexivity. Qed.

(* the name of the node is the specification's fullname and namespace *)
Theorem node_name_spec : forall enc nm ns,
  nm_full (name_of_key (key_of_def enc nm ns)) = snd (spec_fullname enc nm ns) /\
  name_namespace (name_of_key (key_of_def enc nm ns)) = fst (spec_fullname enc nm ns).
Proof. intros. split; [apply key_of_def_spec|]. rewrite name_of_key_namespace. apply key_of_def_spec. Qed.

(* ------------------------------------------------------------------ *)
(** * forward references (priority 3): the late-resolution pass

    The specification requires a name to be defined before it is used, so documents with
    forward references are outside [spec_valid_backward]; PcfSpec defines no hoisting. The parser
    accepts them: an unresolved reference gets the key [pk_late i], and after the whole document
    has been registered it is replaced by the node registered under the reference's fullname. *)

Lemma fix_key_late : forall res i, fix_key res (pk_late i) = nth i res O.
Proof.
  intros res i. unfold fix_key, pk_late.
  assert (E : Nat.even (2 * i + 1) = false).
  { rewrite Nat.add_1_r, Nat.even_succ, <- Nat.negb_even, Nat.even_mul. reflexivity. }
  rewrite E. clear E. f_equal.
  replace (2 * i + 1)%nat with (S (i + i)) by lia.
  induction i as [|i IH]; [reflexivity|].
  replace (S (S i + S i)) with (S (S (S (i + i)))) by lia.
  change (Nat.div2 (S (S (S (i + i))))) with (S (Nat.div2 (S (i + i)))). f_equal. exact IH.
Qed.

Theorem late_resolution : forall (names : list (namekey * nat)) unresolved res i k,
  rmap_list (fun k => match assoc_key k names with Some idx => Ok idx | None => Err EData end) unresolved = Ok res ->
  nth_error unresolved i = Some k ->
  exists idx, assoc_key k names = Some idx /\ fix_key res (pk_late i) = idx.
Proof.
  intros names unresolved res i k H Hk. rewrite fix_key_late.
  revert res i H Hk. induction unresolved as [|x t IH]; intros res i H Hk; [destruct i; discriminate|].
  cbn [rmap_list] in H. apply rbind_ok_inv in H. destruct H as (y & Hy & H).
  apply rbind_ok_inv in H. destruct H as (r' & Hr' & H). inversion H. subst res.
  destruct i as [|i]; cbn [nth_error nth] in *.
  - inversion Hk. subst x. destruct (assoc_key k names); [|discriminate]. inversion Hy. eauto.
  - eapply IH; eassumption.
Qed.

(* the key [k] of a reference is the specification's fullname of the reference, and the entry of the
   name map found for it was registered under the specification's fullname of a definition:
   [full_ref_spec], [full_def_spec], and keys with equal fullnames are equal ([full_inj]) *)

(* ------------------------------------------------------------------ *)
(** * examples *)

Definition S_ (s : string) : json := JStr (lit s).
Definition O_ (l : list (string * json)) : json := JObj (map (fun p => (lit (fst p), snd p)) l).

(* dotted name (com.acme.Outer), namespace inherited through array / map / union (E, F), the
   namespace attribute "" (G, and H inside it), dotted and leading-dot references *)
Definition doc_names : json :=
  O_ [("type", S_ "record"); ("name", S_ "com.acme.Outer"); ("fields", JArr [
    O_ [("name", S_ "a"); ("type", O_ [("type", S_ "enum"); ("name", S_ "E"); ("symbols", JArr [S_ "X"; S_ "Y"])])];
    O_ [("name", S_ "b"); ("type", O_ [("type", S_ "array"); ("items",
          O_ [("type", S_ "fixed"); ("name", S_ "F"); ("size", JNum (lit "4"))])])];
    O_ [("name", S_ "c"); ("type", O_ [("type", S_ "map"); ("values", JArr [S_ "null";
          O_ [("type", S_ "record"); ("name", S_ "G"); ("namespace", S_ ""); ("fields", JArr [
                O_ [("name", S_ "e"); ("type", S_ "com.acme.E")];
                O_ [("name", S_ "h"); ("type", O_ [("type", S_ "fixed"); ("name", S_ "H"); ("size", JNum (lit "2"))])]])]])])];
    O_ [("name", S_ "d"); ("type", JArr [S_ "null"; S_ "E"; S_ "F"; S_ "Outer"; S_ ".G"; S_ ".H"])]])]%string.

Example doc_names_valid : spec_valid_backward doc_names = true.
Proof. vm_compute. reflexivity. Qed.

Example doc_names_resolves :
  exists g, parse_schema doc_names = Ok g /\
    canonical_form 100 g = Ok (pcf 100 None doc_names) /\
    pcf 100 None doc_names = lit "{""name"":""com.acme.Outer"",""type"":""record"",""fields"":[{""name"":""a"",""type"":{""name"":""com.acme.E"",""type"":""enum"",""symbols"":[""X"",""Y""]}},{""name"":""b"",""type"":{""type"":""array"",""items"":{""name"":""com.acme.F"",""type"":""fixed"",""size"":4}}},{""name"":""c"",""type"":{""type"":""map"",""values"":[""null"",{""name"":""G"",""type"":""record"",""fields"":[{""name"":""e"",""type"":""com.acme.E""},{""name"":""h"",""type"":{""name"":""H"",""type"":""fixed"",""size"":2}}]}]}},{""name"":""d"",""type"":[""null"",""com.acme.E"",""com.acme.F"",""com.acme.Outer"",""G"",""H""]}]}".
Proof. eexists. split; [vm_compute; reflexivity|]. split; vm_compute; reflexivity. Qed.

(* the same through the theorem (the graph has no record cycle: the parser's own check passes) *)
Example doc_names_by_theorem :
  canonical_form 100 (graph_of doc_names) = Ok (pcf 100 None doc_names).
Proof. apply C07_resolve_backward_graph; [exact doc_names_valid|vm_compute; lia]. Qed.

(* forward reference: accepted by the parser (an extension of the specification), resolved to the
   node of the later definition; the canonical form then spells the definition at its FIRST USE,
   which is the Parsing Canonical Form of the document with the definition hoisted, not of the
   document as written *)
Definition doc_fwd : json :=
  O_ [("type", S_ "record"); ("name", S_ "A"); ("fields", JArr [
    O_ [("name", S_ "f"); ("type", S_ "B")];
    O_ [("name", S_ "g"); ("type", O_ [("type", S_ "enum"); ("name", S_ "B"); ("symbols", JArr [S_ "X"])])]])]%string.
Definition doc_fwd_hoisted : json :=
  O_ [("type", S_ "record"); ("name", S_ "A"); ("fields", JArr [
    O_ [("name", S_ "f"); ("type", O_ [("type", S_ "enum"); ("name", S_ "B"); ("symbols", JArr [S_ "X"])])];
    O_ [("name", S_ "g"); ("type", S_ "B")]])]%string.

Example doc_fwd_parses :
  spec_valid_backward doc_fwd = false /\
  parse_schema doc_fwd =
    Ok [mkNode (RRecord (mkName (lit "A") None) [(lit "f", 1%nat); (lit "g", 1%nat)]) None;
        mkNode (REnum (mkName (lit "B") None) [lit "X"]) None].
Proof. split; vm_compute; reflexivity. Qed.

Example doc_fwd_canonical :
  exists g, parse_schema doc_fwd = Ok g /\
    canonical_form 100 g = Ok (pcf 100 None doc_fwd_hoisted) /\
    canonical_form 100 g <> Ok (pcf 100 None doc_fwd).
Proof. eexists. split; [vm_compute; reflexivity|]. split; [vm_compute; reflexivity|vm_compute; discriminate]. Qed.

(* refuted variants: documents the specification allows and the parser rejects *)
(* "type" given as a nested schema object *)
Example C07_nested_type_refuted :
  is_err (parse_schema (O_ [("type", O_ [("type", S_ "array"); ("items", S_ "int")])]%string)).
Proof. vm_compute. exact I. Qed.
(* a "name" attribute on an unnamed type takes part in the duplicate check *)
Example C07_name_on_array_refuted :
  is_err (parse_schema (JArr [O_ [("type", S_ "array"); ("name", S_ "x"); ("items", S_ "int")];
                              O_ [("type", S_ "enum"); ("name", S_ "x"); ("symbols", JArr [])]])%string).
Proof. vm_compute. exact I. Qed.
(* a fixed size that is not in canonical decimal form parses, but the canonical form prints the number *)
Example C07_size_token_refuted :
  let j := O_ [("type", S_ "fixed"); ("name", S_ "F"); ("size", JNum (lit "04"))]%string in
  exists g, parse_schema j = Ok g /\ canonical_form 10 g <> Ok (pcf 10 None j).
Proof. eexists. split; [vm_compute; reflexivity|vm_compute; discriminate]. Qed.

Print Assumptions C07_resolve_backward_graph.
Print Assumptions C07_resolve_backward.
Print Assumptions C08_fingerprint_parsed.
Print Assumptions C07_reject_missing.
Print Assumptions C07_reject_missing_json.
Print Assumptions C07_reject_undefined.
Print Assumptions C07_reject_duplicate.
Print Assumptions late_resolution.
Print Assumptions C07_resolve_backward_iff.
Print Assumptions C07_reject_cycle.
Print Assumptions check_for_cycles_exact.
