(** C19 / C02 -- the serializer never panics on a schema all of whose keys are in range, and
    "whenever freezing succeeds the schema can be used safely".

    Part 1 classifies EVERY panic outcome of [ser], for ANY schema, node, value and state:
      [ser_panic_sites]       Panic p -> p = PIndex \/ p = PPoolAssert \/ p = PSerKeyBeforeValue
                              (in particular [ser_never_unreachable]: the [PUnreachable] arm of
                              [via_union] is dead code whatever the schema, unions inside unions included)
    and shows that each of the three remaining sites is excluded by exactly one hypothesis:
      PIndex              <- every key stored in the schema / the start node is in range
      PPoolAssert         <- the buffer pools hold empty buffers ([pool_ok])
      PSerKeyBeforeValue  <- the caller follows the serde protocol ([sval_wf])
      [ser_no_panic_keys], [to_datum_no_panic]; the [..._needed] / [..._refuted] examples show that none
      of the hypotheses can be dropped (and that [to_datum] needs a non-empty schema).
    Part 2: [frozen_schema_safe]: what [freeze_built] returns satisfies all of the above, for the
      serializer and for the deserializer (no panic for any target; Ok or Err within [work_bound] for
      the dynamically typed / ignoring consumers), using keys-in-range only (NOT [schema_wf]). *)
Require Import Base Kinds GenUnionTable Schema Varint Utf8 Sval Ser Target Reader De Freeze.
Require Import Wf SerProofs RecordProofs DeSafetyProofs SchemaTotalProofs.
From Coq Require Import Lia.
Open Scope nat_scope.

Arguments N.add : simpl never.
Arguments N.sub : simpl never.
Arguments N.mul : simpl never.
Arguments N.shiftl : simpl never.
Arguments N.shiftr : simpl never.
Arguments N.land : simpl never.
Arguments N.lor : simpl never.
Arguments N.ltb : simpl never.
Arguments N.leb : simpl never.
Arguments N.eqb : simpl never.
Arguments N.of_nat : simpl never.
Arguments N.to_nat : simpl never.

(* ------------------------------------------------------------------ *)
(** * 0. Lookups only ever return keys of existing nodes (any schema) *)

Definition has_node (Sc : fschema) (v : Z * nat) : Prop := exists n, fnode_at Sc (snd v) = Some n.

Lemma named_entries_node Sc names_of : forall ks d,
  Forall (fun e => has_node Sc (snd e)) (named_entries_from names_of Sc ks d).
Proof.
  induction ks as [|k ks IH]; intro d; cbn [named_entries_from]; [constructor|].
  apply Forall_app. split; [|apply IH].
  destruct (fnode_at Sc k) as [n|] eqn:E; [|constructor].
  apply Forall_forall. intros e He. apply in_map_iff in He. destruct He as (nm & <- & _).
  cbn [snd]. exists n. exact E.
Qed.

Lemma assoc_last_node Sc x : forall l acc,
  Forall (fun e => has_node Sc (snd e)) l ->
  match acc with Some v => has_node Sc v | None => True end ->
  match assoc_last x l acc with Some v => has_node Sc v | None => True end.
Proof.
  induction l as [|[k v] l IH]; intros acc Hl Ha; [exact Ha|].
  cbn [assoc_last]. inversion Hl as [|? ? Hv Hl']; subst. cbn [snd] in Hv. apply IH; [exact Hl'|].
  destruct (bytes_eqb x k); [exact Hv|exact Ha].
Qed.

(** a by-name lookup never returns a dangling key: the [Panic PIndex] arm of [named_step] is dead *)
Theorem union_named_node : forall Sc ks nm d k,
  union_named Sc ks nm = Some (d, k) -> exists n, fnode_at Sc k = Some n.
Proof.
  intros Sc ks nm d k. unfold union_named. intro H.
  pose proof (assoc_last_node Sc nm _ None (named_entries_node Sc variant_names ks 0%Z) I) as H1.
  pose proof (assoc_last_node Sc nm _ None (named_entries_node Sc variant_aliases ks 0%Z) I) as H2.
  destruct (assoc_last nm (named_entries_from variant_names Sc ks 0) None) as [[d1 k1]|].
  - injection H as -> ->. exact H1.
  - rewrite H in H2. exact H2.
Qed.

(** field_idx: the schema key it returns is one of the record's, and it never panics *)
Lemma rec_field_idx_key fields rs nm i k :
  rec_field_idx fields rs nm = Ok (i, k) -> In k (map snd fields).
Proof.
  unfold rec_field_idx. destruct (nth_error fields (r_cur rs)) as [[fn fk]|] eqn:E0; [|discriminate].
  destruct (bytes_eqb fn nm).
  - intros [= <- <-]. apply in_map_iff. exists (fn, fk). split; [reflexivity|]. eapply nth_error_In; eauto.
  - destruct (field_index fields nm) as [j|]; [|discriminate].
    destruct (Nat.ltb (r_cur rs) j).
    + destruct (nth_error fields j) as [[fn' fk']|] eqn:E1; [|discriminate].
      intros [= <- <-]. apply in_map_iff. exists (fn', fk'). split; [reflexivity|]. eapply nth_error_In; eauto.
    + destruct (Nat.ltb j (r_cur rs)); discriminate.
Qed.

Lemma rec_field_idx_no_panic fields rs nm p : rec_field_idx fields rs nm <> Panic p.
Proof.
  intro H. pose proof (rec_field_idx_panic' _ _ _ _ H) as ->. revert H.
  unfold rec_field_idx. destruct (nth_error fields (r_cur rs)) as [[fn fk]|]; [|discriminate].
  destruct (bytes_eqb fn nm); [discriminate|].
  destruct (field_index fields nm) as [j|] eqn:E2; [|discriminate].
  destruct (Nat.ltb (r_cur rs) j).
  - apply field_index_some in E2. destruct E2 as (k' & E2). rewrite E2. discriminate.
  - destruct (Nat.ltb j (r_cur rs)); discriminate.
Qed.

Lemma rec_key_res_no_panic fields rs hint ko p : rec_key_res fields rs hint ko <> Panic p.
Proof.
  unfold rec_key_res. destruct ko as [[]|]; try discriminate.
  unfold rmap, rbind. destruct (rec_field_idx fields rs s) eqn:E; try discriminate.
  exfalso. eapply rec_field_idx_no_panic; eauto.
Qed.

(* ------------------------------------------------------------------ *)
(** * 1. The key-indexing invariant of [ser]

    [idx = true]: no hypothesis at all, [PIndex] is tolerated;
    [idx = false]: every key of the schema is in range, [PIndex] is excluded.
    The sites dealt with in RecordProofs (record machine, pools, key-before-value) are tolerated here
    and excluded afterwards with [record_no_panic] / [ser_pool_inv]. *)
Create HintDb kp.
Section Kp.
Variable idx : bool.
Variable Sc : fschema.
Hypothesis HSc : idx = true \/ schema_keys_okb Sc = true.

Definition okp (p : site) : bool :=
  match p with
  | PIndex => idx
  | PSerKeyBeforeValue | PRecordEqualArm | PPoolAssert | PExpectedFieldsUnwrap | PDebugAssertBuffers => true
  | _ => false
  end.

Definition kpQ {A} (Q : A -> Prop) (m : M A) : Prop :=
  forall st, match fst (m st) with Ok a => Q a | Panic p => okp p = true | _ => True end.
Local Notation kp1 m := (kpQ (fun _ => True) m).

Lemma kpQ_ext {A} (Q : A -> Prop) m m' : (forall s, m s = m' s) -> kpQ Q m' -> kpQ Q m.
Proof. intros E H st. rewrite E. apply H. Qed.
Lemma kpQ_bind {A B} (Q : A -> Prop) (Q' : B -> Prop) m f :
  kpQ Q m -> (forall a, Q a -> kpQ Q' (f a)) -> kpQ Q' (sbind m f).
Proof.
  intros Hm Hf st. unfold sbind. specialize (Hm st).
  destruct (m st) as [[a| | | |] st']; cbn [fst] in *; auto. apply Hf; auto.
Qed.
Lemma kpQ_ret {A} (Q : A -> Prop) a : Q a -> kpQ Q (sret a).
Proof. intros H st. exact H. Qed.
Lemma kpQ_fail {A} (Q : A -> Prop) (r : result A) :
  match r with Ok a => Q a | Panic p => okp p = true | _ => True end -> kpQ Q (fail r).
Proof. intros H st. exact H. Qed.
Lemma kpQ_weaken {A} (Q Q' : A -> Prop) m :
  (forall a, Q a -> Q' a) -> kpQ Q m -> kpQ Q' m.
Proof. intros HQ H st. specialize (H st). destruct (fst (m st)); auto. Qed.
Lemma kp1_write bs : kp1 (write bs).
Proof. intro st. unfold write. destruct (s_budget st); [destruct (N.leb _ _)|]; cbn; auto. Qed.
Lemma kp1_slow_check : kp1 slow_check.
Proof. intro st. unfold slow_check. destruct (s_slow st); cbn; auto. Qed.
Lemma kp1_pop_buf : kp1 pop_buf.
Proof. intro st. unfold pop_buf. destruct (s_bufs st) as [|[[|] ?] ?]; cbn; auto. Qed.
Lemma kp1_pop_sbuf : kp1 pop_sbuf.
Proof. intro st. unfold pop_sbuf. destruct (s_sbufs st) as [|[|] ?]; cbn; auto. Qed.
Lemma kp1_push_buf b : kp1 (push_buf b).
Proof. intro st. cbn. auto. Qed.
Lemma kp1_with_buffer {A} start (m : M A) : kp1 m -> kp1 (with_buffer start m).
Proof.
  intros H st. unfold with_buffer. specialize (H (st_with_out st start None)).
  destruct (m _) as [[] ?]; cbn in *; auto.
Qed.


Ltac kp1_step :=
  match goal with
  | |- kpQ _ (sbind _ _) => apply kpQ_bind with (Q := fun _ => True); [|intros ? _]
  | |- kpQ _ (write _) => apply kp1_write
  | |- kpQ _ (sret _) => apply kpQ_ret; exact I
  | |- kpQ _ slow_check => apply kp1_slow_check
  | |- kpQ _ (fail _) => apply kpQ_fail; cbn; auto; fail
  | |- kpQ _ (match ?x with _ => _ end) => destruct x
  | |- kpQ _ (if ?x then _ else _) => destruct x
  | |- kpQ _ (let (_, _) := ?x in _) => destruct x
  | |- kpQ _ _ => solve [auto with kp]
  end.
Ltac kp1_tac := cbv zeta; repeat kp1_step.

Lemma kp1_write_varint z : kp1 (write_varint z).
Proof. apply kp1_write. Qed.
#[local] Hint Resolve kp1_write_varint : kp.
Lemma kp1_usize n : kp1 (usize_to_i64 n).
Proof. unfold usize_to_i64. kp1_tac. Qed.
#[local] Hint Resolve kp1_usize : kp.
Lemma kp1_write_ld d : kp1 (write_ld d).
Proof. unfold write_ld. kp1_tac. Qed.
#[local] Hint Resolve kp1_write_ld : kp.
Lemma kp1_ser_decimal mode m s : kp1 (ser_decimal mode m s).
Proof. unfold ser_decimal. kp1_tac. Qed.
#[local] Hint Resolve kp1_ser_decimal : kp.
Lemma kp1_ser_int_decimal scale repr z : kp1 (ser_int_decimal scale repr z).
Proof. unfold ser_int_decimal. kp1_tac. Qed.
#[local] Hint Resolve kp1_ser_int_decimal : kp.
Lemma kp1_ser_int_leaf z n : kp1 (ser_int_leaf z n).
Proof. unfold ser_int_leaf. kp1_tac. Qed.
Lemma kp1_ser_str_leaf s n : kp1 (ser_str_leaf s n).
Proof. unfold ser_str_leaf. kp1_tac. Qed.
Lemma kp1_ser_bytes_leaf s n : kp1 (ser_bytes_leaf s n).
Proof. unfold ser_bytes_leaf. kp1_tac. Qed.
Lemma kp1_extract_u8 v : kp1 (extract_u8 v).
Proof. unfold extract_u8. kp1_tac. Qed.
Lemma kp1_extract_u32 v : kp1 (extract_u32 v).
Proof. unfold extract_u32. kp1_tac. Qed.
Lemma kp1_block_new l : kp1 (block_new l).
Proof. unfold block_new. kp1_tac. Qed.
Lemma kp1_block_next l : kp1 (block_next l).
Proof. unfold block_next. kp1_tac. Qed.
Lemma kp1_block_end l : kp1 (block_end l).
Proof. unfold block_end. kp1_tac. Qed.
#[local] Hint Resolve kp1_ser_int_leaf kp1_ser_str_leaf kp1_ser_bytes_leaf kp1_extract_u8
  kp1_extract_u32 kp1_block_new kp1_block_next kp1_block_end : kp.

(** ** keys and nodes that are in range *)
Definition keyok (k : nat) : Prop := idx = true \/ k < length Sc.
Definition nodeok (n : fnode) : Prop := idx = true \/ keys_okb Sc n = true.

Lemma fnode_nodeok k n : fnode_at Sc k = Some n -> nodeok n.
Proof.
  intro E. destruct HSc as [H|H]; [left; exact H|right].
  unfold schema_keys_okb in H. rewrite forallb_forall in H. apply H. eapply nth_error_In. exact E.
Qed.

Lemma keyok_node k : keyok k -> match fnode_at Sc k with Some n => nodeok n | None => idx = true end.
Proof.
  intros [H|H]; destruct (fnode_at Sc k) as [n|] eqn:E; try (eapply fnode_nodeok; eauto; fail); auto.
  unfold fnode_at in E. apply nth_error_None in E. lia.
Qed.

Lemma nodeok_keys n k : nodeok n -> In k (keys_of n) -> keyok k.
Proof.
  intros [H|H] Hin; [left; exact H|right]. unfold keys_okb in H. rewrite forallb_forall in H.
  apply H in Hin. apply Nat.ltb_lt in Hin. exact Hin.
Qed.

Lemma nodeok_leaf n : keys_of n = [] -> nodeok n.
Proof. intro E. right. unfold keys_okb. rewrite E. reflexivity. Qed.

(** ** union resolution *)
Lemma kp_unnamed_step ks key :
  kpQ (fun k' => exists n, fnode_at Sc k' = Some n /\ is_union n = false) (unnamed_step Sc ks key).
Proof.
  unfold unnamed_step. destruct (union_unnamed Sc ks key) as [[d k']|] eqn:E; [|apply kpQ_fail; exact I].
  apply kpQ_bind with (Q := fun _ => True); [apply kp1_write_varint|intros _ _].
  apply kpQ_ret. eapply union_unnamed_not_union; eauto.
Qed.
Lemma kp1_unnamed_step ks key : kp1 (unnamed_step Sc ks key).
Proof. eapply kpQ_weaken; [|apply kp_unnamed_step]. auto. Qed.
#[local] Hint Resolve kp1_unnamed_step : kp.

Lemma kp1_via_union n key leaf :
  (forall n', nodeok n' -> kp1 (leaf n')) -> nodeok n -> kp1 (via_union Sc n key leaf).
Proof.
  intros H Hn. unfold via_union. destruct n; auto.
  eapply kpQ_bind; [apply kp_unnamed_step|]. intros k' (n' & E & Hu). rewrite E.
  destruct n'; try discriminate Hu; apply H; eapply fnode_nodeok; eauto.
Qed.

Lemma kp_named_step n nm : nodeok n -> kpQ nodeok (named_step Sc n nm).
Proof.
  intro Hn. unfold named_step. destruct n; try (apply kpQ_ret; exact Hn).
  destruct (union_named Sc variants nm) as [[d k']|] eqn:E; [|apply kpQ_ret; exact Hn].
  apply kpQ_bind with (Q := fun _ => True); [apply kp1_write_varint|intros _ _].
  destruct (union_named_node _ _ _ _ _ E) as (n' & En). rewrite En. apply kpQ_ret.
  eapply fnode_nodeok; eauto.
Qed.

Lemma kp1_unit_variant_null n ename variant m : kp1 m -> kp1 (unit_variant_null Sc n ename variant m).
Proof.
  intro H. unfold unit_variant_null. destruct n; auto.
  destruct (union_named Sc variants variant) as [[d k']|]; auto.
  destruct (fnode_at Sc k') as [[]|]; auto.
  match goal with |- context [if ?c then _ else _] => destruct c end; auto. apply kp1_write_varint.
Qed.

(** ** the record machine: its own sites are tolerated, only the schema keys matter *)
Lemma kp1_flush_ready nf chk : forall f rs, kp1 (flush_ready f nf chk rs).
Proof.
  induction f as [|f IH]; intro rs; [apply kpQ_ret; exact I|].
  eapply kpQ_ext; [apply flush_ready_eq|].
  destruct (nth_error (r_bufs rs) (r_cur rs)) as [[[c cap]|]|]; try (apply kpQ_ret; exact I).
  apply kpQ_bind with (Q := fun _ => True); [apply kp1_write|intros _ _].
  apply kpQ_bind with (Q := fun _ => True); [apply kp1_push_buf|intros _ _].
  destruct (chk && _); [apply kpQ_fail; reflexivity|apply IH].
Qed.

Lemma kp1_record_value serk fields rs i k v' :
  kp1 (serk k v') -> kp1 (record_value serk fields rs i k v').
Proof.
  intros Hk. eapply kpQ_ext; [apply record_value_eq|].
  destruct (Nat.eqb i (r_cur rs)).
  - apply kpQ_bind with (Q := fun _ => True); [exact Hk|intros _ _].
    destruct (negb _); [apply kpQ_fail; reflexivity|apply kp1_flush_ready].
  - destruct (nth_error (resize_to (r_bufs rs) (S i) None) i) as [[|]|];
      try (apply kpQ_fail; exact I);
      (apply kpQ_bind with (Q := fun _ => True); [apply kp1_pop_buf|intros b _];
       apply kpQ_bind with (Q := fun _ => True); [apply kp1_with_buffer; exact Hk|intros p _];
       apply kpQ_ret; exact I).
Qed.

Lemma kp1_record_end fields : Forall keyok (map snd fields) ->
  forall fuel rs, kp1 (record_end fuel Sc fields rs).
Proof.
  intros HF. induction fuel as [|f IH]; intro rs; [apply kpQ_ret; exact I|].
  cbn [record_end]. destruct (nth_error fields (r_cur rs)) as [[nm k]|] eqn:E; [|apply kpQ_ret; exact I].
  assert (Hk : keyok k).
  { rewrite Forall_forall in HF. apply HF. apply in_map_iff. exists (nm, k). split; [reflexivity|].
    eapply nth_error_In; eauto. }
  assert (Hcont : kp1
    (do* rs' <- flush_ready (length fields) (length fields) false (mkR (S (r_cur rs)) (r_bufs rs) (r_cap rs));
     record_end f Sc fields rs')).
  { apply kpQ_bind with (Q := fun _ => True); [apply kp1_flush_ready|intros rs' _; apply IH]. }
  pose proof (keyok_node k Hk) as Hn.
  destruct (fnode_at Sc k) as [[]|]; try (apply kpQ_fail; cbn; auto; fail); auto.
  destruct (union_unnamed Sc variants KNull) as [[d k']|]; try (apply kpQ_fail; exact I).
  destruct (fnode_at Sc k') as [[]|]; try (apply kpQ_fail; exact I).
  apply kpQ_bind with (Q := fun _ => True); [apply kp1_write_varint|intros _ _]. exact Hcont.
Qed.

Definition kind_ok (kind : rkind) : Prop :=
  match kind with
  | RKRecord fields => Forall keyok (map snd fields)
  | RKMap values => keyok values
  | RKDuration => True
  end.

Lemma kp_struct_fields serk kind : kind_ok kind -> forall fs,
  Forall (fun f => forall k, keyok k -> kp1 (serk k (snd f))) fs ->
  forall rs blk dur, kp1 (drop_mid (struct_fields serk kind rs blk dur fs)).
Proof.
  intros Hkind. induction fs as [|[key v'] rest IH]; intros HF rs blk dur.
  - intro st. exact I.
  - inversion HF as [|? ? Hv HF']; subst. cbn [snd] in Hv. specialize (IH HF').
    destruct kind as [fields|values|]; cbn [kind_ok] in Hkind.
    + eapply kpQ_ext; [apply struct_fields_cons_record|].
      destruct (rec_field_idx fields rs key) as [[i k]|e|p| |] eqn:E; try (apply kpQ_fail; exact I).
      * apply kpQ_bind with (Q := fun _ => True); [|intros rs' _; apply IH].
        apply kp1_record_value. apply Hv. rewrite Forall_forall in Hkind. apply Hkind.
        eapply rec_field_idx_key; eauto.
      * exfalso. eapply rec_field_idx_no_panic; eauto.
    + eapply kpQ_ext; [apply struct_fields_cons_map|].
      apply kpQ_bind with (Q := fun _ => True).
      * kp1_tac; try (apply Hv; exact Hkind).
      * intros blk' _. apply IH.
    + eapply kpQ_ext; [apply struct_fields_cons_duration|].
      destruct (duration_field key) as [i|]; [|apply kpQ_fail; exact I].
      destruct (nth_error dur i) as [[|]|]; try (apply kpQ_fail; exact I);
        (apply kpQ_bind with (Q := fun _ => True); [apply kp1_extract_u32|intros x _; apply IH]).
Qed.

Definition hint_kok (kind : rkind) (hint : option (nat * nat)) : Prop :=
  match kind, hint with RKRecord _, Some (_, k) => keyok k | _, _ => True end.

Lemma rec_key_res_kok fields rs hint ko hint' : Forall keyok (map snd fields) ->
  rec_key_res fields rs hint ko = Ok hint' -> hint_kok (RKRecord fields) hint ->
  hint_kok (RKRecord fields) hint'.
Proof.
  intros HF. unfold rec_key_res. destruct ko as [k0|].
  - destruct k0; try discriminate. unfold rmap, rbind.
    destruct (rec_field_idx fields rs s) as [[i k]| | | |] eqn:E; try discriminate.
    intros [= <-] _. cbn [hint_kok]. rewrite Forall_forall in HF. apply HF.
    eapply rec_field_idx_key; eauto.
  - intros [= <-] H. exact H.
Qed.

Lemma kp_map_calls serk serstr kind : kind_ok kind -> forall calls,
  Forall (fun c => call_ok (fun k => kp1 (serstr k)) (fst c) /\
                   call_ok (fun v => forall k, keyok k -> kp1 (serk k v)) (snd c)) calls ->
  forall rs blk dur hint, hint_kok kind hint ->
  kp1 (drop_mid (map_calls serk serstr kind rs blk dur hint calls)).
Proof.
  intros Hkind. induction calls as [|[ko vo] rest IH]; intros HF rs blk dur hint Hh.
  - intro st. exact I.
  - inversion HF as [|? ? [Hk Hv] HF']; subst. cbn [fst snd] in Hk, Hv. specialize (IH HF').
    destruct kind as [fields|values|]; cbn [kind_ok] in Hkind.
    + eapply kpQ_ext; [apply map_calls_cons_record|].
      destruct (rec_key_res fields rs hint ko) as [hint'|e|p| |] eqn:E; try (apply kpQ_fail; exact I).
      * pose proof (rec_key_res_kok _ _ _ _ _ Hkind E Hh) as Hh'.
        destruct vo as [v'|]; [|apply IH; exact Hh'].
        destruct hint' as [[i k]|]; [|apply kpQ_fail; reflexivity].
        cbn [hint_kok] in Hh'. cbn [call_ok] in Hv.
        apply kpQ_bind with (Q := fun _ => True); [apply kp1_record_value; apply Hv; exact Hh'|].
        intros rs' _. apply IH. exact I.
      * exfalso. eapply rec_key_res_no_panic; eauto.
    + eapply kpQ_ext; [apply map_calls_cons_map|].
      apply kpQ_bind with (Q := fun _ => True).
      * destruct ko, vo; cbn [call_ok] in Hk, Hv; kp1_tac; auto.
      * intros blk' _. apply IH. exact I.
    + eapply kpQ_ext; [apply map_calls_cons_duration|].
      destruct (dur_key_res hint ko) as [hint'|e|p| |] eqn:E; try (apply kpQ_fail; exact I).
      * destruct vo as [v'|]; [|apply IH; exact I].
        destruct hint' as [[i k]|]; [|apply kpQ_fail; reflexivity].
        destruct (nth_error dur i) as [[|]|]; try (apply kpQ_fail; exact I);
        (apply kpQ_bind with (Q := fun _ => True);
         [apply kp1_extract_u32|intros x _; apply IH; exact I]).
      * exfalso. eapply dur_key_res_panic; eauto.
Qed.

Lemma kp_finish kind t :
  kind_ok kind -> kp1 (drop_mid t) -> kp1 (fun st => finish Sc kind (t st)).
Proof.
  intros Hkind H st. specialize (H st). unfold drop_mid in H. cbn [fst] in H.
  destruct (t st) as [[r d] u]. cbn [fst snd] in H. unfold finish.
  destruct kind as [fields|values|]; cbn [kind_ok] in Hkind.
  - destruct r as [[[rs b] dd]| | | |]; cbn [fst]; auto.
    pose proof (kp1_record_end fields Hkind (S (length fields)) rs u) as He.
    destruct (record_end _ Sc fields rs u) as [[rs'| | | |] u']; cbn [fst snd] in *; auto.
    destruct (existsb _ _); cbn [fst]; auto.
  - destruct r as [[[rs b] dd]| | | |]; cbn [fst]; auto. apply (kp1_block_end b u).
  - destruct r as [[[rs b] dd]| | | |]; cbn [fst]; auto.
    destruct dd as [|[a|] [|[b'|] [|[c|] [|]]]]; cbn [fst]; auto. apply (kp1_write _ u).
Qed.

Lemma kp1_record_new : kp1 record_new.
Proof.
  unfold record_new. apply kpQ_bind with (Q := fun _ => True); [apply kp1_pop_sbuf|intros p _].
  apply kpQ_ret. exact I.
Qed.

Lemma kp_start_kind b l n' run : nodeok n' ->
  (forall kind rs blk, kind_ok kind -> kp1 (drop_mid (run kind rs blk))) ->
  kp1 (start_kind Sc b l n' run).
Proof.
  intros Hn H. unfold start_kind. destruct n'; try (apply kpQ_fail; exact I).
  - assert (Hk : kind_ok (RKMap values)).
    { cbn [kind_ok]. eapply nodeok_keys; [exact Hn|]. cbn [keys_of]. left. reflexivity. }
    apply kpQ_bind with (Q := fun _ => True); [apply kp1_block_new|]. intros blk _.
    apply (kp_finish (RKMap values) (run (RKMap values) (mkR 0 [] false) blk)); [exact Hk|]. apply H. exact Hk.
  - assert (Hk : kind_ok (RKRecord fields)).
    { cbn [kind_ok]. apply Forall_forall. intros k Hin. eapply nodeok_keys; [exact Hn|]. exact Hin. }
    apply kpQ_bind with (Q := fun _ => True); [apply kp1_record_new|]. intros rs _.
    apply (kp_finish (RKRecord fields) (run (RKRecord fields) rs 0%N)); [exact Hk|]. apply H. exact Hk.
  - destruct b; [|apply kpQ_fail; exact I].
    apply (kp_finish RKDuration (run RKDuration (mkR 0 [] false) 0%N)); [exact I|]. apply H. exact I.
Qed.

(** ** sequences *)
Lemma kp1_arr_go serk items : keyok items ->
  forall vs, Forall (fun v => forall k, keyok k -> kp1 (serk k v)) vs ->
  forall blk, kp1 (arr_go serk items blk vs).
Proof.
  intros Hi. induction vs as [|v vs IH]; intros HF blk; cbn [arr_go]; [apply kpQ_ret; exact I|].
  inversion HF as [|? ? Hv HF']; subst.
  apply kpQ_bind with (Q := fun _ => True); [apply kp1_block_next|intros b _].
  apply kpQ_bind with (Q := fun _ => True); [apply Hv; exact Hi|intros _ _].
  apply IH. exact HF'.
Qed.
Lemma kp1_dur_go : forall vs cnt, kp1 (dur_go cnt vs).
Proof. induction vs as [|v vs IH]; intro cnt; cbn [dur_go]; kp1_tac; auto. Qed.
Lemma kp1_collect_go : forall vs acc, kp1 (collect_go acc vs).
Proof. induction vs as [|v vs IH]; intro acc; cbn [collect_go]; kp1_tac; auto. Qed.
Lemma kp1_bytes_go : forall vs r, kp1 (bytes_go r vs).
Proof. induction vs as [|v vs IH]; intro r; cbn [bytes_go]; kp1_tac; auto. Qed.

Lemma kp_seq_leaf serk len vs n' : nodeok n' ->
  Forall (fun v => forall k, keyok k -> kp1 (serk k v)) vs -> kp1 (seq_leaf serk len vs n').
Proof.
  intros Hn HF. unfold seq_leaf. destruct n'; try (apply kpQ_fail; exact I).
  - apply kpQ_bind with (Q := fun _ => True); [apply kp1_slow_check|intros _ _].
    destruct len as [l|].
    + apply kpQ_bind with (Q := fun _ => True); [apply kp1_usize|intros li _].
      apply kpQ_bind with (Q := fun _ => True); [apply kp1_write_varint|intros _ _].
      apply kpQ_bind with (Q := fun _ => True); [apply (kp1_bytes_go vs l)|intros r _]. kp1_tac.
    + apply kpQ_bind with (Q := fun _ => True); [apply kp1_pop_buf|intros b _].
      intro st. cbv zeta.
      change (fix go (acc : bytes) (vs : list sval) {struct vs} : M bytes :=
                match vs with
                | [] => sret acc
                | v' :: rest => do* x <- extract_u8 v'; go (acc ++ [x]) rest
                end) with collect_go.
      pose proof (kp1_collect_go vs [] st) as Hc.
      destruct (collect_go [] vs st) as [[c| | | |] u]; cbn [fst snd] in *; auto.
      pose proof (kp1_write_ld c u) as Hw.
      destruct (write_ld c u) as [r' u']. cbn [fst snd] in *. exact Hw.
  - assert (Hi : keyok items).
    { eapply nodeok_keys; [exact Hn|]. cbn [keys_of]. left. reflexivity. }
    apply kpQ_bind with (Q := fun _ => True); [apply kp1_block_new|intros blk _].
    apply kpQ_bind with (Q := fun _ => True); [apply (kp1_arr_go serk items Hi vs HF blk)|intros blk' _].
    apply kp1_block_end.
  - apply kpQ_bind with (Q := fun _ => True); [apply kp1_slow_check|intros _ _].
    destruct (match len with Some l => negb (N.eqb l size) | None => false end); [apply kpQ_fail; exact I|].
    apply kpQ_bind with (Q := fun _ => True); [apply (kp1_bytes_go vs size)|intros r _]. kp1_tac.
  - destruct (match len with Some l => negb (N.eqb l 3) | None => false end); [apply kpQ_fail; exact I|].
    apply kpQ_bind with (Q := fun _ => True); [apply (kp1_dur_go vs 0)|intros r _]. kp1_tac.
Qed.

(** ** the induction *)
Definition KP (v : sval) : Prop := forall n, nodeok n -> kp1 (ser Sc n v).

Lemma kp1_at_key k v : keyok k -> KP v -> kp1 (at_key Sc k v).
Proof.
  intros Hk H. unfold at_key. pose proof (keyok_node k Hk) as Hn.
  destruct (fnode_at Sc k) as [n'|]; [apply H; exact Hn|apply kpQ_fail; exact Hn].
Qed.

Lemma KP_list vs : Forall KP vs -> Forall (fun v => forall k, keyok k -> kp1 (at_key Sc k v)) vs.
Proof. intro H. eapply Forall_impl; [|exact H]. intros v Hv k Hk. apply kp1_at_key; assumption. Qed.

Lemma KP_fields (fs : list (bytes * sval)) : Forall (fun f => KP (snd f)) fs ->
  Forall (fun f => forall k, keyok k -> kp1 (at_key Sc k (snd f))) fs.
Proof. intro H. eapply Forall_impl; [|exact H]. intros f Hv k Hk. apply kp1_at_key; assumption. Qed.

Lemma KP_calls calls : Forall (fun c => call_ok KP (fst c) /\ call_ok KP (snd c)) calls ->
  Forall (fun c => call_ok (fun k => kp1 (ser Sc FString k)) (fst c) /\
                   call_ok (fun v => forall k, keyok k -> kp1 (at_key Sc k v)) (snd c)) calls.
Proof.
  intro H. eapply Forall_impl; [|exact H]. intros [ko vo] [Hk Hv]. cbn [fst snd] in *. split.
  - destruct ko as [k0|]; cbn [call_ok] in *; auto. apply Hk. apply nodeok_leaf. reflexivity.
  - destruct vo as [v0|]; cbn [call_ok] in *; auto. intros k Hkk. apply kp1_at_key; assumption.
Qed.

Theorem ser_kp : forall v, KP v.
Proof.
  induction v using sval_ind2; intros n0 Hn0;
    try (cbn [ser]; try apply kp1_unit_variant_null;
         repeat (apply kp1_via_union; [intros ? ?|assumption]); kp1_tac; fail).
  - (* SNewtypeStruct *) cbn [ser]. eapply kpQ_bind; [apply kp_named_step; exact Hn0|]. intros n' Hn'. apply IHv. exact Hn'.
  - (* SNewtypeVariant *) cbn [ser]. eapply kpQ_bind; [apply kp_named_step; exact Hn0|]. intros n' Hn'. apply IHv. exact Hn'.
  - rewrite ser_SSeq. apply kp1_via_union; [intros n' Hn'|assumption].
    apply kp_seq_leaf; [assumption|apply KP_list; assumption].
  - rewrite ser_STuple. apply kp1_via_union; [intros n' Hn'|assumption].
    apply kp_seq_leaf; [assumption|apply KP_list; assumption].
  - rewrite ser_STupleStruct. apply kp1_via_union; [intros n' Hn'|assumption].
    apply kp_seq_leaf; [assumption|apply KP_list; assumption].
  - rewrite ser_STupleVariant. eapply kpQ_bind; [apply kp_named_step; exact Hn0|]. intros n1 Hn1.
    apply kp1_via_union; [intros n' Hn'|assumption].
    apply kp_seq_leaf; [assumption|apply KP_list; assumption].
  - rewrite ser_SMap. apply kp1_via_union; [intros n' Hn'|assumption].
    apply kp_start_kind; [assumption|]. intros kind rs blk Hkind.
    apply kp_map_calls; [assumption|apply KP_calls; assumption|].
    destruct kind; exact I.
  - rewrite ser_SStruct. eapply kpQ_bind; [apply kp_named_step; exact Hn0|]. intros n1 Hn1.
    apply kp1_via_union; [intros n' Hn'|assumption].
    apply kp_start_kind; [assumption|]. intros kind rs blk Hkind.
    apply kp_struct_fields; [assumption|apply KP_fields; assumption].
  - rewrite ser_SStructVariant. eapply kpQ_bind; [apply kp_named_step; exact Hn0|]. intros n1 Hn1.
    apply kp1_via_union; [intros n' Hn'|assumption].
    apply kp_start_kind; [assumption|]. intros kind rs blk Hkind.
    apply kp_struct_fields; [assumption|apply KP_fields; assumption].
Qed.

End Kp.

(* ------------------------------------------------------------------ *)
(** * 2. The panic sites of the serializer *)

(** For ANY schema (dangling keys, unions inside unions, duplicate names ...), node, value (protocol
    violations included) and state (dirty pools, budgeted sinks): only three sites are reachable. *)
Theorem ser_panic_sites : forall Sc n v st p,
  fst (ser Sc n v st) = Panic p -> p = PIndex \/ p = PPoolAssert \/ p = PSerKeyBeforeValue.
Proof.
  intros Sc n v st p E.
  pose proof (ser_kp true Sc (or_introl eq_refl) v n (or_introl eq_refl) st) as K. rewrite E in K.
  destruct (ser Sc n v st) as [r st'] eqn:Es. cbn [fst] in E. subst r.
  destruct (record_no_panic Sc n v st _ st' p Es eq_refl) as (A & B & C & _).
  destruct p; cbn in K; auto; try discriminate K; exfalso; auto.
Qed.

(** the [unreachable!()] arm after a type-directed union lookup is dead code for every schema: the
    generated table registers nothing for a union node, so a union nested in a union is never selected *)
Corollary ser_never_unreachable : forall Sc n v st, fst (ser Sc n v st) <> Panic PUnreachable.
Proof.
  intros Sc n v st E. apply ser_panic_sites in E. destruct E as [E|[E|E]]; discriminate E.
Qed.

(** Item 1.  Keys in range + serde protocol respected + pools holding empty buffers: no panic site at
    all, for every sink (budgeted or not) and every [allow_slow_sequence_to_bytes] setting. *)
Theorem ser_no_panic_keys : forall Sc n v st p,
  schema_keys_okb Sc = true -> keys_okb Sc n = true -> sval_wf v = true -> pool_ok st ->
  fst (ser Sc n v st) <> Panic p.
Proof.
  intros Sc n v st p HSc Hn Hwf Hpool E.
  pose proof (ser_kp false Sc (or_intror HSc) v n (or_intror Hn) st) as K. rewrite E in K.
  destruct (ser Sc n v st) as [r st'] eqn:Es. cbn [fst] in E. subst r.
  destruct (record_no_panic Sc n v st _ st' p Es eq_refl) as (A & B & C & D).
  destruct (ser_pool_inv Sc n v st _ st' Hpool Es) as (_ & F).
  specialize (F p eq_refl). specialize (D Hwf).
  destruct p; cbn in K; try discriminate K; auto.
Qed.

(** the finer statements: which hypothesis excludes which site *)
Theorem ser_no_index_panic : forall Sc n v st,
  schema_keys_okb Sc = true -> keys_okb Sc n = true -> fst (ser Sc n v st) <> Panic PIndex.
Proof.
  intros Sc n v st HSc Hn E.
  pose proof (ser_kp false Sc (or_intror HSc) v n (or_intror Hn) st) as K. rewrite E in K.
  discriminate K.
Qed.

Theorem ser_panic_cause : forall Sc n v st p,
  fst (ser Sc n v st) = Panic p ->
  (p = PIndex /\ (schema_keys_okb Sc = false \/ keys_okb Sc n = false)) \/
  (p = PPoolAssert /\ ~ pool_ok st) \/
  (p = PSerKeyBeforeValue /\ sval_wf v = false).
Proof.
  intros Sc n v st p E. destruct (ser_panic_sites _ _ _ _ _ E) as [E1|[E1|E1]]; subst p.
  - left. split; [reflexivity|].
    destruct (schema_keys_okb Sc) eqn:H1; [|left; reflexivity].
    destruct (keys_okb Sc n) eqn:H2; [|right; reflexivity].
    exfalso. eapply ser_no_index_panic; eauto.
  - right; left. split; [reflexivity|]. intro Hp.
    destruct (ser Sc n v st) as [r st'] eqn:Es. cbn [fst] in E. subst r.
    destruct (ser_pool_inv Sc n v st _ st' Hp Es) as (_ & F). apply (F _ eq_refl). reflexivity.
  - right; right. split; [reflexivity|].
    destruct (sval_wf v) eqn:Hwf; [|reflexivity]. exfalso.
    destruct (ser Sc n v st) as [r st'] eqn:Es. cbn [fst] in E. subst r.
    destruct (record_no_panic Sc n v st _ st' _ Es eq_refl) as (_ & _ & _ & D). apply D; auto.
Qed.

Lemma pool_ok_st0 slow : pool_ok (st0 slow).
Proof. split; constructor. Qed.

Lemma root_keys_ok Sc root : schema_keys_okb Sc = true -> fnode_at Sc 0 = Some root -> keys_okb Sc root = true.
Proof.
  intros H E. unfold schema_keys_okb in H. rewrite forallb_forall in H. apply H.
  eapply nth_error_In. exact E.
Qed.

(** Item 2.  [to_datum] indexes node 0: the schema must be non-empty (see [to_datum_no_panic_refuted]) *)
Theorem to_datum_no_panic : forall Sc slow v p,
  schema_keys_okb Sc = true -> Sc <> [] -> sval_wf v = true -> to_datum Sc slow v <> Panic p.
Proof.
  intros Sc slow v p HSc Hne Hwf. unfold to_datum.
  destruct (fnode_at Sc 0) as [root|] eqn:E.
  - pose proof (ser_no_panic_keys Sc root v (st0 slow) p HSc (root_keys_ok Sc root HSc E) Hwf
                  (pool_ok_st0 slow)) as NP.
    destruct (ser Sc root v (st0 slow)) as [[u|e|q| |] st]; cbn [fst] in NP; try discriminate.
    intro H. injection H as ->. apply NP. reflexivity.
  - destruct Sc; [contradiction|discriminate E].
Qed.

(* ------------------------------------------------------------------ *)
(** * 3. Every hypothesis is needed *)

(** the statement of the task without [Sc <> []] is false: the empty node vector has all its keys in
    range and [to_datum] panics on it, whatever the value *)
Theorem to_datum_no_panic_refuted :
  schema_keys_okb [] = true /\ forall slow v, to_datum [] slow v = Panic PIndex.
Proof. split; reflexivity. Qed.

(** a dangling key in the start node *)
Example ser_keys_needed_node :
  schema_keys_okb [FNull] = true /\ keys_okb [FNull] (FArray 7) = false /\
  fst (ser [FNull] (FArray 7) (SSeq None [SUnit]) (st0 false)) = Panic PIndex.
Proof. vm_compute. repeat split; reflexivity. Qed.

(** a dangling key deeper in the schema, start node fine *)
Example ser_keys_needed_schema :
  let Sc := [FArray 1; FArray 7] in
  schema_keys_okb Sc = false /\ keys_okb Sc (FArray 1) = true /\
  fst (ser Sc (FArray 1) (SSeq None [SSeq None [SUnit]]) (st0 false)) = Panic PIndex /\
  to_datum Sc false (SSeq None [SSeq None [SUnit]]) = Panic PIndex.
Proof. vm_compute. repeat split; reflexivity. Qed.

(** a dangling record field key: reached by the null-filling of end() even when the field is never presented *)
Example ser_keys_needed_record_end :
  let Sc := [FRecord (mkName [114%N] None) [([97%N], 5)]] in
  fst (ser Sc (FRecord (mkName [114%N] None) [([97%N], 5)]) (SStruct [114%N] 0%N []) (st0 false)) = Panic PIndex.
Proof. vm_compute. reflexivity. Qed.

(** value before key (protocol violation), schema and pools fine *)
Example ser_wf_needed :
  let Sc := [FRecord (mkName [] None) [([97%N], 1)]; FNull] in
  schema_keys_okb Sc = true /\ sval_wf (SMap None [(None, Some SUnit)]) = false /\
  to_datum Sc false (SMap None [(None, Some SUnit)]) = Panic PSerKeyBeforeValue.
Proof. vm_compute. repeat split; reflexivity. Qed.

(** a non-empty buffer in the pool (cannot arise from the crate's own use: [ser_pool_inv]) *)
Example ser_pool_needed :
  let Sc := [FRecord (mkName [] None) [([97%N], 1); ([98%N], 1)]; FNull] in
  let v := SStruct [] 2%N [([98%N], SUnit); ([97%N], SUnit)] in
  schema_keys_okb Sc = true /\ sval_wf v = true /\
  fst (ser Sc (FRecord (mkName [] None) [([97%N], 1); ([98%N], 1)]) v
         (mkS [] None [([1%N], true)] [] false)) = Panic PPoolAssert.
Proof. vm_compute. repeat split; reflexivity. Qed.

(** a union nested in a union (which [freeze_built] accepts, see below) is simply never selected by a
    type-directed lookup: Err, not the unreachable!() arm *)
Example ser_union_in_union :
  let Sc := [FUnion [1; 2]; FUnion [2]; FInt] in
  schema_keys_okb Sc = true /\
  to_datum Sc false (SInt true W32 5%Z) = Ok [2%N; 10%N] /\
  to_datum [FUnion [1]; FUnion [2]; FInt] false (SInt true W32 5%Z) = Err EData /\
  to_datum [FUnion [0]] false SUnit = Err EData.
Proof. vm_compute. repeat split; reflexivity. Qed.

(** budgeted sink: Err EIo when the budget runs out, no panic *)
Example ser_budget_example :
  let Sc := [FArray 1; FLong] in
  fst (ser Sc (FArray 1) (SSeq (Some 2%N) [SInt true W64 1%Z; SInt true W64 2%Z])
         (mkS [] (Some 2%N) [] [] false)) = Err EIo /\
  fst (ser Sc (FArray 1) (SSeq (Some 2%N) [SInt true W64 1%Z; SInt true W64 2%Z])
         (mkS [] (Some 4%N) [] [] false)) = Ok tt.
Proof. vm_compute. repeat split; reflexivity. Qed.

(* ------------------------------------------------------------------ *)
(** * 4. The deserializer entry point with keys in range only *)

Theorem de_datum_no_panic_keys : forall Sc cfg fuel t rs p,
  schema_keys_okb Sc = true -> Sc <> [] -> de_datum fuel Sc cfg t rs <> Panic p.
Proof.
  intros Sc cfg fuel t rs p HSc Hne. unfold de_datum.
  destruct (fnode_at Sc 0) as [root|] eqn:E.
  - pose proof (de_no_panic_keys Sc cfg fuel root (c_depth cfg) false false t rs p HSc
                  (root_keys_ok Sc root HSc E)) as NP.
    destruct (de Sc cfg fuel root (c_depth cfg) false false t rs) as [[d|e|q| |] st]; cbn [fst] in NP;
      try discriminate. intro H. injection H as ->. apply NP. reflexivity.
  - destruct Sc; [contradiction|discriminate E].
Qed.

(** [de_datum_any_ok_or_err] with [schema_wf] replaced by keys-in-range: the fuel bound only needs the
    start node to be a node of the schema ([max_fields_in]); nothing else of [schema_wf] is used *)
Theorem de_datum_any_ok_or_err_keys : forall Sc cfg fuel t rs,
  schema_keys_okb Sc = true -> Sc <> [] ->
  (c_max_seq cfg < 2 ^ 64 - 1)%N -> t = TAny \/ t = TIgnored ->
  work_bound Sc cfg (c_depth cfg) (blen (rd_inp rs)) <= fuel ->
  (exists d r, de_datum fuel Sc cfg t rs = Ok (d, r)) \/ (exists e, de_datum fuel Sc cfg t rs = Err e).
Proof.
  intros Sc cfg fuel t rs HSc Hne HM Ht Hf. unfold de_datum.
  destruct (fnode_at Sc 0) as [root|] eqn:E.
  - assert (Hin : In root Sc) by (eapply nth_error_In; exact E).
    pose proof (de_no_panic_keys Sc cfg fuel root (c_depth cfg) false false t rs) as NP.
    destruct (de_total_any Sc cfg fuel root (c_depth cfg) false false t rs HM Ht (max_fields_in Sc root Hin) Hf)
      as [T1 T2].
    destruct (de Sc cfg fuel root (c_depth cfg) false false t rs) as [[d|e|q| |] st]; cbn [fst] in *.
    + left. eauto.
    + right. eauto.
    + exfalso. eapply NP; eauto. eapply root_keys_ok; eauto.
    + congruence.
    + congruence.
  - destruct Sc; [contradiction|discriminate E].
Qed.

(* ------------------------------------------------------------------ *)
(** * 5. C19: whatever [freeze_built] returns can be used safely *)

Lemma freeze_built_keys_okb : forall fuel g S fp js, freeze_built fuel g = Ok (S, fp, js) ->
  schema_keys_okb S = true /\ S <> [].
Proof.
  intros fuel g S fp js H. destruct (freeze_built_keys_in_range _ _ _ _ _ H) as (_ & Hpos & Hk). split.
  - unfold schema_keys_okb. apply forallb_forall. intros f Hf. unfold keys_okb. apply Hk. exact Hf.
  - intro E. subst S. cbn in Hpos. lia.
Qed.

Theorem frozen_schema_safe : forall fuel g S fp js, freeze_built fuel g = Ok (S, fp, js) ->
  schema_keys_okb S = true /\
  (forall cfg fuel' t rs p, de_datum fuel' S cfg t rs <> Panic p) /\
  (forall slow v p, sval_wf v = true -> to_datum S slow v <> Panic p) /\
  (forall n v st p, In n S -> sval_wf v = true -> pool_ok st -> fst (ser S n v st) <> Panic p) /\
  (forall cfg fuel' t rs,
     (c_max_seq cfg < 2 ^ 64 - 1)%N -> t = TAny \/ t = TIgnored ->
     work_bound S cfg (c_depth cfg) (blen (rd_inp rs)) <= fuel' ->
     (exists d r, de_datum fuel' S cfg t rs = Ok (d, r)) \/ (exists e, de_datum fuel' S cfg t rs = Err e)).
Proof.
  intros fuel g S fp js H. destruct (freeze_built_keys_okb _ _ _ _ _ H) as (HS & Hne).
  split; [exact HS|]. split; [|split; [|split]].
  - intros cfg fuel' t rs p. apply de_datum_no_panic_keys; assumption.
  - intros slow v p Hwf. apply to_datum_no_panic; assumption.
  - intros n v st p Hin Hwf Hp. apply ser_no_panic_keys; try assumption.
    unfold schema_keys_okb in HS. rewrite forallb_forall in HS. apply HS. exact Hin.
  - intros cfg fuel' t rs HM Ht Hf. apply de_datum_any_ok_or_err_keys; assumption.
Qed.

(** [freeze_built] does not give [schema_wf]: a union directly inside a union (and duplicate names)
    is accepted; the guarantees above hold for it all the same *)
Example freeze_accepts_union_in_union :
  let g := [mkNode (RUnion [1; 2]) None; mkNode (RUnion [2; 2]) None; mkNode RInt None] in
  exists fp js,
    freeze_built 40 g = Ok ([FUnion [1; 2]; FUnion [2; 2]; FInt], fp, js) /\
    schema_wf [FUnion [1; 2]; FUnion [2; 2]; FInt] = false /\
    to_datum [FUnion [1; 2]; FUnion [2; 2]; FInt] false (SInt true W32 5%Z) = Ok [2%N; 10%N].
Proof. vm_compute. eexists. eexists. repeat split; reflexivity. Qed.

Print Assumptions ser_panic_sites.
Print Assumptions ser_no_panic_keys.
Print Assumptions to_datum_no_panic.
Print Assumptions de_datum_any_ok_or_err_keys.
Print Assumptions frozen_schema_safe.
