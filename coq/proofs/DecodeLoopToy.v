(** The streaming-decoder contract of model/DecodeLoop.v is inhabited: the small codec [toy_enc] with its
    decoder [toy_dread] -- which works on what fill_buf shows, stops as soon as dst is full and therefore lags
    behind its output -- meets [stream_decoder_contract] for EVERY data x and EVERY content a of the Take that
    agrees with the stream (the stream itself, any cut of it, the stream followed by any bytes), for any request
    sizes and any chunk plans. Hence all theorems of DecodeLoopProofs.v apply to it ([toy_block_read_back]). *)
From Coq Require Import NArith List Lia Bool Arith.
Import ListNotations.
Require Import Base Reader CodecLoop DecodeLoop CodecLoopProofs DecodeLoopProofs.
Local Open Scope nat_scope.
Arguments N.add : simpl never.
Arguments N.mul : simpl never.
Arguments Nat.min : simpl never.
Arguments Nat.mul : simpl never.

Lemma toy_enc_cons : forall y xs, toy_enc (y :: xs) = 1%N :: y :: toy_enc xs.
Proof. reflexivity. Qed.

Lemma toy_enc_nil : toy_enc [] = [0%N].
Proof. reflexivity. Qed.

Lemma toy_enc_length : forall x, length (toy_enc x) = 2 * length x + 1.
Proof.
  induction x as [|y xs IH]; [reflexivity|]. rewrite toy_enc_cons. cbn [length]. rewrite IH. lia.
Qed.

Lemma skipn_enc_even : forall j x, j <= length x -> skipn (2 * j) (toy_enc x) = toy_enc (skipn j x).
Proof.
  induction j as [|j IH]; intros x H; [reflexivity|].
  destruct x as [|y xs]; [cbn [length] in H; lia|].
  replace (2 * S j) with (S (S (2 * j))) by lia. rewrite toy_enc_cons. cbn [skipn].
  apply IH. cbn [length] in H. lia.
Qed.

Lemma skipn_enc_odd : forall j x y xs, skipn j x = y :: xs ->
  skipn (2 * j + 1) (toy_enc x) = y :: toy_enc xs.
Proof.
  intros j x y xs H.
  assert (Hj : j <= length x).
  { destruct (Nat.le_gt_cases j (length x)) as [L|L]; [exact L|]. rewrite skipn_all2 in H by lia. discriminate. }
  rewrite <- skipn_add, (skipn_enc_even j x Hj), H, toy_enc_cons. reflexivity.
Qed.

Lemma prefix_cons_inv : forall (b : N) v c t, is_prefix (b :: v) (c :: t) -> b = c /\ is_prefix v t.
Proof. intros b v c t [r E]. cbn in E. inversion E; subst. split; [reflexivity|exists r; reflexivity]. Qed.

Lemma prefix_cons : forall (b : N) v t, is_prefix v t -> is_prefix (b :: v) (b :: t).
Proof. intros b v t [r ->]. exists r. reflexivity. Qed.

Lemma prefix_nil : forall t : bytes, is_prefix [] t.
Proof. intros t. exists t. reflexivity. Qed.

(* ------------------------------------------------------------------------------------------ *)
(** * One scan of the visible bytes *)

(* consumed c, produced n, of len data bytes still to come; from_data: the marker of the first one is already consumed *)
Definition scan_rel (from_data : bool) (st' : toyst) (c n len : nat) : Prop :=
  let c1 := c + (if from_data then 1 else 0) in
  match st' with
  | TRun => c1 = 2 * n /\ n <= len
  | TData => c1 = 2 * n + 1 /\ n < len
  | TEnd => c1 = 2 * len + 1 /\ n = len
  end.

Lemma scan_spec : forall v,
  (forall xs want ext, is_prefix v (toy_enc xs ++ ext) ->
     exists o c st', toy_scan TRun v want = Some (o, c, st') /\ is_prefix o xs /\ length o <= want /\ c <= length v /\
       scan_rel false st' c (length o) (length xs) /\ (st' <> TEnd -> length o < want -> c = length v)) /\
  (forall y xs want ext, is_prefix v (y :: toy_enc xs ++ ext) ->
     exists o c st', toy_scan TData v want = Some (o, c, st') /\ is_prefix o (y :: xs) /\ length o <= want /\ c <= length v /\
       scan_rel true st' c (length o) (S (length xs)) /\ (st' <> TEnd -> length o < want -> c = length v)).
Proof.
  induction v as [|b rest IH].
  - split.
    + intros xs want ext _. exists [], 0, TRun. cbn [toy_scan length]. unfold scan_rel.
      repeat split; try lia; apply prefix_nil.
    + intros y xs want ext _. exists [], 0, TData. cbn [toy_scan length]. unfold scan_rel.
      repeat split; try lia; apply prefix_nil.
  - destruct IH as [IHr IHd]. split.
    + intros xs want ext P. cbn [toy_scan]. destruct want as [|w].
      { exists [], 0, TRun. cbn [length]. unfold scan_rel. repeat split; try lia; apply prefix_nil. }
      destruct xs as [|y xs'].
      * rewrite toy_enc_nil in P. cbn [app] in P. apply prefix_cons_inv in P. destruct P as [-> _].
        change (N.eqb 0 0) with true. cbv iota.
        exists [], 1, TEnd. cbn [length]. unfold scan_rel. repeat split; try lia; try apply prefix_nil.
        intros H; contradiction.
      * rewrite toy_enc_cons in P. cbn [app] in P. apply prefix_cons_inv in P. destruct P as [-> P].
        change (N.eqb 1 0) with false. change (N.eqb 1 1) with true. cbv iota.
        destruct (IHd y xs' (S w) ext P) as (o & c & st' & E & Po & Lo & Lc & R & Pr). rewrite E.
        exists o, (S c), st'. split; [reflexivity|]. split; [exact Po|]. split; [exact Lo|].
        cbn [length]. split; [lia|]. split.
        -- unfold scan_rel in *. destruct st'; cbn [length] in *; lia.
        -- intros Hs Hl. rewrite (Pr Hs Hl). reflexivity.
    + intros y xs want ext P. cbn [toy_scan]. destruct want as [|w].
      { exists [], 0, TData. cbn [length]. unfold scan_rel. repeat split; try lia; apply prefix_nil. }
      apply prefix_cons_inv in P. destruct P as [-> P].
      destruct (IHr xs w ext P) as (o & c & st' & E & Po & Lo & Lc & R & Pr). rewrite E.
      exists (y :: o), (S c), st'. split; [reflexivity|]. split; [apply prefix_cons; exact Po|].
      cbn [length]. split; [lia|]. split; [lia|]. split.
      -- unfold scan_rel in *. destruct st'; lia.
      -- intros Hs Hl. rewrite (Pr Hs ltac:(lia)). reflexivity.
Qed.

(* ------------------------------------------------------------------------------------------ *)
(** * One read *)
Section Toy.
Variable x a : bytes.
Notation z := (toy_enc x).
Hypothesis Hag : agree a z.

(* decoder state, compressed bytes consumed, data bytes produced *)
Definition tpos (st : toyst) (cons j : nat) : Prop :=
  match st with
  | TRun => cons = 2 * j /\ j <= length x
  | TData => cons = 2 * j + 1 /\ j < length x
  | TEnd => cons = 2 * length x + 1 /\ j = length x
  end.

Lemma tpos_bound : forall st cons j, tpos st cons j -> cons <= length z /\ j <= length x.
Proof. intros st cons j H. rewrite toy_enc_length. destruct st; cbn in H; lia. Qed.

Lemma rem_prefix : forall c, c <= length a -> c <= length z ->
  exists ext, is_prefix (skipn c a) (skipn c z ++ ext).
Proof.
  intros c Ha Hz. destruct Hag as [[r E]|[r E]].
  - exists []. exists r. rewrite app_nil_r, E, skipn_app. replace (c - length a) with 0 by lia. reflexivity.
  - exists r. exists []. rewrite app_nil_r, E, skipn_app. replace (c - length z) with 0 by lia. reflexivity.
Qed.

Lemma prefix_trans : forall p q r : bytes, is_prefix p q -> is_prefix q r -> is_prefix p r.
Proof. intros p q r [u ->] [w ->]. exists (u ++ w). now rewrite app_assoc. Qed.

Lemma visible_prefix : forall (avail : bytes) ch, avail <> [] ->
  toy_visible avail ch <> [] /\ is_prefix (toy_visible avail ch) avail.
Proof.
  intros avail ch Hne. unfold toy_visible. destruct ch as [c|].
  - destruct (firstn (N.to_nat (ch_left c)) avail) as [|b l] eqn:E.
    + destruct avail as [|b0 l0]; [exfalso; apply Hne; reflexivity|]. cbn [firstn]. split; [discriminate|]. exists l0. reflexivity.
    + split; [discriminate|]. rewrite <- E. exists (skipn (N.to_nat (ch_left c)) avail). symmetry. apply firstn_skipn.
  - split; [exact Hne|apply prefix_refl].
Qed.

Lemma read_spec : forall fuel st avail ch want crel cons0 j,
  1 <= want -> length avail < fuel -> avail = skipn (cons0 + crel) a -> cons0 + crel <= length a ->
  tpos st (cons0 + crel) j ->
  match toy_read fuel st avail ch want crel with
  | (DErr, _) => ~ is_prefix z a
  | (DOut o k, st') =>
      crel <= k /\ cons0 + k <= length a /\ is_prefix o (skipn j x) /\ length o <= want /\
      tpos st' (cons0 + k) (j + length o) /\ (o = [] -> st' = TEnd)
  end.
Proof.
  induction fuel as [|f IH]; intros st avail ch want crel cons0 j Hw Hf Hav Hc Hp; [lia|].
  cbn [toy_read].
  assert (Hend : st = TEnd ->
    match (DOut [] crel, TEnd) with
    | (DErr, _) => ~ is_prefix z a
    | (DOut o k, st') => crel <= k /\ cons0 + k <= length a /\ is_prefix o (skipn j x) /\ length o <= want /\
        tpos st' (cons0 + k) (j + length o) /\ (o = [] -> st' = TEnd)
    end).
  { intros ->. cbn [length]. rewrite Nat.add_0_r.
    split; [lia|]. split; [lia|]. split; [apply prefix_nil|]. split; [lia|]. split; [exact Hp|reflexivity]. }
  destruct want as [|w]; [lia|].
  assert (Hrun : st <> TEnd ->
    match (match avail with
           | [] => (DErr, st)
           | _ :: _ =>
               match toy_scan st (toy_visible avail ch) (S w) with
               | None => (DErr, st)
               | Some (((_ :: _) as o), c, st') => (DOut o (crel + c), st')
               | Some ([], c, TEnd) => (DOut [] (crel + c), TEnd)
               | Some ([], c, st') =>
                   if c =? 0 then (DErr, st')
                   else toy_read f st' (skipn c avail)
                          (match ch with None => None | Some k => Some (consume_chunks (S c) k (N.of_nat c)) end)
                          (S w) (crel + c)
               end
           end) with
    | (DErr, _) => ~ is_prefix z a
    | (DOut o k, st') => crel <= k /\ cons0 + k <= length a /\ is_prefix o (skipn j x) /\ length o <= S w /\
        tpos st' (cons0 + k) (j + length o) /\ (o = [] -> st' = TEnd)
    end).
  { intros Hne.
    destruct (tpos_bound _ _ _ Hp) as [Hcz Hjx].
    destruct avail as [|b0 av'].
    - (* the Take is empty before the end of the stream *)
      intros [r E]. assert (length a <= cons0 + crel).
      { destruct (Nat.le_gt_cases (length a) (cons0 + crel)) as [L|L]; [exact L|].
        pose proof (f_equal (@length _) Hav) as La. rewrite skipn_length in La. cbn [length] in La. lia. }
      rewrite E, app_length, toy_enc_length in H. rewrite toy_enc_length in Hcz. destruct st; cbn in Hp; try lia. contradiction.
    - cbv iota. set (avl := b0 :: av') in *. assert (Hnil : avl <> []) by (unfold avl; discriminate).
      destruct (visible_prefix avl ch Hnil) as [Hvn Hvp].
      destruct (rem_prefix (cons0 + crel) Hc Hcz) as [ext Hext]. rewrite <- Hav in Hext.
      pose proof (prefix_trans _ _ _ Hvp Hext) as Pv.
      set (v := toy_visible avl ch) in *.
      (* the scan, in both running states *)
      assert (S0 : exists o c st', toy_scan st v (S w) = Some (o, c, st') /\ is_prefix o (skipn j x) /\ length o <= S w /\
                     c <= length v /\ tpos st' (cons0 + crel + c) (j + length o) /\ (st' <> TEnd -> length o < S w -> c = length v)).
      { destruct st; [| |contradiction].
        - cbn in Hp. destruct Hp as [Hp1 Hp2]. rewrite Hp1, (skipn_enc_even j x Hp2) in Pv.
          destruct (proj1 (scan_spec v) (skipn j x) (S w) ext Pv) as (o & c & st' & E & Po & Lo & Lc & R & Pr).
          exists o, c, st'. split; [exact E|]. split; [exact Po|]. split; [exact Lo|]. split; [exact Lc|]. split; [|exact Pr].
          rewrite skipn_length in R. unfold scan_rel in R. destruct st'; cbn; lia.
        - cbn in Hp. destruct Hp as [Hp1 Hp2].
          destruct (skipn j x) as [|y xs'] eqn:Es.
          { pose proof (f_equal (@length _) Es) as L. rewrite skipn_length in L. cbn [length] in L. lia. }
          rewrite Hp1, (skipn_enc_odd j x y xs' Es) in Pv. cbn [app] in Pv.
          destruct (proj2 (scan_spec v) y xs' (S w) ext Pv) as (o & c & st' & E & Po & Lo & Lc & R & Pr).
          exists o, c, st'. split; [exact E|]. split; [exact Po|]. split; [exact Lo|]. split; [exact Lc|]. split; [|exact Pr].
          pose proof (f_equal (@length _) Es) as L. rewrite skipn_length in L. cbn [length] in L.
          unfold scan_rel in R. destruct st'; cbn; lia. }
      destruct S0 as (o & c & st' & E & Po & Lo & Lc & Tp & Pr).
      rewrite E.
      assert (Hvl : length v <= length avl) by (apply prefix_length; exact Hvp).
      assert (Hal : length avl = length a - (cons0 + crel)) by (rewrite Hav; apply skipn_length).
      destruct o as [|o1 o'].
      + destruct st'.
        * (* nothing produced, still running: everything visible was consumed; go on with the next chunk *)
          assert (Hcv : c = length v) by (apply Pr; [discriminate|cbn [length]; lia]).
          assert (Hc1 : 1 <= c) by (rewrite Hcv; destruct v; [contradiction|cbn [length]; lia]).
          destruct (c =? 0) eqn:Ec; [apply Nat.eqb_eq in Ec; lia|].
          cbn [length] in Tp. rewrite Nat.add_0_r in Tp.
          specialize (IH TRun (skipn c avl)
                         (match ch with None => None | Some k => Some (consume_chunks (S c) k (N.of_nat c)) end)
                         (S w) (crel + c) cons0 j Hw).
          assert (Hf' : length (skipn c avl) < f) by (rewrite skipn_length; lia).
          assert (Hav' : skipn c avl = skipn (cons0 + (crel + c)) a).
          { rewrite Hav, skipn_add. f_equal. lia. }
          assert (Hc' : cons0 + (crel + c) <= length a) by lia.
          assert (Tp' : tpos TRun (cons0 + (crel + c)) j) by (replace (cons0 + (crel + c)) with (cons0 + crel + c) by lia; exact Tp).
          specialize (IH Hf' Hav' Hc' Tp').
          destruct (toy_read f TRun (skipn c avl) _ (S w) (crel + c)) as [[|o2 k2] st2]; [exact IH|].
          destruct IH as (I1 & I2 & I3 & I4 & I5 & I6). repeat split; try assumption; lia.
        * assert (Hcv : c = length v) by (apply Pr; [discriminate|cbn [length]; lia]).
          assert (Hc1 : 1 <= c) by (rewrite Hcv; destruct v; [contradiction|cbn [length]; lia]).
          destruct (c =? 0) eqn:Ec; [apply Nat.eqb_eq in Ec; lia|].
          cbn [length] in Tp. rewrite Nat.add_0_r in Tp.
          specialize (IH TData (skipn c avl)
                         (match ch with None => None | Some k => Some (consume_chunks (S c) k (N.of_nat c)) end)
                         (S w) (crel + c) cons0 j Hw).
          assert (Hf' : length (skipn c avl) < f) by (rewrite skipn_length; lia).
          assert (Hav' : skipn c avl = skipn (cons0 + (crel + c)) a).
          { rewrite Hav, skipn_add. f_equal. lia. }
          assert (Hc' : cons0 + (crel + c) <= length a) by lia.
          assert (Tp' : tpos TData (cons0 + (crel + c)) j) by (replace (cons0 + (crel + c)) with (cons0 + crel + c) by lia; exact Tp).
          specialize (IH Hf' Hav' Hc' Tp').
          destruct (toy_read f TData (skipn c avl) _ (S w) (crel + c)) as [[|o2 k2] st2]; [exact IH|].
          destruct IH as (I1 & I2 & I3 & I4 & I5 & I6). repeat split; try assumption; lia.
        * (* the end marker *)
          replace (cons0 + (crel + c)) with (cons0 + crel + c) by lia.
          split; [lia|]. split; [lia|]. split; [exact Po|]. split; [exact Lo|]. split; [exact Tp|reflexivity].
      + replace (cons0 + (crel + c)) with (cons0 + crel + c) by lia.
        split; [lia|]. split; [lia|]. split; [exact Po|]. split; [exact Lo|]. split; [exact Tp|discriminate]. }
  destruct st; [apply Hrun; discriminate|apply Hrun; discriminate|apply Hend; reflexivity].
Qed.

(** ** Every reachable state *)
Lemma toy_reach_inv : forall d cons out, dreach toyst toy_dread a TRun d cons out ->
  is_prefix out x /\ tpos d cons (length out) /\ cons <= length a.
Proof.
  intros d cons out R. induction R as [|d cons out ch want o k d' R IH Hw E].
  - split; [apply prefix_nil|]. split; [cbn; lia|lia].
  - destruct IH as (Po & Tp & Hc).
    unfold toy_dread in E.
    pose proof (read_spec (S (length (skipn cons a))) d (skipn cons a) ch want 0 cons (length out) Hw (Nat.lt_succ_diag_r _)) as S.
    rewrite Nat.add_0_r in S. specialize (S eq_refl Hc Tp). rewrite E in S.
    destruct S as (_ & Hk & Pp & Lo & Tp' & _).
    rewrite (firstn_all2 o) by exact Lo.
    replace (Nat.min k (length a - cons)) with k by lia.
    split; [|split; [rewrite app_length; exact Tp'|exact Hk]].
    destruct Pp as [r Er]. exists r. rewrite (prefix_skipn _ _ Po), Er, app_assoc. reflexivity.
Qed.

End Toy.

(* ------------------------------------------------------------------------------------------ *)
(** * The contract *)
Theorem toy_contract : forall x a, agree a (toy_enc x) ->
  stream_decoder_contract toyst toy_dread (toy_enc x) x a TRun.
Proof.
  intros x a Hag. constructor.
  - intros _ d cons out R. exact (proj1 (toy_reach_inv x a Hag d cons out R)).
  - intros Haz d cons out ch want R Hw.
    destruct (toy_reach_inv x a Hag d cons out R) as (Po & Tp & Hc).
    pose proof (read_spec x a Hag (S (length (skipn cons a))) d (skipn cons a) ch want 0 cons (length out) Hw (Nat.lt_succ_diag_r _)) as S.
    rewrite Nat.add_0_r in S. specialize (S eq_refl Hc Tp). unfold toy_dread.
    destruct (toy_read _ d (skipn cons a) ch want 0) as [[|o k] st']; [|discriminate].
    exfalso. apply S. rewrite Haz. apply prefix_refl.
  - intros Haz d cons out ch want o k d' R Hw Hl E.
    destruct (toy_reach_inv x a Hag d cons out R) as (Po & Tp & Hc).
    pose proof (read_spec x a Hag (S (length (skipn cons a))) d (skipn cons a) ch want 0 cons (length out) Hw (Nat.lt_succ_diag_r _)) as S.
    rewrite Nat.add_0_r in S. specialize (S eq_refl Hc Tp). unfold toy_dread in E. rewrite E in S.
    destruct S as (_ & _ & _ & Lo & Tp' & He).
    rewrite (firstn_all2 o) by exact Lo. intros ->. specialize (He eq_refl). subst d'.
    cbn in Tp'. lia.
  - intros Hz d cons out ch want o k d' R Hw E Ho.
    destruct (toy_reach_inv x a Hag d cons out R) as (Po & Tp & Hc).
    pose proof (read_spec x a Hag (S (length (skipn cons a))) d (skipn cons a) ch want 0 cons (length out) Hw (Nat.lt_succ_diag_r _)) as S.
    rewrite Nat.add_0_r in S. specialize (S eq_refl Hc Tp). unfold toy_dread in E. rewrite E in S.
    destruct S as (_ & Hk & _ & Lo & Tp' & He).
    rewrite (firstn_all2 o) in Ho by exact Lo. specialize (He Ho). subst d'.
    replace (Nat.min k (length a - cons)) with k by lia.
    cbn in Tp'. rewrite toy_enc_length. lia.
  - intros _ d cons out R.
    destruct (toy_reach_inv x a Hag d cons out R) as (_ & Tp & _). exact (proj1 (tpos_bound x _ _ _ Tp)).
Qed.

(* so the theorems apply to it: any data of one-byte values, any capacity, chunking, read policy *)
Theorem toy_block_read_back : forall (x : bytes) policy sync rest ch cap fuel s,
  length sync = 16 -> 1 <= cap -> length x < fuel ->
  block_open toyst TRun (toy_enc x ++ sync ++ rest) ch (length (toy_enc x)) cap = Some s ->
  exists ch', block_run toyst toy_dread policy N byte_vdec fuel (length x) sync s = (x, BDone rest ch').
Proof.
  intros x policy sync rest ch cap fuel s Hs Hcap Hf Ho.
  assert (Hfm : forall l : bytes, flat_map (fun b => [b]) l = l).
  { induction l as [|b l IH]; [reflexivity|]. cbn [flat_map app]. now rewrite IH. }
  assert (Hv : vdec_ok N byte_vdec N (fun _ => True) (fun b => [b]) (fun b => b)).
  { intros w r _. reflexivity. }
  pose proof (toy_contract x (toy_enc x) (or_introl (prefix_refl _))) as K.
  rewrite <- (Hfm x) in K at 2. rewrite <- (Hfm x) in Hf.
  destruct (compressed_block_read_back toyst toy_dread policy N byte_vdec N (fun _ => True) (fun b => [b]) (fun b => b) Hv
              (toy_enc x) TRun x sync rest ch cap fuel s) as [ch' E]; auto.
  - apply Forall_forall. auto.
  - exists ch'. rewrite map_id in E. exact E.
Qed.
