(** The constants the hand-written model uses are the constants of the crate's source: gen/GenConsts.v is
    regenerated from /repo on every run (translators/gen_consts.py); if a default limit, the container
    magic, a metadata key, a codec name or the single-object marker changes in the source, one of
    these equalities stops checking and every property check that depends on it reports it. *)
From Coq Require Import NArith List.
Import ListNotations.
Require Import Base Schema Reader De Container SingleObject GenConsts.

Lemma tie_cfg_default : cfg_default = mkCfg GEN_MAX_SEQ_SIZE GEN_ALLOWED_DEPTH.
Proof. reflexivity. Qed.
Lemma tie_max_alloc_default : GEN_MAX_ALLOC_SIZE = (512 * 1024 * 1024)%N.
Proof. reflexivity. Qed.
Lemma tie_header_const : HEADER_CONST = GEN_HEADER_CONST.
Proof. reflexivity. Qed.
Lemma tie_meta_max_seq : GEN_META_MAX_SEQ_SIZE = 1000%N.      (* the literal in Container.cr_open *)
Proof. reflexivity. Qed.
Lemma tie_codec_names : codec_names = GEN_CODEC_NAMES.
Proof. reflexivity. Qed.
Lemma tie_meta_keys : [AVRO_SCHEMA_KEY; AVRO_CODEC_KEY] = GEN_META_KEYS.
Proof. reflexivity. Qed.
Lemma tie_codec_absent_is_null : GEN_CODEC_DEFAULT_NULL = true.  (* header_meta: no avro.codec entry = null *)
Proof. reflexivity. Qed.
Lemma tie_so_marker : SO_MARKER = GEN_SO_MARKER_WRITE /\ SO_MARKER = GEN_SO_MARKER_CHECK.
Proof. split; reflexivity. Qed.
Lemma tie_default_block_size : GEN_APPROX_BLOCK_SIZE = (64 * 1024)%N.
Proof. reflexivity. Qed.
(* the length of the sync marker: the type of the `sync_marker` field of Reader and of the writer's state
   (hence of every read_const_size_buf / write of it); the literal 16 in Container.cr_open / cr_inner *)
Lemma tie_sync_marker_len : GEN_SYNC_MARKER_LEN = 16%N.
Proof. reflexivity. Qed.
