From Coq Require Import NArith List Lia Bool.
Import ListNotations.
Require Import GenRabin CrcSpec Rabin.
Open Scope N_scope.

Lemma empty_agrees : EMPTY64 = SPEC_EMPTY.
Proof. vm_compute. reflexivity. Qed.

Lemma init_agrees : gen_init = SPEC_EMPTY.
Proof. vm_compute. reflexivity. Qed.

Lemma table_ok :
  forallb (fun i => N.eqb (nth (N.to_nat i) FP_TABLE 0) (spec_table i))
          (map N.of_nat (seq 0 256)) = true.
Proof. vm_compute. reflexivity. Qed.

Lemma table_len : length FP_TABLE = 256%nat.
Proof. vm_compute. reflexivity. Qed.

Lemma nth_table i : i < 256 -> nth (N.to_nat i) FP_TABLE 0 = spec_table i.
Proof.
  intro Hi. pose proof table_ok as H. rewrite forallb_forall in H.
  apply N.eqb_eq, H. apply in_map_iff. exists (N.to_nat i). split; [lia|]. apply in_seq. lia.
Qed.

Lemma land255_lt x : N.land x 255 < 256.
Proof. change 255 with (N.ones 8). rewrite N.land_ones. apply N.mod_lt. lia. Qed.

(* the generated step is the specification's table step, for every state and byte *)
Lemma gen_step_spec s b : gen_step s b = spec_step s b.
Proof. unfold gen_step, spec_step. rewrite nth_table by apply land255_lt. reflexivity. Qed.

(** GF(2)-linearity of the single-bit step *)
Lemma bit_step_lxor x y : bit_step (N.lxor x y) = N.lxor (bit_step x) (bit_step y).
Proof.
  unfold bit_step. rewrite N.shiftr_lxor, N.lxor_spec.
  apply N.bits_inj; intro k.
  destruct (N.testbit x 0), (N.testbit y 0); cbn [xorb];
  rewrite ?N.lxor_spec, ?N.bits_0;
  destruct (N.testbit (N.shiftr x 1) k), (N.testbit (N.shiftr y 1) k), (N.testbit SPEC_EMPTY k); reflexivity.
Qed.

Lemma iter_lxor n x y :
  iter n bit_step (N.lxor x y) = N.lxor (iter n bit_step x) (iter n bit_step y).
Proof.
  revert x y; induction n as [|n IH]; intros x y; cbn [iter]; [reflexivity|].
  rewrite bit_step_lxor. apply IH.
Qed.

(* when the low n bits are zero, n steps are a plain shift *)
Lemma iter_shift n x :
  N.land x (N.ones (N.of_nat n)) = 0 -> iter n bit_step x = N.shiftr x (N.of_nat n).
Proof.
  revert x; induction n as [|n IH]; intros x H; cbn [iter].
  - now rewrite N.shiftr_0_r.
  - assert (Hb : N.testbit x 0 = false).
    { assert (Hx := f_equal (fun v => N.testbit v 0) H). cbn beta in Hx.
      rewrite N.land_spec, N.ones_spec_low, N.bits_0, andb_true_r in Hx by lia. exact Hx. }
    unfold bit_step at 2. rewrite Hb, N.lxor_0_r.
    rewrite IH.
    + rewrite N.shiftr_shiftr. f_equal. lia.
    + apply N.bits_inj; intro k. rewrite N.land_spec, N.shiftr_spec', N.bits_0.
      destruct (N.ltb_spec k (N.of_nat n)).
      * rewrite N.ones_spec_low by lia. rewrite andb_true_r.
        assert (Hx := f_equal (fun v => N.testbit v (k+1)) H). cbn beta in Hx.
        rewrite N.land_spec, N.ones_spec_low, N.bits_0, andb_true_r in Hx by lia. exact Hx.
      * rewrite N.ones_spec_high by lia. apply andb_false_r.
Qed.

(* the table step of the specification equals its bitwise reading: all 2^64 x 256 pairs
   (indeed every state s : N), by linearity over the split s xor b = high part xor low byte *)
Theorem spec_step_bitwise s b : b < 256 -> spec_step s b = bitwise_step s b.
Proof.
  intro Hb. unfold spec_step, bitwise_step, spec_table. set (x := N.lxor s b).
  assert (Hsplit : x = N.lxor (N.ldiff x 255) (N.land x 255)).
  { apply N.bits_inj; intro k. rewrite N.lxor_spec, N.ldiff_spec, N.land_spec.
    destruct (N.testbit x k), (N.testbit 255 k); reflexivity. }
  transitivity (f8 (N.lxor (N.ldiff x 255) (N.land x 255))); [|now rewrite <- Hsplit].
  unfold f8 at 2. rewrite iter_lxor. fold (f8 (N.land x 255)). f_equal.
  rewrite iter_shift.
  - change (N.of_nat 8) with 8.
    apply N.bits_inj; intro k. rewrite !N.shiftr_spec', N.ldiff_spec. unfold x. rewrite N.lxor_spec.
    change 255 with (N.ones 8). rewrite N.ones_spec_high by lia. cbn [negb]. rewrite andb_true_r.
    assert (N.testbit b (k + 8) = false) as ->.
    { destruct (N.eq_dec b 0) as [->|Hb0]; [apply N.bits_0|]. apply N.bits_above_log2.
      apply N.lt_le_trans with 8; [|lia]. apply N.log2_lt_pow2; lia. }
    now rewrite xorb_false_r.
  - apply N.bits_inj; intro k. rewrite N.land_spec, N.ldiff_spec, N.bits_0.
    change 255 with (N.ones 8). change (N.of_nat 8) with 8.
    destruct (N.ltb_spec k 8).
    + rewrite N.ones_spec_low by lia. cbn. now rewrite andb_false_r.
    + rewrite N.ones_spec_high by lia. apply andb_false_r.
Qed.

Theorem gen_step_bitwise s b : b < 256 -> gen_step s b = bitwise_step s b.
Proof. intro Hb. rewrite gen_step_spec. now apply spec_step_bitwise. Qed.

Lemma fold_left_ext {A B} (f g : A -> B -> A) l a :
  (forall a b, In b l -> f a b = g a b) -> fold_left f l a = fold_left g l a.
Proof.
  revert a; induction l as [|x l IH]; intros a H; cbn [fold_left]; [reflexivity|].
  rewrite H by (left; reflexivity). apply IH. intros a' b' Hin. apply H. right; exact Hin.
Qed.

Theorem rabin_is_crc64_avro bs : rabin bs = crc64_avro bs.
Proof.
  unfold rabin, rabin_write, crc64_avro. rewrite init_agrees.
  apply fold_left_ext. intros a b _. apply gen_step_spec.
Qed.

Theorem crc64_avro_is_bitwise bs : bytes_ok bs -> crc64_avro bs = crc64_avro_bitwise bs.
Proof.
  intro H. unfold crc64_avro, crc64_avro_bitwise. apply fold_left_ext.
  intros a b Hin. apply spec_step_bitwise. unfold bytes_ok in H. rewrite Forall_forall in H. now apply H.
Qed.

Theorem rabin_finish_le s : rabin_finish s = le64 s.
Proof. unfold rabin_finish. replace gen_finish_le with true by (vm_compute; reflexivity). reflexivity. Qed.

(* writing a string piecewise is writing the concatenation *)
Lemma rabin_write_app s a b : rabin_write s (a ++ b) = rabin_write (rabin_write s a) b.
Proof. unfold rabin_write. apply fold_left_app. Qed.

Theorem rabin_pieces_concat pieces : rabin_pieces pieces = rabin (concat pieces).
Proof.
  unfold rabin_pieces, rabin. generalize gen_init as s.
  induction pieces as [|p ps IH]; intro s; cbn [fold_left concat]; [reflexivity|].
  rewrite rabin_write_app. apply IH.
Qed.

(* le64 is injective on 64-bit words: distinct checksums give distinct fingerprints *)
Lemma le64_byte x k : (k < 8)%nat -> nth k (le64 x) 0 = N.land (N.shiftr x (8 * N.of_nat k)) 255.
Proof.
  intro Hk. unfold le64.
  do 8 (destruct k as [|k]; [reflexivity|]). lia.
Qed.

Theorem le64_inj x y : x < 2^64 -> y < 2^64 -> le64 x = le64 y -> x = y.
Proof.
  intros Hx Hy H. apply N.bits_inj; intro i.
  destruct (N.ltb_spec i 64) as [Hi|Hi].
  - set (k := N.to_nat (i / 8)).
    assert (Hk : (k < 8)%nat).
    { unfold k. assert (i / 8 < 8) by (apply N.div_lt_upper_bound; lia). lia. }
    pose proof (f_equal (fun l => N.testbit (nth k l 0) (i mod 8)) H) as E. cbn beta in E.
    rewrite !le64_byte in E by exact Hk.
    change 255 with (N.ones 8) in E.
    assert (Hm : i mod 8 < 8) by (apply N.mod_lt; lia).
    rewrite !N.land_spec, !N.ones_spec_low, !andb_true_r, !N.shiftr_spec' in E by lia.
    replace (i mod 8 + 8 * N.of_nat k) with i in E; [exact E|].
    unfold k. rewrite N2Nat.id. rewrite (N.div_mod i 8) at 1 by lia. lia.
  - rewrite !N.bits_above_log2; try reflexivity.
    + destruct (N.eq_dec y 0) as [->|]; [simpl; lia|]. apply N.lt_le_trans with 64; [|lia]. apply N.log2_lt_pow2; lia.
    + destruct (N.eq_dec x 0) as [->|]; [simpl; lia|]. apply N.lt_le_trans with 64; [|lia]. apply N.log2_lt_pow2; lia.
Qed.
