(** C07, use before definition: the schema parser resolves every reference -- backward or
    forward -- to the node registered under the reference's specification fullname.

    [spec_valid_any_order j] (decidable, proofs/ParseForwardDefs.v): like [spec_valid_backward], but a
       reference may name ANY record, enum or fixed the document defines (two passes: [rcollect]
       gathers the definitions' fullnames by the specification's scoping rules, [rva] checks).
    [graph_any j] : the graph the specification designates: the definitions in document order,
       every reference slot holding [spec_index r f], the index of the definition of the
       reference's fullname f ([glay]).
    [C07_resolve_any_order] : for such documents without an unconditional record cycle the parser
       returns exactly [graph_any j]; the node at [spec_index r f] carries the fullname f and is
       the only node that does.
    (Stages: proofs/ParseForwardLayout.v.) *)
From Coq Require Import NArith ZArith List Lia Bool Arith String ZifyN ZifyBool ZifyNat Relations.
Import ListNotations.
Require Import Base Schema Text Json Parse CanonicalForm Rabin CrcSpec.
Require Import PcfSpec SchemaTextProofs CanonicalFormProofs RabinProofs.
Require Import ParseResolveDefs ParseBridge ParseLayout ParseCf ParseRejectProofs ParseResolveProofs.
Require Import ParseForwardDefs ParseForwardLayout.
Open Scope N_scope.
Notation length := List.length (only parsing).

Arguments N.eqb : simpl never.
Arguments N.leb : simpl never.
Arguments N.ltb : simpl never.
Arguments N.add : simpl never.

(* ------------------------------------------------------------------ *)
(** * the environment, the name map and the index of a fullname *)

Lemma agree_ilook : forall E nm k b,
  agree E nm -> key_good k -> elook (full k) E = Some b ->
  exists i, assoc_key k nm = Some i /\ ilook (full k) nm = i.
Proof.
  intros E nm k b A Hk. induction A as [|[f b'] [k' i'] E nm (H1 & H2 & _) A IH]; intro H; [discriminate|].
  cbn [elook assoc_key ilook fst snd] in *. subst f.
  destruct (bytes_eqb (full k) (full k')) eqn:Ef.
  - apply bytes_eqb_eq in Ef. apply full_inj in Ef; [|assumption|assumption]. subst k'.
    rewrite namekey_eqb_refl. eauto.
  - destruct (namekey_eqb k k') eqn:Ek.
    + apply namekey_eqb_eq in Ek. subst k'. rewrite bytes_eqb_refl in Ef. discriminate.
    + apply IH. exact H.
Qed.

Lemma ilook_in : forall nm k i,
  NoDup (map (fun p : namekey * nat => full (fst p)) nm) -> In (k, i) nm -> ilook (full k) nm = i.
Proof.
  induction nm as [|[k' i'] t IH]; intros k i Hnd Hin; [contradiction|].
  cbn [map fst] in Hnd. inversion Hnd as [|? ? Hnot Hnd']. subst. cbn [ilook].
  destruct Hin as [Heq|Hin].
  - inversion Heq. subst. rewrite bytes_eqb_refl. reflexivity.
  - destruct (bytes_eqb (full k) (full k')) eqn:Ef.
    + apply bytes_eqb_eq in Ef. exfalso. apply Hnot. rewrite <- Ef.
      apply (in_map (fun p : namekey * nat => full (fst p)) _ _ Hin).
    + apply IH; assumption.
Qed.

Definition named_at (g : schema_mut) (i : nat) (f : bytes) : Prop :=
  exists node nm, nth_error g i = Some node /\ node_nm node = Some nm /\ nm_full nm = f.

Lemma entry_named_at : forall g n E nm f,
  agreeP (entry_ok g n) E nm -> elook f E = Some true -> named_at g (ilook f nm) f.
Proof.
  intros g n E nm f A. induction A as [|[f' b'] [k' i'] E nm (H1 & _ & _ & H3) A IH]; intro H; [discriminate|].
  cbn [elook ilook fst snd] in *. subst f'.
  destruct (bytes_eqb f (full k')) eqn:Ef.
  - inversion H. subst b'. apply bytes_eqb_eq in Ef. subst f. exact (H3 eq_refl).
  - apply IH. exact H.
Qed.

(* the late-resolution table *)
Lemma resolve_all : forall G nm un,
  agree G nm -> un_ok G un ->
  rmap_list (fun k => match assoc_key k nm with Some idx => Ok idx | None => Err EData end) un
  = Ok (map (fun k => ilook (full k) nm) un).
Proof.
  intros G nm un A U. induction U as [|k t [Hk Hl] U IH]; [reflexivity|].
  cbn [rmap_list map]. destruct (agree_ilook G nm k true A Hk Hl) as (i & Ha & Hi).
  rewrite Ha. cbn [rbind]. rewrite IH. cbn [rbind]. rewrite Hi. reflexivity.
Qed.

(* ------------------------------------------------------------------ *)
(** * every reference of a valid tree names a record, enum or fixed of the environment *)

Lemma in_rdefs_list : forall F l f, In f (rdefs_list F l) <-> exists x, In x l /\ In f (F x).
Proof.
  intros F. induction l as [|x t IH]; intro f; cbn [rdefs_list].
  - split; [contradiction|intros (x & [] & _)].
  - rewrite in_app_iff, IH. split.
    + intros [(y & Hy & Hf)|Hf]; [exists y; split; [right; exact Hy|exact Hf]|exists x; split; [left; reflexivity|exact Hf]].
    + intros (y & [<-|Hy] & Hf); [right; exact Hf|left; exists y; split; assumption].
Qed.

Lemma in_rdefs_fields : forall F l f, In f (rdefs_fields F l) <-> exists x, In x l /\ In f (F (snd x)).
Proof.
  intros F. induction l as [|x t IH]; intro f; cbn [rdefs_fields].
  - split; [contradiction|intros (x & [] & _)].
  - rewrite in_app_iff, IH. split.
    + intros [(y & Hy & Hf)|Hf]; [exists y; split; [right; exact Hy|exact Hf]|exists x; split; [left; reflexivity|exact Hf]].
    + intros (y & [<-|Hy] & Hf); [right; exact Hf|left; exists y; split; assumption].
Qed.

Definition RefP (r : raw) : Prop :=
  forall G enc E E', rva G r enc E = Some E' -> forall f, In f (rrefs r enc) -> elook f G = Some true.

Lemma refs_gen {A} (proj : A -> raw) : forall l, Forall (fun a => RefP (proj a)) l ->
  forall G enc E E', rva_gen proj (fun x => rva G x enc) l E = Some E' ->
    forall a, In a l -> forall f, In f (rrefs (proj a) enc) -> elook f G = Some true.
Proof.
  induction l as [|x t IH]; intros HF G enc E E' Hrv a Hin f Hf; [contradiction|]. cbn [rva_gen] in Hrv.
  inversion HF as [|? ? Hx Ht]. subst.
  destruct (rva G (proj x) enc E) as [E1|] eqn:Ex; [|discriminate].
  destruct Hin as [<-|Hin]; [eapply Hx; eassumption|eapply IH; eassumption].
Qed.

Theorem rva_refs : forall r, RefP r.
Proof.
  induction r using raw_ind'; unfold RefP; intros G enc E E' Hrv f Hf; cbn [rva rrefs] in *.
  - contradiction.
  - destruct Hf as [<-|[]]. destruct (elook _ G) as [[|]|]; try discriminate. reflexivity.
  - apply in_rdefs_list in Hf. destruct Hf as (x & Hx & Hf).
    exact (refs_gen (fun x => x) l H G enc E E' Hrv x Hx f Hf).
  - destruct (logical_ok lg pr); [|discriminate].
    destruct (rv_named enc ty nm ns E) as [[[has nsp] E1]|] eqn:Ern; [|discriminate].
    apply rv_named_collect in Ern. destruct Ern as [-> ->].
    destruct ty; try contradiction.
    + destruct items as [it|]; [|discriminate]. cbn [opt_all] in H0. eapply H0; eassumption.
    + destruct values as [it|]; [|discriminate]. cbn [opt_all] in H1. eapply H1; eassumption.
    + destruct has; [|discriminate]. destruct fields as [fl|]; [|discriminate]. cbn [opt_all] in H.
      apply in_rdefs_fields in Hf. destruct Hf as (x & Hx & Hf).
      exact (refs_gen (fun f0 => snd f0) fl H G _ _ E' Hrv x Hx f Hf).
Qed.

(* ------------------------------------------------------------------ *)
(** * the parser returns the designated graph *)

Lemma spec_valid_any_order_inv : forall j, spec_valid_any_order j = true ->
  exists r E', raw_of_json j = Ok r /\ sizes_ok j = true /\ rva (rcollect r None []) r None [] = Some E'.
Proof.
  intros j H. unfold spec_valid_any_order in H. apply andb_prop in H. destruct H as [Hs H].
  destruct (raw_of_json j) as [r| | | |]; try discriminate.
  destruct (rva (rcollect r None []) r None []) as [E'|] eqn:E; [|discriminate]. eauto.
Qed.

Lemma any_core_raw : forall r E',
  rva (rcollect r None []) r None [] = Some E' ->
  let g := snd (glay (spec_index r) r None O) in
  (forall j, raw_of_json j = Ok r ->
     parse_schema j = match check_for_cycles g with Some _ => Ok g | None => Err EData end) /\
  (forall f, elook f (rcollect r None []) = Some true -> named_at g (spec_index r f) f) /\
  (forall f i, named_at g i f -> i = spec_index r f).
Proof.
  intros r E' Hrv g.
  assert (Hns : ns_ok None) by (left; reflexivity).
  pose proof (rva_collect r _ _ _ _ Hrv) as HE. 
  set (G := rcollect r None []) in *.
  destruct (reg_layf G r None (mkP [] [] []) [] E' Hrv (Forall2_nil _) Hns (Forall_nil _)) as (R & A & U).
  cbv zeta in R, A, U. cbn [p_names p_nodes p_unresolved List.length app] in R, A, U.
  set (L := layf r None [] [] O) in *.
  set (resolved := map (fun k => ilook (full k) (l_names L)) (l_un L)).
  (* no fullname is registered twice *)
  assert (Hnd : NoDup (map (fun p : namekey * nat => full (fst p)) (l_names L))).
  { destruct (reg_inv r None (mkP [] [] []) _ _ Hns (Forall_nil _) R) as (_ & _ & N & _).
    apply N. constructor. }
  (* the graph after the late-resolution pass *)
  assert (Hg : map (fix_node resolved) (l_nodes L) = g).
  { unfold g. destruct (layf_fix r None [] [] O resolved (spec_index r) (l_names L) (l_un L)) as [Hg _].
    - apply incl_refl.
    - exists []. rewrite app_nil_r. reflexivity.
    - intros k i Hin. unfold spec_index, final_names. fold L. apply ilook_in; assumption.
    - intros i k Hk. unfold resolved, spec_index, final_names. fold L.
      apply nth_error_nth. apply (map_nth_error (fun k0 => ilook (full k0) (l_names L))). exact Hk.
    - exact Hg. }
  split; [|split].
  - intros j Hr. unfold parse_schema. rewrite Hr. cbn [rbind]. rewrite R. cbn [rbind fst snd p_unresolved p_names p_nodes].
    rewrite <- HE in U. rewrite (resolve_all E' (l_names L) (l_un L) A U). cbn [rbind].
    fold resolved. rewrite Hg. reflexivity.
  - intros f Hf.
    destruct (layf_names_nodes r G None O g [] E' [] [] resolved Hrv) as [AE _].
    + intros i x Hx. cbn [Nat.add]. rewrite <- Hg. apply map_nth_error. exact Hx.
    + constructor.
    + exact Hns.
    + fold L in AE. unfold spec_index, final_names. fold L. eapply entry_named_at; [exact AE|].
      rewrite HE. exact Hf.
  - intros f i (node & nm' & Hn & Hnm & Hfull).
    destruct (layf_names_nodes r G None O g [] E' [] [] resolved Hrv) as [_ NE].
    + intros i0 x Hx. cbn [Nat.add]. rewrite <- Hg. apply map_nth_error. exact Hx.
    + constructor.
    + exact Hns.
    + fold L in NE. rewrite <- Hg in Hn. rewrite nth_error_map in Hn.
      destruct (nth_error (l_nodes L) i) as [x|] eqn:Ex; [|discriminate]. cbn [option_map] in Hn.
      inversion Hn. subst node. rewrite node_nm_fix in Hnm.
      destruct (NE i x nm' Ex Hnm) as (k & Hk & Hkn). cbn [Nat.add] in Hk.
      unfold spec_index, final_names. fold L. subst f. rewrite <- Hkn. symmetry.
      apply (ilook_in (l_names L) k i Hnd Hk).
Qed.

Lemma any_core : forall j r E',
  raw_of_json j = Ok r -> rva (rcollect r None []) r None [] = Some E' ->
  let g := snd (glay (spec_index r) r None O) in
  parse_schema j = match check_for_cycles g with Some _ => Ok g | None => Err EData end /\
  (forall f, elook f (rcollect r None []) = Some true -> named_at g (spec_index r f) f) /\
  (forall f i, named_at g i f -> i = spec_index r f).
Proof.
  intros j r E' Hr Hrv g. destruct (any_core_raw r E' Hrv) as (P & Hex & Huq).
  split; [apply P; exact Hr|split; assumption].
Qed.

(** the parser returns exactly the designated graph unless its cycle check fails *)
Theorem C07_resolve_any_order_graph : forall j,
  spec_valid_any_order j = true ->
  parse_schema j = match check_for_cycles (graph_any j) with Some _ => Ok (graph_any j) | None => Err EData end.
Proof.
  intros j Hv. destruct (spec_valid_any_order_inv j Hv) as (r & E' & Hr & _ & Hrv).
  unfold graph_any. rewrite Hr. exact (proj1 (any_core j r E' Hr Hrv)).
Qed.

(** C07_resolve, references in any order: the document parses; the parsed graph is [glay]: every
    reference slot -- whether the reference follows or precedes the definition -- holds
    [spec_index r f] for the reference's specification fullname f; the node at that index
    carries the fullname f, and no other node does *)
Theorem C07_resolve_any_order : forall j,
  spec_valid_any_order j = true -> ~ rec_cycle (graph_any j) ->
  exists r, raw_of_json j = Ok r /\
    parse_schema j = Ok (graph_any j) /\
    graph_any j = snd (glay (spec_index r) r None O) /\
    (forall f, In f (rrefs r None) -> named_at (graph_any j) (spec_index r f) f) /\
    (forall f i, named_at (graph_any j) i f -> i = spec_index r f).
Proof.
  intros j Hv Hc. pose proof (C07_resolve_any_order_graph j Hv) as P.
  destruct (spec_valid_any_order_inv j Hv) as (r & E' & Hr & _ & Hrv).
  destruct (any_core j r E' Hr Hrv) as (_ & Hex & Huq). cbv zeta in Hex, Huq.
  assert (Hg : graph_any j = snd (glay (spec_index r) r None O)) by (unfold graph_any; rewrite Hr; reflexivity).
  exists r. split; [exact Hr|]. split; [|split; [exact Hg|split]].
  - rewrite P. destruct (check_for_cycles (graph_any j)) eqn:E; [reflexivity|].
    exfalso. apply Hc. apply cyc_none_cycle. exact E.
  - intros f Hf. rewrite Hg. apply Hex. eapply rva_refs; eassumption.
  - intros f i Hn. rewrite Hg in Hn. eapply Huq; exact Hn.
Qed.

(** every record, enum or fixed the document defines has exactly one node *)
Theorem C07_definitions_any_order : forall j r,
  spec_valid_any_order j = true -> raw_of_json j = Ok r ->
  forall f, elook f (rcollect r None []) = Some true ->
    named_at (graph_any j) (spec_index r f) f /\ forall i, named_at (graph_any j) i f -> i = spec_index r f.
Proof.
  intros j r Hv Hr f Hf. destruct (spec_valid_any_order_inv j Hv) as (r' & E' & Hr' & _ & Hrv).
  rewrite Hr in Hr'. inversion Hr'. subst r'.
  destruct (any_core j r E' Hr Hrv) as (_ & Hex & Huq). cbv zeta in Hex, Huq.
  unfold graph_any. rewrite Hr. split; [apply Hex; exact Hf|intros i Hn; eapply Huq; exact Hn].
Qed.

(** with the exact cycle check *)
Theorem C07_resolve_any_order_iff : forall j,
  spec_valid_any_order j = true ->
  (rec_cycle (graph_any j) -> parse_schema j = Err EData) /\
  (~ rec_cycle (graph_any j) -> parse_schema j = Ok (graph_any j)).
Proof.
  intros j Hv. pose proof (C07_resolve_any_order_graph j Hv) as P.
  split; intro Hc; rewrite P.
  - apply check_for_cycles_exact in Hc. rewrite Hc. reflexivity.
  - destruct (check_for_cycles (graph_any j)) eqn:E; [reflexivity|].
    exfalso. apply Hc. apply cyc_none_cycle. exact E.
Qed.

(* ------------------------------------------------------------------ *)
(** * the reference slots of [glay], explicitly *)

Lemma glay_gen_slot {A K} (proj : A -> raw) (tag : A -> nat -> K) res enc : forall l n i a s,
  nth_error l i = Some a -> proj a = RwRef s ->
  nth_error (fst (glay_gen proj tag (fun x => glay res x enc) l n)) i
  = Some (tag a (res (snd (spec_fullname enc s None)))).
Proof.
  induction l as [|x t IH]; intros n i a s Hi Hp; [destruct i; discriminate|].
  cbn [glay_gen fst]. destruct i as [|i]; cbn [nth_error] in *.
  - inversion Hi. subst x. rewrite Hp. reflexivity.
  - eapply IH; eassumption.
Qed.

(* a reference as the i-th branch of a union *)
Theorem glay_union_slot : forall res l enc n0 i s,
  nth_error l i = Some (RwRef s) ->
  exists ks rest, glay res (RwUnion l) enc n0 = (n0, mkNode (RUnion ks) None :: rest) /\
    nth_error ks i = Some (res (snd (spec_fullname enc s None))).
Proof.
  intros res l enc n0 i s Hi. cbn [glay]. do 2 eexists. split; [reflexivity|].
  exact (glay_gen_slot (fun x => x) tag_list res enc l (S n0) i (RwRef s) s Hi eq_refl).
Qed.

(* a reference as the type of the i-th field of a record: resolved in the record's namespace *)
Theorem glay_field_slot : forall res lg nm ns fl syms items values sz pr sc enc n0 i fname s,
  nth_error fl i = Some (fname, RwRef s) ->
  let k := key_of_def enc nm ns in
  exists ks rest,
    glay res (RwObject TyRecord lg (Some nm) ns (Some fl) syms items values sz pr sc) enc n0
    = (n0, mkNode (RRecord (name_of_key k) ks) (the_logical lg pr sc) :: rest) /\
    nth_error ks i = Some (fname, res (snd (spec_fullname (fst k) s None))).
Proof.
  intros res lg nm ns fl syms items values sz pr sc enc n0 i fname s Hi k. cbn [glay]. do 2 eexists.
  split; [reflexivity|].
  exact (glay_gen_slot (fun f => snd f) tag_field res (fst k) fl (S n0) i (fname, RwRef s) s Hi eq_refl).
Qed.

(* a reference as the items of an array / the values of a map *)
Theorem glay_items_slot : forall res lg nm ns fields syms values sz pr sc enc n0 s,
  glay res (RwObject TyArray lg nm ns fields syms (Some (RwRef s)) values sz pr sc) enc n0
  = (n0, [mkNode (RArray (res (snd (spec_fullname enc s None)))) (the_logical lg pr sc)]).
Proof. reflexivity. Qed.
Theorem glay_values_slot : forall res lg nm ns fields syms items sz pr sc enc n0 s,
  glay res (RwObject TyMap lg nm ns fields syms items (Some (RwRef s)) sz pr sc) enc n0
  = (n0, [mkNode (RMap (res (snd (spec_fullname enc s None)))) (the_logical lg pr sc)]).
Proof. reflexivity. Qed.

(* ------------------------------------------------------------------ *)
(** * examples *)

(* a forward reference to a record defined later in another namespace *)
Definition doc_f1 : json :=
  O_ [("type", S_ "record"); ("name", S_ "a.A"); ("fields", JArr [
    O_ [("name", S_ "f"); ("type", S_ "b.B")];
    O_ [("name", S_ "g"); ("type", O_ [("type", S_ "record"); ("name", S_ "B"); ("namespace", S_ "b"); ("fields", JArr [
          O_ [("name", S_ "x"); ("type", S_ "int")];
          O_ [("name", S_ "y"); ("type", JArr [S_ "null"; S_ "a.A"])]])])]])]%string.
(* mutual forward references between two records through a union *)
Definition doc_f2 : json :=
  JArr [O_ [("type", S_ "record"); ("name", S_ "P"); ("fields", JArr [
          O_ [("name", S_ "q"); ("type", JArr [S_ "null"; S_ "Q"])]])];
        O_ [("type", S_ "record"); ("name", S_ "Q"); ("fields", JArr [
          O_ [("name", S_ "p"); ("type", JArr [S_ "null"; S_ "P"])]])]]%string.
(* a reference that is forward at its first use and backward at its second *)
Definition doc_f3 : json :=
  O_ [("type", S_ "record"); ("name", S_ "R"); ("fields", JArr [
    O_ [("name", S_ "a"); ("type", S_ "F")];
    O_ [("name", S_ "b"); ("type", O_ [("type", S_ "fixed"); ("name", S_ "F"); ("size", JNum (lit "4"))])];
    O_ [("name", S_ "c"); ("type", S_ "F")]])]%string.

Example doc_f_valid :
  (spec_valid_any_order doc_f1, spec_valid_any_order doc_f2, spec_valid_any_order doc_f3) = (true, true, true) /\
  (spec_valid_backward doc_f1, spec_valid_backward doc_f2, spec_valid_backward doc_f3) = (false, false, false).
Proof. split; vm_compute; reflexivity. Qed.

Example doc_f1_graph :
  parse_schema doc_f1 = Ok (graph_any doc_f1) /\
  graph_any doc_f1 =
    [mkNode (RRecord (mkName (lit "a.A") (Some 1%nat)) [(lit "f", 1%nat); (lit "g", 1%nat)]) None;
     mkNode (RRecord (mkName (lit "b.B") (Some 1%nat)) [(lit "x", 2%nat); (lit "y", 3%nat)]) None;
     mkNode RInt None;
     mkNode (RUnion [4%nat; O]) None;
     mkNode RNull None].
Proof. split; vm_compute; reflexivity. Qed.

Example doc_f2_graph :
  parse_schema doc_f2 = Ok (graph_any doc_f2) /\
  graph_any doc_f2 =
    [mkNode (RUnion [1%nat; 4%nat]) None;
     mkNode (RRecord (mkName (lit "P") None) [(lit "q", 2%nat)]) None;
     mkNode (RUnion [3%nat; 4%nat]) None;
     mkNode RNull None;
     mkNode (RRecord (mkName (lit "Q") None) [(lit "p", 5%nat)]) None;
     mkNode (RUnion [6%nat; 1%nat]) None;
     mkNode RNull None].
Proof. split; vm_compute; reflexivity. Qed.

Example doc_f3_graph :
  parse_schema doc_f3 = Ok (graph_any doc_f3) /\
  graph_any doc_f3 =
    [mkNode (RRecord (mkName (lit "R") None) [(lit "a", 1%nat); (lit "b", 1%nat); (lit "c", 1%nat)]) None;
     mkNode (RFixed (mkName (lit "F") None) 4) None].
Proof. split; vm_compute; reflexivity. Qed.

(* through the theorem (the cycle check is decided by computation) *)
Example doc_f2_by_theorem : parse_schema doc_f2 = Ok (graph_any doc_f2).
Proof.
  apply C07_resolve_any_order_iff; [vm_compute; reflexivity|].
  intro Hc. apply check_for_cycles_exact in Hc. vm_compute in Hc. discriminate.
Qed.

(* the earlier example of ParseResolveProofs.v *)
Example doc_fwd_any : spec_valid_any_order doc_fwd = true /\ parse_schema doc_fwd = Ok (graph_any doc_fwd).
Proof. split; vm_compute; reflexivity. Qed.

(* a reference to a fullname the document does not define is invalid in any order *)
Example doc_undefined_invalid :
  spec_valid_any_order (O_ [("type", S_ "record"); ("name", S_ "A"); ("fields", JArr [
    O_ [("name", S_ "f"); ("type", S_ "B")]])]%string) = false.
Proof. vm_compute. reflexivity. Qed.

(* ------------------------------------------------------------------ *)
(** * definition before use is a special case *)

Definition esub (E G : env) : Prop := forall f b, elook f E = Some b -> elook f G = Some b.

Lemma esub_refl : forall E, esub E E.
Proof. intros E f b H. exact H. Qed.
Lemma esub_trans : forall A B C, esub A B -> esub B C -> esub A C.
Proof. intros A B C H1 H2 f b H. apply H2, H1, H. Qed.
Lemma esub_cons : forall E f b, elook f E = None -> esub E ((f, b) :: E).
Proof.
  intros E f b Hn f' b' H. cbn [elook]. destruct (bytes_eqb f' f) eqn:Ef; [|exact H].
  apply bytes_eqb_eq in Ef. subst f'. congruence.
Qed.

Definition BwP (r : raw) : Prop :=
  forall enc E E', rv r enc E = Some E' ->
    esub E E' /\ forall G, esub E' G -> rva G r enc E = Some E'.

Lemma bw_gen {A} (proj : A -> raw) : forall l, Forall (fun a => BwP (proj a)) l ->
  forall enc E E', rva_gen proj (fun x => rv x enc) l E = Some E' ->
    esub E E' /\ forall G, esub E' G -> rva_gen proj (fun x => rva G x enc) l E = Some E'.
Proof.
  induction l as [|x t IH]; intros HF enc E E' Hrv; cbn [rva_gen] in *.
  - inversion Hrv. subst. split; [apply esub_refl|reflexivity].
  - inversion HF as [|? ? Hx Ht]. subst.
    destruct (rv (proj x) enc E) as [E1|] eqn:Ex; [|discriminate].
    destruct (Hx enc E E1 Ex) as [S1 R1]. destruct (IH Ht enc E1 E' Hrv) as [S2 R2].
    split; [eapply esub_trans; eassumption|]. intros G HG.
    rewrite (R1 G (esub_trans _ _ _ S2 HG)). apply R2. exact HG.
Qed.

Lemma rv_named_esub : forall enc ty nm ns E has nsp E1,
  rv_named enc ty nm ns E = Some (has, nsp, E1) -> esub E E1.
Proof.
  intros enc ty nm ns E has nsp E1 H. unfold rv_named in H. destruct nm as [n|].
  - destruct (elook _ E) eqn:El; [discriminate|]. inversion H. subst. apply esub_cons. exact El.
  - inversion H. apply esub_refl.
Qed.

Theorem rv_rva : forall r, BwP r.
Proof.
  induction r using raw_ind'; unfold BwP; intros enc E E' Hrv; cbn [rv] in Hrv.
  - destruct (is_prim_ty t) eqn:Et; [|discriminate]. inversion Hrv. subst.
    split; [apply esub_refl|]. intros G _. cbn [rva]. rewrite Et. reflexivity.
  - destruct (elook _ E) as [[|]|] eqn:El; try discriminate. inversion Hrv. subst.
    split; [apply esub_refl|]. intros G HG. cbn [rva]. rewrite (HG _ _ El). reflexivity.
  - change (rv_list (fun x => rv x enc) l E) with (rva_gen (fun x => x) (fun x => rv x enc) l E) in Hrv.
    destruct (bw_gen (fun x => x) l H enc E E' Hrv) as [S R]. split; [exact S|]. intros G HG. cbn [rva]. apply R, HG.
  - destruct (logical_ok lg pr) eqn:Elg; [|discriminate].
    destruct (rv_named enc ty nm ns E) as [[[has nsp] E1]|] eqn:Ern; [|discriminate].
    pose proof (rv_named_esub _ _ _ _ _ _ _ _ Ern) as S0.
    assert (Hleaf : Some E1 = Some E' ->
              esub E E' /\ forall G, esub E' G -> Some E1 = Some E').
    { intro HE. inversion HE. subst. split; [exact S0|reflexivity]. }
    destruct ty; cbn [rva]; rewrite Elg, Ern; try exact (Hleaf Hrv).
    + destruct items as [it|]; [|discriminate]. cbn [opt_all] in H0.
      destruct (H0 enc E1 E' Hrv) as [S R]. split; [eapply esub_trans; eassumption|exact R].
    + destruct values as [it|]; [|discriminate]. cbn [opt_all] in H1.
      destruct (H1 enc E1 E' Hrv) as [S R]. split; [eapply esub_trans; eassumption|exact R].
    + destruct has; [|discriminate]. destruct fields as [fl|]; [|discriminate]. cbn [opt_all] in H.
      change (rv_fields (fun x => rv x nsp) fl E1) with (rva_gen (fun f => snd f) (fun x => rv x nsp) fl E1) in Hrv.
      destruct (bw_gen (fun f => snd f) fl H nsp E1 E' Hrv) as [S R].
      split; [eapply esub_trans; eassumption|exact R].
    + destruct has; [|discriminate]. destruct syms; [|discriminate]. exact (Hleaf Hrv).
    + destruct has; [|discriminate]. destruct sz; [|discriminate]. exact (Hleaf Hrv).
Qed.

(** a document valid with definition before use is valid in any order *)
Theorem spec_valid_backward_any_order : forall j,
  spec_valid_backward j = true -> spec_valid_any_order j = true.
Proof.
  intros j Hv. destruct (spec_valid_backward_inv j Hv) as (r & E' & Hr & Hs & Hrv).
  unfold spec_valid_any_order. rewrite Hs, Hr. cbn [andb].
  destruct (rv_rva r None [] E' Hrv) as [_ R]. pose proof (R E' (esub_refl E')) as R'.
  rewrite <- (rva_collect r _ _ _ _ R'). rewrite R'. reflexivity.
Qed.

(** ... and then the two designated graphs are the same graph (when it is accepted) *)
Corollary graph_any_backward : forall j,
  spec_valid_backward j = true -> ~ rec_cycle (graph_of j) -> graph_any j = graph_of j.
Proof.
  intros j Hv Hc. pose proof (proj2 (C07_resolve_backward_iff j Hv) Hc) as P1.
  pose proof (C07_resolve_any_order_graph j (spec_valid_backward_any_order j Hv)) as P2.
  rewrite P1 in P2. destruct (check_for_cycles (graph_any j)); [inversion P2; reflexivity|discriminate].
Qed.

(** so for documents with definition before use the canonical form of [graph_any] is the
    specification's Parsing Canonical Form of the document as written *)
Corollary C07_any_order_backward_canonical : forall j fuel,
  spec_valid_backward j = true -> ~ rec_cycle (graph_of j) -> (jsize j < fuel)%nat ->
  parse_schema j = Ok (graph_any j) /\ canonical_form fuel (graph_any j) = Ok (pcf fuel None j).
Proof.
  intros j fuel Hv Hc Hf. rewrite (graph_any_backward j Hv Hc).
  split; [exact (proj2 (C07_resolve_backward_iff j Hv) Hc)|exact (proj1 (C07_resolve_backward_graph j fuel Hv Hf))].
Qed.

Print Assumptions C07_resolve_any_order_graph.
Print Assumptions C07_resolve_any_order.
Print Assumptions C07_definitions_any_order.
Print Assumptions C07_resolve_any_order_iff.
Print Assumptions spec_valid_backward_any_order.
Print Assumptions graph_any_backward.
