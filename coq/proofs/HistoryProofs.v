From Coq Require Import List NArith.
Require Import Base Schema Sval Ser RecordProofs.
Import ListNotations.

(* one job of a history: a value, the budget of its own sink (None = never fails), the slow flag;
   only the pools survive from one job to the next *)
Definition run_one (Sc : fschema) (n : fnode) (pools : list buf * list (list (option buf)))
                   (job : sval * option N * bool) : list buf * list (list (option buf)) :=
  let '(v, budget, slow) := job in
  let st' := snd (ser Sc n v (mkS [] budget (fst pools) (snd pools) slow)) in
  (s_bufs st', s_sbufs st').

Lemma pools_ok_after : forall Sc n jobs ps,
  Forall (fun b : buf => fst b = []) (fst ps) /\ Forall (fun v : list (option buf) => v = []) (snd ps) ->
  Forall (fun b : buf => fst b = []) (fst (fold_left (run_one Sc n) jobs ps)) /\
  Forall (fun v : list (option buf) => v = []) (snd (fold_left (run_one Sc n) jobs ps)).
Proof.
  intros Sc n jobs. induction jobs as [|[[v budget] sl] jobs IH]; intros ps Hps; cbn [fold_left]; [exact Hps|].
  apply IH. unfold run_one.
  destruct (ser Sc n v (mkS [] budget (fst ps) (snd ps) sl)) as [r st'] eqn:E. cbn [snd fst].
  assert (Hp : pool_ok (mkS [] budget (fst ps) (snd ps) sl)) by (unfold pool_ok; cbn; exact Hps).
  exact (proj1 (ser_pool_inv Sc n v _ r st' Hp E)).
Qed.

Theorem ser_history : forall Sc n jobs probe slow,
  let pools := fold_left (run_one Sc n) jobs ([], []) in
  let '(r1, t1) := ser Sc n probe (mkS [] None (fst pools) (snd pools) slow) in
  let '(r2, t2) := ser Sc n probe (st0 slow) in
  r1 = r2 /\ s_out t1 = s_out t2.
Proof.
  intros Sc n jobs probe slow pools.
  assert (Hp : pool_ok (mkS [] None (fst pools) (snd pools) slow)).
  { unfold pool_ok; cbn. unfold pools. apply pools_ok_after. cbn. split; constructor. }
  assert (H0 : pool_ok (st0 slow)) by (unfold pool_ok; cbn; split; constructor).
  pose proof (ser_pool_indep Sc n probe (mkS [] None (fst pools) (snd pools) slow) (st0 slow) Hp H0
                eq_refl eq_refl eq_refl) as H.
  destruct (ser Sc n probe (mkS [] None (fst pools) (snd pools) slow)) as [r1 t1].
  destruct (ser Sc n probe (st0 slow)) as [r2 t2].
  destruct H as (Hr & w & H1 & H2). split; [exact Hr|]. cbn in H1, H2. congruence.
Qed.
