(** W8a: the whole datum serializer under a byte budget = the Vec run cut by a fixed-size slice.

    [bud m]: run m on a Vec-like state st (s_budget = None) and on the same state with a budget of
    c bytes ([reb st c]).  The Vec run appends w to the output.  If w fits (|w| <= c) the budgeted
    run is the Vec run, literally: same outcome (Ok / Err / Panic / ...), same state (output,
    both buffer pools, slow flag), remaining budget c - |w|.  If it does not fit (c < |w|) the
    budgeted run ends with Err EIo -- whatever the Vec run ends with -- and its output is the old
    output followed by the first c bytes of w, remaining budget 0.

    [ser_budget_simulation]: bud (ser Sc n v) for every node and every value: all leaves, unions,
    records with buffered (out-of-order) fields, maps, arrays with block writers, decimals,
    durations.  Buffered fields are serialized into a Vec under [with_buffer] in both runs (no
    budget inside), and hit the budget only when flush_ready / record_end writes them out. *)
From Coq Require Import NArith ZArith List Lia Bool Arith.
From Coq Require Import ZifyN ZifyBool ZifyNat.
Import ListNotations.
Require Import Base Kinds GenUnionTable Schema Varint Utf8 Sval Ser SerHistory SingleObject.
Require Import RecordProofs HistoryProofs.
Require SinkWriteProofs.
Transparent ser.

Ltac Zify.zify_post_hook ::= Z.to_euclidean_division_equations.

Arguments N.add : simpl never.
Arguments N.sub : simpl never.
Arguments N.mul : simpl never.
Arguments N.div : simpl never.
Arguments N.modulo : simpl never.
Arguments N.pow : simpl never.
Arguments N.ltb : simpl never.
Arguments N.leb : simpl never.
Arguments N.eqb : simpl never.
Arguments N.of_nat : simpl never.
Arguments N.to_nat : simpl never.
Arguments Z.of_nat : simpl never.
Arguments Z.of_N : simpl never.
Arguments Z.to_N : simpl never.

Local Open Scope nat_scope.

(* ------------------------------------------------------------------------------------------ *)
(** * The simulation relation *)

(* install a budget of c bytes on a state *)
Definition reb (st : sstate) (c : N) : sstate := st_with_out st (s_out st) (Some c).

Definition nlen (w : bytes) : N := N.of_nat (length w).

(* the state a budgeted run stops in after overflowing: the first c bytes of w went through *)
Definition ovf (st : sstate) (c : N) (w : bytes) (tB : sstate) : Prop :=
  s_out tB = s_out st ++ firstn (N.to_nat c) w /\ s_budget tB = Some 0%N.

Definition budrel {A} (st : sstate) (c : N) (oV oB : sres sstate A) : Prop :=
  exists w, s_out (snd oV) = s_out st ++ w /\ s_budget (snd oV) = None /\
    ((nlen w <= c)%N -> oB = (fst oV, reb (snd oV) (c - nlen w))) /\
    ((c < nlen w)%N -> exists tB, oB = (Err EIo, tB) /\ ovf st c w tB).

Definition bud {A} (m : M A) : Prop :=
  forall st c, s_budget st = None -> budrel st c (m st) (m (reb st c)).

Lemma bud_ext {A} (m m' : M A) : (forall s, m s = m' s) -> bud m' -> bud m.
Proof. intros E H st c Hb. rewrite !E. auto. Qed.

Lemma reb_reb st c c' : reb (reb st c) c' = reb st c'.
Proof. reflexivity. Qed.

Lemma firstn_app_fit (w1 w2 : bytes) n : length w1 <= n ->
  firstn n (w1 ++ w2) = w1 ++ firstn (n - length w1) w2.
Proof. intro H. rewrite firstn_app. rewrite firstn_all2 by exact H. reflexivity. Qed.
Lemma firstn_app_short (w1 w2 : bytes) n : n <= length w1 ->
  firstn n (w1 ++ w2) = firstn n w1.
Proof.
  intro H. rewrite firstn_app. replace (n - length w1) with 0 by lia. cbn. now rewrite app_nil_r.
Qed.

(* the generalised bind: on failure of the first part a handler h (Drop code: touches the pools
   only) runs on the state *)
Definition sbind_h {A B} (m : M A) (f : A -> M B) (h : result A -> sstate -> sstate) : M B :=
  fun st => match m st with
            | (Ok a, st') => f a st'
            | (Err e, st') => (Err e, h (Err e) st')
            | (Panic p, st') => (Panic p, h (Panic p) st')
            | (OutOfFuel, st') => (OutOfFuel, h OutOfFuel st')
            | (Unmodelled, st') => (Unmodelled, h Unmodelled st')
            end.

(* a state transformer that only touches the pools *)
Definition poolfn (h : sstate -> sstate) : Prop :=
  forall st, s_out (h st) = s_out st /\ s_budget (h st) = s_budget st /\
             forall c, h (reb st c) = reb (h st) c.

Lemma sbind_is_sbind_h {A B} (m : M A) (f : A -> M B) st :
  sbind m f st = sbind_h m f (fun _ s => s) st.
Proof. unfold sbind, sbind_h. destruct (m st) as [[] ?]; reflexivity. Qed.

Lemma poolfn_id : poolfn (fun s => s).
Proof. intro st. auto. Qed.

Lemma bud_bind_h {A B} (m : M A) (f : A -> M B) h :
  bud m -> (forall a, bud (f a)) -> (forall r, poolfn (h r)) -> bud (sbind_h m f h).
Proof.
  intros Hm Hf Hh st c Hb. unfold sbind_h. specialize (Hm st c Hb).
  destruct (m st) as [rV tV]. destruct Hm as (w1 & Ho1 & Hb1 & Hfit1 & Hov1). cbn [fst snd] in *.
  destruct rV as [a|e|p| |].
  - (* Ok: continue *)
    specialize (Hf a tV). 
    destruct (N.le_gt_cases (nlen w1) c) as [Hle|Hgt].
    + rewrite (Hfit1 Hle). specialize (Hf (c - nlen w1)%N Hb1).
      destruct (f a tV) as [rV' tV']. destruct Hf as (w2 & Ho2 & Hb2 & Hfit2 & Hov2). cbn [fst snd] in *.
      exists (w1 ++ w2). cbn [fst snd]. split; [rewrite Ho2, Ho1, app_assoc; reflexivity|]. split; [exact Hb2|].
      unfold nlen in *. rewrite app_length. split.
      * intro H. rewrite Hfit2 by lia. do 2 f_equal. lia.
      * intro H. destruct Hov2 as (tB & E & Eo & Eb); [lia|]. exists tB. split; [exact E|].
        split; [|exact Eb]. rewrite Eo, Ho1, <- app_assoc. f_equal.
        rewrite firstn_app_fit by lia. do 2 f_equal. lia.
    + destruct (Hov1 Hgt) as (tB & E & Eo & Eb). rewrite E.
      specialize (Hf 0%N Hb1). destruct (f a tV) as [rV' tV'].
      destruct Hf as (w2 & Ho2 & Hb2 & _ & _). cbn [fst snd] in *.
      exists (w1 ++ w2). cbn [fst snd]. split; [rewrite Ho2, Ho1, app_assoc; reflexivity|]. split; [exact Hb2|].
      unfold nlen in *. rewrite app_length. split; [intro; lia|].
      intros _. exists (h (Err EIo) tB). split; [reflexivity|].
      destruct (Hh (Err EIo) tB) as (Hho & Hhb & _). split.
      * rewrite Hho, Eo. f_equal. symmetry. apply firstn_app_short. lia.
      * rewrite Hhb. exact Eb.
  - destruct (Hh (Err e) tV) as (Hho & Hhb & Hhc).
    exists w1. cbn [fst snd]. split; [rewrite Hho; exact Ho1|]. split; [rewrite Hhb; exact Hb1|]. split.
    + intro Hle. rewrite (Hfit1 Hle). cbn [fst snd]. rewrite Hhc. reflexivity.
    + intro Hgt. destruct (Hov1 Hgt) as (tB & E & Eo & Eb). rewrite E.
      exists (h (Err EIo) tB). split; [reflexivity|].
      destruct (Hh (Err EIo) tB) as (Hho' & Hhb' & _). split; [rewrite Hho'; exact Eo|rewrite Hhb'; exact Eb].
  - destruct (Hh (Panic p) tV) as (Hho & Hhb & Hhc).
    exists w1. cbn [fst snd]. split; [rewrite Hho; exact Ho1|]. split; [rewrite Hhb; exact Hb1|]. split.
    + intro Hle. rewrite (Hfit1 Hle). cbn [fst snd]. rewrite Hhc. reflexivity.
    + intro Hgt. destruct (Hov1 Hgt) as (tB & E & Eo & Eb). rewrite E.
      exists (h (Err EIo) tB). split; [reflexivity|].
      destruct (Hh (Err EIo) tB) as (Hho' & Hhb' & _). split; [rewrite Hho'; exact Eo|rewrite Hhb'; exact Eb].
  - destruct (Hh OutOfFuel tV) as (Hho & Hhb & Hhc).
    exists w1. cbn [fst snd]. split; [rewrite Hho; exact Ho1|]. split; [rewrite Hhb; exact Hb1|]. split.
    + intro Hle. rewrite (Hfit1 Hle). cbn [fst snd]. rewrite Hhc. reflexivity.
    + intro Hgt. destruct (Hov1 Hgt) as (tB & E & Eo & Eb). rewrite E.
      exists (h (Err EIo) tB). split; [reflexivity|].
      destruct (Hh (Err EIo) tB) as (Hho' & Hhb' & _). split; [rewrite Hho'; exact Eo|rewrite Hhb'; exact Eb].
  - destruct (Hh Unmodelled tV) as (Hho & Hhb & Hhc).
    exists w1. cbn [fst snd]. split; [rewrite Hho; exact Ho1|]. split; [rewrite Hhb; exact Hb1|]. split.
    + intro Hle. rewrite (Hfit1 Hle). cbn [fst snd]. rewrite Hhc. reflexivity.
    + intro Hgt. destruct (Hov1 Hgt) as (tB & E & Eo & Eb). rewrite E.
      exists (h (Err EIo) tB). split; [reflexivity|].
      destruct (Hh (Err EIo) tB) as (Hho' & Hhb' & _). split; [rewrite Hho'; exact Eo|rewrite Hhb'; exact Eb].
Qed.

Lemma bud_bind {A B} (m : M A) (f : A -> M B) :
  bud m -> (forall a, bud (f a)) -> bud (sbind m f).
Proof.
  intros Hm Hf. eapply bud_ext; [apply sbind_is_sbind_h|].
  apply bud_bind_h; auto. intros _. apply poolfn_id.
Qed.

(* computations that do not touch the writer *)
Definition quiet {A} (m : M A) : Prop :=
  forall st, s_out (snd (m st)) = s_out st /\ s_budget (snd (m st)) = s_budget st /\
             forall c, m (reb st c) = (fst (m st), reb (snd (m st)) c).

Lemma quiet_bud {A} (m : M A) : quiet m -> bud m.
Proof.
  intros H st c Hb. destruct (H st) as (Ho & Hbb & Hc). exists []. 
  split; [now rewrite app_nil_r|]. split; [congruence|]. unfold nlen. cbn [length]. split.
  - intros _. rewrite Hc. do 2 f_equal. lia.
  - intro Hlt. lia.
Qed.

Lemma quiet_ret {A} (a : A) : quiet (sret (S := sstate) a).
Proof. intro st. cbn. auto. Qed.
Lemma quiet_fail {A} (r : result A) : quiet (fail r).
Proof. intro st. cbn. auto. Qed.
Lemma quiet_pop_buf : quiet pop_buf.
Proof.
  intro st. unfold pop_buf. cbn [reb st_with_out s_bufs].
  destruct (s_bufs st) as [|[[|x c0] cap] t]; cbn; auto.
Qed.
Lemma quiet_push_buf b : quiet (push_buf b).
Proof. intro st. cbn. auto. Qed.
Lemma quiet_pop_sbuf : quiet pop_sbuf.
Proof.
  intro st. unfold pop_sbuf. cbn [reb st_with_out s_sbufs].
  destruct (s_sbufs st) as [|[|x v] t]; cbn; auto.
Qed.
Lemma quiet_slow_check : quiet slow_check.
Proof. intro st. unfold slow_check. cbn [reb st_with_out s_slow]. destruct (s_slow st); cbn; auto. Qed.
Lemma quiet_record_drop rs : quiet (record_drop rs).
Proof. intro st. unfold record_drop. destruct (r_cap rs); cbn; auto. Qed.
Lemma quiet_with_buffer {A} start (m : M A) : quiet (with_buffer start m).
Proof.
  intro st.
  assert (E : forall c, st_with_out (reb st c) start None = st_with_out st start None) by reflexivity.
  unfold with_buffer. split; [|split].
  - destruct (m (st_with_out st start None)) as [r st']; reflexivity.
  - destruct (m (st_with_out st start None)) as [r st']; reflexivity.
  - intro c. rewrite E. destruct (m (st_with_out st start None)) as [r st']; reflexivity.
Qed.

Lemma poolfn_record_drop rs : poolfn (fun s => snd (record_drop rs s)).
Proof. intro st. unfold record_drop. destruct (r_cap rs); cbn; auto. Qed.
Lemma poolfn_maybe_push (b : bool) x : poolfn (fun s => if b then snd (push_buf x s) else s).
Proof. intro st. destruct b; cbn; auto. Qed.

Lemma bud_write bs : bud (write bs).
Proof.
  intros st c Hb. unfold write at 1. rewrite Hb. exists bs. cbn [fst snd s_out s_budget st_with_out].
  split; [reflexivity|]. split; [reflexivity|]. unfold write, nlen. cbn [reb s_budget st_with_out].
  split; intro H.
  - destruct (N.leb_spec (N.of_nat (length bs)) c) as [_|H']; [|lia]. reflexivity.
  - destruct (N.leb_spec (N.of_nat (length bs)) c) as [H'|_]; [lia|].
    eexists. split; [reflexivity|]. split; reflexivity.
Qed.

Create HintDb bud.
Ltac bud_step :=
  match goal with
  | |- bud (sbind _ _) => apply bud_bind; [|intros ?]
  | |- bud (write _) => apply bud_write
  | |- bud (sret _) => apply quiet_bud, quiet_ret
  | |- bud slow_check => apply quiet_bud, quiet_slow_check
  | |- bud (fail _) => apply quiet_bud, quiet_fail
  | |- bud (match ?x with _ => _ end) => destruct x
  | |- bud (if ?x then _ else _) => destruct x
  | |- bud (let (_, _) := ?x in _) => destruct x
  | |- bud _ => solve [auto with bud]
  end.
Ltac bud_tac := cbv zeta; repeat bud_step.

Lemma bud_write_varint z : bud (write_varint z).
Proof. apply bud_write. Qed.
#[global] Hint Resolve bud_write_varint : bud.
Lemma bud_usize n : bud (usize_to_i64 n).
Proof. unfold usize_to_i64. bud_tac. Qed.
#[global] Hint Resolve bud_usize : bud.
Lemma bud_write_ld d : bud (write_ld d).
Proof. unfold write_ld. bud_tac. Qed.
#[global] Hint Resolve bud_write_ld : bud.
Lemma bud_unnamed_step Sc ks key : bud (unnamed_step Sc ks key).
Proof. unfold unnamed_step. bud_tac. Qed.
#[global] Hint Resolve bud_unnamed_step : bud.
Lemma bud_via_union {Sc n key leaf} : (forall n', bud (leaf n')) -> bud (via_union Sc n key leaf).
Proof. intro H. unfold via_union. destruct n; auto. bud_tac; auto. Qed.
Lemma bud_unit_variant_null Sc n ename variant m : bud m -> bud (unit_variant_null Sc n ename variant m).
Proof.
  intro H. unfold unit_variant_null. destruct n; auto.
  destruct (union_named Sc variants variant) as [[d k']|]; auto.
  destruct (fnode_at Sc k') as [[]|]; auto.
  match goal with |- context [if ?c then _ else _] => destruct c end; auto. apply bud_write_varint.
Qed.
Lemma bud_named_step Sc n nm : bud (named_step Sc n nm).
Proof. unfold named_step. bud_tac. Qed.
#[global] Hint Resolve bud_named_step : bud.
Lemma bud_ser_decimal mode m s : bud (ser_decimal mode m s).
Proof. unfold ser_decimal. bud_tac. Qed.
#[global] Hint Resolve bud_ser_decimal : bud.
Lemma bud_ser_int_decimal scale repr z : bud (ser_int_decimal scale repr z).
Proof. unfold ser_int_decimal. bud_tac. Qed.
#[global] Hint Resolve bud_ser_int_decimal : bud.
Lemma bud_ser_int_leaf z n : bud (ser_int_leaf z n).
Proof. unfold ser_int_leaf. bud_tac. Qed.
Lemma bud_ser_str_leaf s n : bud (ser_str_leaf s n).
Proof. unfold ser_str_leaf. bud_tac. Qed.
Lemma bud_ser_bytes_leaf s n : bud (ser_bytes_leaf s n).
Proof. unfold ser_bytes_leaf. bud_tac. Qed.
Lemma bud_extract_u8 v : bud (extract_u8 v).
Proof. unfold extract_u8. bud_tac. Qed.
Lemma bud_extract_u32 v : bud (extract_u32 v).
Proof. unfold extract_u32. bud_tac. Qed.
Lemma bud_block_new l : bud (block_new l).
Proof. unfold block_new. bud_tac. Qed.
Lemma bud_block_next l : bud (block_next l).
Proof. unfold block_next. bud_tac. Qed.
Lemma bud_block_end l : bud (block_end l).
Proof. unfold block_end. bud_tac. Qed.
#[global] Hint Resolve bud_ser_int_leaf bud_ser_str_leaf bud_ser_bytes_leaf bud_extract_u8
  bud_extract_u32 bud_block_new bud_block_next bud_block_end : bud.
Lemma bud_pop_buf : bud pop_buf.
Proof. apply quiet_bud, quiet_pop_buf. Qed.
Lemma bud_push_buf b : bud (push_buf b).
Proof. apply quiet_bud, quiet_push_buf. Qed.
Lemma bud_pop_sbuf : bud pop_sbuf.
Proof. apply quiet_bud, quiet_pop_sbuf. Qed.
Lemma bud_with_buffer {A} start (m : M A) : bud (with_buffer start m).
Proof. apply quiet_bud, quiet_with_buffer. Qed.
#[global] Hint Resolve bud_pop_buf bud_push_buf bud_pop_sbuf bud_with_buffer : bud.

(* ------------------------------------------------------------------------------------------ *)
(** * The same relation for arbitrary outcome types (the struct/map loops return a triple) *)

Definition brel {O} (eio : O -> Prop) (st : sstate) (c : N) (oV oB : O * sstate) : Prop :=
  exists w, s_out (snd oV) = s_out st ++ w /\ s_budget (snd oV) = None /\
    ((nlen w <= c)%N -> oB = (fst oV, reb (snd oV) (c - nlen w))) /\
    ((c < nlen w)%N -> eio (fst oB) /\ ovf st c w (snd oB)).

Definition is_eio {A} (r : result A) : Prop := r = Err EIo.

Lemma budrel_brel {A} st c (oV oB : sres sstate A) : budrel st c oV oB <-> brel is_eio st c oV oB.
Proof.
  unfold budrel, brel, is_eio. split; intros (w & H1 & H2 & H3 & H4); exists w;
    (split; [exact H1|]); (split; [exact H2|]); (split; [exact H3|]); intro H.
  - destruct (H4 H) as (tB & -> & Ho). split; [reflexivity|exact Ho].
  - destruct (H4 H) as (E & Ho). exists (snd oB). split; [|exact Ho].
    destruct oB as [r t]. cbn in *. now subst r.
Qed.

(* continuations: bud-like from every Vec state, and transparent on the I/O failure *)
Definition kbud {O1 O2} (eio1 : O1 -> Prop) (eio2 : O2 -> Prop) (k : O1 -> sstate -> O2 * sstate) : Prop :=
  (forall o st c, s_budget st = None -> brel eio2 st c (k o st) (k o (reb st c))) /\
  (forall o t, eio1 o -> eio2 (fst (k o t)) /\ s_out (snd (k o t)) = s_out t /\ s_budget (snd (k o t)) = s_budget t).

Lemma brel_chain {O1 O2} (eio1 : O1 -> Prop) (eio2 : O2 -> Prop) k st c oV oB :
  brel eio1 st c oV oB -> kbud eio1 eio2 k ->
  brel eio2 st c (k (fst oV) (snd oV)) (k (fst oB) (snd oB)).
Proof.
  intros (w1 & Ho1 & Hb1 & Hfit1 & Hov1) (Hk & Hke). destruct oV as [o1 tV]. cbn [fst snd] in *.
  destruct (N.le_gt_cases (nlen w1) c) as [Hle|Hgt].
  - rewrite (Hfit1 Hle). cbn [fst snd]. destruct (Hk o1 tV (c - nlen w1)%N Hb1) as (w2 & Ho2 & Hb2 & Hfit2 & Hov2).
    exists (w1 ++ w2). split; [rewrite Ho2, Ho1, app_assoc; reflexivity|]. split; [exact Hb2|].
    unfold nlen in *. rewrite app_length. split.
    + intro H. rewrite Hfit2 by lia. do 2 f_equal. lia.
    + intro H. destruct Hov2 as (E & Eo & Eb); [lia|]. split; [exact E|].
      split; [|exact Eb]. rewrite Eo, Ho1, <- app_assoc. f_equal.
      rewrite firstn_app_fit by lia. do 2 f_equal. lia.
  - destruct (Hov1 Hgt) as (E & Eo & Eb).
    destruct (Hk o1 tV 0%N Hb1) as (w2 & Ho2 & Hb2 & _ & _).
    exists (w1 ++ w2). split; [rewrite Ho2, Ho1, app_assoc; reflexivity|]. split; [exact Hb2|].
    unfold nlen in *. rewrite app_length. split; [intro; lia|]. intros _.
    destruct (Hke (fst oB) (snd oB) E) as (E' & Hho & Hhb). split; [exact E'|]. split.
    + rewrite Hho, Eo. f_equal. symmetry. apply firstn_app_short. lia.
    + rewrite Hhb. exact Eb.
Qed.

(* a step that only touches the pools *)
Lemma brel_pools {O} (eio : O -> Prop) (o : O) (h : sstate -> sstate) st c :
  poolfn h -> s_budget st = None -> brel eio st c (o, h st) (o, h (reb st c)).
Proof.
  intros Hh Hb. destruct (Hh st) as (Hho & Hhb & Hhc). exists []. cbn [fst snd].
  split; [now rewrite app_nil_r|]. split; [congruence|]. unfold nlen. cbn [length]. split.
  - intros _. rewrite Hhc. do 2 f_equal. lia.
  - intro. lia.
Qed.

Definition T3 (X : Type) := sstate -> result X * recstate * sstate.

Definition is_eio3 {X} (o : result X * recstate) : Prop := fst o = Err EIo.

Definition bud3 {X} (t : T3 X) : Prop :=
  forall st c, s_budget st = None -> brel is_eio3 st c (t st) (t (reb st c)).

Lemma bud3_ext {X} (t t' : T3 X) : (forall s, t s = t' s) -> bud3 t' -> bud3 t.
Proof. intros E H st c Hb. rewrite !E. auto. Qed.

(* bind of an M computation into a triple-returning loop; d = the record state Drop sees on failure *)
Definition bind3 {A X} (m : M A) (d : result A -> recstate) (f : A -> T3 X) : T3 X :=
  fun st => match m st with
            | (Ok a, st') => f a st'
            | (Err e, st') => (Err e, d (Err e), st')
            | (Panic p, st') => (Panic p, d (Panic p), st')
            | (OutOfFuel, st') => (OutOfFuel, d OutOfFuel, st')
            | (Unmodelled, st') => (Unmodelled, d Unmodelled, st')
            end.

Lemma bud3_bind3 {A X} (m : M A) d (f : A -> T3 X) :
  bud m -> (forall a, bud3 (f a)) -> bud3 (bind3 m d f).
Proof.
  intros Hm Hf st c Hb.
  pose (k := fun (r : result A) (t : sstate) =>
               match r return result X * recstate * sstate with
               | Ok a => f a t
               | Err e => (Err e, d (Err e), t)
               | Panic p => (Panic p, d (Panic p), t)
               | OutOfFuel => (OutOfFuel, d OutOfFuel, t)
               | Unmodelled => (Unmodelled, d Unmodelled, t)
               end).
  assert (E : forall s, bind3 m d f s = k (fst (m s)) (snd (m s))).
  { intro s. unfold bind3, k. destruct (m s) as [[] ?]; reflexivity. }
  rewrite !E. apply (brel_chain is_eio is_eio3).
  - apply budrel_brel. apply Hm. exact Hb.
  - split.
    + intros [a|e|p| |] st0 c0 Hb0; unfold k; try (apply Hf; exact Hb0);
        apply (brel_pools is_eio3 _ (fun s => s)); auto using poolfn_id.
    + intros o t ->. unfold k. cbn. unfold is_eio3. auto.
Qed.

Lemma bud3_ret {X} (x : X) d : bud3 (fun st => (Ok x, d, st)).
Proof. intros st c Hb. apply (brel_pools is_eio3 (Ok x, d) (fun s => s)); auto using poolfn_id. Qed.
Lemma bud3_fail {X} (r : result X) d : bud3 (fun st => (r, d, st)).
Proof. intros st c Hb. apply (brel_pools is_eio3 (r, d) (fun s => s)); auto using poolfn_id. Qed.

(* leaving a loop: continue with f on success, run the Drop handler h on failure *)
Definition fin3 {X B} (t : T3 X) (f : X -> M B) (h : result X -> recstate -> sstate -> sstate) : M B :=
  fun st => match t st with
            | (Ok x, _, u) => f x u
            | (Err e, d, u) => (Err e, h (Err e) d u)
            | (Panic p, d, u) => (Panic p, h (Panic p) d u)
            | (OutOfFuel, d, u) => (OutOfFuel, h OutOfFuel d u)
            | (Unmodelled, d, u) => (Unmodelled, h Unmodelled d u)
            end.

Lemma bud_fin3 {X B} (t : T3 X) (f : X -> M B) h :
  bud3 t -> (forall x, bud (f x)) -> (forall r d, poolfn (h r d)) -> bud (fin3 t f h).
Proof.
  intros Ht Hf Hh st c Hb.
  pose (k := fun (o : result X * recstate) (u : sstate) =>
               match fst o return result B * sstate with
               | Ok x => f x u
               | Err e => (Err e, h (Err e) (snd o) u)
               | Panic p => (Panic p, h (Panic p) (snd o) u)
               | OutOfFuel => (OutOfFuel, h OutOfFuel (snd o) u)
               | Unmodelled => (Unmodelled, h Unmodelled (snd o) u)
               end).
  assert (E : forall s, fin3 t f h s = k (fst (t s)) (snd (t s))).
  { intro s. unfold fin3, k. destruct (t s) as [[[] ?] ?]; reflexivity. }
  rewrite !E. apply budrel_brel. apply (brel_chain is_eio3 is_eio).
  - apply Ht. exact Hb.
  - split.
    + intros [[x|e|p| |] dd] st0 c0 Hb0; unfold k; cbn [fst snd];
        try (apply budrel_brel; apply Hf; exact Hb0); apply brel_pools; auto.
    + intros [r dd] u Hr. unfold is_eio3 in Hr. cbn [fst] in Hr. subst r. unfold k. cbn [fst snd].
      destruct (Hh (Err EIo) dd u) as (H1 & H2 & _). unfold is_eio. auto.
Qed.

(* ------------------------------------------------------------------------------------------ *)
(** * Records: flush loop, end(), one field *)

Lemma bud_flush_ready f nf chk : forall rs, bud (flush_ready f nf chk rs).
Proof.
  induction f as [|f IH]; intro rs; [apply quiet_bud, quiet_ret|].
  eapply bud_ext; [apply flush_ready_eq|].
  destruct (nth_error (r_bufs rs) (r_cur rs)) as [[[c0 cap]|]|]; try (apply quiet_bud, quiet_ret).
  apply bud_bind; [apply bud_write|intros _].
  apply bud_bind; [apply bud_push_buf|intros _].
  destruct (chk && _); [apply quiet_bud, quiet_fail|apply IH].
Qed.

Lemma bud_record_end fuel Sc fields : forall rs, bud (record_end fuel Sc fields rs).
Proof.
  induction fuel as [|f IH]; intro rs; [apply quiet_bud, quiet_ret|].
  cbn [record_end].
  destruct (nth_error fields (r_cur rs)) as [[nm k]|]; [|apply quiet_bud, quiet_ret].
  assert (Hcont : bud
    (do* rs' <- flush_ready (length fields) (length fields) false (mkR (S (r_cur rs)) (r_bufs rs) (r_cap rs));
     record_end f Sc fields rs')).
  { apply bud_bind; [apply bud_flush_ready|]. intro a. apply IH. }
  destruct (fnode_at Sc k) as [[]|]; try (apply quiet_bud, quiet_fail); auto.
  destruct (union_unnamed Sc variants KNull) as [[d k']|]; try (apply quiet_bud, quiet_fail).
  destruct (fnode_at Sc k') as [[]|]; try (apply quiet_bud, quiet_fail).
  apply bud_bind; [apply bud_write_varint|intros _]. exact Hcont.
Qed.

Lemma bud_record_value serk fields idx k v' rs :
  bud (serk k v') -> bud (record_value serk fields rs idx k v').
Proof.
  intro Hk. eapply bud_ext; [apply record_value_eq|].
  destruct (Nat.eqb idx (r_cur rs)).
  - apply bud_bind; [exact Hk|intros _].
    destruct (negb _); [apply quiet_bud, quiet_fail|apply bud_flush_ready].
  - destruct (nth_error (resize_to (r_bufs rs) (S idx) None) idx) as [[|]|];
      try (apply quiet_bud, quiet_fail);
      (apply bud_bind; [apply bud_pop_buf|intro b]);
      (apply bud_bind; [apply bud_with_buffer|intro p]); apply quiet_bud, quiet_ret.
Qed.

(** * The struct / map loops in [bind3] form *)

Definition rv_drop (rs : recstate) (idx : nat) (r : result recstate) : recstate :=
  match r with
  | Err _ | Panic _ => record_value_rs_on_error rs idx
  | _ => rs
  end.

Lemma struct_fields3_record serk fields rs blk dur key v' rest st :
  struct_fields serk (RKRecord fields) rs blk dur ((key, v') :: rest) st =
  match rec_field_idx fields rs key with
  | Ok (idx, k) =>
      bind3 (record_value serk fields rs idx k v') (rv_drop rs idx)
            (fun rs' => struct_fields serk (RKRecord fields) rs' blk dur rest) st
  | Err e => (Err e, rs, st)
  | Panic p => (Panic p, rs, st)
  | OutOfFuel => (OutOfFuel, rs, st)
  | Unmodelled => (Unmodelled, rs, st)
  end.
Proof.
  cbn [struct_fields]. destruct (rec_field_idx fields rs key) as [[idx k]| | | |]; try reflexivity.
  all: unfold bind3; destruct (record_value serk fields rs idx k v' st) as [[] st']; reflexivity.
Qed.

Lemma struct_fields3_map serk values rs blk dur key v' rest st :
  struct_fields serk (RKMap values) rs blk dur ((key, v') :: rest) st =
  bind3 (do* blk' <- block_next blk;
         do* _ <- ser_str_leaf key FString;
         do* _ <- serk values v';
         sret blk') (fun _ => rs)
        (fun blk' => struct_fields serk (RKMap values) rs blk' dur rest) st.
Proof.
  cbn [struct_fields]. unfold bind3.
  match goal with |- context [sbind ?m ?f st] => generalize (sbind m f) end. intro m.
  destruct (m st) as [[] st']; reflexivity.
Qed.

Lemma struct_fields3_duration serk rs blk dur key v' rest st :
  struct_fields serk RKDuration rs blk dur ((key, v') :: rest) st =
  match duration_field key with
  | None => (Err EData, rs, st)
  | Some i =>
      match nth_error dur i with
      | Some (Some _) => (Err EData, rs, st)
      | _ => bind3 (extract_u32 v') (fun _ => rs)
                   (fun x => struct_fields serk RKDuration rs blk (list_set dur i (Some x)) rest) st
      end
  end.
Proof.
  cbn [struct_fields]. destruct (duration_field key) as [i|]; [|reflexivity].
  destruct (nth_error dur i) as [[|]|]; try reflexivity;
    unfold bind3; destruct (extract_u32 v' st) as [[] st']; reflexivity.
Qed.

Lemma bud3_struct_fields serk kind : forall fs,
  Forall (fun f => forall k, bud (serk k (snd f))) fs ->
  forall rs blk dur, bud3 (struct_fields serk kind rs blk dur fs).
Proof.
  induction fs as [|[key v'] rest IH]; intros HF rs blk dur.
  - cbn [struct_fields]. apply bud3_ret.
  - inversion HF as [|? ? Hv HF']; subst. cbn [snd] in Hv. specialize (IH HF').
    destruct kind as [fields|values|].
    + eapply bud3_ext; [intro; apply struct_fields3_record|].
      destruct (rec_field_idx fields rs key) as [[idx k]|e|p| |]; try apply bud3_fail.
      apply bud3_bind3; [apply bud_record_value; auto|]. intro rs'. apply IH.
    + eapply bud3_ext; [intro; apply struct_fields3_map|].
      apply bud3_bind3; [|intro b; apply IH].
      bud_tac; auto.
    + eapply bud3_ext; [intro; apply struct_fields3_duration|].
      destruct (duration_field key) as [i|]; [|apply bud3_fail].
      destruct (nth_error dur i) as [[|]|]; try apply bud3_fail;
        (apply bud3_bind3; [apply bud_extract_u32|intro x; apply IH]).
Qed.

Lemma map_calls3_record serk serstr fields rs blk dur hint ko vo rest st :
  map_calls serk serstr (RKRecord fields) rs blk dur hint ((ko, vo) :: rest) st =
  match rec_key_res fields rs hint ko with
  | Ok hint' =>
      match vo with
      | None => map_calls serk serstr (RKRecord fields) rs blk dur hint' rest st
      | Some v' =>
          match hint' with
          | None => (Panic PSerKeyBeforeValue, rs, st)
          | Some (idx, k) =>
              bind3 (record_value serk fields rs idx k v') (rv_drop rs idx)
                    (fun rs' => map_calls serk serstr (RKRecord fields) rs' blk dur None rest) st
          end
      end
  | Err e => (Err e, rs, st)
  | Panic p => (Panic p, rs, st)
  | OutOfFuel => (OutOfFuel, rs, st)
  | Unmodelled => (Unmodelled, rs, st)
  end.
Proof.
  cbn [map_calls]. unfold rec_key_res.
  match goal with |- match ?x with _ => _ end = _ => destruct x as [hint'| | | |] end; try reflexivity.
  all: destruct vo as [v'|]; [|reflexivity]; destruct hint' as [[idx k]|]; [|reflexivity];
    unfold bind3; destruct (record_value serk fields rs idx k v' st) as [[] st']; reflexivity.
Qed.

Lemma map_calls3_map serk serstr values rs blk dur hint ko vo rest st :
  map_calls serk serstr (RKMap values) rs blk dur hint ((ko, vo) :: rest) st =
  bind3 (do* blk' <- (match ko with
                      | Some k' => do* b <- block_next blk; do* _ <- serstr k'; sret b
                      | None => sret blk
                      end);
         do* _ <- (match vo with Some v' => serk values v' | None => sret tt end);
         sret blk') (fun _ => rs)
        (fun blk' => map_calls serk serstr (RKMap values) rs blk' dur hint rest) st.
Proof.
  cbn [map_calls]. unfold bind3.
  match goal with |- context [sbind ?m ?f st] => generalize (sbind m f) end. intro m.
  destruct (m st) as [[] st']; reflexivity.
Qed.

Lemma map_calls3_duration serk serstr rs blk dur hint ko vo rest st :
  map_calls serk serstr RKDuration rs blk dur hint ((ko, vo) :: rest) st =
  match dur_key_res hint ko with
  | Ok hint' =>
      match vo with
      | None => map_calls serk serstr RKDuration rs blk dur hint' rest st
      | Some v' =>
          match hint' with
          | None => (Panic PSerKeyBeforeValue, rs, st)
          | Some (i, _) =>
              match nth_error dur i with
              | Some (Some _) => (Err EData, rs, st)
              | _ => bind3 (extract_u32 v') (fun _ => rs)
                       (fun x => map_calls serk serstr RKDuration rs blk (list_set dur i (Some x)) None rest) st
              end
          end
      end
  | Err e => (Err e, rs, st)
  | Panic p => (Panic p, rs, st)
  | OutOfFuel => (OutOfFuel, rs, st)
  | Unmodelled => (Unmodelled, rs, st)
  end.
Proof.
  cbn [map_calls]. unfold dur_key_res.
  match goal with |- match ?x with _ => _ end = _ => destruct x as [hint'| | | |] end; try reflexivity.
  all: destruct vo as [v'|]; [|reflexivity]; destruct hint' as [[i k]|]; [|reflexivity];
    destruct (nth_error dur i) as [[|]|]; try reflexivity;
    unfold bind3; destruct (extract_u32 v' st) as [[] st']; reflexivity.
Qed.

Lemma bud3_map_calls serk serstr kind : forall calls,
  Forall (fun c => call_ok (fun k => bud (serstr k)) (fst c) /\
                   call_ok (fun v => forall k, bud (serk k v)) (snd c)) calls ->
  forall rs blk dur hint, bud3 (map_calls serk serstr kind rs blk dur hint calls).
Proof.
  induction calls as [|[ko vo] rest IH]; intros HF rs blk dur hint.
  - cbn [map_calls]. apply bud3_ret.
  - inversion HF as [|? ? [Hk Hv] HF']; subst. cbn [fst snd] in Hk, Hv. specialize (IH HF').
    destruct kind as [fields|values|].
    + eapply bud3_ext; [intro; apply map_calls3_record|].
      destruct (rec_key_res fields rs hint ko) as [hint'|e|p| |]; try apply bud3_fail.
      destruct vo as [v'|]; [|apply IH].
      destruct hint' as [[idx k]|]; [|apply bud3_fail].
      apply bud3_bind3; [apply bud_record_value; apply Hv|]. intro rs'. apply IH.
    + eapply bud3_ext; [intro; apply map_calls3_map|].
      apply bud3_bind3; [|intro b; apply IH].
      destruct ko, vo; cbn in Hk, Hv; bud_tac; auto.
    + eapply bud3_ext; [intro; apply map_calls3_duration|].
      destruct (dur_key_res hint ko) as [hint'|e|p| |]; try apply bud3_fail.
      destruct vo as [v'|]; [|apply IH].
      destruct hint' as [[i k]|]; [|apply bud3_fail].
      destruct (nth_error dur i) as [[|]|]; try apply bud3_fail;
        (apply bud3_bind3; [apply bud_extract_u32|intro x; apply IH]).
Qed.

(* ------------------------------------------------------------------------------------------ *)
(** * finish (end() then Drop) and start_kind *)

Lemma quiet_pool {A} (r : result A) h : poolfn h -> quiet (fun st => (r, h st)).
Proof. intros Hh st. destruct (Hh st) as (H1 & H2 & H3). cbn [fst snd]. repeat split; auto. intro c. now rewrite H3. Qed.

Definition drop_on_fail {X} (r : result X) (d : recstate) (u : sstate) : sstate :=
  match r with
  | Err _ | Panic _ => snd (record_drop d u)
  | _ => u
  end.
Lemma poolfn_drop_on_fail {X} (r : result X) d : poolfn (drop_on_fail r d).
Proof. destruct r; cbn [drop_on_fail]; try apply poolfn_id; apply poolfn_record_drop. Qed.

Definition has_some (l : list (option buf)) : bool :=
  existsb (fun o => match o with Some _ => true | None => false end) l.

Lemma finish_record_eq Sc fields (t : T3 (recstate * N * list (option N))) st :
  finish Sc (RKRecord fields) (t st) =
  fin3 t (fun x =>
            sbind_h (record_end (S (length fields)) Sc fields (fst (fst x)))
              (fun rs' =>
                 if has_some (r_bufs rs')
                 then (fun st' => (Panic PDebugAssertBuffers, snd (record_drop rs' st')))
                 else (fun st' => (Ok tt, snd (record_drop (mkR (r_cur rs') [] (r_cap rs')) st'))))
              (fun r => drop_on_fail r (fst (fst x))))
       (fun r d => drop_on_fail r d) st.
Proof.
  unfold finish, fin3. destruct (t st) as [[[[[rs b] dd]| | | |] d] u]; try reflexivity.
  cbn [fst]. unfold sbind_h.
  destruct (record_end (S (length fields)) Sc fields rs u) as [[rs'| | | |] u']; try reflexivity.
  unfold has_some. destruct (existsb _ (r_bufs rs')); reflexivity.
Qed.

Lemma finish_map_eq Sc values (t : T3 (recstate * N * list (option N))) st :
  finish Sc (RKMap values) (t st) =
  fin3 t (fun x => block_end (snd (fst x))) (fun _ _ u => u) st.
Proof. unfold finish, fin3. destruct (t st) as [[[[[rs b] dd]| | | |] d] u]; reflexivity. Qed.

Lemma finish_duration_eq Sc (t : T3 (recstate * N * list (option N))) st :
  finish Sc RKDuration (t st) =
  fin3 t (fun x => match snd x with
                   | [Some a; Some b; Some c] => write (le_bytes 4 a ++ le_bytes 4 b ++ le_bytes 4 c)
                   | _ => fail (Err EData)
                   end) (fun _ _ u => u) st.
Proof.
  unfold finish, fin3. destruct (t st) as [[[[[rs b] dd]| | | |] d] u]; try reflexivity.
  cbn [snd]. destruct dd as [|[a|] [|[b'|] [|[c|] [|]]]]; reflexivity.
Qed.

Lemma bud_finish Sc kind (t : T3 (recstate * N * list (option N))) :
  bud3 t -> bud (fun st => finish Sc kind (t st)).
Proof.
  intro Ht. destruct kind as [fields|values|].
  - eapply bud_ext; [intro; apply finish_record_eq|].
    apply bud_fin3; [exact Ht| |intros r d; apply poolfn_drop_on_fail].
    intros [[rs b] dd]. cbn [fst].
    apply bud_bind_h; [apply bud_record_end| |intro r; apply poolfn_drop_on_fail].
    intro rs'. destruct (has_some (r_bufs rs')); apply quiet_bud, quiet_pool, poolfn_record_drop.
  - eapply bud_ext; [intro; apply finish_map_eq|].
    apply bud_fin3; [exact Ht| |intros r d; apply poolfn_id].
    intros [[rs b] dd]. apply bud_block_end.
  - eapply bud_ext; [intro; apply finish_duration_eq|].
    apply bud_fin3; [exact Ht| |intros r d; apply poolfn_id].
    intros [[rs b] dd]. cbn [snd]. bud_tac.
Qed.

Lemma bud_record_new : bud record_new.
Proof. unfold record_new. bud_tac. Qed.

Lemma bud_start_kind Sc b l n' run :
  (forall kind rs blk, bud3 (run kind rs blk)) -> bud (start_kind Sc b l n' run).
Proof.
  intro H. unfold start_kind. destruct n'; try (apply quiet_bud, quiet_fail).
  - apply bud_bind; [apply bud_block_new|]. intro blk.
    apply (bud_finish Sc (RKMap values) (run (RKMap values) (mkR 0 [] false) blk)). apply H.
  - apply bud_bind; [apply bud_record_new|]. intro rs.
    apply (bud_finish Sc (RKRecord fields) (run (RKRecord fields) rs 0%N)). apply H.
  - destruct b; [|apply quiet_bud, quiet_fail].
    apply (bud_finish Sc RKDuration (run RKDuration (mkR 0 [] false) 0%N)). apply H.
Qed.

(* ------------------------------------------------------------------------------------------ *)
(** * Sequences *)

Lemma bud_arr_go serk items : forall vs, Forall (fun v => forall k, bud (serk k v)) vs ->
  forall blk, bud (arr_go serk items blk vs).
Proof.
  induction vs as [|v vs IH]; intros HF blk; cbn [arr_go]; [apply quiet_bud, quiet_ret|].
  inversion HF; subst. bud_tac; auto.
Qed.
Lemma bud_dur_go : forall vs cnt, bud (dur_go cnt vs).
Proof. induction vs as [|v vs IH]; intro cnt; cbn [dur_go]; bud_tac; auto. Qed.
Lemma bud_collect_go : forall vs acc, bud (collect_go acc vs).
Proof. induction vs as [|v vs IH]; intro acc; cbn [collect_go]; bud_tac; auto. Qed.
Lemma bud_bytes_go : forall vs r, bud (bytes_go r vs).
Proof. induction vs as [|v vs IH]; intro r; cbn [bytes_go]; bud_tac; auto. Qed.

Definition u8_ok (v : sval) : bool :=
  match v with SInt _ _ z => Zin 0 255 z | _ => false end.
Lemma extract_u8_ok v st :
  match extract_u8 v st with (Ok _, _) => true | _ => false end = u8_ok v.
Proof. destruct v; try reflexivity. cbn. destruct (Zin 0 255 z); reflexivity. Qed.

Definition hpush (cap : bool) (s : sstate) : sstate :=
  if cap then snd (push_buf ([], cap) s) else s.
Lemma poolfn_hpush cap : poolfn (hpush cap).
Proof. apply poolfn_maybe_push. Qed.

Lemma bud_seq_leaf serk len vs n' :
  Forall (fun v => forall k, bud (serk k v)) vs -> bud (seq_leaf serk len vs n').
Proof.
  intro HF. unfold seq_leaf. destruct n'; try (apply quiet_bud, quiet_fail).
  - (* FBytes *)
    apply bud_bind; [apply quiet_bud, quiet_slow_check|intros _].
    destruct len as [l|].
    + apply bud_bind; [apply bud_usize|intro li].
      apply bud_bind; [apply bud_write_varint|intros _].
      apply bud_bind; [apply (bud_bytes_go vs l)|intro r]. bud_tac.
    + apply bud_bind; [apply bud_pop_buf|intro b].
      apply bud_ext with
        (m' := sbind_h (collect_go [] vs)
                 (fun content =>
                    sbind_h (write_ld content)
                      (fun u s2 => (Ok u, hpush (snd b || negb (Nat.eqb (length content) 0)) s2))
                      (fun _ => hpush (snd b || negb (Nat.eqb (length content) 0))))
                 (fun _ => hpush (snd b || match vs with [] => false | v' :: _ => u8_ok v' end))).
      * intro s. cbv zeta.
        change (fix go (acc : bytes) (vs : list sval) {struct vs} : M bytes :=
                  match vs with
                  | [] => sret acc
                  | v' :: rest => do* x <- extract_u8 v'; go (acc ++ [x]) rest
                  end) with collect_go.
        unfold sbind_h.
        assert (Ep : (fix cnt (vs0 : list sval) : bool :=
                        match vs0 with
                        | [] => false
                        | v' :: _ => match extract_u8 v' s with (Ok _, _) => true | _ => false end
                        end) vs = match vs with [] => false | v' :: _ => u8_ok v' end).
        { destruct vs as [|v' rest]; [reflexivity|]. apply extract_u8_ok. }
        destruct (collect_go [] vs s) as [[content| | | |] s1]; try (rewrite Ep; reflexivity).
        destruct (write_ld content s1) as [[[]| | | |] s2]; reflexivity.
      * apply bud_bind_h; [apply bud_collect_go| |intro; apply poolfn_hpush].
        intro content. apply bud_bind_h; [apply bud_write_ld| |intro; apply poolfn_hpush].
        intro u. apply quiet_bud, quiet_pool, poolfn_hpush.
  - (* FArray *)
    apply bud_bind; [apply bud_block_new|intro blk].
    apply bud_bind; [apply (bud_arr_go serk items vs HF blk)|intro blk']. apply bud_block_end.
  - (* FFixed *)
    apply bud_bind; [apply quiet_bud, quiet_slow_check|intros _].
    destruct (match len with Some l => negb (N.eqb l size) | None => false end); [apply quiet_bud, quiet_fail|].
    apply bud_bind; [apply (bud_bytes_go vs size)|intro r]. bud_tac.
  - (* FDuration *)
    destruct (match len with Some l => negb (N.eqb l 3) | None => false end); [apply quiet_bud, quiet_fail|].
    apply bud_bind; [apply (bud_dur_go vs 0)|intro r]. bud_tac.
Qed.

(* ------------------------------------------------------------------------------------------ *)
(** * 1. The simulation over the whole serializer *)

Lemma bud_at_key Sc k v : (forall n, bud (ser Sc n v)) -> bud (at_key Sc k v).
Proof. intro H. unfold at_key. destruct (fnode_at Sc k); auto. apply quiet_bud, quiet_fail. Qed.

Theorem ser_budget_simulation Sc : forall v n, bud (ser Sc n v).
Proof.
  induction v using sval_ind2; intro n0;
    try (cbn [ser]; try apply bud_unit_variant_null; repeat (apply bud_via_union; intro); bud_tac; fail).
  - rewrite ser_SSeq. apply bud_via_union; intro. apply bud_seq_leaf.
    eapply Forall_impl; [|exact H]. intros v Hv k. now apply bud_at_key.
  - rewrite ser_STuple. apply bud_via_union; intro. apply bud_seq_leaf.
    eapply Forall_impl; [|exact H]. intros v Hv k. now apply bud_at_key.
  - rewrite ser_STupleStruct. apply bud_via_union; intro. apply bud_seq_leaf.
    eapply Forall_impl; [|exact H]. intros v Hv k. now apply bud_at_key.
  - rewrite ser_STupleVariant. apply bud_bind; [apply bud_named_step|intro].
    apply bud_via_union; intro. apply bud_seq_leaf.
    eapply Forall_impl; [|exact H]. intros v Hv k. now apply bud_at_key.
  - rewrite ser_SMap. apply bud_via_union; intro. apply bud_start_kind.
    intros kind rs blk. apply bud3_map_calls; auto.
    eapply Forall_impl; [|exact H]. intros [ko vo] [Hk Hv]. cbn [fst snd] in *. split.
    + destruct ko; cbn in *; auto.
    + destruct vo; cbn in *; auto. intro k. now apply bud_at_key.
  - rewrite ser_SStruct. apply bud_bind; [apply bud_named_step|intro].
    apply bud_via_union; intro. apply bud_start_kind.
    intros kind rs blk. apply bud3_struct_fields; auto.
    eapply Forall_impl; [|exact H]. intros [nm v] Hv k. now apply bud_at_key.
  - rewrite ser_SStructVariant. apply bud_bind; [apply bud_named_step|intro].
    apply bud_via_union; intro. apply bud_start_kind.
    intros kind rs blk. apply bud3_struct_fields; auto.
    eapply Forall_impl; [|exact H]. intros [nm v] Hv k. now apply bud_at_key.
Qed.

(* the simulation, spelled out *)
Corollary ser_budget_cut : forall Sc n v st c rV tV,
  s_budget st = None -> ser Sc n v st = (rV, tV) ->
  exists w, s_out tV = s_out st ++ w /\ s_budget tV = None /\
    ((nlen w <= c)%N -> ser Sc n v (reb st c) = (rV, reb tV (c - nlen w))) /\
    ((c < nlen w)%N -> exists tB, ser Sc n v (reb st c) = (Err EIo, tB) /\
                                   s_out tB = s_out st ++ firstn (N.to_nat c) w /\ s_budget tB = Some 0%N).
Proof.
  intros Sc n v st c rV tV Hb E. pose proof (ser_budget_simulation Sc v n st c Hb) as H.
  rewrite E in H. exact H.
Qed.

(* a budgeted run never ends Ok with the sink overflowed, never panics unless the Vec run does with
   the same site, and the bytes in the sink are always a prefix of what the Vec run wrote *)
Corollary ser_budget_prefix : forall Sc n v st c,
  s_budget st = None ->
  exists w, s_out (snd (ser Sc n v st)) = s_out st ++ w /\
            s_out (snd (ser Sc n v (reb st c))) = s_out st ++ firstn (N.to_nat c) w /\
            (forall p, fst (ser Sc n v (reb st c)) = Panic p -> fst (ser Sc n v st) = Panic p) /\
            (forall a, fst (ser Sc n v (reb st c)) = Ok a ->
                       fst (ser Sc n v st) = Ok a /\ (nlen w <= c)%N).
Proof.
  intros Sc n v st c Hb. destruct (ser Sc n v st) as [rV tV] eqn:E.
  destruct (ser_budget_cut Sc n v st c rV tV Hb E) as (w & Ho & Hbt & Hfit & Hov).
  exists w. cbn [fst snd]. split; [exact Ho|].
  destruct (N.le_gt_cases (nlen w) c) as [Hle|Hgt].
  - rewrite (Hfit Hle). cbn [fst snd reb st_with_out s_out]. unfold nlen in Hle.
    rewrite firstn_all2 by lia. auto.
  - destruct (Hov Hgt) as (tB & EB & EoB & _). rewrite EB. cbn [fst snd].
    split; [exact EoB|]. split; intros; discriminate.
Qed.

(* ------------------------------------------------------------------------------------------ *)
(** * 2. to_datum into a slice of b bytes *)

Definition coerce {A B} (r : result A) (dflt : B) : result B :=
  match r with Ok _ => Ok dflt | Err e => Err e | Panic p => Panic p
             | OutOfFuel => OutOfFuel | Unmodelled => Unmodelled end.

(* verdict and the bytes in the slice afterwards (budget installed as SerHistory.hist_step does) *)
Definition to_datum_sink (Sc : fschema) (slow : bool) (b : N) (v : sval) : result bytes * bytes :=
  match fnode_at Sc 0 with
  | None => (Panic PIndex, [])
  | Some root =>
      let '(r, st) := ser Sc root v (mkS [] (Some b) [] [] slow) in
      (coerce r (s_out st), s_out st)
  end.
Definition to_datum_budget (Sc : fschema) (slow : bool) (b : N) (v : sval) : result bytes :=
  fst (to_datum_sink Sc slow b v).

Lemma to_datum_budget_is_hist_step Sc slow b v :
  to_datum_budget Sc slow b v = fst (hist_step Sc slow ([], []) (v, Some b)).
Proof.
  unfold to_datum_budget, to_datum_sink, hist_step. cbn [fst snd].
  destruct (fnode_at Sc 0) as [root|]; [|reflexivity].
  destruct (ser Sc root v (mkS [] (Some b) [] [] slow)) as [[[]| | | |] st]; reflexivity.
Qed.

Lemma to_datum_is_ser Sc slow v root :
  fnode_at Sc 0 = Some root ->
  to_datum Sc slow v = coerce (fst (ser Sc root v (st0 slow))) (s_out (snd (ser Sc root v (st0 slow)))).
Proof.
  intro E. unfold to_datum. rewrite E.
  destruct (ser Sc root v (st0 slow)) as [[[]| | | |] st]; reflexivity.
Qed.

(* the general form: whatever the Vec run does (w = the bytes it wrote, r its outcome) *)
Theorem to_datum_sink_any : forall Sc slow b v root,
  fnode_at Sc 0 = Some root ->
  let r := fst (ser Sc root v (st0 slow)) in
  let w := s_out (snd (ser Sc root v (st0 slow))) in
  ((nlen w <= b)%N -> to_datum_sink Sc slow b v = (coerce r w, w)) /\
  ((b < nlen w)%N -> to_datum_sink Sc slow b v = (Err EIo, firstn (N.to_nat b) w)).
Proof.
  intros Sc slow b v root E r w. unfold to_datum_sink. rewrite E.
  change (mkS [] (Some b) [] [] slow) with (reb (st0 slow) b).
  subst r w. destruct (ser Sc root v (st0 slow)) as [rV tV] eqn:EV. cbn [fst snd].
  destruct (ser_budget_cut Sc root v (st0 slow) b rV tV eq_refl EV) as (w & Ho & _ & Hfit & Hov).
  cbn [s_out st0 app] in Ho, Hov. rewrite Ho. split; intro H.
  - rewrite (Hfit H). cbn [reb st_with_out s_out]. rewrite Ho. reflexivity.
  - destruct (Hov H) as (tB & -> & -> & _). reflexivity.
Qed.

(* the statement of the task *)
Theorem to_datum_budget_spec : forall Sc slow b v bs,
  to_datum Sc slow v = Ok bs ->
  ((nlen bs <= b)%N -> to_datum_sink Sc slow b v = (Ok bs, bs)) /\
  ((b < nlen bs)%N -> to_datum_sink Sc slow b v = (Err EIo, firstn (N.to_nat b) bs)).
Proof.
  intros Sc slow b v bs H. unfold to_datum in H.
  destruct (fnode_at Sc 0) as [root|] eqn:E; [|discriminate].
  pose proof (to_datum_sink_any Sc slow b v root E) as HS. cbv zeta in HS.
  destruct (ser Sc root v (st0 slow)) as [[[]| | | |] tV]; try discriminate.
  injection H as <-. exact HS.
Qed.

Corollary to_datum_budget_cut : forall Sc slow b v bs,
  to_datum Sc slow v = Ok bs ->
  ((nlen bs <= b)%N -> to_datum_budget Sc slow b v = Ok bs) /\
  ((b < nlen bs)%N -> to_datum_budget Sc slow b v = Err EIo).
Proof.
  intros Sc slow b v bs H. destruct (to_datum_budget_spec Sc slow b v bs H) as (H1 & H2).
  unfold to_datum_budget. split; intro Hc; [rewrite (H1 Hc)|rewrite (H2 Hc)]; reflexivity.
Qed.

(* converse directions: Ok under a budget only as the Vec run, within the budget; no new panics;
   an Err EData / Unmodelled of the Vec run can only turn into itself or Err EIo *)
Theorem to_datum_budget_ok_iff : forall Sc slow b v bs,
  to_datum_budget Sc slow b v = Ok bs <-> (to_datum Sc slow v = Ok bs /\ (nlen bs <= b)%N).
Proof.
  intros Sc slow b v bs. split.
  - unfold to_datum_budget. destruct (fnode_at Sc 0) as [root|] eqn:E.
    + destruct (to_datum_sink_any Sc slow b v root E) as (Hfit & Hov). cbv zeta in Hfit, Hov.
      rewrite (to_datum_is_ser Sc slow v root E).
      destruct (N.le_gt_cases (nlen (s_out (snd (ser Sc root v (st0 slow))))) b) as [Hle|Hgt].
      * rewrite (Hfit Hle). cbn [fst]. intro H. split; [exact H|].
        destruct (fst (ser Sc root v (st0 slow))); try discriminate. cbn in H. injection H as <-. exact Hle.
      * rewrite (Hov Hgt). discriminate.
    + unfold to_datum_sink. rewrite E. discriminate.
  - intros (H & Hle). exact (proj1 (to_datum_budget_cut Sc slow b v bs H) Hle).
Qed.

Theorem to_datum_budget_no_new_panic : forall Sc slow b v p,
  to_datum_budget Sc slow b v = Panic p -> to_datum Sc slow v = Panic p.
Proof.
  intros Sc slow b v p. unfold to_datum_budget. destruct (fnode_at Sc 0) as [root|] eqn:E.
  - destruct (to_datum_sink_any Sc slow b v root E) as (Hfit & Hov). cbv zeta in Hfit, Hov.
    rewrite (to_datum_is_ser Sc slow v root E).
    destruct (N.le_gt_cases (nlen (s_out (snd (ser Sc root v (st0 slow))))) b) as [Hle|Hgt].
    + rewrite (Hfit Hle). cbn [fst]. auto.
    + rewrite (Hov Hgt). discriminate.
  - unfold to_datum_sink, to_datum. rewrite E. auto.
Qed.

Theorem to_datum_sink_prefix : forall Sc slow b v root,
  fnode_at Sc 0 = Some root ->
  snd (to_datum_sink Sc slow b v) = firstn (N.to_nat b) (s_out (snd (ser Sc root v (st0 slow)))).
Proof.
  intros Sc slow b v root E. destruct (to_datum_sink_any Sc slow b v root E) as (Hfit & Hov).
  cbv zeta in Hfit, Hov.
  destruct (N.le_gt_cases (nlen (s_out (snd (ser Sc root v (st0 slow))))) b) as [Hle|Hgt].
  - rewrite (Hfit Hle). cbn [snd]. unfold nlen in Hle. rewrite firstn_all2 by lia. reflexivity.
  - rewrite (Hov Hgt). reflexivity.
Qed.

(* ------------------------------------------------------------------------------------------ *)
(** * 3. Single-object encoding into a slice: marker and fingerprint count against the budget *)

Definition so_prog (Sc : fschema) (fp : bytes) (root : fnode) (v : sval) : M unit :=
  do* _ <- write SO_MARKER; do* _ <- write fp; ser Sc root v.

Definition so_sink_run (Sc : fschema) (fp : bytes) (slow : bool) (budget : option N) (root : fnode) (v : sval)
  : sres sstate unit := so_prog Sc fp root v (mkS [] budget [] [] slow).

Lemma so_encode_sink_run Sc fp slow budget v root :
  fnode_at Sc 0 = Some root ->
  so_encode_sink Sc fp slow budget v =
  coerce (fst (so_sink_run Sc fp slow budget root v)) (s_out (snd (so_sink_run Sc fp slow budget root v))).
Proof.
  intro E. unfold so_encode_sink, so_sink_run, so_prog. rewrite E.
  match goal with |- match ?x with _ => _ end = _ => destruct x as [[[]| | | |] st] end; reflexivity.
Qed.

Lemma bud_so_prog Sc fp root v : bud (so_prog Sc fp root v).
Proof.
  unfold so_prog. apply bud_bind; [apply bud_write|intros _].
  apply bud_bind; [apply bud_write|intros _]. apply ser_budget_simulation.
Qed.

(* general form: r, w = outcome and bytes of the run into a Vec *)
Theorem so_sink_any : forall Sc fp slow b root v,
  let r := fst (so_sink_run Sc fp slow None root v) in
  let w := s_out (snd (so_sink_run Sc fp slow None root v)) in
  ((nlen w <= b)%N -> fst (so_sink_run Sc fp slow (Some b) root v) = r /\
                      s_out (snd (so_sink_run Sc fp slow (Some b) root v)) = w) /\
  ((b < nlen w)%N -> fst (so_sink_run Sc fp slow (Some b) root v) = Err EIo /\
                     s_out (snd (so_sink_run Sc fp slow (Some b) root v)) = firstn (N.to_nat b) w).
Proof.
  intros Sc fp slow b root v r w. subst r w. unfold so_sink_run.
  change (mkS [] (Some b) [] [] slow) with (reb (mkS [] None [] [] slow) b).
  destruct (bud_so_prog Sc fp root v (mkS [] None [] [] slow) b eq_refl) as (w & Ho & _ & Hfit & Hov).
  cbn [s_out app] in Ho, Hov. rewrite Ho. split; intro H.
  - rewrite (Hfit H). cbn [fst snd reb st_with_out s_out]. auto.
  - destruct (Hov H) as (tB & EB & Eo & _). rewrite EB. cbn [fst snd]. split; [reflexivity|exact Eo].
Qed.

Theorem so_encode_sink_budget : forall Sc fp slow b v bs,
  so_encode Sc fp slow v = Ok bs ->
  ((nlen bs <= b)%N -> so_encode_sink Sc fp slow (Some b) v = Ok bs) /\
  ((b < nlen bs)%N -> so_encode_sink Sc fp slow (Some b) v = Err EIo).
Proof.
  intros Sc fp slow b v bs H. rewrite <- SinkWriteProofs.so_encode_sink_vec in H.
  destruct (fnode_at Sc 0) as [root|] eqn:E.
  - rewrite (so_encode_sink_run Sc fp slow None v root E) in H.
    rewrite (so_encode_sink_run Sc fp slow (Some b) v root E).
    destruct (so_sink_any Sc fp slow b root v) as (Hfit & Hov). cbv zeta in Hfit, Hov.
    destruct (so_sink_run Sc fp slow None root v) as [[[]| | | |] tV]; try discriminate.
    cbn [fst snd coerce] in *. injection H as <-. split; intro Hc.
    + destruct (Hfit Hc) as (-> & ->). reflexivity.
    + destruct (Hov Hc) as (-> & _). reflexivity.
  - unfold so_encode_sink in H. rewrite E in H. discriminate.
Qed.

(* ... and the bytes in the slice are the first b bytes of the Vec encoding *)
Theorem so_encode_sink_budget_bytes : forall Sc fp slow b v bs root,
  fnode_at Sc 0 = Some root -> so_encode Sc fp slow v = Ok bs ->
  s_out (snd (so_sink_run Sc fp slow (Some b) root v)) = firstn (N.to_nat b) bs.
Proof.
  intros Sc fp slow b v bs root E H. rewrite <- SinkWriteProofs.so_encode_sink_vec in H.
  rewrite (so_encode_sink_run Sc fp slow None v root E) in H.
  destruct (so_sink_any Sc fp slow b root v) as (Hfit & Hov). cbv zeta in Hfit, Hov.
  destruct (so_sink_run Sc fp slow None root v) as [[[]| | | |] tV]; try discriminate.
  cbn [fst snd coerce] in *. injection H as <-.
  destruct (N.le_gt_cases (nlen (s_out tV)) b) as [Hle|Hgt].
  - destruct (Hfit Hle) as (_ & ->). unfold nlen in Hle. rewrite firstn_all2 by lia. reflexivity.
  - destruct (Hov Hgt) as (_ & ->). reflexivity.
Qed.

(* in terms of the datum: 2 bytes of marker + the fingerprint + the datum must fit *)
Corollary so_encode_sink_budget_datum : forall Sc fp slow b v d,
  to_datum Sc slow v = Ok d ->
  so_encode_sink Sc fp slow (Some b) v =
  if (2 + nlen fp + nlen d <=? b)%N then Ok (SO_MARKER ++ fp ++ d) else Err EIo.
Proof.
  intros Sc fp slow b v d H.
  assert (Hs : so_encode Sc fp slow v = Ok (SO_MARKER ++ fp ++ d)) by (unfold so_encode; now rewrite H).
  destruct (so_encode_sink_budget Sc fp slow b v _ Hs) as (Hfit & Hov).
  assert (El : nlen (SO_MARKER ++ fp ++ d) = (2 + nlen fp + nlen d)%N).
  { unfold nlen. rewrite !app_length. cbn [SO_MARKER length]. lia. }
  rewrite El in Hfit, Hov.
  destruct (N.leb_spec (2 + nlen fp + nlen d) b) as [Hle|Hgt]; auto.
Qed.

(* ------------------------------------------------------------------------------------------ *)
(** * 4. Histories: a budgeted job against the same job into a Vec *)

Definition pools_ok (p : pools) : Prop :=
  Forall (fun b : buf => fst b = []) (fst p) /\ Forall (fun v : list (option buf) => v = []) (snd p).

(* general form: w = the bytes the Vec job wrote (= its result when it succeeds) *)
Theorem hist_step_budget_any : forall Sc slow p v b rV pV,
  hist_step Sc slow p (v, None) = (rV, pV) ->
  exists w, (forall bs, rV = Ok bs -> bs = w) /\
    ((nlen w <= b)%N -> hist_step Sc slow p (v, Some b) = (rV, pV)) /\
    ((b < nlen w)%N -> fst (hist_step Sc slow p (v, Some b)) = Err EIo).
Proof.
  intros Sc slow p v b rV pV H. unfold hist_step in *. cbn [fst snd] in *.
  destruct (fnode_at Sc 0) as [root|].
  - change (mkS [] (Some b) (fst p) (snd p) slow) with (reb (mkS [] None (fst p) (snd p) slow) b).
    destruct (ser Sc root v (mkS [] None (fst p) (snd p) slow)) as [r0 tV] eqn:EV.
    destruct (ser_budget_cut Sc root v (mkS [] None (fst p) (snd p) slow) b r0 tV eq_refl EV)
      as (w & Ho & _ & Hfit & Hov).
    cbn [s_out app] in Ho, Hov. injection H as <- <-. exists w. split; [|split].
    + intros bs Hr. destruct r0; try discriminate. injection Hr as <-. exact Ho.
    + intro Hc. rewrite (Hfit Hc). reflexivity.
    + intro Hc. destruct (Hov Hc) as (tB & -> & _). reflexivity.
  - injection H as <- <-. exists []. split; [intros; discriminate|]. split; [reflexivity|].
    unfold nlen. cbn [length]. lia.
Qed.

(* a budgeted job succeeds or fails exactly by the length of its Vec encoding; when it succeeds it
   leaves exactly the pools of the Vec job *)
Theorem hist_step_budget : forall Sc slow p v b bs pV,
  hist_step Sc slow p (v, None) = (Ok bs, pV) ->
  ((nlen bs <= b)%N -> hist_step Sc slow p (v, Some b) = (Ok bs, pV)) /\
  ((b < nlen bs)%N -> fst (hist_step Sc slow p (v, Some b)) = Err EIo).
Proof.
  intros Sc slow p v b bs pV H.
  destruct (hist_step_budget_any Sc slow p v b _ _ H) as (w & Hw & Hfit & Hov).
  rewrite <- (Hw bs eq_refl) in Hfit, Hov. auto.
Qed.

(* a job that fails into a Vec fails under every budget: the same way (same outcome, same pools)
   when the bytes written before the failure fit, with Err EIo otherwise *)
Theorem hist_step_budget_fail : forall Sc slow p v b rV pV,
  hist_step Sc slow p (v, None) = (rV, pV) -> (forall bs, rV <> Ok bs) ->
  hist_step Sc slow p (v, Some b) = (rV, pV) \/ fst (hist_step Sc slow p (v, Some b)) = Err EIo.
Proof.
  intros Sc slow p v b rV pV H _.
  destruct (hist_step_budget_any Sc slow p v b _ _ H) as (w & _ & Hfit & Hov).
  destruct (N.le_gt_cases (nlen w) b) as [Hle|Hgt]; auto.
Qed.

(* whatever a job does (any budget, success or failure) the pools stay clean ... *)
Theorem hist_step_pools_ok : forall Sc slow p job, pools_ok p -> pools_ok (snd (hist_step Sc slow p job)).
Proof.
  intros Sc slow p [v bo] Hp. unfold hist_step. cbn [fst snd].
  destruct (fnode_at Sc 0) as [root|]; [|exact Hp].
  destruct (ser Sc root v (mkS [] bo (fst p) (snd p) slow)) as [r st'] eqn:E. cbn [snd].
  assert (Hpk : pool_ok (mkS [] bo (fst p) (snd p) slow)) by exact Hp.
  exact (proj1 (ser_pool_inv Sc root v _ r st' Hpk E)).
Qed.

(* ... and clean pools are invisible to a job, budgeted or not *)
Theorem hist_step_fresh : forall Sc slow p job, pools_ok p ->
  fst (hist_step Sc slow p job) = fst (hist_step Sc slow ([], []) job).
Proof.
  intros Sc slow p [v bo] Hp. unfold hist_step. cbn [fst snd].
  destruct (fnode_at Sc 0) as [root|]; [|reflexivity].
  assert (Hp1 : pool_ok (mkS [] bo (fst p) (snd p) slow)) by exact Hp.
  assert (Hp2 : pool_ok (mkS [] bo [] [] slow)) by (split; constructor).
  pose proof (ser_pool_indep_budget Sc root v _ _ Hp1 Hp2 eq_refl eq_refl) as H.
  destruct (ser Sc root v (mkS [] bo (fst p) (snd p) slow)) as [r1 t1].
  destruct (ser Sc root v (mkS [] bo [] [] slow)) as [r2 t2].
  destruct H as (-> & _ & _ & _ & _ & _ & _ & w & E1 & E2). cbn [s_out app] in E1, E2.
  cbn [fst]. rewrite E1, E2. reflexivity.
Qed.

Lemma hist_run_pools_ok : forall Sc slow jobs p, pools_ok p -> pools_ok (snd (hist_run Sc slow p jobs)).
Proof.
  intros Sc slow jobs. induction jobs as [|j rest IH]; intros p Hp; cbn [hist_run]; [exact Hp|].
  pose proof (hist_step_pools_ok Sc slow p j Hp) as H1.
  destruct (hist_step Sc slow p j) as [r p']. cbn [snd] in H1. specialize (IH p' H1).
  destruct (hist_run Sc slow p' rest) as [rs p'']. exact IH.
Qed.

(* the outcome of a job on a fresh configuration *)
Definition job_fresh (Sc : fschema) (slow : bool) (job : sval * option N) : result bytes :=
  match snd job with
  | None => to_datum Sc slow (fst job)
  | Some b => to_datum_budget Sc slow b (fst job)
  end.

Lemma job_fresh_is_hist_step Sc slow job : job_fresh Sc slow job = fst (hist_step Sc slow ([], []) job).
Proof.
  destruct job as [v [b|]]; unfold job_fresh; cbn [fst snd].
  - apply to_datum_budget_is_hist_step.
  - unfold to_datum, hist_step, st0. cbn [fst snd]. destruct (fnode_at Sc 0) as [root|]; [|reflexivity].
    destruct (ser Sc root v (mkS [] None [] [] slow)) as [[[]| | | |] st]; reflexivity.
Qed.

(* history independence with budgeted sinks: in any history (jobs into Vecs and into slices of any
   size, succeeding or failing) every job ends as on a fresh configuration *)
Theorem hist_run_budget_indep : forall Sc slow jobs p, pools_ok p ->
  fst (hist_run Sc slow p jobs) = map (job_fresh Sc slow) jobs.
Proof.
  intros Sc slow jobs. induction jobs as [|j rest IH]; intros p Hp; cbn [hist_run map]; [reflexivity|].
  pose proof (hist_step_pools_ok Sc slow p j Hp) as H1.
  pose proof (hist_step_fresh Sc slow p j Hp) as H2.
  destruct (hist_step Sc slow p j) as [r p']. cbn [fst snd] in H1, H2. specialize (IH p' H1).
  destruct (hist_run Sc slow p' rest) as [rs p'']. cbn [fst] in *.
  rewrite IH, H2, job_fresh_is_hist_step. reflexivity.
Qed.

(* ... so a budgeted job anywhere in a history is decided by the length of its Vec encoding *)
Corollary hist_run_budget_cut : forall Sc slow jobs p i v b bs, pools_ok p ->
  nth_error jobs i = Some (v, Some b) -> to_datum Sc slow v = Ok bs ->
  nth_error (fst (hist_run Sc slow p jobs)) i = Some (if (nlen bs <=? b)%N then Ok bs else Err EIo).
Proof.
  intros Sc slow jobs p i v b bs Hp Hn Hd. rewrite (hist_run_budget_indep Sc slow jobs p Hp).
  rewrite nth_error_map, Hn. cbn [option_map]. f_equal. unfold job_fresh. cbn [fst snd].
  destruct (to_datum_budget_cut Sc slow b v bs Hd) as (Hfit & Hov).
  destruct (N.leb_spec (nlen bs) b) as [Hle|Hgt]; auto.
Qed.

(* When the budgeted job overflows, its pools are clean (hist_step_pools_ok) but NOT in general the
   pools of the (succeeding) Vec job: the budgeted run stops before later fields ask the pool for a
   buffer.  Record r {a, b, c : int} presented as a, c, b: the Vec job buffers c and returns that
   buffer to the pool; under a budget of 0 bytes the job dies on a and never takes a buffer. *)
Theorem hist_step_overflow_same_pools_refuted :
  let Sc := [FRecord (mkName [114%N] None) [([97%N], 1); ([98%N], 1); ([99%N], 1)]; FInt] in
  let v := SStruct [114%N] 3 [([97%N], SInt true W32 1%Z); ([99%N], SInt true W32 3%Z);
                              ([98%N], SInt true W32 2%Z)] in
  hist_step Sc false ([], []) (v, None) = (Ok [2; 4; 6]%N, ([([], true)], [[]])) /\
  hist_step Sc false ([], []) (v, Some 0%N) = (Err EIo, ([], [])) /\
  snd (hist_step Sc false ([], []) (v, Some 0%N)) <> snd (hist_step Sc false ([], []) (v, None)).
Proof. vm_compute. repeat split; try reflexivity. discriminate. Qed.

(* ------------------------------------------------------------------------------------------ *)
(** * 5. Computed examples *)

(* the out-of-order record of SinkWriteProofs.slice_examples: verdict and bytes in the slice for
   slices of 0..5 bytes; the buffered field b is flushed after a and hits the budget then *)
Example budget_examples_record :
  let Sc := [FRecord (mkName [114%N] None) [([97%N], 1); ([98%N], 2)]; FInt; FString] in
  let v := SStruct [114%N] 2 [([98%N], SStr [104; 105]%N); ([97%N], SInt true W32 5%Z)] in
  to_datum Sc false v = Ok [10; 4; 104; 105]%N /\
  map (fun cap => to_datum_sink Sc false cap v) [0; 1; 2; 3; 4; 5]%N
    = [(Err EIo, []); (Err EIo, [10]); (Err EIo, [10; 4]); (Err EIo, [10; 4; 104]);
       (Ok [10; 4; 104; 105], [10; 4; 104; 105]); (Ok [10; 4; 104; 105], [10; 4; 104; 105])]%N /\
  map (fun cap => to_datum_budget Sc false (N.of_nat cap) v) [0; 1; 2; 3; 4; 5]
    = map (fun cap => fst (hist_step Sc false ([], []) (v, Some (N.of_nat cap)))) [0; 1; 2; 3; 4; 5].
Proof. vm_compute. repeat split; reflexivity. Qed.

(* single object: 2 + 8 + 4 = 14 bytes are needed *)
Example budget_examples_single_object :
  let Sc := [FRecord (mkName [114%N] None) [([97%N], 1); ([98%N], 2)]; FInt; FString] in
  let v := SStruct [114%N] 2 [([98%N], SStr [104; 105]%N); ([97%N], SInt true W32 5%Z)] in
  let fp := [1; 2; 3; 4; 5; 6; 7; 8]%N in
  so_encode Sc fp false v = Ok [195; 1; 1; 2; 3; 4; 5; 6; 7; 8; 10; 4; 104; 105]%N /\
  map (fun cap => so_encode_sink Sc fp false (Some cap) v) [0; 1; 2; 9; 10; 11; 13; 14; 15]%N
    = [Err EIo; Err EIo; Err EIo; Err EIo; Err EIo; Err EIo; Err EIo;
       Ok [195; 1; 1; 2; 3; 4; 5; 6; 7; 8; 10; 4; 104; 105]%N;
       Ok [195; 1; 1; 2; 3; 4; 5; 6; 7; 8; 10; 4; 104; 105]%N] /\
  map (fun cap => s_out (snd (so_sink_run Sc fp false (Some cap) (FRecord (mkName [114%N] None) [([97%N], 1); ([98%N], 2)]) v)))
      [0; 1; 3; 11]%N
    = [[]; [195]; [195; 1; 1]; [195; 1; 1; 2; 3; 4; 5; 6; 7; 8; 10]]%N.
Proof. vm_compute. repeat split; reflexivity. Qed.

(* a job that fails into a Vec (a string where the third int of an array is expected: Err EData
   after 3 bytes) and one that panics in the model (map value without a key, after 1 byte): the
   I/O error wins exactly when the bytes written before the failure do not fit *)
Example budget_examples_failing_jobs :
  let ScA := [FArray 1; FInt] in
  let vA := SSeq (Some 3%N) [SInt true W32 1%Z; SInt true W32 2%Z; SStr [104%N]] in
  let Sc3 := [FRecord (mkName [114%N] None) [([97%N], 1); ([98%N], 1); ([99%N], 1)]; FInt] in
  let vP := SMap None [(Some (SStr [97%N]), Some (SInt true W32 1%Z)); (None, Some (SInt true W32 2%Z))] in
  to_datum ScA false vA = Err EData /\
  map (fun cap => to_datum_sink ScA false cap vA) [0; 1; 2; 3; 4]%N
    = [(Err EIo, []); (Err EIo, [6]); (Err EIo, [6; 2]); (Err EData, [6; 2; 4]); (Err EData, [6; 2; 4])]%N /\
  to_datum Sc3 false vP = Panic PSerKeyBeforeValue /\
  map (fun cap => to_datum_sink Sc3 false cap vP) [0; 1; 2]%N
    = [(Err EIo, []); (Panic PSerKeyBeforeValue, [2]); (Panic PSerKeyBeforeValue, [2])]%N.
Proof. vm_compute. repeat split; reflexivity. Qed.

(* a history mixing slices and Vecs over one configuration *)
Example budget_examples_history :
  let Sc3 := [FRecord (mkName [114%N] None) [([97%N], 1); ([98%N], 1); ([99%N], 1)]; FInt] in
  let v3 := SStruct [114%N] 3 [([97%N], SInt true W32 1%Z); ([99%N], SInt true W32 3%Z);
                               ([98%N], SInt true W32 2%Z)] in
  let vP := SMap None [(Some (SStr [97%N]), Some (SInt true W32 1%Z)); (None, Some (SInt true W32 2%Z))] in
  let jobs := [(v3, Some 0); (v3, None); (vP, Some 5); (v3, Some 2); (v3, Some 3)]%N in
  hist_run Sc3 false ([], []) jobs
    = ([Err EIo; Ok [2; 4; 6]; Panic PSerKeyBeforeValue; Err EIo; Ok [2; 4; 6]]%N, ([([], true)], [[]])) /\
  fst (hist_run Sc3 false ([], []) jobs) = map (job_fresh Sc3 false) jobs.
Proof. vm_compute. repeat split; reflexivity. Qed.

(* ------------------------------------------------------------------------------------------ *)
Print Assumptions ser_budget_simulation.
Print Assumptions ser_budget_cut.
Print Assumptions ser_budget_prefix.
Print Assumptions to_datum_sink_any.
Print Assumptions to_datum_budget_spec.
Print Assumptions to_datum_budget_cut.
Print Assumptions to_datum_budget_ok_iff.
Print Assumptions to_datum_budget_no_new_panic.
Print Assumptions to_datum_sink_prefix.
Print Assumptions to_datum_budget_is_hist_step.
Print Assumptions so_sink_any.
Print Assumptions so_encode_sink_budget.
Print Assumptions so_encode_sink_budget_bytes.
Print Assumptions so_encode_sink_budget_datum.
Print Assumptions hist_step_budget_any.
Print Assumptions hist_step_budget.
Print Assumptions hist_step_budget_fail.
Print Assumptions hist_step_pools_ok.
Print Assumptions hist_step_fresh.
Print Assumptions hist_run_pools_ok.
Print Assumptions hist_run_budget_indep.
Print Assumptions hist_run_budget_cut.
Print Assumptions hist_step_overflow_same_pools_refuted.
Print Assumptions budget_examples_record.
Print Assumptions budget_examples_single_object.
Print Assumptions budget_examples_failing_jobs.
Print Assumptions budget_examples_history.
