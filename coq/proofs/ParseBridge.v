(** Stage A: from the JSON document to the raw tree: the specification's [pcf] of the document
    is [rpcf] of the tree the derived Deserialize builds, when the tree is valid. *)
From Coq Require Import NArith ZArith List Lia Bool Arith String ZifyN ZifyBool ZifyNat.
Import ListNotations.
Require Import Base Schema Text Json Parse CanonicalForm.
Require Import PcfSpec SchemaTextProofs ParseResolveDefs.
Open Scope N_scope.
Notation length := List.length (only parsing).

Arguments N.eqb : simpl never.
Arguments N.leb : simpl never.
Arguments N.ltb : simpl never.
Arguments N.add : simpl never.

(* size tokens are the canonical decimal rendering of their value (the canonical form prints the
   number, the specification's transformation keeps the token) *)
Definition tok_canonical (tok : bytes) : bool := bytes_eqb (dec_digits (digits_to_N tok 0)) tok.

Fixpoint sizes_ok (j : json) : bool :=
  match j with
  | JArr l => forallb sizes_ok l
  | JObj kvs =>
      (match get "size" kvs with Some (JNum tok) => tok_canonical tok | _ => true end) &&
      forallb (fun kv => sizes_ok (snd kv)) kvs
  | _ => true
  end.

(* ------------------------------------------------------------------ *)
(** * accessors *)

Lemma get_lookup : forall k kvs, get k kvs = hd_error (lookup_all (lit k) kvs).
Proof.
  intros k kvs. unfold get, lookup_all.
  destruct (filter (fun kv => bytes_eqb (fst kv) (lit k)) kvs) as [|[k' v] t]; reflexivity.
Qed.

Lemma lookup_all_in : forall k kvs v, In v (lookup_all k kvs) -> exists k', In (k', v) kvs.
Proof.
  intros k kvs v H. unfold lookup_all in H. apply in_map_iff in H. destruct H as ([k' v'] & Hv & Hin).
  cbn [snd] in Hv. subst v'. apply filter_In in Hin. exists k'. apply Hin.
Qed.

Lemma lookup_all_cons : forall k k' v t,
  lookup_all k ((k', v) :: t) = if bytes_eqb k' k then v :: lookup_all k t else lookup_all k t.
Proof. intros. unfold lookup_all. cbn [filter fst]. destruct (bytes_eqb k' k); reflexivity. Qed.

Lemma known_str_get : forall k kvs o, known k kvs as_str = Ok o -> get_str k kvs = o.
Proof.
  intros k kvs o H. unfold get_str. rewrite get_lookup. unfold known in H.
  destruct (lookup_all (lit k) kvs) as [|j [|j' l]]; cbn [hd_error].
  - inversion H. reflexivity.
  - destruct j; cbn in H; try discriminate; inversion H; reflexivity.
  - destruct j; discriminate.
Qed.

Definition conv_node (F : json -> result raw) (v : json) : result (option raw) :=
  match v with JNull => Ok None | _ => rmap Some (F v) end.

Lemma find_node_spec : forall F k kvs found,
  find_node_g F k kvs found =
  match found with
  | None => match lookup_all k kvs with [] => Ok None | [v] => conv_node F v | _ => Err EData end
  | Some r => match lookup_all k kvs with [] => r | _ => Err EData end
  end.
Proof.
  intros F k. induction kvs as [|[k' v] t IH]; intros found; cbn [find_node_g].
  - destruct found; reflexivity.
  - rewrite lookup_all_cons. destruct (bytes_eqb k' k).
    + destruct found; [reflexivity|]. rewrite IH. destruct (lookup_all k t); reflexivity.
    + apply IH.
Qed.

Lemma find_node_inv : forall F k kvs o,
  find_node_g F k kvs None = Ok o ->
  match o with
  | Some it => exists v, lookup_all k kvs = [v] /\ F v = Ok it
  | None => True
  end.
Proof.
  intros F k kvs o H. rewrite find_node_spec in H.
  destruct (lookup_all k kvs) as [|v [|v' l]]; try discriminate.
  - inversion H. exact I.
  - destruct o as [it|]; [|exact I]. exists v. split; [reflexivity|].
    unfold conv_node in H. destruct v; try discriminate; apply rmap_ok_inv in H; destruct H as (a & H1 & H2);
      inversion H2; subst; exact H1.
Qed.

Definition conv_fields (F : json -> result raw) (v : json) : result (option (list (bytes * raw))) :=
  match v with
  | JNull => Ok None
  | JArr fl => rmap Some (field_list_g F fl)
  | _ => Err EData
  end.

Lemma fields_spec : forall F kvs found,
  fields_g F kvs found =
  match found with
  | None => match lookup_all (lit "fields") kvs with [] => Ok None | [v] => conv_fields F v | _ => Err EData end
  | Some r => match lookup_all (lit "fields") kvs with [] => r | _ => Err EData end
  end.
Proof.
  intros F. induction kvs as [|[k' v] t IH]; intros found; cbn [fields_g].
  - destruct found; reflexivity.
  - rewrite lookup_all_cons. destruct (bytes_eqb k' (lit "fields")).
    + destruct found; [reflexivity|]. rewrite IH. destruct (lookup_all (lit "fields") t); reflexivity.
    + apply IH.
Qed.

Lemma fields_inv : forall F kvs fl',
  fields_g F kvs None = Ok (Some fl') ->
  exists fl, lookup_all (lit "fields") kvs = [JArr fl] /\ field_list_g F fl = Ok fl'.
Proof.
  intros F kvs fl' H. rewrite fields_spec in H.
  destruct (lookup_all (lit "fields") kvs) as [|v [|v' l]]; try discriminate.
  unfold conv_fields in H. destruct v; try discriminate.
  apply rmap_ok_inv in H. destruct H as (a & H1 & H2). inversion H2. subst. eauto.
Qed.

Lemma field_type_inv : forall F fkvs x,
  field_type_g F fkvs = Ok x -> exists v, lookup_all (lit "type") fkvs = [v] /\ F v = Ok x.
Proof.
  intros F. induction fkvs as [|[k' v] t IH]; intros x H; cbn [field_type_g] in H; [discriminate|].
  rewrite lookup_all_cons. destruct (bytes_eqb k' (lit "type")).
  - destruct (Nat.eqb (length (lookup_all (lit "type") t)) 0) eqn:E; [|discriminate].
    apply Nat.eqb_eq in E. destruct (lookup_all (lit "type") t); [|discriminate]. eauto.
  - apply IH. exact H.
Qed.

Definition field_rel (F : json -> result raw) (fj : json) (f : bytes * raw) : Prop :=
  exists fkvs v, fj = JObj fkvs /\ lookup_all (lit "name") fkvs = [JStr (fst f)] /\
                 lookup_all (lit "type") fkvs = [v] /\ F v = Ok (snd f).

Lemma field_list_inv : forall F fl l, field_list_g F fl = Ok l -> Forall2 (field_rel F) fl l.
Proof.
  intros F. induction fl as [|fj t IH]; intros l H; cbn [field_list_g] in H.
  - inversion H. constructor.
  - destruct fj; try discriminate.
    apply rbind_ok_inv in H. destruct H as (fname & Hn & H).
    apply rbind_ok_inv in H. destruct H as (fty & Ht & H).
    apply rbind_ok_inv in H. destruct H as (r & Hr & H). inversion H. subst l.
    constructor; [|apply IH; exact Hr].
    apply field_type_inv in Ht. destruct Ht as (v & Hv & HF).
    exists kvs, v. cbn [fst snd]. split; [reflexivity|]. split; [|split; assumption].
    destruct (lookup_all (lit "name") kvs) as [|[] [|]]; try discriminate. inversion Hn. reflexivity.
Qed.

Lemma syms_inv : forall sl syms, rmap_list as_str sl = Ok syms -> sl = map JStr syms.
Proof.
  induction sl as [|x t IH]; intros syms H; cbn [rmap_list] in H.
  - inversion H. reflexivity.
  - apply rbind_ok_inv in H. destruct H as (y & Hy & H).
    apply rbind_ok_inv in H. destruct H as (r & Hr & H). inversion H. subst syms.
    destruct x; try discriminate. inversion Hy. subst. cbn [map]. f_equal. apply IH. exact Hr.
Qed.

Lemma known_size_inv : forall kvs n,
  known "size" kvs (as_unsigned U64MAX) = Ok (Some n) ->
  exists tok, lookup_all (lit "size") kvs = [JNum tok] /\ n = digits_to_N tok 0.
Proof.
  intros kvs n H. unfold known in H.
  destruct (lookup_all (lit "size") kvs) as [|j [|j' l]]; try discriminate.
  - destruct j; try discriminate. cbn in H.
    destruct (num_as_unsigned tok U64MAX) eqn:En; [|discriminate]. inversion H. subst. exists tok. split; [reflexivity|].
    unfold num_as_unsigned in En. destruct tok; [discriminate|].
    destruct (forallb is_digit_b (n0 :: tok) && Nat.leb (length (n0 :: tok)) 20); [|discriminate].
    destruct (digits_to_N (n0 :: tok) 0 <=? U64MAX); [|discriminate]. inversion En. reflexivity.
  - destruct j; discriminate.
Qed.

Lemma rtype_of_name_inv : forall s t, rtype_of_name s = Some t -> s = rtype_name t.
Proof.
  intros s t H. unfold rtype_of_name in H.
  repeat match type of H with
         | (if bytes_eqb s ?l then _ else _) = _ =>
             destruct (bytes_eqb s l) eqn:?E;
             [match goal with E : bytes_eqb s l = true |- _ => apply bytes_eqb_eq in E end; inversion H; subst; reflexivity|]
         end.
  discriminate.
Qed.

Lemma is_primitive_rtype : forall s, is_primitive s = true -> exists t, rtype_of_name s = Some t /\ is_prim_ty t = true.
Proof.
  intros s H. unfold is_primitive, primitive_names in H. cbn [existsb] in H.
  repeat match type of H with
         | (bytes_eqb s ?l || _) = true =>
             apply orb_true_iff in H; destruct H as [H|H];
             [apply bytes_eqb_eq in H; subst s; eexists; split; [vm_compute; reflexivity|reflexivity]|]
         end.
  discriminate.
Qed.

Lemma obj_body_inv : forall F kvs r,
  obj_body F kvs = Ok r ->
  exists s ty lg name ns fields syms items values sz pr sc,
    lookup_all (lit "type") kvs = [JStr s] /\ rtype_of_name s = Some ty /\
    known "logicalType" kvs as_str = Ok lg /\ known "name" kvs as_str = Ok name /\
    known "namespace" kvs as_str = Ok ns /\ fields_g F kvs None = Ok fields /\
    (match lookup_all (lit "symbols") kvs with
     | [] => Ok None
     | [JNull] => Ok None
     | [JArr sl] => rmap Some (rmap_list as_str sl)
     | _ => Err EData
     end) = Ok syms /\
    find_node_g F (lit "items") kvs None = Ok items /\ find_node_g F (lit "values") kvs None = Ok values /\
    known "size" kvs (as_unsigned U64MAX) = Ok sz /\
    r = RwObject ty lg name ns fields syms items values sz pr sc.
Proof.
  intros F kvs r H. unfold obj_body in H.
  apply rbind_ok_inv in H. destruct H as (ty & Hty & H).
  apply rbind_ok_inv in H. destruct H as (lg & Hlg & H).
  apply rbind_ok_inv in H. destruct H as (name & Hname & H).
  apply rbind_ok_inv in H. destruct H as (ns & Hns & H).
  apply rbind_ok_inv in H. destruct H as (fields & Hfields & H).
  apply rbind_ok_inv in H. destruct H as (syms & Hsyms & H).
  apply rbind_ok_inv in H. destruct H as (items & Hitems & H).
  apply rbind_ok_inv in H. destruct H as (values & Hvalues & H).
  apply rbind_ok_inv in H. destruct H as (sz & Hsz & H).
  apply rbind_ok_inv in H. destruct H as (pr & Hpr & H).
  apply rbind_ok_inv in H. destruct H as (sc & Hsc & H).
  inversion H. subst r.
  destruct (lookup_all (lit "type") kvs) as [|[] [|]] eqn:Et; try discriminate.
  destruct (rtype_of_name s) eqn:Es; [|discriminate]. inversion Hty. subst.
  exists s, ty, lg, name, ns, fields, syms, items, values, sz, pr, sc. repeat (split; [assumption || reflexivity|]). reflexivity.
Qed.

(* ------------------------------------------------------------------ *)
(** * pcf of the document = rpcf of the tree *)

Ltac compute_tests :=
  repeat match goal with
         | |- context [is_primitive (lit ?x)] =>
             let v := eval vm_compute in (is_primitive (lit x)) in change (is_primitive (lit x)) with v
         | |- context [bytes_eqb (lit ?x) (lit ?y)] =>
             let v := eval vm_compute in (bytes_eqb (lit x) (lit y)) in change (bytes_eqb (lit x) (lit y)) with v
         end; cbv iota.

Lemma get_of_lookup : forall k kvs v, lookup_all (lit k) kvs = [v] -> get k kvs = Some v.
Proof. intros k kvs v H. rewrite get_lookup, H. reflexivity. Qed.

Lemma get_str_of_lookup : forall k kvs s, lookup_all (lit k) kvs = [JStr s] -> get_str k kvs = Some s.
Proof. intros k kvs s H. unfold get_str. rewrite (get_of_lookup _ _ _ H). reflexivity. Qed.

Lemma lookup_single_in : forall k kvs v, lookup_all k kvs = [v] -> exists k', In (k', v) kvs.
Proof. intros k kvs v H. apply (lookup_all_in k). rewrite H. left. reflexivity. Qed.

Lemma rv_named_has : forall enc ty name ns E nsp E1,
  rv_named enc ty name ns E = Some (true, nsp, E1) ->
  exists n, name = Some n /\ nsp = fst (spec_fullname enc n ns).
Proof.
  intros enc ty name ns E nsp E1 H. unfold rv_named in H. destruct name as [n|]; [|discriminate].
  destruct (elook _ E); [discriminate|]. inversion H. eauto.
Qed.

Theorem bridge : forall n j r enc E E',
  (jsize j < n)%nat -> raw_of_json j = Ok r -> sizes_ok j = true -> rv r enc E = Some E' ->
  pcf n enc j = rpcf enc r.
Proof.
  induction n as [|f IH]; intros j r enc E E' Hn Hr Hs Hrv; [lia|].
  rewrite raw_of_json_eq in Hr. destruct j; try discriminate.
  - (* JStr *)
    inversion Hr. subst r. cbn [pcf]. destruct (rtype_of_name s) as [t|] eqn:Et.
    + cbn [rv] in Hrv. destruct (is_prim_ty t) eqn:Ep; [|discriminate].
      apply rtype_of_name_inv in Et. subst s. cbn [rpcf].
      assert (is_primitive (rtype_name t) = true) as -> by (destruct t; try discriminate; reflexivity).
      reflexivity.
    + destruct (is_primitive s) eqn:Ei; [|reflexivity].
      apply is_primitive_rtype in Ei. destruct Ei as (t & Ht & _). congruence.
  - (* JArr *)
    apply rbind_ok_inv in Hr. destruct Hr as (rs & Hrs & Hr). inversion Hr. subst r.
    cbn [pcf rpcf]. f_equal. f_equal. f_equal.
    cbn [rv] in Hrv. cbn [sizes_ok] in Hs.
    assert (Hl : forall x, In x l -> (jsize x < f)%nat) by (intros x Hx; pose proof (jsize_arr l x Hx); lia).
    clear Hn Hr. revert rs E Hrs Hrv. induction l as [|x t IHl]; intros rs E Hrs Hrv; cbn [arr_go] in Hrs.
    + inversion Hrs. reflexivity.
    + apply rbind_ok_inv in Hrs. destruct Hrs as (y & Hy & Hrs).
      apply rbind_ok_inv in Hrs. destruct Hrs as (rt & Hrt & Hrs). inversion Hrs. subst rs.
      cbn [rv_list] in Hrv. destruct (rv y enc E) as [E1|] eqn:Ey; [|discriminate].
      cbn [forallb] in Hs. apply andb_prop in Hs. destruct Hs as [Hsx Hst].
      cbn [map]. f_equal.
      * eapply IH; [apply Hl; left; reflexivity|exact Hy|exact Hsx|exact Ey].
      * eapply IHl; [exact Hst|intros; apply Hl; right; assumption|exact Hrt|exact Hrv].
  - (* JObj *)
    apply obj_body_inv in Hr.
    destruct Hr as (s & ty & lg & name & ns & fields & syms & items & values & sz & pr & sc &
                    Hty & Hs' & _ & Hname & Hns & Hfields & Hsyms & Hitems & Hvalues & Hsz & ->).
    pose proof (get_str_of_lookup _ _ _ Hty) as Gty.
    apply rtype_of_name_inv in Hs'. subst s.
    pose proof (known_str_get _ _ _ Hname) as Gname. pose proof (known_str_get _ _ _ Hns) as Gns.
    cbn [sizes_ok] in Hs. apply andb_prop in Hs. destruct Hs as [Hstok Hsall].
    assert (Hin_s : forall k v, In (k, v) kvs -> sizes_ok v = true).
    { intros k v Hin. rewrite forallb_forall in Hsall. apply (Hsall (k, v) Hin). }
    assert (Hin_j : forall k v, In (k, v) kvs -> (jsize v < f)%nat).
    { intros k v Hin. pose proof (jsize_obj kvs k v Hin). lia. }
    cbn [rv] in Hrv. destruct (logical_ok lg pr); [|discriminate].
    destruct (rv_named enc ty name ns E) as [[[has nsp] E1]|] eqn:Ern; [|discriminate].
    cbn [pcf]. rewrite Gty.
    destruct ty; cbn [rtype_name]; compute_tests; cbn [rpcf rtype_name]; try reflexivity.
    + (* array *)
      destruct items as [it|]; [|discriminate].
      apply find_node_inv in Hitems. destruct Hitems as (v & Hv & HF).
      rewrite (get_of_lookup _ _ _ Hv). f_equal. f_equal.
      destruct (lookup_single_in _ _ _ Hv) as (k' & Hin).
      eapply IH; [eapply Hin_j; exact Hin|exact HF|eapply Hin_s; exact Hin|exact Hrv].
    + (* map *)
      destruct values as [it|]; [|discriminate].
      apply find_node_inv in Hvalues. destruct Hvalues as (v & Hv & HF).
      rewrite (get_of_lookup _ _ _ Hv). f_equal. f_equal.
      destruct (lookup_single_in _ _ _ Hv) as (k' & Hin).
      eapply IH; [eapply Hin_j; exact Hin|exact HF|eapply Hin_s; exact Hin|exact Hrv].
    + (* record *)
      destruct has; [|discriminate]. destruct fields as [fl'|]; [|discriminate].
      apply rv_named_has in Ern. destruct Ern as (nm & -> & ->).
      apply fields_inv in Hfields. destruct Hfields as (fl & Hfl & Hfl').
      rewrite Gname, Gns, (get_of_lookup _ _ _ Hfl).
      destruct (spec_fullname enc nm ns) as [nsp full0] eqn:Esf. cbn [fst snd] in *.
      f_equal. f_equal. f_equal. f_equal. f_equal.
      destruct (lookup_single_in _ _ _ Hfl) as (kf & Hinf).
      assert (Hf_j : forall fkvs k v, In (JObj fkvs) fl -> In (k, v) fkvs -> (jsize v < f)%nat /\ sizes_ok v = true).
      { intros fkvs k v H1 H2. split.
        - pose proof (jsize_obj kvs kf _ Hinf). pose proof (jsize_arr fl _ H1).
          pose proof (jsize_obj fkvs k v H2). lia.
        - pose proof (Hin_s _ _ Hinf) as S1. cbn [sizes_ok] in S1. rewrite forallb_forall in S1.
          pose proof (S1 _ H1) as S2. cbn [sizes_ok] in S2. apply andb_prop in S2. destruct S2 as [_ S2].
          rewrite forallb_forall in S2. apply (S2 (k, v) H2). }
      apply field_list_inv in Hfl'. clear Hfl Hinf Hn.
      revert E1 Hrv. induction Hfl' as [|fj fr fl fl' Hrel Hrest IHf]; intros E1 Hrv; [reflexivity|].
      cbn [rv_fields] in Hrv. destruct (rv (snd fr) nsp E1) as [E2|] eqn:E2r; [|discriminate].
      destruct Hrel as (fkvs & v & -> & Hfn & Hft & HF).
      cbn [map]. f_equal.
      * rewrite (get_str_of_lookup _ _ _ Hfn), (get_of_lookup _ _ _ Hft).
        f_equal. f_equal. f_equal. f_equal.
        destruct (lookup_single_in _ _ _ Hft) as (k' & Hin).
        destruct (Hf_j fkvs k' v (or_introl eq_refl) Hin) as [Hj Hsz'].
        eapply IH; [exact Hj|exact HF|exact Hsz'|exact E2r].
      * eapply IHf; [|exact Hrv]. intros fkvs0 k0 v0 H1 H2. eapply Hf_j; [right; exact H1|exact H2].
    + (* enum *)
      destruct has; [|discriminate]. destruct syms as [sl'|]; [|discriminate].
      apply rv_named_has in Ern. destruct Ern as (nm & -> & ->).
      rewrite Gname, Gns.
      destruct (spec_fullname enc nm ns) as [nsp full0] eqn:Esf. cbn [fst snd] in *.
      f_equal. f_equal. f_equal. f_equal. f_equal.
      destruct (lookup_all (lit "symbols") kvs) as [|[] [|]] eqn:Esy; try discriminate.
      apply rmap_ok_inv in Hsyms. destruct Hsyms as (a & Ha & Hsome). inversion Hsome. subst a.
      apply syms_inv in Ha. subst l. rewrite (get_of_lookup _ _ _ Esy). rewrite map_map. reflexivity.
    + (* fixed *)
      destruct has; [|discriminate]. destruct sz as [n|]; [|discriminate].
      apply rv_named_has in Ern. destruct Ern as (nm & -> & ->).
      rewrite Gname, Gns.
      destruct (spec_fullname enc nm ns) as [nsp full0] eqn:Esf. cbn [fst snd] in *.
      f_equal. f_equal. f_equal. f_equal. f_equal.
      apply known_size_inv in Hsz. destruct Hsz as (tok & Htok & ->).
      rewrite (get_of_lookup _ _ _ Htok) in Hstok |- *.
      unfold tok_canonical in Hstok. apply bytes_eqb_eq in Hstok. symmetry. exact Hstok.
Qed.

(* ------------------------------------------------------------------ *)
(** * the depth of the tree is bounded by the size of the document *)

Lemma list_max_le : forall l b, (forall x, In x l -> (x <= b)%nat) -> (list_max l <= b)%nat.
Proof.
  induction l as [|y t IH]; intros b H; [cbn; lia|]. cbn [list_max fold_right].
  pose proof (H y (or_introl eq_refl)). assert (list_max t <= b)%nat by (apply IH; intros; apply H; right; assumption).
  unfold list_max in *. lia.
Qed.

Lemma arr_go_inv : forall F l rs, arr_go F l = Ok rs -> Forall2 (fun x y => F x = Ok y) l rs.
Proof.
  intros F. induction l as [|x t IH]; intros rs H; cbn [arr_go] in H.
  - inversion H. constructor.
  - apply rbind_ok_inv in H. destruct H as (y & Hy & H).
    apply rbind_ok_inv in H. destruct H as (rt & Hrt & H). inversion H. subst rs.
    constructor; [exact Hy|apply IH; exact Hrt].
Qed.

Lemma Forall2_in_r {A B} (R : A -> B -> Prop) : forall l l' y, Forall2 R l l' -> In y l' -> exists x, In x l /\ R x y.
Proof.
  intros l l' y H. induction H as [|a b l l' Hab H IH]; intro Hin; [contradiction|].
  destruct Hin as [->|Hin]; [exists a; split; [left; reflexivity|exact Hab]|].
  destruct (IH Hin) as (x & Hx & HR). exists x. split; [right; exact Hx|exact HR].
Qed.

Lemma rdepth_le : forall n j r, (jsize j < n)%nat -> raw_of_json j = Ok r -> (rdepth r <= jsize j)%nat.
Proof.
  induction n as [|f IH]; intros j r Hn Hr; [lia|].
  rewrite raw_of_json_eq in Hr. destruct j; try discriminate.
  - inversion Hr. destruct (rtype_of_name s); cbn [rdepth jsize]; lia.
  - apply rbind_ok_inv in Hr. destruct Hr as (rs & Hrs & Hr). inversion Hr. subst r.
    apply arr_go_inv in Hrs. cbn [rdepth].
    enough (list_max (map rdepth rs) <= pred (jsize (JArr l)))%nat by (cbn [jsize] in *; lia).
    apply list_max_le. intros d Hd. apply in_map_iff in Hd. destruct Hd as (y & <- & Hy).
    destruct (Forall2_in_r _ _ _ _ Hrs Hy) as (x & Hx & HF).
    pose proof (jsize_arr l x Hx). assert (rdepth y <= jsize x)%nat by (eapply IH; [lia|exact HF]). lia.
  - apply obj_body_inv in Hr.
    destruct Hr as (s & ty & lg & name & ns & fields & syms & items & values & sz & pr & sc &
                    Hty & Hs' & _ & Hname & Hns & Hfields & Hsyms & Hitems & Hvalues & Hsz & ->).
    cbn [rdepth].
    assert (Hnode : forall k o, find_node_g raw_of_json k kvs None = Ok o ->
              (match o with Some it => rdepth it | None => O end < jsize (JObj kvs))%nat).
    { intros k o Ho. apply find_node_inv in Ho. destruct o as [it|]; [|cbn [jsize]; lia].
      destruct Ho as (v & Hv & HF). destruct (lookup_single_in _ _ _ Hv) as (k' & Hin).
      pose proof (jsize_obj kvs k' v Hin). assert (rdepth it <= jsize v)%nat by (eapply IH; [lia|exact HF]). lia. }
    pose proof (Hnode _ _ Hitems). pose proof (Hnode _ _ Hvalues).
    assert (match fields with Some fl => list_max (map (fun f0 => rdepth (snd f0)) fl) | None => O end
            < jsize (JObj kvs))%nat.
    { destruct fields as [fl'|]; [|cbn [jsize]; lia].
      apply fields_inv in Hfields. destruct Hfields as (fl & Hfl & Hfl').
      destruct (lookup_single_in _ _ _ Hfl) as (kf & Hinf). apply field_list_inv in Hfl'.
      enough (list_max (map (fun f0 => rdepth (snd f0)) fl') <= pred (jsize (JObj kvs)))%nat by (cbn [jsize] in *; lia).
      apply list_max_le. intros d Hd. apply in_map_iff in Hd. destruct Hd as (y & <- & Hy).
      destruct (Forall2_in_r _ _ _ _ Hfl' Hy) as (x & Hx & (fkvs & v & -> & _ & Hft & HF)).
      destruct (lookup_single_in _ _ _ Hft) as (k' & Hin).
      pose proof (jsize_obj kvs kf _ Hinf). pose proof (jsize_arr fl _ Hx). pose proof (jsize_obj fkvs k' v Hin).
      assert (rdepth (snd y) <= jsize v)%nat by (eapply IH; [lia|exact HF]). lia. }
    lia.
Qed.

Print Assumptions bridge.
Print Assumptions rdepth_le.
