(** The canonical form writer succeeds on a graph with keys in range and no cycle through
    array / map / union nodes only (the counterpart of [json_ok_when_wf] for write_cf). *)
From Coq Require Import NArith ZArith List Lia Bool Arith String ZifyN ZifyBool ZifyNat Relations.
Import ListNotations.
Require Import Base Schema Text Json Parse SchemaJson CanonicalForm Rabin.
Require Import PcfSpec SchemaTextProofs SchemaJsonDefs SchemaJsonGuard.
Open Scope N_scope.
Notation length := List.length (only parsing).

Arguments N.eqb : simpl never.
Arguments N.leb : simpl never.
Arguments N.ltb : simpl never.
Arguments N.add : simpl never.

Lemma nth_set_nth_cases : forall (l : list nat) i v k,
  (k = i /\ nth k (set_nth l i v) O = v) \/ nth k (set_nth l i v) O = nth k l O.
Proof.
  induction l as [|h t IH]; intros [|i] v [|k]; cbn [set_nth nth]; auto.
  destruct (IH i v k) as [[-> H]|H]; [left; auto|right; exact H].
Qed.

(* what holds when [key] is entered *)
Definition CI (g : schema_mut) (key : nat) (st : cfstate) : Prop :=
  (forall k, (nth k (cf_being st) O <= S (cf_nnamed st))%nat) /\
  (forall k n, nth_error g k = Some n -> is_unnamed n = true ->
     nth k (cf_being st) O = S (cf_nnamed st) -> clos_trans nat (uedge g) k key).

Definition CP (a b : cfstate) : Prop :=
  cf_being b = cf_being a /\ (cf_nnamed a <= cf_nnamed b)%nat.

Lemma CP_refl : forall a, CP a a.
Proof. intro a. split; [reflexivity|lia]. Qed.

Lemma CP_trans : forall a b c, CP a b -> CP b c -> CP a c.
Proof. intros a b c [H1 H2] [H3 H4]. split; [congruence|lia]. Qed.

Lemma CP_emit_r : forall a b s, CP a b -> CP a (cf_emit s b).
Proof. intros a b s H. exact H. Qed.

(* the children of an unnamed node *)
Lemma CI_child_unnamed : forall g key node st c s,
  nth_error g key = Some node -> is_unnamed node = true -> In c (node_children node) ->
  CI g key st ->
  CP (mkCF (cf_out st) (cf_written st) (set_nth (cf_being st) key (S (cf_nnamed st))) (cf_nnamed st)) s ->
  CI g c s.
Proof.
  intros g key node st c s Hn Hu Hc [I1 I2] [P1 P2]. cbn [cf_being cf_nnamed] in *.
  assert (Hkc : uedge g key c) by (exists node; auto).
  split; rewrite P1.
  - intro k. destruct (nth_set_nth_cases (cf_being st) key (S (cf_nnamed st)) k) as [[_ E]|E];
      rewrite E; [lia|]. pose proof (I1 k). lia.
  - intros k n Hk Hun E.
    destruct (nth_set_nth_cases (cf_being st) key (S (cf_nnamed st)) k) as [[-> E']|E'].
    + apply t_step. exact Hkc.
    + rewrite E' in E. pose proof (I1 k).
      eapply t_trans; [apply (I2 k n Hk Hun); lia|apply t_step; exact Hkc].
Qed.

(* the children of a named node written for the first time *)
Lemma CI_child_named : forall g key st c s out w,
  CI g key st -> CP (mkCF out w (cf_being st) (S (cf_nnamed st))) s -> CI g c s.
Proof.
  intros g key st c s out w [I1 I2] [P1 P2]. cbn [cf_being cf_nnamed] in *.
  split; rewrite P1.
  - intro k. pose proof (I1 k). lia.
  - intros k n Hk Hun E. pose proof (I1 k). lia.
Qed.

Lemma CI_emit : forall g key st b, CI g key st -> CI g key (cf_emit b st).
Proof. intros g key st b H. exact H. Qed.

Lemma okoof_weaken {A} (P Q : A -> Prop) (r : result A) :
  okoof P r -> (forall a, P a -> Q a) -> okoof Q r.
Proof. destruct r; cbn [okoof]; auto. Qed.

Lemma sep_by_ok {A} (f : A -> cfstate -> result cfstate) (st0 : cfstate) : forall l,
  (forall x s, In x l -> CP st0 s -> okoof (CP s) (f x s)) ->
  forall first s, CP st0 s -> okoof (CP s) (sep_by f l first s).
Proof.
  induction l as [|x t IH]; intros Hf first s Hs; cbn [sep_by].
  - cbn [okoof]. apply CP_refl.
  - eapply okoof_bind.
    + apply Hf; [left; reflexivity|]. destruct first; exact Hs.
    + intros s2 H2. cbv beta.
      assert (Hs2 : CP s s2) by (destruct first; exact H2).
      eapply okoof_weaken.
      * apply IH; [intros y s' Hy; apply Hf; right; exact Hy|eapply CP_trans; eassumption].
      * intros s3 H3. eapply CP_trans; eassumption.
Qed.

Lemma unnamed_ok_case : forall g key node st (body : cfstate -> result cfstate),
  wf_struct g -> nth_error g key = Some node -> is_unnamed node = true -> CI g key st ->
  okoof (CP (mkCF (cf_out st) (cf_written st) (set_nth (cf_being st) key (S (cf_nnamed st))) (cf_nnamed st)))
        (body (mkCF (cf_out st) (cf_written st) (set_nth (cf_being st) key (S (cf_nnamed st))) (cf_nnamed st))) ->
  okoof (CP st)
    (if Nat.ltb (cf_nnamed st) (nth key (cf_being st) O) then Err EData else
     let* st' := body (mkCF (cf_out st) (cf_written st)
                            (set_nth (cf_being st) key (S (cf_nnamed st))) (cf_nnamed st)) in
     Ok (mkCF (cf_out st') (cf_written st')
              (set_nth (cf_being st') key (nth key (cf_being st) O)) (cf_nnamed st'))).
Proof.
  intros g key node st body Hwf Hn Hu [I1 I2] Hbody.
  destruct (Nat.ltb (cf_nnamed st) (nth key (cf_being st) O)) eqn:E.
  - exfalso. apply Nat.ltb_lt in E. pose proof (I1 key).
    apply (ws_nocycle g Hwf key). apply (I2 key node Hn Hu). lia.
  - eapply okoof_bind; [exact Hbody|].
    intros s1 [Hb Hw]. cbn [okoof]. split; cbn [cf_being cf_nnamed] in *.
    + rewrite Hb. apply set_nth_set_nth_restore.
    + exact Hw.
Qed.

Lemma write_cf_ok_main : forall fuel g key st, wf_struct g -> (key < length g)%nat -> CI g key st ->
  okoof (CP st) (write_cf fuel g key st).
Proof.
  induction fuel as [|f IH]; intros g key st Hwf Hkey HI; [exact I|].
  cbn [write_cf].
  destruct (nth_error g key) as [node|] eqn:Hn.
  2:{ apply nth_error_None in Hn. lia. }
  pose proof (ws_keys g Hwf key node Hn) as Hkeys. rewrite Forall_forall in Hkeys.
  unfold node_children in Hkeys.
  destruct (m_type node) eqn:Et; cbn [andb].
  all: try (cbn [rbind okoof]; apply CP_emit_r, CP_refl).
  - (* array *)
    apply (unnamed_ok_case g key node st (fun s0 =>
             let* s1 := write_cf f g items (cf_emit (lit "{""type"":""array"",""items"":") s0) in
             Ok (cf_emit (lit "}") s1)));
      [exact Hwf|exact Hn|unfold is_unnamed; rewrite Et; reflexivity|exact HI|].
    eapply okoof_bind.
    + apply IH; [exact Hwf|apply Hkeys; left; reflexivity|]. apply CI_emit.
      eapply CI_child_unnamed; [exact Hn|unfold is_unnamed; rewrite Et; reflexivity| |exact HI|apply CP_refl].
      unfold node_children. rewrite Et. left. reflexivity.
    + intros s1 H1. cbn [okoof]. exact H1.
  - (* map *)
    apply (unnamed_ok_case g key node st (fun s0 =>
             let* s1 := write_cf f g values (cf_emit (lit "{""type"":""map"",""values"":") s0) in
             Ok (cf_emit (lit "}") s1)));
      [exact Hwf|exact Hn|unfold is_unnamed; rewrite Et; reflexivity|exact HI|].
    eapply okoof_bind.
    + apply IH; [exact Hwf|apply Hkeys; left; reflexivity|]. apply CI_emit.
      eapply CI_child_unnamed; [exact Hn|unfold is_unnamed; rewrite Et; reflexivity| |exact HI|apply CP_refl].
      unfold node_children. rewrite Et. left. reflexivity.
    + intros s1 H1. cbn [okoof]. exact H1.
  - (* union *)
    apply (unnamed_ok_case g key node st (fun s0 =>
             let* s1 := sep_by (fun k s => write_cf f g k s) variants true (cf_emit (lit "[") s0) in
             Ok (cf_emit (lit "]") s1)));
      [exact Hwf|exact Hn|unfold is_unnamed; rewrite Et; reflexivity|exact HI|].
    eapply okoof_bind.
    + eapply okoof_weaken; [|intros a Ha; exact Ha].
      apply (sep_by_ok _ (mkCF (cf_out st) (cf_written st)
                               (set_nth (cf_being st) key (S (cf_nnamed st))) (cf_nnamed st)));
        [|apply CP_emit_r, CP_refl].
      intros k s Hk Hs. apply IH; [exact Hwf|apply Hkeys; exact Hk|].
      eapply CI_child_unnamed; [exact Hn|unfold is_unnamed; rewrite Et; reflexivity| |exact HI|exact Hs].
      unfold node_children. rewrite Et. exact Hk.
    + intros s1 H1. cbn [okoof]. exact H1.
  - (* record *)
    unfold cf_first_time. destruct (nth_error (cf_written st) key) as [[|]|];
      try (cbn [rbind okoof]; apply CP_emit_r, CP_refl).
    eapply okoof_bind; [|intros a Ha; exact Ha].
    eapply okoof_bind.
    + eapply okoof_weaken; [|intros a Ha; exact Ha].
      apply (sep_by_ok _ (mkCF (cf_out st) (set_nth (cf_written st) key true) (cf_being st) (S (cf_nnamed st))));
        [|apply CP_emit_r, CP_refl].
      intros fld s Hin Hs. eapply okoof_bind.
      * apply IH; [exact Hwf|apply Hkeys; apply in_map; exact Hin|]. apply CI_emit.
        eapply CI_child_named; [exact HI|exact Hs].
      * intros s' Hs'. cbn [okoof]. exact Hs'.
    + intros s3 [H3 H3']. cbn [okoof]. split; cbn [cf_being cf_nnamed cf_emit] in *; [exact H3|lia].
  - (* enum *)
    unfold cf_first_time. destruct (nth_error (cf_written st) key) as [[|]|];
      try (cbn [rbind okoof]; apply CP_emit_r, CP_refl).
    eapply okoof_bind; [|intros a Ha; exact Ha].
    eapply okoof_bind.
    + eapply okoof_weaken; [|intros a Ha; exact Ha].
      apply (sep_by_ok _ (mkCF (cf_out st) (set_nth (cf_written st) key true) (cf_being st) (S (cf_nnamed st))));
        [|apply CP_emit_r, CP_refl].
      intros sym s Hin Hs. cbn [okoof]. apply CP_emit_r, CP_refl.
    + intros s3 [H3 H3']. cbn [okoof]. split; cbn [cf_being cf_nnamed cf_emit] in *; [exact H3|lia].
  - (* fixed *)
    unfold cf_first_time. destruct (nth_error (cf_written st) key) as [[|]|];
      try (cbn [rbind okoof]; apply CP_emit_r, CP_refl).
    cbn [rbind okoof]. split; cbn [cf_being cf_nnamed cf_emit]; [reflexivity|lia].
Qed.

Lemma CI_init : forall g, CI g O (cf_init g).
Proof.
  intro g. unfold cf_init. split; cbn [cf_being cf_nnamed].
  - intro k. assert (nth k (repeat O (length g)) O = O) as ->; [|lia].
    generalize (length g). intro n. revert k. induction n as [|n IHn]; intros [|k]; cbn [repeat nth]; auto.
  - intros k n _ _ E. exfalso. revert E.
    assert (nth k (repeat O (length g)) O = O) as ->; [|discriminate].
    generalize (length g). intro m. revert k. induction m as [|m IHm]; intros [|k]; cbn [repeat nth]; auto.
Qed.

Theorem canonical_form_ok_when_wf : forall g fuel, wf_struct g -> (cf_fuel g <= fuel)%nat ->
  exists t, canonical_form fuel g = Ok t.
Proof.
  intros g fuel Hwf Hf.
  pose proof (canonical_form_fuel g fuel Hf) as H1.
  pose proof (write_cf_ok_main fuel g O (cf_init g) Hwf (ws_nonempty g Hwf) (CI_init g)) as H2.
  unfold canonical_form in *.
  destruct (write_cf fuel g O (cf_init g)) as [s| | | |]; cbn [rbind res_post okoof] in *; try contradiction.
  eauto.
Qed.

Print Assumptions canonical_form_ok_when_wf.
