(** A closure principle for the datum deserializer (model/De.v).

    Every function of the mutually recursive [de] family is built from six reader primitives
    ([read_varint], [read_exact], [read_slice], [skip_bytes], [take_varint], [take_exact]) with
    [sbind] / [sret] / [rfail] and case analysis on data.  Hence any predicate on reader computations
    that holds of the primitives and is closed under bind / return / failure holds of every function of
    the family -- for EVERY schema (no well-formedness: out-of-range keys are [rfail (Panic _)]), every
    target, fuel, depth and flags: [closure_de] ... [closure_enum_payload], [closure_all].

    No hypothesis on the schema is what distinguishes this from DeSafetyProofs.de_safe (which also proves
    the absence of Panic and therefore needs the keys in range). *)
From Coq Require Import NArith ZArith List Lia Bool.
From Coq Require Import ZifyN ZifyBool ZifyNat.
Require Import Base Kinds Schema Varint Utf8 Sval Target Reader Text De.
Require Import ReaderProofs.
Import ListNotations.
Open Scope N_scope.
Notation length := List.length (only parsing).

Ltac Zify.zify_post_hook ::= Z.to_euclidean_division_equations.

Arguments N.add : simpl never.
Arguments N.sub : simpl never.
Arguments N.mul : simpl never.
Arguments N.div : simpl never.
Arguments N.modulo : simpl never.
Arguments N.pow : simpl never.
Arguments N.shiftl : simpl never.
Arguments N.shiftr : simpl never.
Arguments N.land : simpl never.
Arguments N.lor : simpl never.
Arguments N.ltb : simpl never.
Arguments N.leb : simpl never.
Arguments N.eqb : simpl never.
Arguments N.of_nat : simpl never.
Arguments N.to_nat : simpl never.
Arguments N.min : simpl never.
Arguments Z.of_nat : simpl never.
Arguments Z.of_N : simpl never.
Arguments Z.to_N : simpl never.
Arguments Z.to_nat : simpl never.
Arguments Z.add : simpl never.
Arguments Z.sub : simpl never.
Arguments Z.mul : simpl never.
Arguments Z.pow : simpl never.
Arguments Z.ltb : simpl never.
Arguments Z.leb : simpl never.
Arguments Z.eqb : simpl never.
Arguments Z.opp : simpl never.
Arguments Z.abs : simpl never.
Arguments Z.modulo : simpl never.

Create HintDb cldb.
Section Closure.
Variable P : forall A : Type, RM A -> Prop.
Hypothesis P_bind : forall (A B : Type) (m : RM A) (k : A -> RM B),
  P A m -> (forall a, P B (k a)) -> P B (sbind m k).
Hypothesis P_ret : forall (A : Type) (a : A), P A (sret a).
Hypothesis P_fail : forall (A : Type) (r : result A), is_ok r = false -> P A (rfail r).
Hypothesis P_varint : forall t, P Z (read_varint t).
Hypothesis P_exact : forall n, P bytes (read_exact n).
Hypothesis P_slice : forall n, P (bytes * option N)%type (read_slice n).
Hypothesis P_skip : forall n, P unit (skip_bytes n).
Hypothesis P_take_varint : forall l, P (Z * N)%type (take_varint l).
Hypothesis P_take_exact : forall l n, P (bytes * N)%type (take_exact l n).

#[local] Opaque read_varint read_exact read_slice skip_bytes take_varint take_exact.


Hint Resolve P_varint P_exact P_slice P_skip P_take_varint P_take_exact : cldb.

Ltac cl_prim := solve [ eauto with cldb ].
Ltac cl_step :=
  lazymatch goal with
  | |- P _ (let _ := _ in _) => cbv zeta
  | |- P _ (sret _) => apply P_ret
  | |- P _ (rfail _) => apply P_fail; reflexivity
  | |- P _ (sbind _ _) => apply P_bind; [ cl_prim | let a := fresh "a" in intro a ]
  | |- P _ (if ?c then _ else _) => destruct c
  | |- P _ (match ?x with _ => _ end) => destruct x
  | |- P _ _ => cl_prim
  end.
Ltac cl_walk := repeat cl_step.

Lemma cl_dec_depth d : P _ (dec_depth d).
Proof. unfold dec_depth. cl_walk. Qed.
Lemma cl_read_usize : P _ read_usize.
Proof. unfold read_usize. cl_walk. Qed.
Hint Resolve cl_dec_depth cl_read_usize : cldb.
Lemma cl_read_bool : P _ read_bool.
Proof. unfold read_bool. cl_walk. Qed.
Lemma cl_str_event r : P _ (str_event r).
Proof. unfold str_event. cl_walk. Qed.
Hint Resolve cl_read_bool cl_str_event : cldb.
Lemma cl_read_ld_bytes : P _ read_ld_bytes.
Proof. unfold read_ld_bytes. cl_walk. Qed.
Lemma cl_read_ld_str : P _ read_ld_str.
Proof. unfold read_ld_str. cl_walk. Qed.
Hint Resolve cl_read_ld_bytes cl_read_ld_str : cldb.
Lemma cl_finish_decimal u sc h : P _ (finish_decimal u sc h).
Proof. unfold finish_decimal. cbv zeta. cl_walk. Qed.
Hint Resolve cl_finish_decimal : cldb.
Lemma cl_read_decimal n h : P _ (read_decimal n h).
Proof. unfold read_decimal. cl_walk. Qed.
Hint Resolve cl_read_decimal : cldb.
Lemma cl_read_block_len fuel : forall ignored, P _ (read_block_len fuel ignored).
Proof. induction fuel as [|f IH]; intro ignored; cbn [read_block_len]; cl_walk. Qed.
Hint Resolve cl_read_block_len : cldb.
Lemma cl_has_more fuel cfg ignored b : P _ (has_more fuel cfg ignored b).
Proof. unfold has_more. cl_walk. Qed.
Hint Resolve cl_has_more : cldb.

#[local] Opaque read_usize read_bool read_ld_bytes read_ld_str read_decimal finish_decimal has_more
  read_block_len dec_depth str_event.

Variable Sc : fschema.
Variable cfg : dcfg.

Lemma cl_node_at k : P _ (node_at Sc k).
Proof. unfold node_at. cl_walk. Qed.
Lemma cl_enum_by_key variants key : P _ (de_enum_by_key variants key).
Proof. unfold de_enum_by_key. cl_walk. Qed.
Lemma cl_ep_seq nm d : P _ (ep_seq nm d).
Proof. unfold ep_seq. cl_walk. Qed.
Lemma cl_ep_struct nm d : P _ (ep_struct nm d).
Proof. unfold ep_struct. cl_walk. Qed.
Hint Resolve cl_node_at cl_enum_by_key cl_ep_seq cl_ep_struct : cldb.
#[local] Opaque node_at.

Definition all_cl (f : nat) : Prop :=
  (forall n depth favor force t, P _ (de Sc cfg f n depth favor force t)) /\
  (forall items depth ignored t b ee, P _ (seq_array Sc cfg f items depth ignored t b ee)) /\
  (forall items depth ignored pol b acc, P _ (seq_array_loop Sc cfg f items depth ignored pol b acc)) /\
  (forall vals t, P _ (seq_duration Sc cfg f vals t)) /\
  (forall src t, P _ (map_visit Sc cfg f src t)) /\
  (forall src tk, P _ (map_next_key Sc cfg f src tk)) /\
  (forall src tv, P _ (map_next_value Sc cfg f src tv)) /\
  (forall src tk tv acc, P _ (map_loop Sc cfg f src tk tv acc)) /\
  (forall src fs seen acc, P _ (struct_loop Sc cfg f src fs seen acc)) /\
  (forall variants vname vn depth, P _ (enum_payload Sc cfg f variants vname vn depth)).

Section Step.
Variable f : nat.
Hypothesis IHde : forall n depth favor force t, P _ (de Sc cfg f n depth favor force t).
Hypothesis IHsa : forall items depth ignored t b ee, P _ (seq_array Sc cfg f items depth ignored t b ee).
Hypothesis IHsl : forall items depth ignored pol b acc, P _ (seq_array_loop Sc cfg f items depth ignored pol b acc).
Hypothesis IHsd : forall vals t, P _ (seq_duration Sc cfg f vals t).
Hypothesis IHmv : forall src t, P _ (map_visit Sc cfg f src t).
Hypothesis IHnk : forall src tk, P _ (map_next_key Sc cfg f src tk).
Hypothesis IHnv : forall src tv, P _ (map_next_value Sc cfg f src tv).
Hypothesis IHml : forall src tk tv acc, P _ (map_loop Sc cfg f src tk tv acc).
Hypothesis IHst : forall src fs seen acc, P _ (struct_loop Sc cfg f src fs seen acc).
Hypothesis IHep : forall variants vname vn depth, P _ (enum_payload Sc cfg f variants vname vn depth).

Hint Resolve IHde IHsa IHsl IHsd IHmv IHnk IHnv IHml IHst IHep : cldb.
#[local] Opaque de seq_array seq_array_loop seq_duration map_visit map_next_key map_next_value map_loop
  struct_loop enum_payload.

Lemma st_any n depth t : P _ (de_any Sc cfg f n depth t).
Proof. unfold de_any. destruct n; cl_walk. Qed.
Lemma st_duration_seq t : P _ (de_duration_seq Sc cfg f t).
Proof. unfold de_duration_seq. cl_walk. Qed.
Hint Resolve st_any st_duration_seq : cldb.
#[local] Opaque de_any de_duration_seq.
Lemma st_decimal_hint n depth t h : P _ (de_decimal_hint Sc cfg f n depth t h).
Proof. unfold de_decimal_hint. destruct n; cl_walk. Qed.
Lemma st_identifier n depth t : P _ (de_identifier Sc cfg f n depth t).
Proof. unfold de_identifier. destruct n; cl_walk. Qed.
Hint Resolve st_decimal_hint st_identifier : cldb.
#[local] Opaque de_decimal_hint de_identifier.

Lemma st_de n depth favor force t : P _ (de Sc cfg (S f) n depth favor force t).
Proof.
  rewrite de_unfold. destruct force; [apply st_any|].
  destruct t; try (destruct h); cl_walk.
Qed.
Lemma st_sa items depth ignored t b ee : P _ (seq_array Sc cfg (S f) items depth ignored t b ee).
Proof. rewrite seq_array_unfold. cl_walk. Qed.
Lemma st_sl items depth ignored pol b acc : P _ (seq_array_loop Sc cfg (S f) items depth ignored pol b acc).
Proof. rewrite seq_array_loop_unfold. cl_walk. Qed.
Lemma st_sd vals t : P _ (seq_duration Sc cfg (S f) vals t).
Proof. rewrite seq_duration_unfold. cl_walk. Qed.
Lemma st_mv src t : P _ (map_visit Sc cfg (S f) src t).
Proof. rewrite map_visit_unfold. cl_walk. Qed.
Lemma st_nk src tk : P _ (map_next_key Sc cfg (S f) src tk).
Proof.
  rewrite map_next_key_unfold. destruct src as [values depth ignored b|fields depth|vals idx].
  - apply P_bind; [cl_prim|]. intro hm. destruct (fst hm); [|apply P_ret].
    apply P_bind; [destruct tk; cl_walk|]. intro k. apply P_ret.
  - cl_walk.
  - cl_walk.
Qed.
Lemma st_nv src tv : P _ (map_next_value Sc cfg (S f) src tv).
Proof. rewrite map_next_value_unfold. cl_walk. Qed.
Lemma st_ml src tk tv acc : P _ (map_loop Sc cfg (S f) src tk tv acc).
Proof. rewrite map_loop_unfold. cl_walk. Qed.
Lemma st_st src fs seen acc : P _ (struct_loop Sc cfg (S f) src fs seen acc).
Proof. rewrite struct_loop_unfold. cl_walk. Qed.
Lemma st_ep variants vname vn depth : P _ (enum_payload Sc cfg (S f) variants vname vn depth).
Proof. rewrite enum_payload_unfold. cl_walk. Qed.
End Step.

Lemma all_cl_holds : forall f, all_cl f.
Proof.
  induction f as [|f IH].
  - unfold all_cl. repeat match goal with |- _ /\ _ => split end; intros.
    + rewrite de_zero. apply P_fail; reflexivity.
    + rewrite seq_array_zero. apply P_fail; reflexivity.
    + rewrite seq_array_loop_zero. apply P_fail; reflexivity.
    + rewrite seq_duration_zero. apply P_fail; reflexivity.
    + rewrite map_visit_zero. apply P_fail; reflexivity.
    + rewrite map_next_key_zero. apply P_fail; reflexivity.
    + rewrite map_next_value_zero. apply P_fail; reflexivity.
    + rewrite map_loop_zero. apply P_fail; reflexivity.
    + rewrite struct_loop_zero. apply P_fail; reflexivity.
    + rewrite enum_payload_zero. apply P_fail; reflexivity.
  - destruct IH as (H1 & H2 & H3 & H4 & H5 & H6 & H7 & H8 & H9 & H10).
    unfold all_cl. repeat match goal with |- _ /\ _ => split end; intros.
    + apply st_de; assumption.
    + apply st_sa; assumption.
    + apply st_sl; assumption.
    + apply st_sd; assumption.
    + apply st_mv; assumption.
    + apply st_nk; assumption.
    + apply st_nv; assumption.
    + apply st_ml; assumption.
    + apply st_st; assumption.
    + apply st_ep; assumption.
Qed.

Theorem closure_de : forall f n depth favor force t, P _ (de Sc cfg f n depth favor force t).
Proof. intro f. apply (all_cl_holds f). Qed.
Theorem closure_seq_array : forall f items depth ignored t b ee, P _ (seq_array Sc cfg f items depth ignored t b ee).
Proof. intro f. apply (all_cl_holds f). Qed.
Theorem closure_map_visit : forall f src t, P _ (map_visit Sc cfg f src t).
Proof. intro f. apply (all_cl_holds f). Qed.
Theorem closure_enum_payload : forall f variants vname vn depth, P _ (enum_payload Sc cfg f variants vname vn depth).
Proof. intro f. apply (all_cl_holds f). Qed.

End Closure.

Print Assumptions closure_de.
