(** Decoder soundness, part 3: malformed input is rejected with Err -- directly usable lemmas on
    [de ... TAny], for every reader mode (slice or chunked), every fuel >= 1 / favor / force_any.

    - [de_any_reject]            (general) input no prefix of which is a relaxed encoding of a conforming
                                 value is an Err (needs the fuel bound of de_any_ok_or_err)
    - [de_bool_reject]           boolean byte other than 0/1
    - [de_string_bad_utf8]       string / uuid payload that is not UTF-8   ([de_map_key_bad_utf8]: map keys)
    - [de_union_index_reject], [de_enum_index_reject]     index < 0 or >= number of branches / symbols
    - [de_negative_length_reject]                         bytes / string length < 0
    - [de_*_truncated]           premature end of input inside a leaf value
    - [decode_u64_truncated]     input that ends inside a varint does not decode *)
From Coq Require Import NArith ZArith List Lia Bool.
From Coq Require Import ZifyN ZifyBool ZifyNat.
Require Import Base Kinds Schema Varint Utf8 Sval Target Reader Text De.
Require Import AvroValue Encoding Denote Wf VarintProofs DeProofs ReaderProofs DeSafetyProofs.
Require Import DeSoundBase DeSoundMain.
Import ListNotations.
Open Scope N_scope.
Notation length := List.length (only parsing).

Ltac Zify.zify_post_hook ::= Z.to_euclidean_division_equations.

Arguments N.add : simpl never.
Arguments N.sub : simpl never.
Arguments N.mul : simpl never.
Arguments N.div : simpl never.
Arguments N.modulo : simpl never.
Arguments N.pow : simpl never.
Arguments N.shiftl : simpl never.
Arguments N.shiftr : simpl never.
Arguments N.land : simpl never.
Arguments N.lor : simpl never.
Arguments N.ltb : simpl never.
Arguments N.leb : simpl never.
Arguments N.eqb : simpl never.
Arguments N.of_nat : simpl never.
Arguments N.to_nat : simpl never.
Arguments N.min : simpl never.
Arguments Z.of_nat : simpl never.
Arguments Z.of_N : simpl never.
Arguments Z.to_N : simpl never.
Arguments Z.to_nat : simpl never.
Arguments Z.add : simpl never.
Arguments Z.sub : simpl never.
Arguments Z.mul : simpl never.
Arguments Z.pow : simpl never.
Arguments Z.ltb : simpl never.
Arguments Z.leb : simpl never.
Arguments Z.eqb : simpl never.
Arguments Z.opp : simpl never.
Arguments Z.abs : simpl never.
Arguments Z.modulo : simpl never.

(* ------------------------------------------------------------------ *)
(** * 1. The general form *)

Definition is_err {A} (x : result A * rstate) : Prop := exists e, fst x = Err e.

(** If no prefix of the input is a relaxed encoding of a conforming value, the decoder answers Err
    (with the fuel of [de_any_ok_or_err]: it cannot be OutOfFuel, Panic or Unmodelled either). *)
Theorem de_any_reject : forall Sc cfg fuel n depth favor force rs,
  schema_wf Sc = true -> In n Sc -> c_max_seq cfg < 2 ^ 64 - 1 ->
  (work_bound Sc cfg depth (blen (rd_inp rs)) <= fuel)%nat ->
  bytes_okb (rd_inp rs) = true ->
  (forall v pre rest, rd_inp rs = pre ++ rest -> conforms Sc n v = true -> ~ valid_enc_relaxed Sc n v pre) ->
  is_err (de Sc cfg fuel n depth favor force TAny rs).
Proof.
  intros Sc cfg fuel n depth favor force rs Hwf Hin HM Hf Hok Hno.
  destruct (de_any_ok_or_err Sc cfg fuel n depth favor force TAny rs Hwf Hin HM (or_introl eq_refl) Hf)
    as [[d H]|[e H]]; [|exists e; exact H].
  exfalso. destruct (de Sc cfg fuel n depth favor force TAny rs) as [x rs'] eqn:E.
  cbn [fst] in H. subst x.
  destruct (de_any_sound_bytes _ _ _ _ _ _ _ _ _ _ Hok E) as (v & pre & Hp & Hc & _ & Hv).
  exact (Hno v pre (rd_inp rs') Hp Hc Hv).
Qed.

(* ------------------------------------------------------------------ *)
(** * 2. Err propagation and the primitive readers on bad input *)

Lemma err_bind_l {A B} (m : RM A) (k : A -> RM B) rs : is_err (m rs) -> is_err (sbind m k rs).
Proof.
  unfold sbind, is_err. destruct (m rs) as [x s]. intros [e H]. cbn [fst] in H. subst x.
  exists e. reflexivity.
Qed.

Lemma err_bind_ok {A B} (m : RM A) (k : A -> RM B) rs a rs1 :
  m rs = (Ok a, rs1) -> is_err (k a rs1) -> is_err (sbind m k rs).
Proof. intros H E. unfold sbind. rewrite H. exact E. Qed.

Lemma err_fail {A} e rs : is_err (@rfail A (Err e) rs).
Proof. exists e. reflexivity. Qed.

Lemma read_varint_some t rs z k : decode_var t (rd_inp rs) = Some (z, k) ->
  exists rs', read_varint t rs = (Ok z, rs') /\ rd_inp rs' = skipn (N.to_nat k) (rd_inp rs).
Proof.
  intro H. unfold read_varint. destruct (rd_chunks rs) eqn:Ec.
  - destruct (decode_var t (buffer rs)) as [[v k']|] eqn:E.
    + unfold buffer in E. rewrite Ec in E. apply decode_var_of_prefix in E. rewrite H in E.
      inversion E; subst. eexists. split; [reflexivity|apply consume_inp].
    + rewrite decode_var_gather, H. eexists. split; [reflexivity|].
      rewrite consume_inp, (decode_var_gather_len _ _ _ _ H). reflexivity.
  - rewrite H. eexists. split; [reflexivity|apply consume_inp].
Qed.

Lemma read_varint_none t rs : decode_var t (rd_inp rs) = None -> is_err (read_varint t rs).
Proof.
  intro H. unfold read_varint. destruct (rd_chunks rs) eqn:Ec.
  - destruct (decode_var t (buffer rs)) as [[v k']|] eqn:E.
    + unfold buffer in E. rewrite Ec in E. apply decode_var_of_prefix in E. congruence.
    + rewrite decode_var_gather, H. exists EIo. reflexivity.
  - rewrite H. exists EData. reflexivity.
Qed.

Lemma read_usize_some rs z k : decode_var VI64 (rd_inp rs) = Some (z, k) -> (0 <= z)%Z ->
  exists rs', read_usize rs = (Ok (Z.to_N z), rs') /\ rd_inp rs' = skipn (N.to_nat k) (rd_inp rs).
Proof.
  intros H Hz. destruct (read_varint_some _ _ _ _ H) as (rs' & E & Hi).
  exists rs'. split; [|exact Hi]. unfold read_usize. rewrite (sbind_ok _ _ _ _ _ E).
  destruct (Z.ltb_spec z 0); [lia|reflexivity].
Qed.

Lemma read_usize_neg rs z k : decode_var VI64 (rd_inp rs) = Some (z, k) -> (z < 0)%Z ->
  is_err (read_usize rs).
Proof.
  intros H Hz. destruct (read_varint_some _ _ _ _ H) as (rs' & E & Hi).
  unfold read_usize. eapply err_bind_ok; [exact E|].
  destruct (Z.ltb_spec z 0); [apply err_fail|lia].
Qed.

Lemma read_usize_none rs : decode_var VI64 (rd_inp rs) = None -> is_err (read_usize rs).
Proof. intro H. unfold read_usize. apply err_bind_l. apply read_varint_none. exact H. Qed.

Lemma read_slice_short n rs : blen (rd_inp rs) < n -> is_err (read_slice n rs).
Proof.
  intro H. unfold read_slice. destruct (rd_chunks rs).
  - pose proof (buffer_len_le rs).
    destruct (N.leb_spec n (blen (buffer rs))); [lia|].
    destruct (rd_max_alloc rs <? n); [exists EData; reflexivity|].
    destruct (N.ltb_spec (blen (rd_inp rs)) n); [exists EIo; reflexivity|lia].
  - destruct (N.ltb_spec (blen (rd_inp rs)) n); [exists EData; reflexivity|lia].
Qed.

Lemma read_slice_cases n rs :
  is_err (read_slice n rs) \/
  exists o, read_slice n rs = (Ok (firstn (N.to_nat n) (rd_inp rs), o), consume n rs).
Proof.
  unfold read_slice. destruct (rd_chunks rs).
  - destruct (n <=? blen (buffer rs)); [right; eexists; reflexivity|].
    destruct (rd_max_alloc rs <? n); [left; exists EData; reflexivity|].
    destruct (blen (rd_inp rs) <? n); [left; exists EIo; reflexivity|right; eexists; reflexivity].
  - destruct (blen (rd_inp rs) <? n); [left; exists EData; reflexivity|right; eexists; reflexivity].
Qed.

Lemma read_exact_short n rs : blen (rd_inp rs) < n -> is_err (read_exact n rs).
Proof.
  intro H. unfold read_exact. destruct (N.ltb_spec (blen (rd_inp rs)) n); [exists EIo; reflexivity|lia].
Qed.

(** input that stops inside a varint (only continuation bytes, fewer than 10) does not decode *)
Lemma dec_loop_truncated : forall src acc i,
  Forall (fun b => 128 <= b < 256) src -> N.of_nat (length src) + i <= 9 ->
  dec_loop src acc (7 * i) = None.
Proof.
  induction src as [|b rest IH]; intros acc i Hall Hlen; [reflexivity|].
  inversion Hall as [|? ? Hb Hrest]; subst. cbn [length] in Hlen. cbn [dec_loop].
  destruct (N.ltb_spec 63 (7 * i + 7)); [lia|].
  rewrite land128_byte by lia. destruct (N.ltb_spec b 128); [lia|].
  replace (7 * i + 7) with (7 * (i + 1)) by lia. apply IH; [exact Hrest|lia].
Qed.

Theorem decode_u64_truncated : forall src,
  Forall (fun b => 128 <= b < 256) src -> (length src <= 9)%nat -> decode_u64 src = None.
Proof.
  intros src H L. unfold decode_u64. change 0 with (7 * 0) at 2. apply dec_loop_truncated; [exact H|lia].
Qed.

Corollary decode_var_truncated : forall t src,
  Forall (fun b => 128 <= b < 256) src -> (length src <= 9)%nat -> decode_var t src = None.
Proof.
  intros t src H L. unfold decode_var, decode_i64. rewrite (decode_u64_truncated src H L).
  destruct t; reflexivity.
Qed.

(* ------------------------------------------------------------------ *)
(** * 3. The rejection lemmas on [de ... TAny] *)

Section Reject.
Variable Sc : fschema.
Variable cfg : dcfg.

Lemma de_any_step f n depth favor force :
  de Sc cfg (S f) n depth favor force TAny = de_any Sc cfg f n depth TAny.
Proof. rewrite de_unfold. destruct force; reflexivity. Qed.

(** (a) boolean: a first byte other than 0 / 1, or no byte at all *)
Theorem de_bool_reject : forall f depth favor force rs b rest,
  rd_inp rs = b :: rest -> 2 <= b ->
  is_err (de Sc cfg (S f) FBoolean depth favor force TAny rs).
Proof.
  intros f depth favor force rs b rest Hi Hb. rewrite de_any_step. unfold de_any.
  apply err_bind_l. unfold read_bool.
  destruct (read_slice_cases 1 rs) as [E|[o E]]; [apply err_bind_l; exact E|].
  eapply err_bind_ok; [exact E|]. rewrite Hi. change (N.to_nat 1) with 1%nat. cbn [firstn fst].
  destruct b as [|[p|p|]]; try apply err_fail; lia.
Qed.

Theorem de_bool_truncated : forall f depth favor force rs,
  rd_inp rs = [] -> is_err (de Sc cfg (S f) FBoolean depth favor force TAny rs).
Proof.
  intros f depth favor force rs Hi. rewrite de_any_step. unfold de_any.
  apply err_bind_l. unfold read_bool. apply err_bind_l. apply read_slice_short.
  rewrite Hi. unfold blen. cbn [length]. lia.
Qed.

(** (b) strings: the payload is not UTF-8 *)
Lemma read_ld_str_bad_utf8 rs z k :
  decode_var VI64 (rd_inp rs) = Some (z, k) -> (0 <= z)%Z ->
  utf8_valid (firstn (Z.to_nat z) (skipn (N.to_nat k) (rd_inp rs))) = false ->
  is_err (read_ld_str rs).
Proof.
  intros H Hz Hu. destruct (read_usize_some _ _ _ H Hz) as (rs1 & E1 & Hi1).
  unfold read_ld_str. eapply err_bind_ok; [exact E1|].
  destruct (read_slice_cases (Z.to_N z) rs1) as [E|[o E]]; [apply err_bind_l; exact E|].
  eapply err_bind_ok; [exact E|]. unfold str_event. cbn [fst]. rewrite Hi1.
  replace (N.to_nat (Z.to_N z)) with (Z.to_nat z) by lia. rewrite Hu. apply err_fail.
Qed.

Theorem de_string_bad_utf8 : forall f n depth favor force rs z k,
  str_node n = true ->
  decode_var VI64 (rd_inp rs) = Some (z, k) -> (0 <= z)%Z ->
  utf8_valid (firstn (Z.to_nat z) (skipn (N.to_nat k) (rd_inp rs))) = false ->
  is_err (de Sc cfg (S f) n depth favor force TAny rs).
Proof.
  intros f n depth favor force rs z k Hn H Hz Hu. rewrite de_any_step. unfold de_any.
  destruct n; try discriminate; apply err_bind_l; eapply read_ld_str_bad_utf8; eauto.
Qed.

(** (c) union / enum: the index is negative, too large, or not a long at all *)
Lemma nth_N_none {A} (l : list A) z : (z < 0 \/ Z.of_nat (length l) <= z)%Z -> (0 <= z)%Z ->
  nth_N l (Z.to_N z) = None.
Proof.
  intros H Hz. unfold nth_N. destruct (N.ltb_spec (Z.to_N z) (N.of_nat (length l))); [lia|reflexivity].
Qed.

Theorem de_union_index_reject : forall f variants depth favor force rs z k,
  decode_var VI64 (rd_inp rs) = Some (z, k) -> (z < 0 \/ Z.of_nat (length variants) <= z)%Z ->
  is_err (de Sc cfg (S f) (FUnion variants) depth favor force TAny rs).
Proof.
  intros f variants depth favor force rs z k H Hr. rewrite de_any_step. unfold de_any.
  destruct (Z.ltb_spec z 0) as [Hneg|Hpos].
  - apply err_bind_l. eapply read_usize_neg; eauto.
  - destruct (read_usize_some _ _ _ H Hpos) as (rs1 & E1 & _).
    eapply err_bind_ok; [exact E1|]. rewrite (nth_N_none variants z Hr Hpos). apply err_fail.
Qed.

Theorem de_enum_index_reject : forall f nm symbols depth favor force rs z k,
  decode_var VI64 (rd_inp rs) = Some (z, k) -> (z < 0 \/ Z.of_nat (length symbols) <= z)%Z ->
  is_err (de Sc cfg (S f) (FEnum nm symbols) depth favor force TAny rs).
Proof.
  intros f nm symbols depth favor force rs z k H Hr. rewrite de_any_step. unfold de_any.
  destruct (Z.ltb_spec z 0) as [Hneg|Hpos].
  - apply err_bind_l. eapply read_usize_neg; eauto.
  - destruct (read_usize_some _ _ _ H Hpos) as (rs1 & E1 & _).
    eapply err_bind_ok; [exact E1|]. rewrite (nth_N_none symbols z Hr Hpos). apply err_fail.
Qed.

(** (d) bytes / string / uuid: negative length *)
Definition ld_node (n : fnode) : bool :=
  match n with FBytes | FString | FUuid => true | _ => false end.

Theorem de_negative_length_reject : forall f n depth favor force rs z k,
  ld_node n = true ->
  decode_var VI64 (rd_inp rs) = Some (z, k) -> (z < 0)%Z ->
  is_err (de Sc cfg (S f) n depth favor force TAny rs).
Proof.
  intros f n depth favor force rs z k Hn H Hz. rewrite de_any_step. unfold de_any.
  destruct n; try discriminate; apply err_bind_l.
  - unfold read_ld_bytes. apply err_bind_l. eapply read_usize_neg; eauto.
  - unfold read_ld_str. apply err_bind_l. eapply read_usize_neg; eauto.
  - unfold read_ld_str. apply err_bind_l. eapply read_usize_neg; eauto.
Qed.

(** (e) premature end of input *)
(* nodes that start with a long / int: the varint is cut or over-long *)
Definition varint_first (n : fnode) : bool :=
  match n with
  | FInt | FLong | FDate | FTimeMillis | FTimeMicros | FTimestampMillis | FTimestampMicros
  | FBytes | FString | FUuid | FUnion _ | FEnum _ _ => true
  | _ => false
  end.

Theorem de_varint_truncated : forall f n depth favor force rs,
  varint_first n = true -> decode_u64 (rd_inp rs) = None ->
  is_err (de Sc cfg (S f) n depth favor force TAny rs).
Proof.
  intros f n depth favor force rs Hn H. rewrite de_any_step. unfold de_any.
  assert (H64 : decode_var VI64 (rd_inp rs) = None) by (unfold decode_var, decode_i64; rewrite H; reflexivity).
  assert (H32 : decode_var VI32 (rd_inp rs) = None) by (unfold decode_var, decode_i64; rewrite H; reflexivity).
  destruct n; try discriminate; apply err_bind_l;
    try (apply read_varint_none; assumption);
    try (apply read_usize_none; assumption).
  - unfold read_ld_bytes. apply err_bind_l. apply read_usize_none; assumption.
  - unfold read_ld_str. apply err_bind_l. apply read_usize_none; assumption.
  - unfold read_ld_str. apply err_bind_l. apply read_usize_none; assumption.
Qed.

(* fewer bytes than the declared length *)
Theorem de_ld_truncated : forall f n depth favor force rs z k,
  ld_node n = true ->
  decode_var VI64 (rd_inp rs) = Some (z, k) -> (0 <= z)%Z ->
  (Z.of_nat (length (rd_inp rs)) < Z.of_N k + z)%Z ->
  is_err (de Sc cfg (S f) n depth favor force TAny rs).
Proof.
  intros f n depth favor force rs z k Hn H Hz Hshort. rewrite de_any_step. unfold de_any.
  destruct (read_usize_some _ _ _ H Hz) as (rs1 & E1 & Hi1).
  assert (S1 : is_err (read_slice (Z.to_N z) rs1)).
  { apply read_slice_short. rewrite Hi1. pose proof (decode_var_consumed _ _ _ _ H) as Hk.
    unfold blen in *. rewrite skipn_length. lia. }
  destruct n; try discriminate; apply err_bind_l.
  - unfold read_ld_bytes. eapply err_bind_ok; [exact E1|]. apply err_bind_l. exact S1.
  - unfold read_ld_str. eapply err_bind_ok; [exact E1|]. apply err_bind_l. exact S1.
  - unfold read_ld_str. eapply err_bind_ok; [exact E1|]. apply err_bind_l. exact S1.
Qed.

Theorem de_fixed_truncated : forall f nm size depth favor force rs,
  N.of_nat (length (rd_inp rs)) < size ->
  is_err (de Sc cfg (S f) (FFixed nm size) depth favor force TAny rs).
Proof.
  intros. rewrite de_any_step. unfold de_any. apply err_bind_l. apply read_slice_short. assumption.
Qed.

Theorem de_float_truncated : forall f depth favor force rs,
  (length (rd_inp rs) < 4)%nat -> is_err (de Sc cfg (S f) FFloat depth favor force TAny rs).
Proof.
  intros. rewrite de_any_step. unfold de_any. apply err_bind_l. apply read_exact_short. unfold blen. lia.
Qed.

Theorem de_double_truncated : forall f depth favor force rs,
  (length (rd_inp rs) < 8)%nat -> is_err (de Sc cfg (S f) FDouble depth favor force TAny rs).
Proof.
  intros. rewrite de_any_step. unfold de_any. apply err_bind_l. apply read_exact_short. unfold blen. lia.
Qed.

Theorem de_duration_truncated : forall f depth favor force rs,
  (length (rd_inp rs) < 12)%nat -> is_err (de Sc cfg (S f) FDuration depth favor force TAny rs).
Proof.
  intros. rewrite de_any_step. unfold de_any. apply err_bind_l. apply read_exact_short. unfold blen. lia.
Qed.

Theorem de_decimal_fixed_truncated : forall f p sc nm size depth favor force rs,
  N.of_nat (length (rd_inp rs)) < size ->
  is_err (de Sc cfg (S f) (FDecimal p sc (Some (nm, size))) depth favor force TAny rs).
Proof.
  intros f p sc nm size depth favor force rs H. rewrite de_any_step. unfold de_any.
  apply err_bind_l. unfold read_decimal.
  destruct (16 <? size); [apply err_fail|]. apply err_bind_l. apply read_exact_short. exact H.
Qed.

(** (b') map keys: the first key of a map (first block written with a positive count) is not UTF-8 *)
Theorem de_map_key_bad_utf8 : forall f values depth favor force rs c k1 l k2,
  decode_var VI64 (rd_inp rs) = Some (c, k1) -> (0 < c)%Z ->
  decode_var VI64 (skipn (N.to_nat k1) (rd_inp rs)) = Some (l, k2) -> (0 <= l)%Z ->
  utf8_valid (firstn (Z.to_nat l) (skipn (N.to_nat k2) (skipn (N.to_nat k1) (rd_inp rs)))) = false ->
  is_err (de Sc cfg (S (S (S (S (S f))))) (FMap values) depth favor force TAny rs).
Proof.
  intros f values depth favor force rs c k1 l k2 Hc Hcpos Hl Hlpos Hu.
  rewrite de_any_step. unfold de_any.
  destruct depth as [|d]; [apply err_bind_l; apply err_fail|].
  change (dec_depth (S d)) with (@sret rstate nat d). rewrite sbind_sret.
  rewrite map_visit_unfold. cbn [map_policy]. apply err_bind_l.
  rewrite map_loop_unfold. apply err_bind_l.
  rewrite map_next_key_unfold.
  destruct (read_varint_some _ _ _ _ Hc) as (rs1 & E1 & Hi1).
  assert (Hhm : is_err (has_more (S f) cfg false blk0 rs) \/
                exists b', has_more (S f) cfg false blk0 rs = (Ok (true, b'), rs1)).
  { unfold has_more. cbn [blk0 b_cur]. change (0 =? 0) with true. cbv iota.
    cbn [read_block_len]. rewrite sbind_assoc. rewrite (sbind_ok _ _ _ _ _ E1).
    destruct (Z.ltb_spec c 0); [lia|]. rewrite sbind_sret.
    destruct (Z.eqb_spec c 0); [lia|].
    destruct (c_max_seq cfg <? N.min (b_nread blk0 + Z.to_N c) (2 ^ 64 - 1)).
    - left. apply err_fail.
    - right. eexists. reflexivity. }
  destruct Hhm as [E|[b' E]]; [apply err_bind_l; exact E|].
  eapply err_bind_ok; [exact E|]. cbn [fst]. apply err_bind_l.
  rewrite <- Hi1 in Hl, Hu. eapply read_ld_str_bad_utf8; eauto.
Qed.

End Reject.
