From Coq Require Import NArith List Lia Bool.
Require Import Base Schema Text Rabin CrcSpec RabinProofs CanonicalForm.
Open Scope N_scope.

(* the fingerprint is the little-endian CRC-64-AVRO of exactly the text the canonical form
   traversal produces *)
Theorem fingerprint_is_crc fuel g t :
  canonical_form fuel g = Ok t ->
  fingerprint fuel g = Ok (le64 (crc64_avro t)).
Proof.
  intro H. unfold fingerprint. rewrite H. cbn [rbind].
  rewrite rabin_finish_le, rabin_is_crc64_avro. reflexivity.
Qed.

Theorem fingerprint_fails_with_cf fuel g :
  (forall t, canonical_form fuel g <> Ok t) -> forall f, fingerprint fuel g <> Ok f.
Proof.
  intros H f. unfold fingerprint. destruct (canonical_form fuel g) eqn:E; cbn [rbind]; try discriminate.
  exfalso. eapply H. reflexivity.
Qed.
