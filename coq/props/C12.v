(** C12 -- Skipping a value consumes exactly the bytes that reading it would.
    Statements only; proofs in proofs/DS1..DS5.v (on top of proofs/DeProofs.v).
    [evalue] (spec/Encoding.v) is a value together with the encoder's free choices, so the theorems
    cover EVERY legal encoding: arrays/maps split into any number of blocks, and any block written
    with a negative count followed by its byte size (the case that lets the skipping path jump
    over the block without decoding its items). TIgnored is serde's IgnoredAny: what a derived
    struct uses for a field it lacks, a map visitor for a value it ignores, and unit-variant
    access for a union branch's payload. *)
From Coq Require Import List NArith ZArith.
Require Import Base Schema Varint Reader Target De AvroValue Encoding Denote Wf DeProofs DS4.
Import ListNotations.

(* skipping consumes exactly the encoding, leaves whatever follows untouched *)
Theorem C12_skip : forall Sc cfg e n rest pos ma fuel depth,
  schema_wf Sc = true ->
  conforms Sc n (erase e) = true ->
  layout_ok e = true ->
  within_limits Sc cfg n e = true ->
  (depth_cost e <= depth)%nat ->
  (de_fuel e <= fuel)%nat ->
  counts_fit e = true ->
  (Z.of_nat (length (encode_e Sc n e)) <= I64_MAX)%Z ->
  de Sc cfg fuel n depth false false TIgnored (mkRd (encode_e Sc n e ++ rest) pos None ma)
    = (Ok DIgnored, mkRd rest (pos + N.of_nat (length (encode_e Sc n e))) None ma).
Proof. exact de_ignored_complete. Qed.

(* ... which is exactly what reading it consumes: both leave the reader in the same state, so
   every following datum decodes identically *)
Theorem C12_skip_as_read : forall Sc cfg e n rest pos ma fuel depth,
  schema_wf Sc = true ->
  conforms Sc n (erase e) = true ->
  layout_ok e = true ->
  within_limits Sc cfg n e = true ->
  (depth_cost e <= depth)%nat ->
  (de_fuel e <= fuel)%nat ->
  counts_fit e = true ->
  (Z.of_nat (length (encode_e Sc n e)) <= I64_MAX)%Z ->
  exists d st_any st_ign,
    de Sc cfg fuel n depth false false TAny (mkRd (encode_e Sc n e ++ rest) pos None ma) = (Ok d, st_any) /\
    de Sc cfg fuel n depth false false TIgnored (mkRd (encode_e Sc n e ++ rest) pos None ma)
      = (Ok DIgnored, st_ign) /\
    st_any = st_ign /\
    (rd_pos st_ign - pos = N.of_nat (length (encode_e Sc n e)))%N /\
    rd_inp st_ign = rest.
Proof. exact ignored_consumes_as_any. Qed.
