(** C12 -- Skipping a value consumes exactly the bytes that reading it would.
    Statements only; proofs in proofs/DS1..DS5.v (on top of proofs/DeProofs.v).
    [evalue] (spec/Encoding.v) is a value together with the encoder's free choices, so the theorems
    cover EVERY legal encoding: arrays/maps split into any number of blocks, and any block written
    with a negative count followed by its byte size (the case that lets the skipping path jump
    over the block without decoding its items). TIgnored is serde's IgnoredAny: what a derived
    struct uses for a field it lacks, a map visitor for a value it ignores, and unit-variant
    access for a union branch's payload. *)
From Coq Require Import List NArith ZArith.
Require Import Base Schema Varint Reader Target De AvroValue Encoding Denote Wf DeProofs DS4 DS5 DS6.
Import ListNotations.

(* skipping consumes exactly the encoding, leaves whatever follows untouched *)
Theorem C12_skip : forall Sc cfg e n rest pos ma fuel depth,
  schema_wf Sc = true ->
  conforms Sc n (erase e) = true ->
  layout_ok e = true ->
  within_limits Sc cfg n e = true ->
  (depth_cost e <= depth)%nat ->
  (de_fuel e <= fuel)%nat ->
  counts_fit e = true ->
  (Z.of_nat (length (encode_e Sc n e)) <= I64_MAX)%Z ->
  de Sc cfg fuel n depth false false TIgnored (mkRd (encode_e Sc n e ++ rest) pos None ma)
    = (Ok DIgnored, mkRd rest (pos + N.of_nat (length (encode_e Sc n e))) None ma).
Proof. exact de_ignored_complete. Qed.

(* ... which is exactly what reading it consumes: both leave the reader in the same state, so
   every following datum decodes identically *)
Theorem C12_skip_as_read : forall Sc cfg e n rest pos ma fuel depth,
  schema_wf Sc = true ->
  conforms Sc n (erase e) = true ->
  layout_ok e = true ->
  within_limits Sc cfg n e = true ->
  (depth_cost e <= depth)%nat ->
  (de_fuel e <= fuel)%nat ->
  counts_fit e = true ->
  (Z.of_nat (length (encode_e Sc n e)) <= I64_MAX)%Z ->
  exists d st_any st_ign,
    de Sc cfg fuel n depth false false TAny (mkRd (encode_e Sc n e ++ rest) pos None ma) = (Ok d, st_any) /\
    de Sc cfg fuel n depth false false TIgnored (mkRd (encode_e Sc n e ++ rest) pos None ma)
      = (Ok DIgnored, st_ign) /\
    st_any = st_ign /\
    (rd_pos st_ign - pos = N.of_nat (length (encode_e Sc n e)))%N /\
    rd_inp st_ign = rest.
Proof. exact ignored_consumes_as_any. Qed.

(* the embedded forms. A struct lacking fields: ANY set of target fields that is a subset of the
   record's; every known field is decoded by its own target ([known_fields_ok]: each behaves as its
   relation R says on a sub-encoding), every unknown field is skipped on exactly its encoding; the
   reader ends exactly behind the record and the collected fields are exactly the known ones, in
   record order *)
Theorem C12_struct_lacking_fields : forall Sc cfg nm fields es sn fs (R : nat -> evalue -> dval -> Prop) d' favor fuel rest pos ma,
  conforms Sc (FRecord nm fields) (erase (ERecord es)) = true ->
  layout_ok (ERecord es) = true ->
  within_limits Sc cfg (FRecord nm fields) (ERecord es) = true ->
  (depth_cost (ERecord es) <= S d')%nat ->
  counts_fit (ERecord es) = true ->
  (Z.of_nat (length (encode_e Sc (FRecord nm fields) (ERecord es))) <= I64_MAX)%Z ->
  NoDup (map fst fields) -> NoDup (map fst fs) -> incl (map fst fs) (map fst fields) ->
  known_fields_ok Sc cfg fs R d' fields es ->
  (de_fuel (ERecord es) <= fuel)%nat ->
  exists l,
    de Sc cfg fuel (FRecord nm fields) (S d') favor false (TStruct sn fs)
       (mkRd (encode_e Sc (FRecord nm fields) (ERecord es) ++ rest) pos None ma)
    = (Ok (DStruct l), mkRd rest (pos + N.of_nat (length (encode_e Sc (FRecord nm fields) (ERecord es)))) None ma)
    /\ struct_out fs R fields es l
    /\ map fst l = filter (fun nm0 => has_field nm0 fs) (map fst fields).
Proof. exact struct_skips_missing_fields. Qed.

(* a target with fewer fields and one with more end in the same reader state and agree on every
   field both know *)
Theorem C12_fewer_fields_agree : forall Sc cfg nm fields es sn1 sn2 fs1 fs2 (R : nat -> evalue -> dval -> Prop) d' favor fuel rest pos ma,
  pre Sc cfg (FRecord nm fields) (S d') (ERecord es) ->
  NoDup (map fst fields) -> NoDup (map fst fs1) -> NoDup (map fst fs2) ->
  incl fs1 fs2 -> incl (map fst fs2) (map fst fields) ->
  known_fields_ok Sc cfg fs2 R d' fields es ->
  (de_fuel (ERecord es) <= fuel)%nat ->
  exists l1 l2 st',
    de Sc cfg fuel (FRecord nm fields) (S d') favor false (TStruct sn1 fs1)
       (mkRd (encode_e Sc (FRecord nm fields) (ERecord es) ++ rest) pos None ma) = (Ok (DStruct l1), st') /\
    de Sc cfg fuel (FRecord nm fields) (S d') favor false (TStruct sn2 fs2)
       (mkRd (encode_e Sc (FRecord nm fields) (ERecord es) ++ rest) pos None ma) = (Ok (DStruct l2), st') /\
    st' = mkRd rest (pos + N.of_nat (length (encode_e Sc (FRecord nm fields) (ERecord es)))) None ma /\
    l1 = filter (known_by fs1) l2 /\ struct_out fs2 R fields es l2.
Proof. exact struct_fewer_fields_agree. Qed.

(* an ignored map value *)
Theorem C12_map_ignored_values : forall Sc cfg k blocks d' favor fuel rest pos ma,
  pre Sc cfg (FMap k) (S d') (EMap blocks) -> (de_fuel (EMap blocks) <= fuel)%nat ->
  exists kvs,
    de Sc cfg fuel (FMap k) (S d') favor false (TMap (THint HStr) TIgnored)
       (mkRd (encode_e Sc (FMap k) (EMap blocks) ++ rest) pos None ma)
    = (Ok (DMap kvs), mkRd rest (pos + N.of_nat (length (encode_e Sc (FMap k) (EMap blocks)))) None ma) /\
    Forall2 (fun (kv : bytes * evalue) (dd : dval * dval) => erase_borrow (fst dd) = DStr (fst kv) /\ snd dd = DIgnored)
            (flat_map snd blocks) kvs.
Proof. exact map_ignored_values. Qed.

(* a unit enum variant for a union branch: the payload is skipped exactly *)
Theorem C12_union_unit_variant : forall Sc cfg ks i v en variants vname j k n' d' fuel rest pos ma,
  pre Sc cfg (FUnion ks) (S d') (EUnion i v) ->
  nth_error ks i = Some k -> fnode_at Sc k = Some n' ->
  index_of (type_name n') (map fst variants) = Some j ->
  nth_error variants j = Some (vname, TVUnit) ->
  (de_fuel (EUnion i v) <= fuel)%nat ->
  de Sc cfg fuel (FUnion ks) (S d') false false (TEnum en variants)
     (mkRd (encode_e Sc (FUnion ks) (EUnion i v) ++ rest) pos None ma)
  = (Ok (DEnum vname DUnit), mkRd rest (pos + N.of_nat (length (encode_e Sc (FUnion ks) (EUnion i v)))) None ma).
Proof. exact union_branch_as_unit_variant. Qed.

(* byte-size-prefixed blocks: with an ignoring consumer the bytes inside a sized block are never
   inspected -- ARBITRARY block contents are jumped over by the advertised size *)
Theorem C12_blocks_jump : forall Sc cfg k blocks d' favor fuel rest pos ma,
  Forall raw_ok blocks -> (length blocks + 4 <= fuel)%nat ->
  de Sc cfg fuel (FArray k) (S d') favor false TIgnored
     (mkRd (flat_map raw_neg_block blocks ++ spec_long 0 ++ rest) pos None ma)
  = (Ok DIgnored, mkRd rest (pos + N.of_nat (length (flat_map raw_neg_block blocks ++ spec_long 0))) None ma).
Proof. exact ignored_array_jumps_raw_blocks. Qed.

(* non-vacuity *)
Check struct_skips_nested_array_instance.
Check struct_fewer_fields_agree_instance.
Check ignored_array_jumps_garbage_instance.
Check union_unit_variant_instance.
