(** C02 -- Encoder soundness: Ok means spec-exact bytes; unrepresentable values fail.
    Statements only; proofs in proofs/SerProofs.v and proofs/SerLeafProofs.v.
    What is PROVED: (a) for the canonical presentation of every conforming value (union branches
    selected by the name the deserializer reports, records in schema order, decimals as strings)
    the serializer returns Ok with exactly the specification's bytes; (b) the facts about the
    generated union lookup table this rests on; (c) unrepresentable values at the leaves are
    rejected; (d) SOUNDNESS for every accepted presentation (C02_sound): Ok implies the bytes are a
    valid encoding of a conforming value. The correspondence run ties the model to the crate on
    every (serde call x node kind) cell. *)
From Coq Require Import List NArith ZArith.
Require Import Base Kinds Schema Varint Utf8 Sval Ser De AvroValue Encoding Denote Wf SerProofs SerLeafProofs SerSoundProofs.
Require Import RecordProofs DeSafetyProofs SerSafetyProofs.
Require Import DenotesDefs SerDenotesProofs.
Import ListNotations.

Theorem C02_canonical : forall Sc n v st,
  schema_wf Sc = true -> node_wf Sc n = true -> conforms Sc n v = true ->
  value_limits Sc n v = true ->          (* decimals: |unscaled| < 2^96, scale <= 28 *)
  sizes_ok v = true ->                   (* lengths / indices written as longs fit a long *)
  s_budget st = None -> SerProofs.pool_ok st ->
  exists st', ser Sc n (present Sc n v) st = (Ok tt, st')
           /\ s_out st' = s_out st ++ spec_encode Sc n v
           /\ s_budget st' = None /\ SerProofs.pool_ok st' /\ s_slow st' = s_slow st.
Proof. exact ser_present_canonical_decimal. Qed.

Theorem C02_to_datum : forall Sc root v slow,
  schema_wf Sc = true -> fnode_at Sc 0 = Some root ->
  conforms Sc root v = true -> value_limits Sc root v = true -> sizes_ok v = true ->
  to_datum Sc slow (present Sc root v) = Ok (spec_encode Sc root v).
Proof. exact to_datum_present_decimal. Qed.

(* SOUNDNESS for EVERY accepted presentation: whatever serde shape the value was presented in (all
   22 Serializer entry points x all node kinds, union selection by name or by type), if to_datum
   returns Ok the bytes are a valid encoding (encode_e of a well-laid-out evalue) of a value that
   conforms to the schema. [sval_typed]: the presentation is something a Rust caller can build
   (str arguments are UTF-8, char is a scalar value, map keys and values alternate as serde
   requires). [schema_lim]: fixed decimals of at most 16 bytes (the documented limit) and union /
   enum sizes below 2^63. *)
Theorem C02_sound : forall Sc root sv slow bs,
  schema_lim Sc = true -> sval_typed sv = true ->
  fnode_at Sc 0 = Some root -> to_datum Sc slow sv = Ok bs ->
  exists e, layout_ok e = true /\ conforms Sc root (erase e) = true /\ encode_e Sc root e = bs.
Proof. exact SerSoundProofs.C02_sound. Qed.
Theorem C02_sound_node : forall Sc n sv st st',
  schema_lim Sc = true -> node_lim n = true -> sval_typed sv = true ->
  SerProofs.pool_ok st -> s_budget st = None ->
  ser Sc n sv st = (Ok tt, st') ->
  exists e, layout_ok e = true /\ conforms Sc n (erase e) = true /\ s_out st' = s_out st ++ encode_e Sc n e.
Proof. exact ser_sound. Qed.
(* FUNCTIONAL CORRECTNESS -- "of that same logical value": [denotes] (proofs/DenotesDefs.v: a
   specification written from the serde data model and the Avro specification, not from the
   serializer) relates a presentation to the logical values it stands for under a node: any integer
   width -> the integer / the symbol index / the unscaled decimal; str -> string, symbol, fixed,
   decimal text, uuid; seq/tuple -> array, duration triple, bytes; struct/map -> record BY FIELD NAME
   in any order with nullable fields omitted, or map; under a union, by the selecting name when there
   is one, otherwise any branch under which it has a reading. The bytes written are an encoding of A
   VALUE THE PRESENTATION DENOTES (lossy = true admits the two documented lossy readings: decimal
   strings rounded half away from zero to the schema's scale, f64 narrowed for a float node).
   [sval_ranged]: integers fit their Rust type, float bits fit 32 / 64 bits. *)
Theorem C02_denotes : forall Sc root sv slow bs,
  schema_lim Sc = true -> sval_typed sv = true -> sval_ranged sv = true ->
  fnode_at Sc 0 = Some root -> to_datum Sc slow sv = Ok bs ->
  exists e, layout_ok e = true /\ conforms Sc root (erase e) = true /\ encode_e Sc root e = bs /\
            denotes true Sc root sv (erase e).
Proof. exact SerDenotesProofs.C02_denotes. Qed.
(* the canonical presentation denotes exactly its value (the relation is not vacuous), scalar readings
   are unique, a presentation by name has one reading where a type-directed one may have several *)
Theorem C02_denotes_present : forall Sc n v,
  conforms Sc n v = true -> SerProofs.value_limits Sc n v = true -> denotes false Sc n (present Sc n v) v.
Proof. exact denotes_present. Qed.
Check denotes_ambiguous.
Check denotes_named_unique.
Check decimal_rounding_example.

(* the side conditions are needed: a fixed decimal of 17 bytes is written (sign-extended) although
   the crate's own decoder stops at 16; a str that is not UTF-8 or a map value without a key
   cannot come from safe Rust *)
Check C02_sound_statement_refuted.
Check untyped_str_refuted.
Check map_protocol_refuted.

(* facts about the union lookup table REGENERATED from union_variants_per_type_lookup.rs *)
Theorem C02_unnamed_never_union : forall Sc ks key d k,
  union_unnamed Sc ks key = Some (d, k) -> exists n, fnode_at Sc k = Some n /\ is_union n = false.
Proof. exact union_unnamed_not_union. Qed.
Theorem C02_named_selects_branch : forall Sc ks i k n',
  node_wf Sc (FUnion ks) = true -> nth_error ks i = Some k -> fnode_at Sc k = Some n' ->
  union_named Sc ks (type_name n') = Some (Z.of_nat i, k).
Proof. exact union_named_type_name. Qed.

(* decimal strings: the serializer's parser inverts the deserializer's printer *)
Theorem C02_decimal_string : forall m s, (Z.abs m < 2 ^ 96)%Z -> (s <= 28)%N ->
  parse_decimal (decimal_to_string m s) = Some (m, s).
Proof. exact parse_decimal_to_string. Qed.

(* unrepresentable values fail *)
Theorem C02_int_range : forall Sc n s w z st,
  (n = FInt \/ n = FDate \/ n = FTimeMillis) -> Zin I32_MIN I32_MAX z = false ->
  ser Sc n (SInt s w z) st = (Err EData, st).
Proof. exact int_out_of_range_rejected. Qed.
Theorem C02_long_range : forall Sc n s w z st,
  (n = FLong \/ n = FTimestampMillis \/ n = FTimestampMicros \/ n = FTimeMicros) -> Zin I64_MIN I64_MAX z = false ->
  ser Sc n (SInt s w z) st = (Err EData, st).
Proof. exact long_out_of_range_rejected. Qed.
Theorem C02_enum_index : forall Sc nm syms s w z st,
  (z < 0 \/ Z.of_nat (length syms) <= z)%Z -> ser Sc (FEnum nm syms) (SInt s w z) st = (Err EData, st).
Proof. exact enum_index_out_of_range_rejected. Qed.
Theorem C02_enum_symbol : forall Sc nm syms s st,
  symbol_index syms s = None -> ser Sc (FEnum nm syms) (SStr s) st = (Err EData, st).
Proof. exact enum_unknown_symbol_rejected. Qed.
Theorem C02_fixed_length : forall Sc nm size b st,
  size <> N.of_nat (length b) -> ser Sc (FFixed nm size) (SBytes b) st = (Err EData, st).
Proof. exact fixed_wrong_length_rejected. Qed.
Theorem C02_duration_length : forall Sc b st,
  length b <> 12%nat -> ser Sc FDuration (SBytes b) st = (Err EData, st).
Proof. exact duration_wrong_length_rejected. Qed.
Theorem C02_string_utf8 : forall Sc b st,
  utf8_valid b = false -> ser Sc FString (SBytes b) st = (Err EData, st).
Proof. exact string_invalid_utf8_rejected. Qed.
Theorem C02_decimal_fixed_fit : forall Sc p scale nm size s w z st,
  (size <= 16)%N ->
  Zin I128_MIN I128_MAX z = true -> Zin I128_MIN I128_MAX (10 ^ Z.of_N scale)%Z = true ->
  Zin I128_MIN I128_MAX (z * 10 ^ Z.of_N scale)%Z = true ->
  (sign_ext_len 15 (be16 (z * 10 ^ Z.of_N scale)) < 16 - N.to_nat size)%nat ->
  ser Sc (FDecimal p scale (Some (nm, size))) (SInt s w z) st = (Err EData, st).
Proof. exact int_decimal_fixed_no_fit_rejected. Qed.

(* never a panic: every Panic outcome of the serializer model is one of three sites, and each has
   exactly one cause outside the property's domain -- a key out of range (impossible for a frozen
   schema), a dirty buffer pool (impossible after any earlier call, C14), a Serialize impl calling
   serialize_value before serialize_key *)
Theorem C02_nopanic : forall Sc n v st p,
  fst (ser Sc n v st) = Panic p ->
  (p = PIndex /\ (schema_keys_okb Sc = false \/ keys_okb Sc n = false)) \/
  (p = PPoolAssert /\ ~ pool_ok st) \/
  (p = PSerKeyBeforeValue /\ sval_wf v = false).
Proof. exact ser_panic_cause. Qed.

(* why the hypotheses of C02_canonical are needed *)
Check foreign_union_counterexample.
Check to_datum_present_needs_sizes.
