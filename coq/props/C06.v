(** C06 -- Container files follow the Avro file layout and interoperate with other tools.
    Statements only; proofs in proofs/ContainerProofs.v. FileSpec.v is the layout written from the
    specification: reference writer (any metadata map layout, any blocks) and reference parser. *)
From Coq Require Import List NArith ZArith.
Require Import Base Schema Sval Ser Target Reader De AvroValue Encoding Denote Wf VectoredWrite Container FileSpec ContainerProofs.
Require Import ContainerReadProofs ContainerHeaderProofs.
Import ListNotations.

(* the reference parser reads back every file of the grammar: magic, metadata map in ANY block
   layout (incl. negative counts with byte sizes), sync marker, blocks (count, size, data, sync) *)
Theorem C06_grammar : forall layout sync blocks,
  file_wf layout sync blocks -> file_small layout blocks ->
  ref_parse (ref_write layout sync blocks) = Some (mkFile (flat_map snd layout) sync blocks).
Proof. exact ref_parse_ref_write. Qed.

(* what the crate's writer (null codec) delivers to its sink is such a file *)
Theorem C06_layout : forall layout sync st blocks,
  wrep (fun b => b) sync (MAGIC ++ wr_meta layout ++ sync) st blocks ->
  Forall wblock_small blocks ->
  w_sink st = ref_write layout sync (map to_rblock blocks).
Proof. exact sink_is_ref_write. Qed.

(* the header the crate's writer produces is exactly the reference writer's header for the metadata
   avro.schema, avro.codec, then the user entries (one map block per entry), and the crate's reader
   and the reference parser agree on it *)
Theorem C06_header_is_grammar : forall sync json codec user h,
  header_bytes sync json codec user = Ok h ->
  h = ref_write (map one_block (header_entries json codec user)) sync [].
Proof. exact header_is_ref_write. Qed.

(* CONVERSELY: any file produced by an independent conforming writer -- the reference writer of
   FileSpec.v: metadata map in ANY block layout and ANY order, extra keys, the two reserved keys at
   arbitrary positions i, j among them, ANY partition of the values into blocks of count >= 1 --
   is read correctly by the crate's reader: the metadata, the codec, and exactly the values *)
Theorem C06_accepts : forall Sc cfg root,
  schema_wf Sc = true -> fnode_at Sc 0 = Some root ->
  forall layout sync vblocks user i j json codec,
  layout_ok layout -> length sync = 16%nat ->
  Forall (block_ok Sc cfg root) vblocks ->
  flat_map snd layout = ins_at i (AVRO_SCHEMA_KEY, json) (ins_at j (AVRO_CODEC_KEY, codec) user) ->
  Forall unreserved user -> Utf8.utf8_valid json = true -> In codec codec_names ->
  forall k, exists entries r ds,
    cr_open (slice_reader (ref_write layout sync (map (to_rblock_vals Sc root) vblocks))) = Ok (entries, sync, r) /\
    header_meta entries = Ok (json, codec, user) /\
    cr_run Sc cfg sync TAny (length (concat vblocks) + k) (mkCR (RNotInBlock r) false)
      = map IValue ds ++ repeat IEof k /\
    map erase_borrow ds = map (dval_any Sc root) (concat vblocks).
Proof. exact reader_accepts_grammar_interpreted. Qed.
(* ... and a file without avro.codec is read as the null codec (the specification's default) *)
Theorem C06_accepts_codec_absent : forall Sc cfg root,
  schema_wf Sc = true -> fnode_at Sc 0 = Some root ->
  forall layout sync vblocks user i json,
  layout_ok layout -> length sync = 16%nat ->
  Forall (block_ok Sc cfg root) vblocks ->
  flat_map snd layout = ins_at i (AVRO_SCHEMA_KEY, json) user ->
  Forall unreserved user -> Utf8.utf8_valid json = true ->
  forall k, exists entries r ds,
    cr_open (slice_reader (ref_write layout sync (map (to_rblock_vals Sc root) vblocks))) = Ok (entries, sync, r) /\
    header_meta entries = Ok (json, NULL_CODEC, user) /\
    cr_run Sc cfg sync TAny (length (concat vblocks) + k) (mkCR (RNotInBlock r) false)
      = map IValue ds ++ repeat IEof k /\
    map erase_borrow ds = map (dval_any Sc root) (concat vblocks).
Proof. exact reader_accepts_grammar_nocodec. Qed.
Check HeaderExamples.shuffled_two_block_metadata_file.

(* the specification's long decoder inverts the specification's long encoder, which is the crate's *)
Theorem C06_long : forall z rest, (I64_MIN <= z <= I64_MAX)%Z -> spec_read_long (Encoding.spec_long z ++ rest) = Some (z, rest).
Proof. exact spec_read_long_spec_long. Qed.
Theorem C06_long_is_crate : forall z, (I64_MIN <= z <= I64_MAX)%Z -> Encoding.spec_long z = Varint.encode_long z.
Proof. exact spec_long_encode_long. Qed.

(* counts above i64::MAX (reachable only through push_serialized with a bogus count) are outside the grammar *)
Check count_above_i64_not_in_grammar.

(** ** Any codec: layout and independent readability of files with compressed blocks
    (spec/FileSpecCodec.v: block = count, size AFTER the codec is applied, the compressed objects, sync; snappy = raw block +
    big-endian CRC-32 of the uncompressed data; proofs/ContainerCodecLayout.v) *)
Require Import Sval Ser AvroValue Encoding VectoredWrite CodecLoop FileSpecCodec ContainerReadProofs ContainerCodecProofs ContainerCodecLayout.

(* for every session of the writer model with ANY block codec function enc: the reference parser reads the sink back as the written
   header (schema, codec name, user entries, sync marker) and blocks whose counts are the lengths of a partition of the written values
   into non-empty blocks and whose data is enc of exactly that block's encodings; and an independent reader that decompresses with any
   dec inverting enc obtains, block by block, exactly the specification encodings of the values *)
Theorem C06_codec_layout : forall (enc : bytes -> bytes) (Sc : fschema) (root : fnode) (approx : N) (sync : bytes) (vectored : bool),
  schema_wf Sc = true -> fnode_at Sc 0 = Some root -> length sync = 16%nat ->
  forall (dec : decoder) (json cname : bytes) (user : list (bytes * bytes)) (sched : list wans) (hs : list hop) (close : wop) (st' : wstate),
  session enc Sc root approx sync vectored json cname user sched hs close st' ->
  fits (length (vals_of hs)) -> enc_sizes_ok enc Sc root (vals_of hs) -> dec_inverts enc Sc root dec (vals_of hs) ->
  exists (blocks : list (list avalue)) (f : rfile) (o : ofile),
    partition_of (vals_of hs) blocks /\
    ref_parse (w_sink st') = Some f /\
    rf_meta f = ContainerHeaderProofs.header_entries json cname user /\ rf_sync f = sync /\
    file_schema f = Some json /\ file_codec f = cname /\
    map rb_count (rf_blocks f) = map (fun vs : list avalue => Z.of_nat (length vs)) blocks /\
    map rb_data (rf_blocks f) = map (fun vs : list avalue => enc (encs Sc root vs)) blocks /\
    Forall (fun b : rblock => (1 <= rb_count b)%Z) (rf_blocks f) /\
    fold_right Z.add 0%Z (map rb_count (rf_blocks f)) = Z.of_nat (length (vals_of hs)) /\
    ref_read dec (w_sink st') = Some o /\
    of_meta o = rf_meta f /\ of_sync o = sync /\
    of_blocks o = map (oblock_of Sc root) blocks /\ file_objects o = encs Sc root (vals_of hs) /\ file_count o = Z.of_nat (length (vals_of hs)).
Proof. exact ContainerCodecLayout.C06_codec_layout. Qed.

(* ... and every block's objects are valid encodings (the specification's relation) of exactly the values written into it *)
Theorem C06_codec_values : forall (enc : bytes -> bytes) (Sc : fschema) (root : fnode) (approx : N) (sync : bytes) (vectored : bool),
  schema_wf Sc = true -> fnode_at Sc 0 = Some root -> length sync = 16%nat ->
  forall (dec : decoder) (json cname : bytes) (user : list (bytes * bytes)) (sched : list wans) (hs : list hop) (close : wop) (st' : wstate),
  session enc Sc root approx sync vectored json cname user sched hs close st' ->
  fits (length (vals_of hs)) -> enc_sizes_ok enc Sc root (vals_of hs) -> dec_inverts enc Sc root dec (vals_of hs) ->
  Forall (fun v : avalue => conforms Sc root v = true) (vals_of hs) ->
  exists (blocks : list (list avalue)) (o : ofile),
    partition_of (vals_of hs) blocks /\ ref_read dec (w_sink st') = Some o /\ Forall2 (objects_denote Sc root) (of_blocks o) blocks.
Proof. exact ContainerCodecLayout.C06_codec_values. Qed.

(* snappy with the real CRC-32 (bitwise definition, check value 0xCBF43926): the reader that picks its decompressor from the parsed
   avro.codec entry reads the file *)
Theorem C06_snappy_crc32_layout : forall (Sc : fschema) (root : fnode) (approx : N) (sync : bytes) (vectored : bool),
  schema_wf Sc = true -> fnode_at Sc 0 = Some root -> length sync = 16%nat ->
  forall (raw_enc : bytes -> bytes) (raw_dec : bytes -> option bytes) (others : bytes -> option decoder) (json : bytes)
    (user : list (bytes * bytes)) (sched : list wans) (hs : list hop) (close : wop) (st' : wstate),
  (forall x : bytes, raw_dec (raw_enc x) = Some x) ->
  session (snappy_encode raw_enc spec_crc32) Sc root approx sync vectored json SNAPPY_NAME user sched hs close st' ->
  fits (length (vals_of hs)) -> enc_sizes_ok (snappy_encode raw_enc spec_crc32) Sc root (vals_of hs) ->
  exists blocks : list (list avalue),
    partition_of (vals_of hs) blocks /\
    ref_read_auto raw_dec others (w_sink st') =
      Some {| of_meta := ContainerHeaderProofs.header_entries json SNAPPY_NAME user; of_sync := sync; of_blocks := map (oblock_of Sc root) blocks |}.
Proof. exact writer_file_ref_read_snappy_crc32. Qed.
Check spec_keys_are_crate.
Check LayoutExample.toy_file_parsed.
Check LayoutExample.crc32_check_value.
Check LayoutExample.crc32_file_computed.
Check LayoutExample.wrong_decoder_refuted.
