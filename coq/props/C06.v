(** C06 -- Container files follow the Avro file layout and interoperate with other tools.
    Statements only; proofs in proofs/ContainerProofs.v. FileSpec.v is the layout written from the
    specification: reference writer (any metadata map layout, any blocks) and reference parser. *)
From Coq Require Import List NArith ZArith.
Require Import Base Schema VectoredWrite Container FileSpec ContainerProofs.
Import ListNotations.

(* the reference parser reads back every file of the grammar: magic, metadata map in ANY block
   layout (incl. negative counts with byte sizes), sync marker, blocks (count, size, data, sync) *)
Theorem C06_grammar : forall layout sync blocks,
  file_wf layout sync blocks -> file_small layout blocks ->
  ref_parse (ref_write layout sync blocks) = Some (mkFile (flat_map snd layout) sync blocks).
Proof. exact ref_parse_ref_write. Qed.

(* what the crate's writer (null codec) delivers to its sink is such a file *)
Theorem C06_layout : forall layout sync st blocks,
  wrep (fun b => b) sync (MAGIC ++ wr_meta layout ++ sync) st blocks ->
  Forall wblock_small blocks ->
  w_sink st = ref_write layout sync (map to_rblock blocks).
Proof. exact sink_is_ref_write. Qed.

(* the specification's long decoder inverts the specification's long encoder, which is the crate's *)
Theorem C06_long : forall z rest, (I64_MIN <= z <= I64_MAX)%Z -> spec_read_long (Encoding.spec_long z ++ rest) = Some (z, rest).
Proof. exact spec_read_long_spec_long. Qed.
Theorem C06_long_is_crate : forall z, (I64_MIN <= z <= I64_MAX)%Z -> Encoding.spec_long z = Varint.encode_long z.
Proof. exact spec_long_encode_long. Qed.

(* counts above i64::MAX (reachable only through push_serialized with a bogus count) are outside the grammar *)
Check count_above_i64_not_in_grammar.
