(** C06 -- Container files follow the Avro file layout and interoperate with other tools.
    Statements only; proofs in proofs/ContainerProofs.v. FileSpec.v is the layout written from the
    specification: reference writer (any metadata map layout, any blocks) and reference parser. *)
From Coq Require Import List NArith ZArith.
Require Import Base Schema Sval Ser Target Reader De AvroValue Encoding Denote Wf VectoredWrite Container FileSpec ContainerProofs.
Require Import ContainerReadProofs ContainerHeaderProofs.
Import ListNotations.

(* the reference parser reads back every file of the grammar: magic, metadata map in ANY block
   layout (incl. negative counts with byte sizes), sync marker, blocks (count, size, data, sync) *)
Theorem C06_grammar : forall layout sync blocks,
  file_wf layout sync blocks -> file_small layout blocks ->
  ref_parse (ref_write layout sync blocks) = Some (mkFile (flat_map snd layout) sync blocks).
Proof. exact ref_parse_ref_write. Qed.

(* what the crate's writer (null codec) delivers to its sink is such a file *)
Theorem C06_layout : forall layout sync st blocks,
  wrep (fun b => b) sync (MAGIC ++ wr_meta layout ++ sync) st blocks ->
  Forall wblock_small blocks ->
  w_sink st = ref_write layout sync (map to_rblock blocks).
Proof. exact sink_is_ref_write. Qed.

(* the header the crate's writer produces is exactly the reference writer's header for the metadata
   avro.schema, avro.codec, then the user entries (one map block per entry), and the crate's reader
   and the reference parser agree on it *)
Theorem C06_header_is_grammar : forall sync json codec user h,
  header_bytes sync json codec user = Ok h ->
  h = ref_write (map one_block (header_entries json codec user)) sync [].
Proof. exact header_is_ref_write. Qed.

(* CONVERSELY: any file produced by an independent conforming writer -- the reference writer of
   FileSpec.v: metadata map in ANY block layout and ANY order, extra keys, the two reserved keys at
   arbitrary positions i, j among them, ANY partition of the values into blocks of count >= 1 --
   is read correctly by the crate's reader: the metadata, the codec, and exactly the values *)
Theorem C06_accepts : forall Sc cfg root,
  schema_wf Sc = true -> fnode_at Sc 0 = Some root ->
  forall layout sync vblocks user i j json codec,
  layout_ok layout -> length sync = 16%nat ->
  Forall (block_ok Sc cfg root) vblocks ->
  flat_map snd layout = ins_at i (AVRO_SCHEMA_KEY, json) (ins_at j (AVRO_CODEC_KEY, codec) user) ->
  Forall unreserved user -> Utf8.utf8_valid json = true -> In codec codec_names ->
  forall k, exists entries r ds,
    cr_open (slice_reader (ref_write layout sync (map (to_rblock_vals Sc root) vblocks))) = Ok (entries, sync, r) /\
    header_meta entries = Ok (json, codec, user) /\
    cr_run Sc cfg sync TAny (length (concat vblocks) + k) (mkCR (RNotInBlock r) false)
      = map IValue ds ++ repeat IEof k /\
    map erase_borrow ds = map (dval_any Sc root) (concat vblocks).
Proof. exact reader_accepts_grammar_interpreted. Qed.
(* ... and a file without avro.codec is read as the null codec (the specification's default) *)
Theorem C06_accepts_codec_absent : forall Sc cfg root,
  schema_wf Sc = true -> fnode_at Sc 0 = Some root ->
  forall layout sync vblocks user i json,
  layout_ok layout -> length sync = 16%nat ->
  Forall (block_ok Sc cfg root) vblocks ->
  flat_map snd layout = ins_at i (AVRO_SCHEMA_KEY, json) user ->
  Forall unreserved user -> Utf8.utf8_valid json = true ->
  forall k, exists entries r ds,
    cr_open (slice_reader (ref_write layout sync (map (to_rblock_vals Sc root) vblocks))) = Ok (entries, sync, r) /\
    header_meta entries = Ok (json, NULL_CODEC, user) /\
    cr_run Sc cfg sync TAny (length (concat vblocks) + k) (mkCR (RNotInBlock r) false)
      = map IValue ds ++ repeat IEof k /\
    map erase_borrow ds = map (dval_any Sc root) (concat vblocks).
Proof. exact reader_accepts_grammar_nocodec. Qed.
Check HeaderExamples.shuffled_two_block_metadata_file.

(* the specification's long decoder inverts the specification's long encoder, which is the crate's *)
Theorem C06_long : forall z rest, (I64_MIN <= z <= I64_MAX)%Z -> spec_read_long (Encoding.spec_long z ++ rest) = Some (z, rest).
Proof. exact spec_read_long_spec_long. Qed.
Theorem C06_long_is_crate : forall z, (I64_MIN <= z <= I64_MAX)%Z -> Encoding.spec_long z = Varint.encode_long z.
Proof. exact spec_long_encode_long. Qed.

(* counts above i64::MAX (reachable only through push_serialized with a bogus count) are outside the grammar *)
Check count_above_i64_not_in_grammar.
