(** C07 -- Schema parsing resolves names per the specification; invalid schemas rejected.
    Statements only; proofs in proofs/SchemaTextProofs.v (per-edge name rules) and
    proofs/Parse{ResolveDefs,Bridge,Layout,Cf,RejectProofs,ResolveProofs}.v.
    The model starts at the JSON AST (serde_json's lexing is outside). The Parsing Canonical Form is
    used as a COMPLETE OBSERVABLE of name resolution: it spells every definition and every
    reference by fullname, so equality with the specification's own transformation of the document
    ([PcfSpec.pcf], written from the specification, no graph) says that every reference resolved
    to the type the specification designates, with field order, symbols and sizes preserved.
    [spec_valid_backward j] (decidable): the document has the shape the specification requires
    (known type names, required attributes, fullnames by the spec's rules, every reference to a
    fullname whose definition has already started, no fullname defined twice). The specification
    requires definition before use; the crate also accepts use before definition -- for those
    documents the late-resolution lemma (C07_forward_resolution) is proved and the rest is decided
    by the correspondence run. *)
From Coq Require Import List NArith.
Require Import Base Schema Text Json Parse CanonicalForm Rabin PcfSpec CrcSpec.
Require Import SchemaTextProofs ParseResolveDefs ParseRejectProofs ParseResolveProofs.
Import ListNotations.

(* per edge: the key the parser computes for a definition / a reference is the specification's
   fullname, for every enclosing namespace and every spelling (dotted name, namespace attribute
   including "", inherited) *)
Theorem C07_ns_edge_def : forall enclosing nm namespace,
  nm_full (name_of_key (key_of_def enclosing nm namespace)) = snd (spec_fullname enclosing nm namespace)
  /\ fst (key_of_def enclosing nm namespace) = fst (spec_fullname enclosing nm namespace).
Proof. exact key_of_def_spec. Qed.
Theorem C07_ns_edge_ref : forall enclosing r,
  nm_full (name_of_key (key_of_ref enclosing r)) = snd (spec_fullname enclosing r None)
  /\ fst (key_of_ref enclosing r) = fst (spec_fullname enclosing r None).
Proof. exact key_of_ref_spec. Qed.

(* every valid document parses, and every reference resolves as the specification says *)
Theorem C07_resolve : forall j fuel,
  spec_valid_backward j = true -> ~ rec_cycle (graph_of j) -> (jsize j < fuel)%nat ->
  exists g, parse_schema j = Ok g /\ canonical_form fuel g = Ok (pcf fuel None j).
Proof. exact C07_resolve_backward. Qed.
(* ... and the graph is exactly the specification-level layout of the document; a record that
   unconditionally contains itself is the only reason left for rejecting a valid document *)
Theorem C07_resolve_iff : forall j, spec_valid_backward j = true ->
  (rec_cycle (graph_of j) -> parse_schema j = Err EData) /\
  (~ rec_cycle (graph_of j) -> parse_schema j = Ok (graph_of j)).
Proof. exact C07_resolve_backward_iff. Qed.

(* rejections *)
Theorem C07_reject_unknown_reference : forall j r f,
  raw_of_json j = Ok r -> In f (rrefs r None) -> ~ In f (rdefs r None) -> is_err (parse_schema j).
Proof. exact C07_reject_undefined. Qed.
Theorem C07_reject_duplicate_definition : forall j r,
  raw_of_json j = Ok r -> ~ NoDup (rdefs r None) -> is_err (parse_schema j).
Proof. exact C07_reject_duplicate. Qed.
Theorem C07_reject_missing_attribute : forall j r r',
  raw_of_json j = Ok r -> occurs r' r -> missing_attr r' -> is_err (parse_schema j).
Proof. exact C07_reject_missing. Qed.
(* no parsed schema -- whatever the document, forward references included -- has a record that
   unconditionally contains itself; the check is exact *)
Theorem C07_no_unconditional_cycle : forall j g, parse_schema j = Ok g -> ~ rec_cycle g.
Proof. exact C07_parsed_acyclic. Qed.
Theorem C07_cycle_check_exact : forall g, check_for_cycles g = None <-> rec_cycle g.
Proof. exact check_for_cycles_exact. Qed.

(* use before definition: the late key of the i-th unresolved reference is rewritten to the node
   registered under that reference's key *)
Theorem C07_forward_resolution : forall names unresolved res i k,
  rmap_list (fun k0 => match assoc_key k0 names with Some idx => Ok idx | None => Err EData end) unresolved = Ok res ->
  nth_error unresolved i = Some k ->
  exists idx, assoc_key k names = Some idx /\ fix_key res (pk_late i) = idx.
Proof. exact late_resolution. Qed.

(* non-vacuity and the documented deviations *)
Check doc_names_valid.           (* dotted name, "" namespace, inheritance through array/map/union *)
Check doc_names_resolves.
Check doc_fwd_parses.            (* forward reference accepted and resolved *)
Check doc_fwd_canonical.
Check C07_resolve_needs_acyclic.
Check C07_nested_type_refuted.   (* spec-allowed spellings the crate rejects *)
Check C07_name_on_array_refuted.
Check C07_size_token_refuted.
