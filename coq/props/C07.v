(** C07 -- Schema parsing resolves names per the specification; invalid schemas rejected.
    Statements only; proofs in proofs/SchemaTextProofs.v (per-edge name rules) and
    proofs/Parse{ResolveDefs,Bridge,Layout,Cf,RejectProofs,ResolveProofs}.v.
    The model starts at the JSON AST (serde_json's lexing is outside). The Parsing Canonical Form is
    used as a COMPLETE OBSERVABLE of name resolution: it spells every definition and every
    reference by fullname, so equality with the specification's own transformation of the document
    ([PcfSpec.pcf], written from the specification, no graph) says that every reference resolved
    to the type the specification designates, with field order, symbols and sizes preserved.
    [spec_valid_backward j] (decidable): the document has the shape the specification requires
    (known type names, required attributes, fullnames by the spec's rules, every reference to a
    fullname whose definition has already started, no fullname defined twice). The specification
    requires definition before use; the crate also accepts use before definition.  For those
    documents ([spec_valid_any_order j]: same shape rules, references to any fullname the document
    defines anywhere, proofs in proofs/ParseForward{Defs,Layout,Proofs,Hoist}.v) the same is proved:
    the parser returns the designated graph [graph_any j], every reference slot holds the one node
    carrying the reference's specification fullname, and the canonical form is the specification's
    Parsing Canonical Form of the HOISTED document (each definition moved to the first place, in
    document order, where its fullname is mentioned). *)
From Coq Require Import List NArith.
Require Import Base Schema Text Json Parse CanonicalForm Rabin PcfSpec CrcSpec.
Require Import SchemaTextProofs ParseResolveDefs ParseRejectProofs ParseResolveProofs.
Require Import ParseForwardDefs ParseForwardLayout ParseForwardProofs ParseForwardHoist ParseForwardCanon.
Import ListNotations.

(* per edge: the key the parser computes for a definition / a reference is the specification's
   fullname, for every enclosing namespace and every spelling (dotted name, namespace attribute
   including "", inherited) *)
Theorem C07_ns_edge_def : forall enclosing nm namespace,
  nm_full (name_of_key (key_of_def enclosing nm namespace)) = snd (spec_fullname enclosing nm namespace)
  /\ fst (key_of_def enclosing nm namespace) = fst (spec_fullname enclosing nm namespace).
Proof. exact key_of_def_spec. Qed.
Theorem C07_ns_edge_ref : forall enclosing r,
  nm_full (name_of_key (key_of_ref enclosing r)) = snd (spec_fullname enclosing r None)
  /\ fst (key_of_ref enclosing r) = fst (spec_fullname enclosing r None).
Proof. exact key_of_ref_spec. Qed.

(* every valid document parses, and every reference resolves as the specification says *)
Theorem C07_resolve : forall j fuel,
  spec_valid_backward j = true -> ~ rec_cycle (graph_of j) -> (jsize j < fuel)%nat ->
  exists g, parse_schema j = Ok g /\ canonical_form fuel g = Ok (pcf fuel None j).
Proof. exact C07_resolve_backward. Qed.
(* ... and the graph is exactly the specification-level layout of the document; a record that
   unconditionally contains itself is the only reason left for rejecting a valid document *)
Theorem C07_resolve_iff : forall j, spec_valid_backward j = true ->
  (rec_cycle (graph_of j) -> parse_schema j = Err EData) /\
  (~ rec_cycle (graph_of j) -> parse_schema j = Ok (graph_of j)).
Proof. exact C07_resolve_backward_iff. Qed.

(* rejections *)
Theorem C07_reject_unknown_reference : forall j r f,
  raw_of_json j = Ok r -> In f (rrefs r None) -> ~ In f (rdefs r None) -> is_err (parse_schema j).
Proof. exact C07_reject_undefined. Qed.
Theorem C07_reject_duplicate_definition : forall j r,
  raw_of_json j = Ok r -> ~ NoDup (rdefs r None) -> is_err (parse_schema j).
Proof. exact C07_reject_duplicate. Qed.
Theorem C07_reject_missing_attribute : forall j r r',
  raw_of_json j = Ok r -> occurs r' r -> missing_attr r' -> is_err (parse_schema j).
Proof. exact C07_reject_missing. Qed.
(* no parsed schema -- whatever the document, forward references included -- has a record that
   unconditionally contains itself; the check is exact *)
Theorem C07_no_unconditional_cycle : forall j g, parse_schema j = Ok g -> ~ rec_cycle g.
Proof. exact C07_parsed_acyclic. Qed.
Theorem C07_cycle_check_exact : forall g, check_for_cycles g = None <-> rec_cycle g.
Proof. exact check_for_cycles_exact. Qed.

(* use before definition: the late key of the i-th unresolved reference is rewritten to the node
   registered under that reference's key *)
Theorem C07_forward_resolution : forall names unresolved res i k,
  rmap_list (fun k0 => match assoc_key k0 names with Some idx => Ok idx | None => Err EData end) unresolved = Ok res ->
  nth_error unresolved i = Some k ->
  exists idx, assoc_key k names = Some idx /\ fix_key res (pk_late i) = idx.
Proof. exact late_resolution. Qed.

(* references in any order (use before definition included): the document parses; the graph is the
   designated layout [glay]; every reference slot -- whether the reference follows or precedes the
   definition -- holds [spec_index r f] for the reference's specification fullname f; the node at
   that index carries the fullname f, and no other node does *)
Theorem C07_any_order : forall j,
  spec_valid_any_order j = true -> ~ rec_cycle (graph_any j) ->
  exists r, raw_of_json j = Ok r /\
    parse_schema j = Ok (graph_any j) /\
    graph_any j = snd (glay (spec_index r) r None O) /\
    (forall f, In f (rrefs r None) -> named_at (graph_any j) (spec_index r f) f) /\
    (forall f i, named_at (graph_any j) i f -> i = spec_index r f).
Proof. exact C07_resolve_any_order. Qed.
Theorem C07_any_order_iff : forall j,
  spec_valid_any_order j = true ->
  (rec_cycle (graph_any j) -> parse_schema j = Err EData) /\
  (~ rec_cycle (graph_any j) -> parse_schema j = Ok (graph_any j)).
Proof. exact C07_resolve_any_order_iff. Qed.
(* every record, enum or fixed the document defines has exactly one node *)
Theorem C07_any_order_definitions : forall j r,
  spec_valid_any_order j = true -> raw_of_json j = Ok r ->
  forall f, elook f (rcollect r None []) = Some true ->
    named_at (graph_any j) (spec_index r f) f /\ forall i, named_at (graph_any j) i f -> i = spec_index r f.
Proof. exact C07_definitions_any_order. Qed.
(* its canonical form is the specification's Parsing Canonical Form of the hoisted document: the writer's
   guard against cycles of unnamed types never fires on a parsed graph (proofs/ParseForwardCanon.v), for
   every fuel from hoist_fuel r on; below that the only other outcome is the model's OutOfFuel *)
Theorem C07_any_order_canonical : forall j r g,
  spec_valid_any_order j = true -> raw_of_json j = Ok r -> parse_schema j = Ok g ->
  g = graph_any j /\ canonical_form (hoist_fuel r) g = Ok (rpcf None (hoist r)).
Proof. exact C07_resolve_forward_canonical_ok. Qed.
Theorem C07_any_order_canonical_any_fuel : forall j r g fuel,
  spec_valid_any_order j = true -> raw_of_json j = Ok r -> parse_schema j = Ok g ->
  canonical_form fuel g = Ok (rpcf None (hoist r)) \/
  (canonical_form fuel g = OutOfFuel /\ (fuel < hoist_fuel r)%nat).
Proof. exact C07_forward_canonical_text_or_oof. Qed.
(* ... and so is its fingerprint *)
Theorem C07_any_order_fingerprint : forall j r g fuel,
  spec_valid_any_order j = true -> raw_of_json j = Ok r -> parse_schema j = Ok g ->
  (hoist_fuel r <= fuel)%nat ->
  fingerprint fuel g = Ok (le64 (crc64_avro (rpcf None (hoist r)))).
Proof. exact C08_forward_fingerprint. Qed.
(* definition before use is the special case: valid backward => valid in any order, the two
   designated graphs coincide and hoisting changes nothing *)
Theorem C07_backward_is_any_order : forall j,
  spec_valid_backward j = true -> spec_valid_any_order j = true.
Proof. exact spec_valid_backward_any_order. Qed.
Theorem C07_any_order_backward : forall j r,
  spec_valid_backward j = true -> ~ rec_cycle (graph_of j) -> raw_of_json j = Ok r ->
  parse_schema j = Ok (graph_any j) /\
  canonical_form (hoist_fuel r) (graph_any j) = Ok (rpcf None (hoist r)) /\
  rpcf None (hoist r) = rpcf None r.
Proof. exact C07_forward_canonical_backward. Qed.

(* non-vacuity and the documented deviations *)
Check doc_names_valid.           (* dotted name, "" namespace, inheritance through array/map/union *)
Check doc_names_resolves.
Check doc_fwd_parses.            (* forward reference accepted and resolved *)
Check doc_fwd_canonical.
Check doc_fwd_any.               (* a use-before-definition document is valid in any order and parses to graph_any *)
Check doc_f2_graph.
Check doc_f2_canonical_by_theorem.
Check doc_undefined_invalid.
Check guard_fires_unnamed_cycle.  (* the guard does fire on hand-built graphs: non-vacuity *)
Check guard_passes_through_record.
Check C07_resolve_needs_acyclic.
Check C07_nested_type_refuted.   (* spec-allowed spellings the crate rejects *)
Check C07_name_on_array_refuted.
Check C07_size_token_refuted.
