(** C19 -- Schema construction is total: any text or node graph gives Ok/Err, never a crash.
    Statements only; proofs in proofs/SchemaTextProofs.v and proofs/SchemaTotalProofs.v.
    The model starts at the JSON AST (serde_json's lexer and its recursion limit of 128 are outside
    the model; the correspondence run covers texts at depth 127/128/129). [res_post P r]: r is
    [Ok a] with [P a], or an error -- never Panic, OutOfFuel or Unmodelled. Fuel is the model's
    stand-in for stack depth / running time: every traversal gets an EXPLICIT bound, quadratic in
    the number of nodes, that is sufficient for ANY node vector (dangling keys, empty graph, cycles
    through named or unnamed nodes, sharing, arbitrary logical types and names). *)
From Coq Require Import List NArith.
Require Import Base Schema Sval Ser Target Reader De Json Parse CanonicalForm SchemaJson Freeze SchemaTextProofs SchemaTotalProofs.
Require Import RecordProofs DeSafetyProofs SerSafetyProofs.
Require Wf.
Import ListNotations.

(* parsing is structurally recursive on the AST (no fuel at all) and never panics *)
Theorem C19_parse_total : forall j, match parse_schema j with Ok _ | Err _ => True | _ => False end.
Proof. exact parse_total. Qed.

Theorem C19_fp_total : forall g fuel, (length g * (length g + 2) + 2 <= fuel)%nat ->
  res_post (fun _ => True) (fingerprint fuel g).
Proof. exact fingerprint_fuel. Qed.

Theorem C19_json_total : forall g fuel, (length g * (length g + 2) + 2 <= fuel)%nat ->
  res_post (fun _ => True) (schema_json fuel g).
Proof. exact schema_json_fuel. Qed.

Theorem C19_freeze_total : forall g fuel, (length g * (length g + 2) + 2 <= fuel)%nat ->
  res_post (fun _ => True) (freeze_built fuel g).
Proof. exact freeze_built_total. Qed.

(* whenever freezing succeeds, every key of every node of the frozen schema is in range: the
   hypothesis under which serializer and deserializer never index out of bounds (C04 / C14) *)
Theorem C19_freeze_keys : forall fuel g S fp js, freeze_built fuel g = Ok (S, fp, js) ->
  length S = length g /\ (0 < length S)%nat /\
  forall f, In f S -> forallb (fun k => Nat.ltb k (length S)) (Wf.keys_of f) = true.
Proof. exact freeze_built_keys_in_range. Qed.

(* "whenever freezing succeeds the resulting schema can be used to serialize and deserialize safely":
   for EVERY graph freeze accepts (also those the parser would have rejected: unions inside unions,
   duplicate or arbitrary names, record cycles built through the API) the deserializer never panics
   on any input, target and limits; the serializer never panics on any value (sval_wf: the caller
   respects serde's key-before-value protocol; pool_ok: what every earlier call leaves behind, C14);
   and the dynamically typed / ignoring consumer terminates with Ok or Err within the explicit
   bound of C04 (depth limits still prevent runaway recursion) *)
Theorem C19_use_safe : forall fuel g S fp js, freeze_built fuel g = Ok (S, fp, js) ->
  schema_keys_okb S = true /\
  (forall cfg fuel' t rs p, de_datum fuel' S cfg t rs <> Panic p) /\
  (forall slow v p, sval_wf v = true -> to_datum S slow v <> Panic p) /\
  (forall n v st p, In n S -> sval_wf v = true -> pool_ok st -> fst (ser S n v st) <> Panic p) /\
  (forall cfg fuel' t rs,
     (c_max_seq cfg < 2 ^ 64 - 1)%N -> t = TAny \/ t = TIgnored ->
     (work_bound S cfg (c_depth cfg) (blen (rd_inp rs)) <= fuel')%nat ->
     (exists d r, de_datum fuel' S cfg t rs = Ok (d, r)) \/ (exists e, de_datum fuel' S cfg t rs = Err e)).
Proof. exact frozen_schema_safe. Qed.
Check freeze_accepts_union_in_union.

(* the record-cycle check enters every node at most once (it used to be exponential) *)
Theorem C19_cyclecheck_linear : forall g n, check_for_cycles g = Some n -> (n <= N.of_nat (length g))%N.
Proof. exact cyc_cost_linear. Qed.

(* witnesses: the graphs that used to overflow the stack are errors now; an ordinary graph freezes *)
Example C19_unnamed_cycle_is_error :
  fingerprint 10 [mkNode (RArray 0) None] = Err EData /\ freeze_built 10 [mkNode (RArray 0) None] = Err EData
  /\ schema_json 10 [mkNode (RArray 0) None] = Err EData.
Proof. vm_compute. repeat split. Qed.
Example C19_dangling_key_is_error : freeze_built 20 [mkNode (RArray 7) None] = Err EData /\ freeze_built 5 [] = Err EData.
Proof. vm_compute. split; reflexivity. Qed.
Example C19_ok_somewhere : exists r, freeze_built 20 [mkNode (RArray 1) None; mkNode RInt None] = Ok r.
Proof. vm_compute. eexists. reflexivity. Qed.

(** ** Parsing any TEXT (model/JsonRead.v + Parse.v): the JSON reader is total on every byte string and so is the whole text -> graph
    function: Ok or Err, nothing else *)
Require Import JsonRead JsonReadProofs JsonReadSchema JsonReadTotal.
Theorem C19_json_text_total :
  forall text : bytes, (exists j : json, json_of_text text = Ok j) \/ json_of_text text = Err EData.
Proof. exact json_of_text_total. Qed.

Theorem C19_parse_text_total : forall text,
  match parse_schema_text text with Ok _ | Err _ => True | _ => False end.
Proof. exact parse_schema_text_total. Qed.
