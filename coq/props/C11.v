(** C11 -- Slice and streamed input decode identically, however the stream is chunked.
    Statements only; proofs in proofs/ReaderProofs.v. [same_input s r]: s is the slice reader, r a
    reader over a BufRead that hands out the same remaining bytes in chunks of ANY positive sizes
    (down to one byte), and no single field exceeds the allocation cap (side condition of the
    property: length of the input <= max_alloc_size). [res_sim f x y]: equal values up to f on
    success, an error on both sides otherwise (the error class may differ: data vs I/O). *)
From Coq Require Import List NArith.
Require Import Base Schema Varint Reader Target De Denote ReaderProofs.
Require Import Wf Container ContainerChunkProofs.
Import ListNotations.

(* the varint primitive, all four integer types: if the buffer holds the whole varint both read it
   from there; if it does not, the byte-wise gathering decodes exactly like the one-shot path *)
Theorem C11_varint : forall t s r, same_input s r ->
  let '(x, s') := read_varint t s in
  let '(y, r') := read_varint t r in
  res_sim (fun v => v) x y /\ (is_ok x = true -> same_input s' r').
Proof. exact ReaderProofs.C11_varint. Qed.

(* the whole deserializer: every schema, configuration, target program and fuel; on success both
   consumed the same bytes (same_input of the resulting states: same remaining input) *)
Theorem C11_de : forall Sc cfg fuel n depth favor force t s r, same_input s r ->
  let '(x, s') := de Sc cfg fuel n depth favor force t s in
  let '(y, r') := de Sc cfg fuel n depth favor force t r in
  res_sim erase_borrow x y /\ (is_ok x = true -> same_input s' r').
Proof. exact ReaderProofs.C11_de. Qed.

(* from_datum_slice vs from_datum_reader, any chunk plan *)
Theorem C11_datum : forall Sc cfg fuel t bs plan ma, N.of_nat (length bs) <= ma ->
  match de_datum fuel Sc cfg t (slice_reader bs), de_datum fuel Sc cfg t (chunked_reader bs plan ma) with
  | Ok (d1, k1), Ok (d2, k2) => erase_borrow d1 = erase_borrow d2 /\ k1 = k2
  | Err _, Err _ => True
  | Panic p, Panic q => p = q
  | OutOfFuel, OutOfFuel => True
  | Unmodelled, Unmodelled => True
  | _, _ => False
  end.
Proof.
  intros Sc cfg fuel t bs plan ma H. pose proof (ReaderProofs.C11_datum Sc cfg fuel t bs plan ma H) as G.
  destruct (de_datum fuel Sc cfg t (slice_reader bs)) as [[d1 k1]| | | |];
  destruct (de_datum fuel Sc cfg t (chunked_reader bs plan ma)) as [[d2 k2]| | | |]; exact G.
Qed.

(* container-file input: opening and reading a file through a BufRead with ANY chunk plan gives the same
   metadata, the same values (up to borrowedness) and the same end of stream as from the slice (null
   codec; on damaged files the two readers may report different errors at different points, see
   chunked_differs_on_truncated_block, which the property allows: "an error in both cases") *)
Theorem C11_container : forall Sc cfg t file plan ma m sy s' n ds k,
  schema_wf Sc = true -> (N.of_nat (length file) <= ma)%N ->
  cr_open (slice_reader file) = Ok (m, sy, s') ->
  cr_run Sc cfg sy t n (mkCR (RNotInBlock s') false) = map IValue ds ++ repeat IEof k ->
  exists r' ds',
    cr_open (chunked_reader file plan ma) = Ok (m, sy, r') /\
    cr_run Sc cfg sy t n (mkCR (RNotInBlock r') false) = map IValue ds' ++ repeat IEof k /\
    map erase_borrow ds' = map erase_borrow ds.
Proof. exact container_chunk_independent. Qed.

(** ** Compressed container files: same result from a slice and from ANY chunking of the source
    (model/ContainerCodec.v, proofs/ContainerCodecProofs.v; decoders abstract under stream_decoder_contract) *)
Require Import Sval Ser AvroValue Encoding VectoredWrite Container CodecLoop DecodeLoop ContainerCodec ContainerReadProofs DecodeLoopProofs ContainerCodecProofs.
Theorem C11_compressed_file_chunk_independent :
  forall (enc : bytes -> bytes) (D : Type) (dread : D -> bytes -> option chunkst -> nat -> dres * D) (d0 : D)
    (policy : nat -> nat -> option nat) (raw_dec : bytes -> option bytes) (crc32 : bytes -> N) (lfuel : nat) (Sc : fschema)
    (cfg : dcfg) (root : fnode) (approx : N) (sync : bytes) (vectored : bool),
  schema_wf Sc = true -> fnode_at Sc 0 = Some root -> length sync = 16%nat ->
  forall (cap : nat) (json cname : bytes) (user : list (bytes * bytes)) (sched : list wans) (st0 : wstate) (hs : list hop)
    (close : wop) (outs : list (wout * N)) (st' : wstate),
  (1 <= cap)%nat -> ContainerHeaderProofs.keys_utf8 user -> (length user <= 998)%nat ->
  wbuild sync json cname user sched = (WROk, st0) ->
  Forall (value_ok Sc cfg root) (vals_of hs) -> fits (length (vals_of hs)) ->
  (length (encs Sc root (vals_of hs)) < lfuel)%nat ->
  stream_codec_ok enc D dread d0 Sc root (vals_of hs) ->
  close = WFinish \/ close = WIntoInner \/ close = WDrop ->
  wrun enc Sc approx sync vectored st0 (map (op_of Sc root) hs ++ [close]) = (outs, st') ->
  Forall (fun r : wout * N => fst r = WROk) outs ->
  ccr_file D dread d0 policy raw_dec crc32 dval (cc_vdec Sc cfg root) (BStream cap) lfuel (slice_reader (w_sink st')) =
    Ok (ContainerHeaderProofs.header_entries json cname user, sync, map (dval_any Sc root) (vals_of hs), CEof) /\
  (forall (plan : list N) (ma : N), N.of_nat (length (w_sink st')) <= ma ->
   ccr_file D dread d0 policy raw_dec crc32 dval (cc_vdec Sc cfg root) (BStream cap) lfuel (chunked_reader (w_sink st') plan ma) =
     Ok (ContainerHeaderProofs.header_entries json cname user, sync, map (dval_any Sc root) (vals_of hs), CEof)).
Proof. exact ccr_file_read_back. Qed.


(** ** The allocation cap is per value, not cumulative (proofs/ContainerLimitsProofs.v): whenever the slice reader delivers the values
    of a file, the BufRead reader with ANY cap c that covers each single unbuffered request of the run delivers the same values --
    nothing about the file length, earlier blocks or block sizes enters the condition *)
Require Import DeClosure ContainerLimitsProofs.
Local Open Scope N_scope.
Theorem C11_container_cap_per_value :
  forall (Sc : fschema) (cfg : dcfg) (t : dtarget) (file : bytes) (plan : list N) (c : N) (m : list (bytes * bytes))
  (sy : bytes) (s' : rstate) (n : nat) (ds : list dval) (k : nat) (r' : rstate) (l0 l : list req),
  schema_wf Sc = true ->
  cr_open (slice_reader file) = Ok (m, sy, s') ->
  cr_run Sc cfg sy t n {| cr_state := RNotInBlock s'; cr_pretend_eof := false |} = map IValue ds ++ repeat IEof k ->
  let C := N.max c (N.of_nat (length file)) in
  cr_open (chunked_reader file plan C) = Ok (m, sy, r') ->
  open_tr (chunked_reader file plan C) l0 ->
  run_tr Sc cfg sy t n {| cr_state := RNotInBlock r'; cr_pretend_eof := false |} l ->
  (forall (q : N) (s : rstate), In (q, s) (l0 ++ l) -> free q s \/ q <= c) ->
  exists ds' : list dval,
  cr_open (chunked_reader file plan c) = Ok (m, sy, with_cap c r') /\
  cr_run Sc cfg sy t n {| cr_state := RNotInBlock (with_cap c r'); cr_pretend_eof := false |} = map IValue ds' ++ repeat IEof k /\
  map Denote.erase_borrow ds' = map Denote.erase_borrow ds.
Proof. exact container_small_cap_follows_slice. Qed.


Check container_cap_per_value.
