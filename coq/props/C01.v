(** C01 -- Datum round trip: decode (encode (v, S), S) = v for every schema and value.
    Statements only; proofs in proofs/RoundTripProofs.v (which joins the serializer theorem of C02
    with the deserializer theorem of C03 through the canonical layout).
    [present Sc n v] (spec/Denote.v): the presentation of a value that determines each union branch
    by the name the deserializer reports for it, records in schema order, decimals as strings.
    [dval_any Sc n v]: the callbacks the specification's reading of v prescribes for a dynamically
    typed consumer (bit-exact floats, byte-exact strings/bytes/fixed, branch, symbol, decimal text).
    PROVED here: the round trip for every well-formed schema and every conforming value within the
    documented limits, for the dynamically typed consumer (C01_any) and for ordinary Rust data
    types (C01_typed: structs, enums-as-unions, Option, maps, sequences; strings/bytes arrive as
    borrows of the input in slice mode, erase_borrow forgets only the offset). *)
From Coq Require Import List NArith ZArith.
Require Import Base Schema Varint Sval Ser Target Reader De AvroValue Encoding Denote Wf.
Require SerProofs DeProofs.
Require Import RoundTripProofs RoundTripTyped.
Require DS7.
Import ListNotations.

Theorem C01_any : forall Sc cfg root v slow fuel,
  schema_wf Sc = true -> fnode_at Sc 0 = Some root ->
  conforms Sc root v = true ->
  SerProofs.value_limits Sc root v = true ->      (* decimals: |unscaled| < 2^96, scale <= 28 *)
  SerProofs.sizes_ok v = true ->                  (* lengths / counts / indices fit a long *)
  rt_limits Sc cfg root v = true ->               (* configured max_seq_size and depth, encoding < 2^63 bytes *)
  (DeProofs.de_fuel (canon v) <= fuel)%nat ->
  exists bs d,
    to_datum Sc slow (present Sc root v) = Ok bs
    /\ de_datum fuel Sc cfg TAny (slice_reader bs) = Ok (d, 0%N)
    /\ erase_borrow d = dval_any Sc root v.
Proof. exact roundtrip_any. Qed.

(* with the default configuration: at most 10^9 elements per array/map, nesting at most 64 *)
Theorem C01_any_default : forall Sc root v slow,
  schema_wf Sc = true -> fnode_at Sc 0 = Some root ->
  conforms Sc root v = true ->
  SerProofs.value_limits Sc root v = true -> SerProofs.sizes_ok v = true ->
  seq_limits cfg_default v = true ->
  (value_depth v <= 64)%nat ->
  (Z.of_nat (length (spec_encode Sc root v)) < 2 ^ 63)%Z ->
  exists bs d,
    to_datum Sc slow (present Sc root v) = Ok bs
    /\ de_datum (DeProofs.de_fuel (canon v)) Sc cfg_default TAny (slice_reader bs) = Ok (d, 0%N)
    /\ erase_borrow d = dval_any Sc root v.
Proof. exact roundtrip_any_default. Qed.

(* any node of the schema, any position in the input, anything may follow: exactly the encoding
   is consumed *)
Theorem C01_node : forall Sc cfg n v rest pos ma fuel depth,
  schema_wf Sc = true ->
  conforms Sc n v = true ->
  SerProofs.value_limits Sc n v = true -> SerProofs.sizes_ok v = true ->
  seq_limits cfg v = true ->
  (value_depth v <= depth)%nat ->
  (Z.of_nat (length (spec_encode Sc n v)) <= I64_MAX)%Z ->
  (DeProofs.de_fuel (canon v) <= fuel)%nat ->
  exists d,
    de Sc cfg fuel n depth false false TAny (mkRd (spec_encode Sc n v ++ rest) pos None ma)
      = (Ok d, mkRd rest (pos + N.of_nat (length (spec_encode Sc n v))) None ma)
    /\ erase_borrow d = dval_any Sc n v.
Proof. exact roundtrip_node. Qed.

(* "equal bytes" really means "equal value": the encoding of a conforming value determines it
   (same union branch, same symbol, same bits), also when followed by anything *)
Theorem C01_encoding_injective : forall Sc n v1 v2,
  conforms Sc n v1 = true -> conforms Sc n v2 = true ->
  enc_ok v1 = true -> enc_ok v2 = true ->
  spec_encode Sc n v1 = spec_encode Sc n v2 -> v1 = v2.
Proof. exact spec_encode_injective. Qed.
Theorem C01_encoding_prefix_free : forall Sc n v1 v2 r1 r2,
  conforms Sc n v1 = true -> conforms Sc n v2 = true ->
  enc_ok v1 = true -> enc_ok v2 = true ->
  spec_encode Sc n v1 ++ r1 = spec_encode Sc n v2 ++ r2 -> v1 = v2 /\ r1 = r2.
Proof. exact spec_encode_injective_prefix. Qed.

(* ordinary Rust data types: [typed_target Sc tf n] (spec/Denote.v) is the natural Rust shape of a
   node unfolded tf levels -- i32/i64/f32/f64/bool/str/bytes per primitive, a struct with all fields
   per record, an enum keyed by branch name per union (Option for [null,T] / [T,null]), seq, map
   with str keys, unit-variant enum per Avro enum, (u32,u32,u32) per duration -- and
   [dval_typed] the callbacks that value must produce. [tcost] is the depth budget needed (an Avro
   enum costs one level through a typed target). *)
Theorem C01_typed : forall Sc cfg root v slow fuel tf,
  schema_wf Sc = true -> fnode_at Sc 0 = Some root ->
  conforms Sc root v = true ->
  SerProofs.value_limits Sc root v = true -> SerProofs.sizes_ok v = true ->
  seq_limits cfg v = true ->
  (DS7.tcost (canon v) <= c_depth cfg)%nat ->
  (Z.of_nat (length (spec_encode Sc root v)) <= I64_MAX)%Z ->
  (DeProofs.de_fuel (canon v) <= fuel)%nat ->
  (depth_cost (canon v) < tf)%nat ->
  exists bs d,
    to_datum Sc slow (present Sc root v) = Ok bs
    /\ de_datum fuel Sc cfg (typed_target Sc tf root) (slice_reader bs) = Ok (d, 0%N)
    /\ erase_borrow d = dval_typed Sc root v.
Proof. exact roundtrip_typed. Qed.

(* the three extra hypotheses of the typed statement cannot be dropped *)
Check DS7.de_typed_enum_needs_depth.
Check DS7.de_typed_needs_unfolding.
Check DS7.de_typed_needs_node_wf.

(* non-vacuity: a record with an array of unions, a map and a decimal meets every hypothesis *)
Check roundtrip_any_instance.
