(** C14 -- Reusing a serializer configuration never changes output; failures leave it clean.
    Statements only; proofs in proofs/RecordProofs.v. The configuration's two buffer pools are
    part of the serializer state (s_bufs, s_sbufs); Rust's Drop code on error paths is written out
    in the model. *)
From Coq Require Import List NArith.
Require Import Base Schema Sval Ser RecordProofs HistoryProofs.
Import ListNotations.

(* whatever happens during a serialization -- success, a Serialize impl failing at any depth,
   a type mismatch at any field, the sink failing after any number of bytes -- the pools only
   hold empty buffers afterwards, and the pool assertions never fire *)
Theorem C14_pool_inv : forall Sc n v st r st',
  pool_ok st -> ser Sc n v st = (r, st') ->
  pool_ok st' /\ (forall p, r = Panic p -> p <> PPoolAssert).
Proof. exact ser_pool_inv. Qed.

(* outcome and bytes appended do not depend on what the pools (or the output so far) hold *)
Theorem C14_indep : forall Sc n v st1 st2,
  pool_ok st1 -> pool_ok st2 -> s_budget st1 = None -> s_budget st2 = None -> s_slow st1 = s_slow st2 ->
  let '(r1, t1) := ser Sc n v st1 in
  let '(r2, t2) := ser Sc n v st2 in
  r1 = r2 /\ (exists w, s_out t1 = s_out st1 ++ w /\ s_out t2 = s_out st2 ++ w).
Proof. exact ser_pool_indep. Qed.

(* the same under any sink budget (an I/O failure after n bytes), with the pools clean afterwards *)
Theorem C14_indep_budget : forall Sc n v st1 st2,
  pool_ok st1 -> pool_ok st2 -> s_budget st1 = s_budget st2 -> s_slow st1 = s_slow st2 ->
  let '(r1, t1) := ser Sc n v st1 in
  let '(r2, t2) := ser Sc n v st2 in
  r1 = r2 /\ pool_ok t1 /\ pool_ok t2 /\ s_budget t1 = s_budget t2 /\
  s_slow t1 = s_slow st1 /\ s_slow t2 = s_slow st2 /\ (s_budget st1 = None -> s_budget t1 = None) /\
  (exists w, s_out t1 = s_out st1 ++ w /\ s_out t2 = s_out st2 ++ w).
Proof. exact ser_pool_indep_budget. Qed.

(* histories: after any sequence of serializations (each with its own sink, failing or not) the
   configuration is clean, so a probe behaves as on a fresh configuration *)
Theorem C14_history : forall Sc n jobs probe slow,
  let pools := fold_left (run_one Sc n) jobs ([], []) in
  let '(r1, t1) := ser Sc n probe (mkS [] None (fst pools) (snd pools) slow) in
  let '(r2, t2) := ser Sc n probe (st0 slow) in
  r1 = r2 /\ s_out t1 = s_out t2.
Proof. exact ser_history. Qed.

(** ** Histories that mix Vec sinks and fixed-size slices (proofs/SerBudgetProofs.v): every job, whatever its sink, gives what it gives on a
    fresh configuration; a slice job succeeds exactly when the Vec encoding fits and then leaves the same pools *)
Require Import SerHistory VectoredWrite SinkWrite SinkWriteProofs SerBudgetProofs.
Theorem C14_history_independent_with_slices :
  forall (Sc : fschema) (slow : bool) (jobs : list (sval * option N)) (p : pools),
  pools_ok p -> fst (hist_run Sc slow p jobs) = map (job_fresh Sc slow) jobs.
Proof. exact hist_run_budget_indep. Qed.

Theorem C14_slice_job_pools :
  forall (Sc : fschema) (slow : bool) (p : pools) (v : sval) (b : N) (bs : bytes) (pV : pools),
  hist_step Sc slow p (v, None) = (Ok bs, pV) ->
  ((nlen bs <= b)%N -> hist_step Sc slow p (v, Some b) = (Ok bs, pV)) /\
  ((b < nlen bs)%N -> fst (hist_step Sc slow p (v, Some b)) = Err EIo).
Proof. exact hist_step_budget. Qed.


Check hist_step_pools_ok.
