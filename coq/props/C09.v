(** C09 -- Schema JSON: preserved when parsed, regenerated equivalently when built/edited.
    Statements only; proofs in proofs/SchemaTextProofs.v (per-edge spelling) and
    proofs/SchemaJson{Defs,Guard,CfOk,Raw,Cf,Sim,Proofs}.v.
    [wf_graph g] : what "built programmatically with distinct fullnames" means -- keys in range, no
    cycle through unnamed nodes only, names as the parser can read them back (null or non-empty
    namespace, dot-free simple name that is not a type name), distinct fullnames, logical-type
    parameters and sizes within u32/u64, no record that unconditionally contains itself.
    [unfold n g k]: the depth-n unfolding of the graph at k, carrying names, field names and order,
    symbols, sizes and logical types with their parameters: equal unfoldings for every n is graph
    isomorphism up to sharing. The "parsed, unedited: original document minified" half is storage of
    the caller's text (serde_transcode) and is decided on the crate by the correspondence run. *)
From Coq Require Import List NArith.
Require Import Base Schema Text Json Parse SchemaJson CanonicalForm Rabin PcfSpec.
Require Import SchemaTextProofs SchemaJsonDefs SchemaJsonGuard SchemaJsonProofs.
Import ListNotations.

(* regeneration: the JSON written for ANY well-formed graph -- shared records, named cycles, every
   namespace arrangement -- parses back to a graph with the same canonical form, the same
   fingerprint and the same unfoldings at every depth *)
Theorem C09_regen : forall g fuel, wf_graph g -> (json_fuel g <= fuel)%nat ->
  exists j g',
    schema_json fuel g = Ok (json_text j) /\ parse_schema j = Ok g' /\
    (forall fuel' t, canonical_form fuel' g = Ok t -> canonical_form fuel' g' = Ok t) /\
    (forall fuel' t, fingerprint fuel' g = Ok t -> fingerprint fuel' g' = Ok t) /\
    (forall n, unfold n g' 0 = unfold n g 0).
Proof. exact SchemaJsonProofs.C09_regen. Qed.

(* a graph that cannot be expressed -- a cycle through unnamed types only, reachable from the
   root -- is an error; a structurally well-formed graph is rendered *)
Theorem C09_unnamed_cycle_rejected : forall g k fuel,
  reach g 0 k -> unnamed_cycle g k -> (json_fuel g <= fuel)%nat -> schema_json fuel g = Err EData.
Proof. exact json_cycle_rejected. Qed.
Theorem C09_renders_when_wf : forall g fuel, wf_struct g -> (json_fuel g <= fuel)%nat ->
  exists t, schema_json fuel g = Ok t.
Proof. exact json_ok_when_wf. Qed.

(* per edge: what the writer spells for a reference / a definition under ANY parent namespace
   (bare, leading dot, qualified, explicit "" namespace) parses back to the same name *)
Theorem C09_edge_ref : forall parent ns simple, ns_ok ns -> has_dot simple = false ->
  key_of_ref parent (str_for_ref parent (name_of_key (ns, simple))) = (ns, simple).
Proof. exact ref_roundtrip. Qed.
Theorem C09_edge_def : forall parent ns simple, ns_ok ns -> has_dot simple = false ->
  let m := name_entries parent (name_of_key (ns, simple)) in
  key_of_def parent (entry_name m) (entry_namespace m) = (ns, simple).
Proof. exact def_roundtrip. Qed.

(* non-vacuity (a 10-node graph: record shared from two namespaces, three named cycles, decimal /
   duration / custom logical types) and why each hypothesis of wf_graph is needed *)
Check ex_graph_regen_canonical.
Check ex_graph_regen_unfold.
Check ex_unnamed_cycle.
Check regen_needs_norec.
Check regen_needs_not_type_name.
Check regen_needs_nodot.
Check regen_needs_distinct.
Check regen_needs_logical_valid.

(** ** The TEXT layer (model/JsonRead.v: a reader for JSON text as serde_json accepts it -- whitespace, escapes incl. surrogate
    pairs, UTF-8 validation, number grammar with tokens kept, depth limit 128; checked against serde_json on ~7600 random and mutated
    texts by its author; proofs/JsonReadProofs.v, JsonReadSchema.v): reading back what the compact printer writes gives the
    document, with ANY whitespace between tokens; so the text a built graph regenerates -- not only its document -- parses back to a
    graph with the same canonical form, fingerprint and unfoldings. Hypotheses: names / symbols are valid UTF-8 (graph_utf8; shown
    necessary) and the regenerated document stays within serde_json's recursion limit (doc_depth_ok; shown necessary) *)
Require Import JsonRead JsonReadProofs JsonReadSchema.
Theorem C09_regen_text_roundtrip :
  forall (g : schema_mut) (fuel : nat),
  SchemaJsonDefs.wf_graph g ->
  graph_utf8 g ->
  (SchemaJsonGuard.json_fuel g <= fuel)%nat ->
  doc_depth_ok fuel g ->
  exists (j : json) (g' : schema_mut),
  schema_json fuel g = Ok (json_text j) /\
  json_wf j = true /\
  parse_schema_text (json_text j) = Ok g' /\
  (forall w : list bytes, ws_ok w -> parse_schema_text (json_text_ws w j) = Ok g') /\
  (forall (fuel' : nat) (t : bytes), canonical_form fuel' g = Ok t -> canonical_form fuel' g' = Ok t) /\
  (forall (fuel' : nat) (t : bytes), fingerprint fuel' g = Ok t -> fingerprint fuel' g' = Ok t) /\
  (forall n : nat, SchemaJsonDefs.unfold n g' 0 = SchemaJsonDefs.unfold n g 0).
Proof. exact C09_regen_text. Qed.

Theorem C09_regen_text_full_names_roundtrip :
  forall (g : schema_mut) (fuel : nat) (text : bytes),
  SchemaJsonDefs.wf_graph g ->
  graph_full_utf8 g ->
  (SchemaJsonGuard.json_fuel g <= fuel)%nat ->
  doc_depth_ok fuel g ->
  schema_json fuel g = Ok text ->
  exists g' : schema_mut,
  parse_schema_text text = Ok g' /\
  (forall (fuel' : nat) (t : bytes), canonical_form fuel' g = Ok t -> canonical_form fuel' g' = Ok t) /\
  (forall (fuel' : nat) (t : bytes), fingerprint fuel' g = Ok t -> fingerprint fuel' g' = Ok t).
Proof. exact C09_regen_text_full_names. Qed.

Theorem C09_text_whitespace_insensitive :
  forall (w : list bytes) (j : json) (fuel : nat),
  ws_ok w ->
  json_wf j = true ->
  (json_depth j < SERDE_JSON_DEPTH)%nat -> (length (json_text_ws w j) < fuel)%nat -> json_read fuel (json_text_ws w j) = Ok j.
Proof. exact json_read_ws. Qed.

Theorem C09_json_text_roundtrip :
  forall (j : json) (fuel : nat),
  json_wf j = true ->
  (json_depth j < SERDE_JSON_DEPTH)%nat -> (length (json_text j) < fuel)%nat -> json_read fuel (json_text j) = Ok j.
Proof. exact json_read_text. Qed.


Check json_text_inj.
Check depth_needed.
Check utf8_needed.
Check ex_graph_text_roundtrip.
Check ex_reads.                 (* every escape kind, surrogate pairs, odd whitespace, duplicate keys, every number shape *)
Check rej_lone_leading.
Check rej_leading_zero.
Check rej_depth.

(** ** ... with the depth hypothesis on the GRAPH (proofs/JsonReadDepth.v): the regenerated document nests at most [depth_bound g]
    levels = 3 per named node + one per other node per named type written so far + 1 (shared unnamed chains are written again under
    every named type that leads back to them): quadratic, tight to within 1, and NO linear bound in the number of nodes holds: a
    19-node graph regenerates a document of depth 129 that the text reader (and serde_json: known finding KF4) refuses *)
Require Import JsonReadDepth.
Theorem C09_regen_text_graph_bound :
  forall (g : schema_mut) (fuel : nat),
  SchemaJsonDefs.wf_graph g ->
  graph_utf8 g ->
  SchemaJsonGuard.json_fuel g <= fuel ->
  depth_bound g < SERDE_JSON_DEPTH ->
  exists (j : json) (g' : schema_mut),
  schema_json fuel g = Ok (json_text j) /\
  json_wf j = true /\
  parse_schema_text (json_text j) = Ok g' /\
  (forall w : list bytes, ws_ok w -> parse_schema_text (json_text_ws w j) = Ok g') /\
  (forall (fuel' : nat) (t : bytes), canonical_form fuel' g = Ok t -> canonical_form fuel' g' = Ok t) /\
  (forall (fuel' : nat) (t : bytes), fingerprint fuel' g = Ok t -> fingerprint fuel' g' = Ok t) /\
  (forall n : nat, SchemaJsonDefs.unfold n g' 0 = SchemaJsonDefs.unfold n g 0).
Proof. exact C09_regen_text_graph. Qed.

Theorem C09_document_depth_bound :
  forall (g : schema_mut) (fuel : nat) (j : json) (st' : jstate),
  to_json fuel g 0 None (SchemaJsonGuard.j_init g) = Ok (j, st') -> json_depth j <= depth_bound g.
Proof. exact doc_depth_bound. Qed.

Theorem C09_no_linear_depth_bound :
  forall K C : nat,
  K * 19 + C < SERDE_JSON_DEPTH ->
  ~ (forall (g : list mnode) (fuel : nat), K * length g + C < SERDE_JSON_DEPTH -> doc_depth_ok fuel g).
Proof. exact doc_depth_ok_linear_refuted_gen. Qed.


Check nineteen_nodes_too_deep.
Check depth_bound_tight.
Check deep_graph_roundtrip.
Check doc_depth_ok_small.       (* every graph of at most 18 nodes is fine *)
