(** C09 -- Schema JSON: preserved when parsed, regenerated equivalently when built/edited.
    Statements only; proofs in proofs/SchemaTextProofs.v (per-edge spelling) and
    proofs/SchemaJson{Defs,Guard,CfOk,Raw,Cf,Sim,Proofs}.v.
    [wf_graph g] : what "built programmatically with distinct fullnames" means -- keys in range, no
    cycle through unnamed nodes only, names as the parser can read them back (null or non-empty
    namespace, dot-free simple name that is not a type name), distinct fullnames, logical-type
    parameters and sizes within u32/u64, no record that unconditionally contains itself.
    [unfold n g k]: the depth-n unfolding of the graph at k, carrying names, field names and order,
    symbols, sizes and logical types with their parameters: equal unfoldings for every n is graph
    isomorphism up to sharing. The "parsed, unedited: original document minified" half is storage of
    the caller's text (serde_transcode) and is decided on the crate by the correspondence run. *)
From Coq Require Import List NArith.
Require Import Base Schema Text Json Parse SchemaJson CanonicalForm Rabin PcfSpec.
Require Import SchemaTextProofs SchemaJsonDefs SchemaJsonGuard SchemaJsonProofs.
Import ListNotations.

(* regeneration: the JSON written for ANY well-formed graph -- shared records, named cycles, every
   namespace arrangement -- parses back to a graph with the same canonical form, the same
   fingerprint and the same unfoldings at every depth *)
Theorem C09_regen : forall g fuel, wf_graph g -> (json_fuel g <= fuel)%nat ->
  exists j g',
    schema_json fuel g = Ok (json_text j) /\ parse_schema j = Ok g' /\
    (forall fuel' t, canonical_form fuel' g = Ok t -> canonical_form fuel' g' = Ok t) /\
    (forall fuel' t, fingerprint fuel' g = Ok t -> fingerprint fuel' g' = Ok t) /\
    (forall n, unfold n g' 0 = unfold n g 0).
Proof. exact SchemaJsonProofs.C09_regen. Qed.

(* a graph that cannot be expressed -- a cycle through unnamed types only, reachable from the
   root -- is an error; a structurally well-formed graph is rendered *)
Theorem C09_unnamed_cycle_rejected : forall g k fuel,
  reach g 0 k -> unnamed_cycle g k -> (json_fuel g <= fuel)%nat -> schema_json fuel g = Err EData.
Proof. exact json_cycle_rejected. Qed.
Theorem C09_renders_when_wf : forall g fuel, wf_struct g -> (json_fuel g <= fuel)%nat ->
  exists t, schema_json fuel g = Ok t.
Proof. exact json_ok_when_wf. Qed.

(* per edge: what the writer spells for a reference / a definition under ANY parent namespace
   (bare, leading dot, qualified, explicit "" namespace) parses back to the same name *)
Theorem C09_edge_ref : forall parent ns simple, ns_ok ns -> has_dot simple = false ->
  key_of_ref parent (str_for_ref parent (name_of_key (ns, simple))) = (ns, simple).
Proof. exact ref_roundtrip. Qed.
Theorem C09_edge_def : forall parent ns simple, ns_ok ns -> has_dot simple = false ->
  let m := name_entries parent (name_of_key (ns, simple)) in
  key_of_def parent (entry_name m) (entry_namespace m) = (ns, simple).
Proof. exact def_roundtrip. Qed.

(* non-vacuity (a 10-node graph: record shared from two namespaces, three named cycles, decimal /
   duration / custom logical types) and why each hypothesis of wf_graph is needed *)
Check ex_graph_regen_canonical.
Check ex_graph_regen_unfold.
Check ex_unnamed_cycle.
Check regen_needs_norec.
Check regen_needs_not_type_name.
Check regen_needs_nodot.
Check regen_needs_distinct.
Check regen_needs_logical_valid.
