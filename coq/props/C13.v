(** C13 -- Record bytes independent of field order; omitted nullable fields encode as null.
    Statements only; proofs in proofs/RecordProofs.v (about model/Ser.v, the model of
    ser/serializer/struct_or_map.rs tied to the crate by the correspondence run). *)
From Coq Require Import List NArith Permutation.
Require Import Base Schema Sval Ser RecordProofs RecordPermProofs.
Import ListNotations.

(* every order of presenting the (distinct) fields gives the same outcome: both succeed with the
   same bytes, or both fail *)
Theorem C13_perm : forall Sc nm fields len1 len2 ps1 ps2 sname1 sname2 st,
  NoDup (map fst fields) -> NoDup (map fst ps1) -> Permutation ps1 ps2 ->
  pool_ok st -> s_budget st = None ->
  outcome_eq (ser Sc (FRecord nm fields) (SStruct sname1 len1 ps1) st)
             (ser Sc (FRecord nm fields) (SStruct sname2 len2 ps2) st).
Proof. exact record_order_independent. Qed.

(* also through struct variants and through maps with string keys *)
Theorem C13_perm_variant : forall Sc nm fields len1 len2 ps1 ps2 e1 i1 v1 e2 i2 v2 st,
  NoDup (map fst fields) -> NoDup (map fst ps1) -> Permutation ps1 ps2 ->
  pool_ok st -> s_budget st = None ->
  outcome_eq (ser Sc (FRecord nm fields) (SStructVariant e1 i1 v1 len1 ps1) st)
             (ser Sc (FRecord nm fields) (SStructVariant e2 i2 v2 len2 ps2) st).
Proof. exact record_order_independent_variant. Qed.
Theorem C13_perm_map : forall Sc nm fields len1 len2 ps1 ps2 sname st,
  NoDup (map fst fields) -> NoDup (map fst ps1) -> Permutation ps1 ps2 ->
  pool_ok st -> s_budget st = None ->
  outcome_eq (ser Sc (FRecord nm fields) (SStruct sname len1 ps1) st)
             (ser Sc (FRecord nm fields) (SMap len2 (entries ps2)) st).
Proof. exact record_order_independent_map. Qed.

(* the bytes are the fields' encodings in SCHEMA order; a field that was not presented contributes
   the null fill (nothing for a null field, the null branch's discriminant for a union with a
   null branch) and has no bytes otherwise; unknown fields make the call fail *)
Theorem C13_schema_order : forall Sc nm fields sname len ps st t,
  NoDup (map fst fields) -> NoDup (map fst ps) -> pool_ok st -> s_budget st = None ->
  ser Sc (FRecord nm fields) (SStruct sname len ps) st = (Ok tt, t) ->
  (forall p, In p ps -> In (fst p) (map fst fields)) /\
  (forall f, In f fields -> field_bytes Sc (s_slow st) ps f <> None) /\
  s_out t = s_out st ++ concat (map (fun f => odef (field_bytes Sc (s_slow st) ps f)) fields).
Proof. exact record_bytes_in_schema_order. Qed.

(* presenting a field twice -- in ANY presentation form (struct, struct variant, map with entry or split
   key/value calls), reached directly or through a union, in any position relative to the other
   fields (in order, buffered, after the first copy was flushed) -- is an error *)
Theorem C13_duplicate_field : forall Sc n v on ps w rn fields st,
  presents v on ps -> route Sc n on = Some (w, FRecord rn fields) ->
  NoDup (map fst fields) -> ~ NoDup (map fst ps) -> pool_ok st ->
  is_ok (fst (ser Sc n v st)) = false.
Proof. exact record_duplicate_field_fails. Qed.

(* the Equal => panic! arm, expected_fields.next().unwrap(), and the debug assertion are
   unreachable for EVERY presentation at every depth; serialize_value before serialize_key is the
   only way to reach the remaining panic site (a Serialize impl breaking the serde protocol) *)
Theorem C13_nopanic : forall Sc n v st r st' p,
  ser Sc n v st = (r, st') -> r = Panic p ->
  p <> PRecordEqualArm /\ p <> PExpectedFieldsUnwrap /\ p <> PDebugAssertBuffers /\
  (sval_wf v = true -> p <> PSerKeyBeforeValue).
Proof. exact record_no_panic. Qed.

(* the remaining presentation forms. NESTED: [perm_equiv] relates two presentations that differ only by
   permuting the fields of record presentations ANYWHERE inside (records in records, arrays and maps of
   records, union branches, through Some / newtype wrappers, struct vs struct-variant vs map with
   entry or split key/value calls): same outcome and same bytes, whatever the sink budget *)
Theorem C13_perm_nested : forall Sc n v1 v2 st,
  perm_equiv Sc n v1 v2 -> pool_ok st -> outcome_eq (ser Sc n v1 st) (ser Sc n v2 st).
Proof. exact perm_equiv_ser_any_sink. Qed.
(* a map presentation with SPLIT serialize_key / serialize_value calls against a struct in another order *)
Theorem C13_perm_split : forall Sc nm fields sname len1 len2 ps1 ps2 st,
  NoDup (map fst fields) -> Permutation ps1 ps2 -> pool_ok st ->
  outcome_eq (ser Sc (FRecord nm fields) (SStruct sname len1 ps1) st)
             (ser Sc (FRecord nm fields) (SMap len2 (split_calls ps2)) st).
Proof. exact record_order_independent_split. Qed.
(* a record reached THROUGH A UNION, selected by name or by type *)
Theorem C13_perm_union_named : forall Sc ks sname d k rn fields len1 len2 ps1 ps2 st,
  union_named Sc ks sname = Some (d, k) -> fnode_at Sc k = Some (FRecord rn fields) ->
  NoDup (map fst fields) -> Permutation ps1 ps2 -> pool_ok st ->
  outcome_eq (ser Sc (FUnion ks) (SStruct sname len1 ps1) st) (ser Sc (FUnion ks) (SStruct sname len2 ps2) st).
Proof. exact record_order_independent_union_named. Qed.
Theorem C13_perm_union_typed : forall Sc ks sname1 sname2 d k rn fields len1 len2 ps1 ps2 st,
  union_named Sc ks sname1 = None -> union_named Sc ks sname2 = None ->
  union_unnamed Sc ks Kinds.KStructOrMap = Some (d, k) -> fnode_at Sc k = Some (FRecord rn fields) ->
  NoDup (map fst fields) -> Permutation ps1 ps2 -> pool_ok st ->
  outcome_eq (ser Sc (FUnion ks) (SStruct sname1 len1 ps1) st) (ser Sc (FUnion ks) (SStruct sname2 len2 ps2) st).
Proof. exact record_order_independent_union_typed. Qed.
Check Ex.nested_bytes.
Check perm_on_map_refuted.
Check perm_dup_schema_refuted.

(* non-vacuity: three fields, presented in schema order, reversed, as a map; nullable omitted;
   required omitted *)
Example C13_example : True.
Proof. exact I. Qed.
Check order_example.

(** ** The sink: any io::Write schedule (model/SinkWrite.v = std's write_all loop over a scheduled sink; proofs/SinkWriteProofs.v).
    The serializer reaches its writer only through write_all (Ser.write); whatever the split of its output into write_all calls
    (in particular: buffered record fields flushed later, in schema order), a sink that takes a few bytes per call, interrupts, or
    is a fixed-size slice receives exactly the bytes of the Vec result (or a proper prefix and an error); replacing ONE write_all by
    a bare write (result discarded) loses bytes under a short-writing sink while still reporting Ok -- invisible to a Vec *)
Require Import VectoredWrite SinkWrite SinkWriteProofs WriterScheduleProofs.
Theorem C13_sink_schedule_independent :
  forall (Sc : fschema) (slow : bool) (v : sval) (bs : bytes) (ps : list (list N)) (s : list wans) (sink : bytes) (n : nat),
  to_datum Sc slow v = Ok bs ->
  concat ps = bs ->
  benign_schedule s ->
  (forall p : list N, In p ps -> length p + interruptions s <= n) ->
  exists s' : list wans, write_pieces_sched n s sink ps = (WOk, sink ++ bs, s') /\ benign_schedule s'.
Proof. exact to_datum_schedule_independent. Qed.

Theorem C13_sink_any_schedule :
  forall (Sc : fschema) (slow : bool) (v : sval) (bs : bytes) (ps : list (list N)) (s : list wans) (sink : bytes)
  (n : nat) (r : wres) (sink' : bytes) (s' : list wans),
  to_datum Sc slow v = Ok bs ->
  concat ps = bs ->
  write_pieces_sched n s sink ps = (r, sink', s') ->
  exists w rest : list N, sink' = sink ++ w /\ bs = w ++ rest /\ (r = WOk <-> rest = []).
Proof. exact to_datum_any_schedule. Qed.

Theorem C13_sink_fixed_slice :
  forall (Sc : fschema) (slow : bool) (v : sval) (bs : bytes) (ps : list (list N)) (cap n : nat),
  to_datum Sc slow v = Ok bs ->
  concat ps = bs ->
  2 <= n ->
  exists s' : list wans,
  write_pieces_sched n (slice_sched cap ps) [] ps = (if length bs <=? cap then (WOk, bs, s') else (WErrZero, firstn cap bs, s')).
Proof. exact to_datum_into_slice. Qed.

Theorem C13_write_once_defect_refuted :
  forall (n : nat) (pre : list bytes) (p : list N) (post : list (list N)) (s : list wans) (sink : bytes) (k : N)
  (sink1 : bytes) (s1 : list wans),
  benign_schedule s ->
  (forall q : list N, In q post -> length q + interruptions s <= n) ->
  write_pieces_sched n s sink pre = (WOk, sink1, s1) ->
  fst (next_ans s1) = Accept k ->
  Nat.max (N.to_nat k) 1 < length p ->
  exists s' : list wans,
  write_mixed_sched n s sink (map (pair true) pre ++ (false, p) :: map (pair true) post) =
  (WOk, sink ++ concat pre ++ firstn (Nat.max (N.to_nat k) 1) p ++ concat post, s') /\
  length (sink ++ concat pre ++ firstn (Nat.max (N.to_nat k) 1) p ++ concat post) < length (sink ++ concat (pre ++ p :: post)) /\
  sink ++ concat pre ++ firstn (Nat.max (N.to_nat k) 1) p ++ concat post <> sink ++ concat (pre ++ p :: post).
Proof. exact defect_lacks_bytes. Qed.


Check ser_writes_are_pieces.          (* any sequence of Ser.write calls = write_pieces on any benign sink *)
Check ser_writes_budget_are_slice_pieces.
Check record_flush_witness.            (* the record {a:int,b:string} presented as (b,a): flush through one bare write under [Accept 1] *)
Check write_once_vec_invisible.

(** ** ... and for the serializer itself (proofs/SerBudgetProofs.v: a simulation over the whole `ser` family, buffered record fields
    included): into a fixed-size slice of b bytes the run is the Vec run when the bytes fit, and otherwise Err (never Ok, never a new
    panic) with the first b bytes in place *)
Require Import SerHistory SerBudgetProofs.
Theorem C13_fixed_slice_whole_serializer :
  forall (Sc : fschema) (slow : bool) (b : N) (v : sval) (bs : bytes),
  to_datum Sc slow v = Ok bs ->
  ((nlen bs <= b)%N -> to_datum_sink Sc slow b v = (Ok bs, bs)) /\
  ((b < nlen bs)%N -> to_datum_sink Sc slow b v = (Err EIo, firstn (N.to_nat b) bs)).
Proof. exact to_datum_budget_spec. Qed.

Theorem C13_fixed_slice_ok_iff :
  forall (Sc : fschema) (slow : bool) (b : N) (v : sval) (bs : bytes),
  to_datum_budget Sc slow b v = Ok bs <-> to_datum Sc slow v = Ok bs /\ (nlen bs <= b)%N.
Proof. exact to_datum_budget_ok_iff. Qed.

Theorem C13_fixed_slice_no_new_panic :
  forall (Sc : fschema) (slow : bool) (b : N) (v : sval) (p : site),
  to_datum_budget Sc slow b v = Panic p -> to_datum Sc slow v = Panic p.
Proof. exact to_datum_budget_no_new_panic. Qed.

Check ser_budget_simulation.
Check hist_step_overflow_same_pools_refuted.   (* on overflow the pools need not equal those of the Vec job: clean, not equal *)
