(** C03 -- Decoder conformance: every spec-valid encoding decodes to the defined value.
    Statements only; proofs in proofs/DeProofs.v. [evalue] (spec/Encoding.v) is a value together
    with the encoder's free choices: every legal encoding of a value -- arrays/maps split into any
    number of blocks, any block written with a negative count followed by its byte size, decimals
    with sign-extension padding -- is [encode_e] of some evalue that erases to the value. *)
From Coq Require Import List NArith ZArith.
Require Import Base Schema Varint Utf8 Reader Target De AvroValue Encoding Denote Wf DeProofs.
Require Import DeSafetyProofs DeSoundBase DeSoundMain DeSoundReject DeSoundProofs DeSoundTyped.
Import ListNotations.

(* for the dynamically-typed consumer in slice mode: exactly the encoding is consumed (whatever
   follows is left untouched) and the callbacks are those the specification's reading of the value
   prescribes (strings/bytes arrive as borrows of the input; erase_borrow forgets only the offset) *)
Theorem C03_complete : forall Sc cfg e n rest pos ma fuel depth,
  schema_wf Sc = true ->
  conforms Sc n (erase e) = true ->
  layout_ok e = true ->
  within_limits Sc cfg n e = true ->                 (* configured max_seq_size; 16-byte / 96-bit decimals *)
  (depth_cost e <= depth)%nat ->                     (* configured depth budget *)
  (de_fuel e <= fuel)%nat ->
  counts_fit e = true ->                             (* counts and indices written as longs fit a long *)
  (Z.of_nat (length (encode_e Sc n e)) <= I64_MAX)%Z ->
  exists d,
    de Sc cfg fuel n depth false false TAny (mkRd (encode_e Sc n e ++ rest) pos None ma)
      = (Ok d, mkRd rest (pos + N.of_nat (length (encode_e Sc n e))) None ma)
    /\ erase_borrow d = dval_any Sc n (erase e).
Proof. exact de_any_complete_bounded. Qed.

(* the two size hypotheses cannot be dropped: a bytes value of 2^63 bytes conforms, and its length
   is not a long *)
Theorem C03_unbounded_refuted :
  ~ (forall Sc cfg e n rest pos ma fuel depth,
      schema_wf Sc = true -> conforms Sc n (erase e) = true -> layout_ok e = true ->
      within_limits Sc cfg n e = true -> (depth_cost e <= depth)%nat -> (de_fuel e <= fuel)%nat ->
      exists d,
        de Sc cfg fuel n depth false false TAny (mkRd (encode_e Sc n e ++ rest) pos None ma)
          = (Ok d, mkRd rest (pos + N.of_nat (length (encode_e Sc n e))) None ma)
        /\ erase_borrow d = dval_any Sc n (erase e)).
Proof. exact de_any_complete_unbounded_is_false. Qed.

(* the specification's long encoding (written independently in spec/Encoding.v) is the crate's,
   and the crate's reader inverts it *)
Theorem C03_long_is_crate : forall z, (I64_MIN <= z /\ z <= I64_MAX)%Z -> spec_long z = encode_long z.
Proof. exact spec_long_is_encode_long. Qed.
Theorem C03_long : forall z rest pos ma, i64_range z ->
  read_varint VI64 (mkRd (spec_long z ++ rest) pos None ma)
  = (Ok z, mkRd rest (pos + N.of_nat (length (spec_long z))) None ma).
Proof. exact read_varint_long. Qed.

(* SOUNDNESS -- "never a fabricated value": whatever the dynamically typed consumer returns Ok on,
   for ANY schema (no well-formedness needed), configuration, fuel, depth, and reader mode (slice or
   any chunking), is the reading of a value that CONFORMS to the schema (bool from a 0/1 byte, valid
   UTF-8, branch / symbol indices in range, sizes as declared, ...), and the bytes consumed are an
   encoding of that value in the grammar [valid_enc_relaxed] = the specification's grammar with three
   documented relaxations the decoder (like the reference implementations) allows: over-long varints
   of at most 10 bytes, the byte size after a negative block count is not compared with anything
   when items are decoded one by one, any amount of decimal sign extension *)
Theorem C03_sound : forall Sc cfg fuel n depth favor force rs d rs',
  bytes_okb (rd_inp rs) = true ->
  de Sc cfg fuel n depth favor force TAny rs = (Ok d, rs') ->
  exists v pre,
    rd_inp rs = pre ++ rd_inp rs' /\ conforms Sc n v = true /\
    erase_borrow d = dval_any Sc n v /\ valid_enc_relaxed Sc n v pre.
Proof. exact DeSoundProofs.C03_sound_bytes. Qed.

(* by contraposition: input no prefix of which is a (relaxed) encoding of a conforming value is
   rejected with Err -- not Ok, not a panic, not a hang *)
Theorem C03_malformed_rejected : forall Sc cfg fuel n depth favor force rs,
  schema_wf Sc = true -> In n Sc -> (c_max_seq cfg < 2 ^ 64 - 1)%N ->
  (work_bound Sc cfg depth (blen (rd_inp rs)) <= fuel)%nat ->
  bytes_okb (rd_inp rs) = true ->
  (forall v pre rest, rd_inp rs = pre ++ rest -> conforms Sc n v = true -> ~ valid_enc_relaxed Sc n v pre) ->
  exists e, fst (de Sc cfg fuel n depth favor force TAny rs) = Err e.
Proof. exact DeSoundProofs.C03_reject. Qed.

(* the five classes of the property text, directly *)
Theorem C03_boolean_byte : forall Sc cfg f depth favor force rs b rest,
  rd_inp rs = b :: rest -> (2 <= b)%N -> is_err (de Sc cfg (S f) FBoolean depth favor force TAny rs).
Proof. exact de_bool_reject. Qed.
Theorem C03_invalid_utf8 : forall Sc cfg f n depth favor force rs z k,
  str_node n = true -> decode_var VI64 (rd_inp rs) = Some (z, k) -> (0 <= z)%Z ->
  utf8_valid (firstn (Z.to_nat z) (skipn (N.to_nat k) (rd_inp rs))) = false ->
  is_err (de Sc cfg (S f) n depth favor force TAny rs).
Proof. exact de_string_bad_utf8. Qed.
Theorem C03_union_index : forall Sc cfg f variants depth favor force rs z k,
  decode_var VI64 (rd_inp rs) = Some (z, k) -> (z < 0)%Z \/ (Z.of_nat (length variants) <= z)%Z ->
  is_err (de Sc cfg (S f) (FUnion variants) depth favor force TAny rs).
Proof. exact de_union_index_reject. Qed.
Theorem C03_enum_index : forall Sc cfg f nm symbols depth favor force rs z k,
  decode_var VI64 (rd_inp rs) = Some (z, k) -> (z < 0)%Z \/ (Z.of_nat (length symbols) <= z)%Z ->
  is_err (de Sc cfg (S f) (FEnum nm symbols) depth favor force TAny rs).
Proof. exact de_enum_index_reject. Qed.
Theorem C03_negative_length : forall Sc cfg f n depth favor force rs z k,
  ld_node n = true -> decode_var VI64 (rd_inp rs) = Some (z, k) -> (z < 0)%Z ->
  is_err (de Sc cfg (S f) n depth favor force TAny rs).
Proof. exact de_negative_length_reject. Qed.
Theorem C03_premature_end : forall Sc cfg f n depth favor force rs z k,
  ld_node n = true -> decode_var VI64 (rd_inp rs) = Some (z, k) -> (0 <= z)%Z ->
  (Z.of_nat (length (rd_inp rs)) < Z.of_N k + z)%Z ->
  is_err (de Sc cfg (S f) n depth favor force TAny rs).
Proof. exact de_ld_truncated. Qed.
Theorem C03_premature_end_varint : forall Sc cfg f n depth favor force rs,
  varint_first n = true -> decode_u64 (rd_inp rs) = None ->
  is_err (de Sc cfg (S f) n depth favor force TAny rs).
Proof. exact de_varint_truncated. Qed.

(* the relaxations are real (accepted inputs that are not the specification's encoding), and the
   byte hypothesis is needed *)
Check overlong_long_accepted.
Check block_size_unchecked.
Check empty_decimal_accepted.
Check C03_sound_needs_byte_input.

(* non-vacuity: a two-block array of maps containing a union and a decimal *)
Check de_any_complete_bounded_instance.

(** ** Typed targets through collections (proofs/DeSoundTyped.v) *)
(* soundness for the statically typed target derived from the schema ([typed_target], the shape a Rust type
   mirroring the schema asks for), arrays / maps / records / unions included, wherever the unfolding covers the
   node ([tcov]): whatever is decoded is the typed presentation of a conforming value whose (relaxed: block
   structure free) encoding is exactly the consumed bytes *)
Theorem C03_typed_sound : forall (Sc : fschema) (cfg : dcfg) (fuel tf : nat) (n : fnode) (depth : nat) (rs : rstate) (d : dval) (rs' : rstate),
  tcov Sc tf n -> bytes_okb (rd_inp rs) = true ->
  de Sc cfg fuel n depth false false (typed_target Sc tf n) rs = (Ok d, rs') ->
  exists (v : avalue) (pre : list N),
    rd_inp rs = pre ++ rd_inp rs' /\
    conforms Sc n v = true /\ erase_borrow d = dval_typed Sc n v /\ DeSoundMain.valid_enc_relaxed Sc n v pre.
Proof. exact de_typed_sound_coll. Qed.
Theorem C03_typed_sound_datum : forall (fuel : nat) (Sc : fschema) (cfg : dcfg) (tf : nat) (root : fnode) (rs : rstate) (d : dval) (left : N),
  fnode_at Sc 0 = Some root -> tcov Sc tf root -> bytes_okb (rd_inp rs) = true ->
  de_datum fuel Sc cfg (typed_target Sc tf root) rs = Ok (d, left) ->
  exists v : avalue, conforms Sc root v = true /\ erase_borrow d = dval_typed Sc root v.
Proof. exact de_typed_sound_coll_datum. Qed.
Check typed_coll_example.
