(** C03 -- Decoder conformance: every spec-valid encoding decodes to the defined value.
    Statements only; proofs in proofs/DeProofs.v. [evalue] (spec/Encoding.v) is a value together
    with the encoder's free choices: every legal encoding of a value -- arrays/maps split into any
    number of blocks, any block written with a negative count followed by its byte size, decimals
    with sign-extension padding -- is [encode_e] of some evalue that erases to the value. *)
From Coq Require Import List NArith ZArith.
Require Import Base Schema Varint Reader Target De AvroValue Encoding Denote Wf DeProofs.
Import ListNotations.

(* for the dynamically-typed consumer in slice mode: exactly the encoding is consumed (whatever
   follows is left untouched) and the callbacks are those the specification's reading of the value
   prescribes (strings/bytes arrive as borrows of the input; erase_borrow forgets only the offset) *)
Theorem C03_complete : forall Sc cfg e n rest pos ma fuel depth,
  schema_wf Sc = true ->
  conforms Sc n (erase e) = true ->
  layout_ok e = true ->
  within_limits Sc cfg n e = true ->                 (* configured max_seq_size; 16-byte / 96-bit decimals *)
  (depth_cost e <= depth)%nat ->                     (* configured depth budget *)
  (de_fuel e <= fuel)%nat ->
  counts_fit e = true ->                             (* counts and indices written as longs fit a long *)
  (Z.of_nat (length (encode_e Sc n e)) <= I64_MAX)%Z ->
  exists d,
    de Sc cfg fuel n depth false false TAny (mkRd (encode_e Sc n e ++ rest) pos None ma)
      = (Ok d, mkRd rest (pos + N.of_nat (length (encode_e Sc n e))) None ma)
    /\ erase_borrow d = dval_any Sc n (erase e).
Proof. exact de_any_complete_bounded. Qed.

(* the two size hypotheses cannot be dropped: a bytes value of 2^63 bytes conforms, and its length
   is not a long *)
Theorem C03_unbounded_refuted :
  ~ (forall Sc cfg e n rest pos ma fuel depth,
      schema_wf Sc = true -> conforms Sc n (erase e) = true -> layout_ok e = true ->
      within_limits Sc cfg n e = true -> (depth_cost e <= depth)%nat -> (de_fuel e <= fuel)%nat ->
      exists d,
        de Sc cfg fuel n depth false false TAny (mkRd (encode_e Sc n e ++ rest) pos None ma)
          = (Ok d, mkRd rest (pos + N.of_nat (length (encode_e Sc n e))) None ma)
        /\ erase_borrow d = dval_any Sc n (erase e)).
Proof. exact de_any_complete_unbounded_is_false. Qed.

(* the specification's long encoding (written independently in spec/Encoding.v) is the crate's,
   and the crate's reader inverts it *)
Theorem C03_long_is_crate : forall z, (I64_MIN <= z /\ z <= I64_MAX)%Z -> spec_long z = encode_long z.
Proof. exact spec_long_is_encode_long. Qed.
Theorem C03_long : forall z rest pos ma, i64_range z ->
  read_varint VI64 (mkRd (spec_long z ++ rest) pos None ma)
  = (Ok z, mkRd rest (pos + N.of_nat (length (spec_long z))) None ma).
Proof. exact read_varint_long. Qed.

(* non-vacuity: a two-block array of maps containing a union and a decimal *)
Check de_any_complete_bounded_instance.
