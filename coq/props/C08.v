(** C08 -- Fingerprint equals CRC-64-AVRO of the Parsing Canonical Form.
    Statements only; proofs are in proofs/. *)
From Coq Require Import NArith List.
Require Import Base Schema GenRabin CrcSpec Rabin CanonicalForm RabinProofs CanonicalFormProofs.
Require Import Json Parse PcfSpec SchemaTextProofs ParseResolveDefs ParseResolveProofs SchemaJson SchemaJsonDefs SchemaJsonGuard SchemaJsonProofs.
Open Scope N_scope.

(* every entry of the crate's FP_TABLE (regenerated from rabin.rs) is the specification's entry *)
Theorem C08_table : forall i, i < 256 -> nth (N.to_nat i) FP_TABLE 0 = spec_table i.
Proof. exact nth_table. Qed.

(* the crate's per-byte update is the specification's bitwise checksum step, for EVERY state
   (all 2^64 and beyond) and every byte: GF(2)-linearity argument *)
Theorem C08_step : forall s b, b < 256 -> gen_step s b = bitwise_step s b.
Proof. exact gen_step_bitwise. Qed.

(* the whole checksum, any input *)
Theorem C08_rabin : forall bs, rabin bs = crc64_avro bs.
Proof. exact rabin_is_crc64_avro. Qed.
Theorem C08_rabin_bitwise : forall bs, bytes_ok bs -> rabin bs = crc64_avro_bitwise bs.
Proof. intros bs H. rewrite rabin_is_crc64_avro. now apply crc64_avro_is_bitwise. Qed.

(* feeding the writer piece by piece (one write_str per fragment) = the whole text *)
Theorem C08_pieces : forall pieces, rabin_pieces pieces = rabin (concat pieces).
Proof. exact rabin_pieces_concat. Qed.

(* finish() is the 8-byte little-endian rendering, which is injective on 64-bit words *)
Theorem C08_finish : forall s, rabin_finish s = le64 s.
Proof. exact rabin_finish_le. Qed.
Theorem C08_le64_inj : forall x y, x < 2^64 -> y < 2^64 -> le64 x = le64 y -> x = y.
Proof. exact le64_inj. Qed.

(* the fingerprint of a node graph is le64 (CRC-64-AVRO (canonical form text)) *)
Theorem C08_fingerprint : forall fuel g t,
  canonical_form fuel g = Ok t -> fingerprint fuel g = Ok (le64 (crc64_avro t)).
Proof. exact fingerprint_is_crc. Qed.

(* end to end for parsed schemas: the fingerprint of the schema parsed from ANY document valid per the
   specification is the CRC-64-AVRO of the SPECIFICATION's Parsing Canonical Form of that document
   (PcfSpec.pcf: fullnames, primitives as strings, only name/type/fields/symbols/items/values/size in
   that order, logical types and other attributes dropped, named types in full at first occurrence) *)
Theorem C08_parsed : forall j fuel,
  spec_valid_backward j = true -> ~ rec_cycle (graph_of j) -> (jsize j < fuel)%nat ->
  exists g, parse_schema j = Ok g /\ fingerprint fuel g = Ok (le64 (crc64_avro (pcf fuel None j))).
Proof. exact C08_fingerprint_parsed. Qed.

(* "identical for any two spellings": a built graph and the schema parsed back from its regenerated
   JSON (another spelling of the same schema) have the same fingerprint *)
Theorem C08_respell_regenerated : forall g fuel, wf_graph g -> (json_fuel g <= fuel)%nat ->
  exists j g', schema_json fuel g = Ok (json_text j) /\ parse_schema j = Ok g' /\
    (forall fuel' t, fingerprint fuel' g = Ok t -> fingerprint fuel' g' = Ok t).
Proof.
  intros g fuel Hwf Hf. destruct (SchemaJsonProofs.C09_regen g fuel Hwf Hf) as (j & g' & H1 & H2 & _ & H4 & _).
  exists j, g'. auto.
Qed.

(* non-vacuity: the specification's own test vector ("null" -> 7195948357588979594) *)
Example C08_null_vector :
  fingerprint 10 [mkNode RNull None] = Ok (le64 7195948357588979594).
Proof. vm_compute. reflexivity. Qed.
