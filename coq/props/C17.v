(** C17 -- Container reader on damaged files: genuine prefix only, corruption detected.
    Statements only; proofs in proofs/ContainerReadProofs.v. Reader model: model/Container.v
    (cr_open, enter_block, cr_inner, cr_next: NotInBlock / InBlock / Broken, "error once then end of
    stream"), null codec; decompression and the snappy CRC are outside the model and decided on the
    crate by the correspondence run (every truncation offset, single-byte corruptions of count,
    size, sync, CRC, payload, for all codecs). *)
From Coq Require Import List NArith ZArith.
Require Import Base Schema Sval Ser Target Reader De AvroValue Encoding Denote Wf VectoredWrite Container.
Require Import ContainerReadProofs.
Import ListNotations.

(* truncation, in full generality: for ANY bytes bs and ANY continuation x (no well-formedness
   assumed), any target: reading bs and reading bs ++ x produce the same items until the cut run
   stops with end-of-stream or an error and then only reports end-of-stream -- the cut file never
   yields a value the longer file does not *)
Theorem C17_truncation_general : forall Sc cfg sync t bs x pos ma n,
  trunc_rel (cr_run Sc cfg sync t n (mkCR (RNotInBlock (mkRd bs pos None ma)) false))
            (cr_run Sc cfg sync t n (mkCR (RNotInBlock (mkRd (bs ++ x) pos None ma)) false)).
Proof. exact truncation_general. Qed.

(* a file written by the writer, cut at ANY offset j behind the header: a prefix of the written
   values (each exactly as written), then at most one error / end of stream, then end of stream
   only; never a panic, never a value that was not written *)
Theorem C17_truncation_prefix : forall Sc cfg root approx sync vectored (hs : list hop) (close : wop) hdr st outs st',
  schema_wf Sc = true -> fnode_at Sc 0 = Some root -> length sync = 16%nat ->
  wgood Sc root sync hdr st [] [] ->
  Forall (value_ok Sc cfg root) (vals_of hs) ->
  fits (length (vals_of hs)) -> fits (length (encs Sc root (vals_of hs))) ->
  close = WFinish \/ close = WIntoInner \/ close = WDrop ->
  wrun (fun b => b) Sc approx sync vectored st (map (op_of Sc root) hs ++ [close]) = (outs, st') ->
  Forall (fun r : wout * N => fst r = WROk) outs ->
  exists tail,
    w_sink st' = hdr ++ tail /\
    forall (j : nat) pos ma k, exists ds m,
      map erase_borrow ds = map (dval_any Sc root) (vals_of hs) /\
      cr_run Sc cfg sync TAny (length (vals_of hs) + k) (mkCR (RNotInBlock (mkRd tail pos None ma)) false)
        = map IValue ds ++ repeat IEof k /\
      let cut := cr_run Sc cfg sync TAny (length (vals_of hs) + k)
                   (mkCR (RNotInBlock (mkRd (firstn j tail) pos None ma)) false) in
      firstn m cut = firstn m (map IValue ds ++ repeat IEof k) /\ stop_tail (skipn m cut).
Proof. exact truncation_prefix. Qed.

(* a trailing sync marker that differs from the header's *)
Theorem C17_sync : forall Sc cfg sync t i after marker rest n,
  rd_inp i = [] -> after = marker ++ rest -> length marker = 16%nat -> marker <> sync ->
  cr_run Sc cfg sync t (S n) (mkCR (RInBlock i after false 0) false) = IErr EData :: repeat IEof n /\
  cr_next Sc cfg sync t (mkCR (RInBlock i after false 0) false) = (IErr EData, mkCR RBroken true).
Proof. exact sync_mismatch_detected. Qed.

(* declared size / object count disagreeing with the contents *)
Theorem C17_data_left_in_block : forall Sc cfg sync t i after sh n,
  rd_inp i <> [] ->
  cr_next Sc cfg sync t (mkCR (RInBlock i after sh 0) false) = (IErr EData, mkCR RBroken true) /\
  cr_run Sc cfg sync t (S n) (mkCR (RInBlock i after sh 0) false) = IErr EData :: repeat IEof n.
Proof. exact leftover_detected. Qed.
Theorem C17_count_too_small : forall Sc cfg sync root vs1 vs2 after pos ma n,
  schema_wf Sc = true -> fnode_at Sc 0 = Some root ->
  Forall (value_ok Sc cfg root) vs1 -> encs Sc root vs2 <> [] ->
  exists ds,
    cr_run Sc cfg sync TAny (length vs1 + S n)
      (mkCR (RInBlock (mkRd (encs Sc root (vs1 ++ vs2)) pos None ma) after false (N.of_nat (length vs1))) false)
      = map IValue ds ++ IErr EData :: repeat IEof n
    /\ map erase_borrow ds = map (dval_any Sc root) vs1.
Proof. exact count_too_small_detected. Qed.
Theorem C17_size_beyond_input : forall Sc cfg sync t cnt size data pos ma n,
  (0 <= cnt <= I64_MAX)%Z -> (0 <= size <= I64_MAX)%Z -> (Z.of_nat (length data) < size)%Z ->
  let outer := mkRd (Varint.encode_long cnt ++ Varint.encode_long size ++ data) pos None ma in
  cr_next Sc cfg sync t (mkCR (RNotInBlock outer) false) = (IErr EData, mkCR RBroken true) /\
  cr_run Sc cfg sync t (S n) (mkCR (RNotInBlock outer) false) = IErr EData :: repeat IEof n.
Proof. exact size_beyond_input_detected. Qed.
Theorem C17_short_block : forall Sc cfg sync t i after n,
  cr_next Sc cfg sync t (mkCR (RInBlock i after true 0) false) = (IErr EData, mkCR RBroken true) /\
  cr_run Sc cfg sync t (S n) (mkCR (RInBlock i after true 0) false) = IErr EData :: repeat IEof n.
Proof. exact short_block_detected. Qed.

(* after an unrecoverable (I/O or framing) error: reported once, then end of stream; end of stream
   is sticky *)
Theorem C17_once : forall Sc cfg sync t st e st' n,
  cr_next Sc cfg sync t st = (IErr e, st') -> is_io e = true \/ cr_state st' = RBroken ->
  cr_run Sc cfg sync t (S n) st = IErr e :: repeat IEof n.
Proof. exact error_once_then_eof_run. Qed.
Theorem C17_eof_sticky : forall Sc cfg sync t st st',
  cr_next Sc cfg sync t st = (IEof, st') -> forall n, cr_run Sc cfg sync t n st' = repeat IEof n.
Proof. exact eof_sticky. Qed.

(* non-vacuity: all 107 truncations of a two-block file; a corrupted marker; and why "count too
   large" needs a schema whose values are not empty *)
Check Example.all_truncations_ok.
Check Example.sync_mismatch_sample.
Check count_too_large_null_schema_accepted.
Check count_too_large_long_schema.
