(** C17 -- Container reader on damaged files: genuine prefix only, corruption detected.
    Statements only; proofs in proofs/ContainerReadProofs.v. Reader model: model/Container.v
    (cr_open, enter_block, cr_inner, cr_next: NotInBlock / InBlock / Broken, "error once then end of
    stream"), null codec; compressed blocks: model/DecodeLoop.v (BufReader over an abstract streaming
    decoder over Take, the end-of-block check, the snappy block), for EVERY decoder meeting
    `stream_decoder_contract` (validated on the real decoders through hook H4 on every run); the
    libraries themselves are decided on the crate by the correspondence run (every truncation offset,
    single-byte corruptions of count, size, sync, CRC, payload, for all codecs). *)
From Coq Require Import List NArith ZArith.
Require Import Base Schema Sval Ser Target Reader De AvroValue Encoding Denote Wf VectoredWrite Container.
Require Import ContainerReadProofs.
Require Import CodecLoop DecodeLoop DecodeLoopProofs DecodeLoopDe DecodeLoopDePrefix.
Require Import FileSpec ContainerHeaderProofs ContainerChunkProofs DePrefixProofs ContainerDamageProofs.
Import ListNotations.

(* truncation, in full generality: for ANY bytes bs and ANY continuation x (no well-formedness
   assumed), any target: reading bs and reading bs ++ x produce the same items until the cut run
   stops with end-of-stream or an error and then only reports end-of-stream -- the cut file never
   yields a value the longer file does not *)
Theorem C17_truncation_general : forall Sc cfg sync t bs x pos ma n,
  trunc_rel (cr_run Sc cfg sync t n (mkCR (RNotInBlock (mkRd bs pos None ma)) false))
            (cr_run Sc cfg sync t n (mkCR (RNotInBlock (mkRd (bs ++ x) pos None ma)) false)).
Proof. exact truncation_general. Qed.

(* a file written by the writer, cut at ANY offset j behind the header: a prefix of the written
   values (each exactly as written), then at most one error / end of stream, then end of stream
   only; never a panic, never a value that was not written *)
Theorem C17_truncation_prefix : forall Sc cfg root approx sync vectored (hs : list hop) (close : wop) hdr st outs st',
  schema_wf Sc = true -> fnode_at Sc 0 = Some root -> length sync = 16%nat ->
  wgood Sc root sync hdr st [] [] ->
  Forall (value_ok Sc cfg root) (vals_of hs) ->
  fits (length (vals_of hs)) -> fits (length (encs Sc root (vals_of hs))) ->
  close = WFinish \/ close = WIntoInner \/ close = WDrop ->
  wrun (fun b => b) Sc approx sync vectored st (map (op_of Sc root) hs ++ [close]) = (outs, st') ->
  Forall (fun r : wout * N => fst r = WROk) outs ->
  exists tail,
    w_sink st' = hdr ++ tail /\
    forall (j : nat) pos ma k, exists ds m,
      map erase_borrow ds = map (dval_any Sc root) (vals_of hs) /\
      cr_run Sc cfg sync TAny (length (vals_of hs) + k) (mkCR (RNotInBlock (mkRd tail pos None ma)) false)
        = map IValue ds ++ repeat IEof k /\
      let cut := cr_run Sc cfg sync TAny (length (vals_of hs) + k)
                   (mkCR (RNotInBlock (mkRd (firstn j tail) pos None ma)) false) in
      firstn m cut = firstn m (map IValue ds ++ repeat IEof k) /\ stop_tail (skipn m cut).
Proof. exact truncation_prefix. Qed.

(* a trailing sync marker that differs from the header's *)
Theorem C17_sync : forall Sc cfg sync t i after marker rest n,
  rd_inp i = [] -> after = marker ++ rest -> length marker = 16%nat -> marker <> sync ->
  cr_run Sc cfg sync t (S n) (mkCR (RInBlock i after false 0) false) = IErr EData :: repeat IEof n /\
  cr_next Sc cfg sync t (mkCR (RInBlock i after false 0) false) = (IErr EData, mkCR RBroken true).
Proof. exact sync_mismatch_detected. Qed.

(* declared size / object count disagreeing with the contents *)
Theorem C17_data_left_in_block : forall Sc cfg sync t i after sh n,
  rd_inp i <> [] ->
  cr_next Sc cfg sync t (mkCR (RInBlock i after sh 0) false) = (IErr EData, mkCR RBroken true) /\
  cr_run Sc cfg sync t (S n) (mkCR (RInBlock i after sh 0) false) = IErr EData :: repeat IEof n.
Proof. exact leftover_detected. Qed.
Theorem C17_count_too_small : forall Sc cfg sync root vs1 vs2 after pos ma n,
  schema_wf Sc = true -> fnode_at Sc 0 = Some root ->
  Forall (value_ok Sc cfg root) vs1 -> encs Sc root vs2 <> [] ->
  exists ds,
    cr_run Sc cfg sync TAny (length vs1 + S n)
      (mkCR (RInBlock (mkRd (encs Sc root (vs1 ++ vs2)) pos None ma) after false (N.of_nat (length vs1))) false)
      = map IValue ds ++ IErr EData :: repeat IEof n
    /\ map erase_borrow ds = map (dval_any Sc root) vs1.
Proof. exact count_too_small_detected. Qed.
Theorem C17_size_beyond_input : forall Sc cfg sync t cnt size data pos ma n,
  (0 <= cnt <= I64_MAX)%Z -> (0 <= size <= I64_MAX)%Z -> (Z.of_nat (length data) < size)%Z ->
  let outer := mkRd (Varint.encode_long cnt ++ Varint.encode_long size ++ data) pos None ma in
  cr_next Sc cfg sync t (mkCR (RNotInBlock outer) false) = (IErr EData, mkCR RBroken true) /\
  cr_run Sc cfg sync t (S n) (mkCR (RNotInBlock outer) false) = IErr EData :: repeat IEof n.
Proof. exact size_beyond_input_detected. Qed.
Theorem C17_short_block : forall Sc cfg sync t i after n,
  cr_next Sc cfg sync t (mkCR (RInBlock i after true 0) false) = (IErr EData, mkCR RBroken true) /\
  cr_run Sc cfg sync t (S n) (mkCR (RInBlock i after true 0) false) = IErr EData :: repeat IEof n.
Proof. exact short_block_detected. Qed.

(* after an unrecoverable (I/O or framing) error: reported once, then end of stream; end of stream
   is sticky *)
Theorem C17_once : forall Sc cfg sync t st e st' n,
  cr_next Sc cfg sync t st = (IErr e, st') -> is_io e = true \/ cr_state st' = RBroken ->
  cr_run Sc cfg sync t (S n) st = IErr e :: repeat IEof n.
Proof. exact error_once_then_eof_run. Qed.
Theorem C17_eof_sticky : forall Sc cfg sync t st st',
  cr_next Sc cfg sync t st = (IEof, st') -> forall n, cr_run Sc cfg sync t n st' = repeat IEof n.
Proof. exact eof_sticky. Qed.

(* non-vacuity: all 107 truncations of a two-block file; a corrupted marker; and why "count too
   large" needs a schema whose values are not empty *)
Check Example.all_truncations_ok.
Check Example.sync_mismatch_sample.
Check count_too_large_null_schema_accepted.
Check count_too_large_long_schema.

(** ** Compressed blocks (model/DecodeLoop.v) *)

(* the object count lowered: the first values, then "decompressed data left in the block" -- whether the left-over
   bytes sit in the BufReader or are still inside the decoder *)
Theorem C17_compressed_count_lowered :
  forall (D : Type) (dread : D -> bytes -> option chunkst -> nat -> dres * D) (policy : nat -> nat -> option nat)
         Sc cfg root (z : bytes) (d0 : D) (vs1 vs2 : list avalue) sync src ch cap fuel s,
  schema_wf Sc = true -> Forall (value_ok Sc cfg root) vs1 -> encs Sc root vs2 <> [] -> firstn (length z) src = z ->
  stream_decoder_contract D dread z (encs Sc root (vs1 ++ vs2)) z d0 -> (1 <= cap)%nat ->
  (length (encs Sc root (vs1 ++ vs2)) < fuel)%nat ->
  block_open D d0 src ch (length z) cap = Some s ->
  block_run D dread policy dval (de_vdec Sc cfg root) fuel (length vs1) sync s
    = (map (dval_any Sc root) vs1, BEndErr EndLeftover).
Proof. exact compressed_count_lowered_de. Qed.

(* bytes behind the end of the compressed stream inside the declared size: an error, for any value decoder and count *)
Theorem C17_compressed_trailing_garbage :
  forall (D : Type) (dread : D -> bytes -> option chunkst -> nat -> dres * D) (policy : nat -> nat -> option nat)
         (V : Type) (vdec : bytes -> result V * nat)
         (z x junk : bytes) (d0 : D) sync src ch cap fuel count s,
  junk <> [] -> firstn (length z + length junk) src = z ++ junk ->
  stream_decoder_contract D dread z x (z ++ junk) d0 -> (1 <= cap)%nat ->
  block_open D d0 src ch (length z + length junk) cap = Some s ->
  is_err (snd (block_run D dread policy V vdec fuel count sync s)).
Proof. exact trailing_garbage_detected. Qed.

(* the declared size too small (the stream is cut at m): an error -- given that the 16 bytes then read as sync
   marker are not the marker *)
Theorem C17_compressed_cut_stream :
  forall (D : Type) (dread : D -> bytes -> option chunkst -> nat -> dres * D) (policy : nat -> nat -> option nat)
         (V : Type) (vdec : bytes -> result V * nat)
         (z x : bytes) (d0 : D) sync rest m ch cap fuel count s,
  (m < length z)%nat -> stream_decoder_contract D dread z x (firstn m z) d0 -> (1 <= cap)%nat ->
  firstn 16 (skipn m (z ++ sync ++ rest)) <> sync ->
  block_open D d0 (z ++ sync ++ rest) ch m cap = Some s ->
  is_err (snd (block_run D dread policy V vdec fuel count sync s)).
Proof. exact cut_stream_detected. Qed.

(* in these cases whatever the decoder has produced -- all the deserializer can be given -- is a prefix of the
   written data: no byte that was not written, none out of place *)
Theorem C17_compressed_output_genuine :
  forall (D : Type) (dread : D -> bytes -> option chunkst -> nat -> dres * D) (z x a : bytes) (d0 : D) d cons out,
  agree a z -> stream_decoder_contract D dread z x a d0 -> dreach D dread a d0 d cons out -> is_prefix out x.
Proof. exact damaged_output_genuine. Qed.

(* ... and for a value decoder whose success does not depend on bytes it did not read (vdec_prefix_det), every VALUE
   yielded from a block that holds the stream, the stream cut short, or the stream followed by other bytes -- whatever
   the count (<= the number written) -- was written, in order: never a value that was not written *)
Theorem C17_compressed_values_genuine :
  forall (D : Type) (dread : D -> bytes -> option chunkst -> nat -> dres * D) (policy : nat -> nat -> option nat)
         (V : Type) (vdec : bytes -> result V * nat) (W : Type) (P : W -> Prop) (enc1 : W -> bytes) (val : W -> V),
  vdec_ok V vdec W P enc1 val -> vdec_prefix_det V vdec ->
  forall (z : bytes) (d0 : D) (vs : list W) sync src size ch cap fuel count s,
  Forall P vs -> agree (firstn size src) z ->
  stream_decoder_contract D dread z (flat_map enc1 vs) (firstn size src) d0 ->
  (1 <= cap)%nat -> (count <= length vs)%nat ->
  block_open D d0 src ch size cap = Some s ->
  exists i, fst (block_run D dread policy V vdec fuel count sync s) = map val (firstn i vs).
Proof. exact damaged_values_genuine. Qed.

(* snappy: lowered count; wrong CRC; block shorter than the CRC *)
Theorem C17_snappy_count_lowered :
  forall (raw_enc : bytes -> bytes) (raw_dec : bytes -> option bytes) (crc32 : bytes -> N),
  (forall x, raw_dec (raw_enc x) = Some x) -> (forall x, crc32 x < 4294967296) ->
  forall (V : Type) (vdec : bytes -> result V * nat) (W : Type) (P : W -> Prop) (enc1 : W -> bytes) (val : W -> V),
  vdec_ok V vdec W P enc1 val ->
  forall vs1 vs2 sync after, Forall P vs1 -> flat_map enc1 vs2 <> [] ->
  snappy_run raw_dec crc32 V vdec (length vs1) sync
             (snappy_encode raw_enc crc32 (flat_map enc1 (vs1 ++ vs2)) ++ after)
             (length (snappy_encode raw_enc crc32 (flat_map enc1 (vs1 ++ vs2))))
  = Some (map val vs1, BEndErr EndLeftover).
Proof. exact snappy_count_lowered_detected. Qed.

Theorem C17_snappy_bad_crc :
  forall (raw_enc : bytes -> bytes) (raw_dec : bytes -> option bytes) (crc32 : bytes -> N),
  (forall x, raw_dec (raw_enc x) = Some x) ->
  forall (V : Type) (vdec : bytes -> result V * nat) x (t : bytes) after count sync,
  length t = 4%nat -> of_be32 t <> crc32 x ->
  snappy_run raw_dec crc32 V vdec count sync (raw_enc x ++ t ++ after) (length (raw_enc x ++ t)) = None.
Proof. exact snappy_block_bad_crc. Qed.

Theorem C17_snappy_short_block :
  forall (raw_dec : bytes -> option bytes) (crc32 : bytes -> N) (V : Type) (vdec : bytes -> result V * nat)
         src size count sync,
  (size < 4)%nat -> snappy_run raw_dec crc32 V vdec count sync src size = None.
Proof. exact snappy_block_short. Qed.

(* the model runs on damaged blocks (the small codec of DecodeLoop.v): count lowered (data left in the buffer /
   inside the decoder), a trailing byte inside the size, the size one and two too small, the count raised *)
Theorem C17_decoder_model_damage :
  let x := [5; 6; 7] in
  toy_run x [] 2 7 None 1 toy_pol_buffered = Some ([5; 6], BEndErr EndLeftover) /\
  toy_run x [] 2 7 None 8 toy_pol_buffered = Some ([5; 6], BEndErr EndLeftover) /\
  toy_run x [3] 3 8 None 8 toy_pol_buffered = Some (x, BEndErr EndTakeLeft) /\
  toy_run x [3] 3 8 (Some (mkCh 1 [] 1)) 1 toy_pol_buffered = Some (x, BEndErr EndTakeLeft) /\
  toy_run x [] 3 6 None 8 toy_pol_buffered = Some (x, BEndErr EndDecoderErr) /\
  toy_run x [] 3 5 None 8 toy_pol_buffered = Some ([5; 6], BValueErr) /\
  toy_run x [] 4 7 None 8 toy_pol_buffered = Some (x, BValueErr).
Proof. exact toy_damage. Qed.

(** ** Wave 4: prefix determinism of the datum decoder, cuts inside the header, cuts through the chunked
    reader, arbitrary corruption (proofs/DePrefixProofs.v, proofs/ContainerDamageProofs.v) *)

(* the datum decoder never looks behind what it consumes: a successful decode of [pre] is the same successful
   decode (same events, borrowed offsets included) of every input that goes on behind it *)
Theorem C17_de_prefix_determinism : forall Sc cfg fuel n depth favor force t pre x pos ma d rs',
  de Sc cfg fuel n depth favor force t (mkRd pre pos None ma) = (Ok d, rs') ->
  de Sc cfg fuel n depth favor force t (mkRd (pre ++ x) pos None ma)
  = (Ok d, mkRd (rd_inp rs' ++ x) (rd_pos rs') (rd_chunks rs') (rd_max_alloc rs')).
Proof. exact de_prefix_determinism. Qed.

(* ... hence the last hypothesis of C17_compressed_values_genuine holds for the real value decoder: every value
   yielded from a compressed block that holds the written stream, the stream cut short, or the stream followed by
   other bytes -- whatever the count (<= the number written) -- was written, in order *)
Theorem C17_compressed_values_genuine_de :
  forall (D : Type) (dread : D -> bytes -> option chunkst -> nat -> dres * D) (policy : nat -> nat -> option nat)
         Sc cfg root, schema_wf Sc = true ->
  forall (z : bytes) (d0 : D) (vs : list avalue) sync src size ch cap fuel count s,
  Forall (value_ok Sc cfg root) vs -> agree (firstn size src) z ->
  stream_decoder_contract D dread z (flat_map (enc1 Sc root) vs) (firstn size src) d0 ->
  (1 <= cap)%nat -> (count <= length vs)%nat ->
  block_open D d0 src ch size cap = Some s ->
  exists i, fst (block_run D dread policy dval (de_vdec Sc cfg root) fuel count sync s)
            = map (dval_any Sc root) (firstn i vs).
Proof. exact damaged_values_genuine_de. Qed.

(* a written file cut at ANY offset inside its header is refused with an error by the slice reader and by the
   chunked reader (any plan): never opened with other metadata, never a panic *)
Theorem C17_header_truncation : forall sync json codec user h tail k pos ma,
  header_bytes sync json codec user = Ok h ->
  length sync = 16%nat -> keys_utf8 user -> (length user <= 998)%nat ->
  (k < length h)%nat ->
  exists e, cr_open (mkRd (firstn k (h ++ tail)) pos None ma) = Err e.
Proof. exact header_truncation. Qed.
Theorem C17_header_truncation_chunked : forall sync json codec user h tail k plan ma,
  header_bytes sync json codec user = Ok h ->
  length sync = 16%nat -> keys_utf8 user -> (length user <= 998)%nat ->
  N.of_nat (length (h ++ tail)) <= ma ->
  (k < length h)%nat ->
  exists e, cr_open (chunked_reader (firstn k (h ++ tail)) plan ma) = Err e.
Proof. exact header_truncation_chunked. Qed.

(* a file written by the writer model, cut at ANY offset j and read through the CHUNKED reader (any plan): inside
   the header an error; behind it the written metadata and a prefix of the written values, each exactly as the
   whole file yields it, then at most one error / end of stream and end of stream only *)
Theorem C17_chunked_truncation_prefix :
  forall Sc cfg root approx sync vectored json codec user sched st0 hs close outs st',
  schema_wf Sc = true -> fnode_at Sc 0 = Some root -> length sync = 16%nat ->
  keys_utf8 user -> (length user <= 998)%nat ->
  wbuild sync json codec user sched = (WROk, st0) ->
  Forall (value_ok Sc cfg root) (vals_of hs) ->
  fits (length (vals_of hs)) -> fits (length (encs Sc root (vals_of hs))) ->
  close = WFinish \/ close = WIntoInner \/ close = WDrop ->
  wrun (fun b => b) Sc approx sync vectored st0 (map (op_of Sc root) hs ++ [close]) = (outs, st') ->
  Forall (fun r => fst r = WROk) outs ->
  forall plan ma k j, N.of_nat (length (w_sink st')) <= ma ->
  ((j < length (w_sink st0))%nat ->
     exists e, cr_open (chunked_reader (firstn j (w_sink st')) plan ma) = Err e) /\
  ((length (w_sink st0) <= j)%nat ->
     exists r1 ds m,
       cr_open (chunked_reader (firstn j (w_sink st')) plan ma) = Ok (header_entries json codec user, sync, r1) /\
       map erase_borrow ds = map (dval_any Sc root) (vals_of hs) /\
       cr_run Sc cfg sync TAny (length (vals_of hs) + k) (mkCR (RNotInBlock (ext (skipn j (w_sink st')) r1)) false)
         = map IValue ds ++ repeat IEof k /\
       let cut := cr_run Sc cfg sync TAny (length (vals_of hs) + k) (mkCR (RNotInBlock r1) false) in
       firstn m cut = firstn m (map IValue ds ++ repeat IEof k) /\ stop_tail (skipn m cut)).
Proof. exact chunked_truncation_prefix. Qed.

(* ARBITRARY bytes (any corruption), slice or chunked reader, any target and configuration: opening never
   panics and no call of the reader ever panics *)
Theorem C17_corruption_no_panic : forall Sc cfg sync t file plan ma n r,
  schema_wf Sc = true ->
  (forall p, cr_open (slice_reader file) <> Panic p) /\
  (forall p, cr_open (chunked_reader file plan ma) <> Panic p) /\
  Forall not_panic (cr_run Sc cfg sync t n (mkCR (RNotInBlock r) false)).
Proof. exact corruption_no_panic. Qed.

(* the model's own give-up value (IUnmodelled) is returned only after 499 empty blocks in a row, or because the
   datum decoder ran out of the model's fuel inside a block; for the dynamically typed targets and inputs within
   the decoder's fuel bound only the empty blocks remain *)
Theorem C17_reader_give_up_only : forall (Sc : fschema) (cfg : dcfg) (sync : bytes) (t : dtarget) (st st' : crstate),
  cr_next Sc cfg sync t st = (IUnmodelled, st') ->
  (exists o o' : rstate, empties Sc cfg sync t 499 o o') \/
  (exists (i : rstate) (n : N) (root : fnode) (r : result dval) (i' : rstate),
     n <> 0 /\ fnode_at Sc 0 = Some root /\
     de Sc cfg FUEL_SINK root (c_depth cfg) false false t i = (r, i') /\ (r = OutOfFuel \/ r = Unmodelled)).
Proof. exact cr_next_unmodelled. Qed.
Theorem C17_reader_give_up_any : forall (Sc : fschema) (cfg : dcfg) (sync : bytes) (t : dtarget),
  schema_wf Sc = true -> forall st st' : crstate,
  t = TAny \/ t = TIgnored -> c_max_seq cfg < 2 ^ 64 - 1 ->
  (DeSafetyProofs.work_bound Sc cfg (c_depth cfg) (sz (cr_state st)) <= FUEL_SINK)%nat ->
  cr_next Sc cfg sync t st = (IUnmodelled, st') -> exists o o' : rstate, empties Sc cfg sync t 499 o o'.
Proof. exact cr_next_unmodelled_any. Qed.

Check DamageExamples.header_cuts_refused.
Check DamageExamples.all_chunked_truncations_ok.
Check DamageExamples.chunked_delivers_more.
Check DamageExamples.corruptions_no_panic.
Check prefix_determinism_example.

(** ** Whole files with compressed blocks, damaged (model/ContainerCodec.v, proofs/ContainerCodecDamage.v) *)
Require Import ContainerCodec ContainerCodecProofs ContainerCodecDamage.
Local Open Scope N_scope.

(* a file written by the writer model with any block codec, CUT at any offset j and read through the slice reader or a BufRead
   following any chunk plan ([reads_file]): inside the header an error; behind it the written metadata and a PREFIX of the written
   values, each exactly as written, never the model's give-up value; a cut at or behind the end yields everything and end of stream.
   Contract on cut streams: stream_codec_cut_ok (shown necessary: ToyDamage.cut_contract_needed) *)
(* the count of one block lowered / raised: the values before that block and the first c of the block, then an error
   (lowered: data left in the block; raised: the datum decoder fails on the empty rest -- for roots whose datums are not empty);
   the payload of one block replaced by ANY bytes agreeing with the original stream under the contract: only written values are
   delivered, in order (needs the size long to equal the payload length: ToyDamage.payload_size_mismatch_refuted) *)
Theorem C17_compressed_file_truncated :
  forall (enc : bytes -> bytes) (D : Type) (dread : D -> bytes -> option chunkst -> nat -> dres * D) (d0 : D)
  (policy : nat -> nat -> option nat) (raw_dec : bytes -> option bytes) (crc32 : bytes -> N) (lfuel : nat)
  (Sc : fschema) (cfg : dcfg) (root : fnode) (approx : N) (sync : bytes) (vectored : bool),
  schema_wf Sc = true ->
  fnode_at Sc 0 = Some root ->
  length sync = 16%nat ->
  forall (cap : nat) (json cname : bytes) (user : list (bytes * bytes)) (sched : list wans) (st0 : wstate)
  (hs : list hop) (close : wop) (outs : list (wout * N)) (st' : wstate),
  (1 <= cap)%nat ->
  ContainerHeaderProofs.keys_utf8 user ->
  (length user <= 998)%nat ->
  wbuild sync json cname user sched = (WROk, st0) ->
  Forall (value_ok Sc cfg root) (vals_of hs) ->
  fits (length (vals_of hs)) ->
  (length (encs Sc root (vals_of hs)) < lfuel)%nat ->
  stream_codec_cut_ok enc D dread d0 Sc root (vals_of hs) ->
  close = WFinish \/ close = WIntoInner \/ close = WDrop ->
  wrun enc Sc approx sync vectored st0 (map (op_of Sc root) hs ++ [close]) = (outs, st') ->
  Forall (fun r : wout * N => fst r = WROk) outs ->
  forall (j : nat) (input : rstate),
  reads_file (length (w_sink st')) (firstn j (w_sink st')) input ->
  ((j < length (w_sink st0))%nat ->
  exists e : err, ccr_file D dread d0 policy raw_dec crc32 dval (cc_vdec Sc cfg root) (BStream cap) lfuel input = Err e) /\
  ((length (w_sink st0) <= j)%nat ->
  exists (i : nat) (e : cend),
  ccr_file D dread d0 policy raw_dec crc32 dval (cc_vdec Sc cfg root) (BStream cap) lfuel input =
  Ok (ContainerHeaderProofs.header_entries json cname user, sync, map (dval_any Sc root) (firstn i (vals_of hs)), e) /\
  e <> CFuel /\ ((length (w_sink st') <= j)%nat -> i = length (vals_of hs) /\ e = CEof)).
Proof. exact file_truncated_prefix_codec. Qed.

Theorem C17_compressed_file_count_changed :
  forall (enc : bytes -> bytes) (D : Type) (dread : D -> bytes -> option chunkst -> nat -> dres * D) (d0 : D)
  (policy : nat -> nat -> option nat) (raw_dec : bytes -> option bytes) (crc32 : bytes -> N) (lfuel : nat)
  (Sc : fschema) (cfg : dcfg) (root : fnode) (approx : N) (sync : bytes) (vectored : bool),
  schema_wf Sc = true ->
  fnode_at Sc 0 = Some root ->
  length sync = 16%nat ->
  forall (cap : nat) (json cname : bytes) (user : list (bytes * bytes)) (sched : list wans) (st0 : wstate)
  (hs : list hop) (close : wop) (outs : list (wout * N)) (st' : wstate),
  (1 <= cap)%nat ->
  ContainerHeaderProofs.keys_utf8 user ->
  (length user <= 998)%nat ->
  wbuild sync json cname user sched = (WROk, st0) ->
  Forall (value_ok Sc cfg root) (vals_of hs) ->
  fits (length (vals_of hs)) ->
  (length (encs Sc root (vals_of hs)) < lfuel)%nat ->
  stream_codec_ok enc D dread d0 Sc root (vals_of hs) ->
  close = WFinish \/ close = WIntoInner \/ close = WDrop ->
  wrun enc Sc approx sync vectored st0 (map (op_of Sc root) hs ++ [close]) = (outs, st') ->
  Forall (fun r : wout * N => fst r = WROk) outs ->
  exists blocks : list (list avalue),
  w_sink st' = w_sink st0 ++ flat_map (gblk enc sync avalue (enc1 Sc root)) blocks /\
  concat blocks = vals_of hs /\
  (forall (bs1 : list (list avalue)) (b : list avalue) (bs2 : list (list avalue)),
  blocks = bs1 ++ b :: bs2 ->
  let z := enc (encs Sc root b) in
  let file :=
  fun c : nat =>
  w_sink st0 ++
  flat_map (gblk enc sync avalue (enc1 Sc root)) bs1 ++
  (Varint.encode_long (Z.of_nat c) ++ Varint.encode_long (Z.of_nat (length z)) ++ z ++ sync) ++
  flat_map (gblk enc sync avalue (enc1 Sc root)) bs2 in
  (forall (vs1 vs2 : list avalue) (input : rstate),
  b = vs1 ++ vs2 ->
  encs Sc root vs2 <> [] ->
  reads_file (length (file (length vs1))) (file (length vs1)) input ->
  ccr_file D dread d0 policy raw_dec crc32 dval (cc_vdec Sc cfg root) (BStream cap) lfuel input =
  Ok
  (ContainerHeaderProofs.header_entries json cname user, sync, map (dval_any Sc root) (concat bs1 ++ vs1),
  CBlock (BEndErr EndLeftover))) /\
  (forall (extra : nat) (input : rstate),
  fits (length b + S extra) ->
  (forall v : dval, fst (cc_vdec Sc cfg root []) <> Ok v) ->
  reads_file (length (file (length b + S extra)%nat)) (file (length b + S extra)%nat) input ->
  ccr_file D dread d0 policy raw_dec crc32 dval (cc_vdec Sc cfg root) (BStream cap) lfuel input =
  Ok (ContainerHeaderProofs.header_entries json cname user, sync, map (dval_any Sc root) (concat bs1 ++ b), CBlock BValueErr))).
Proof. exact file_count_changed_codec. Qed.

Theorem C17_compressed_file_payload_replaced :
  forall (enc : bytes -> bytes) (D : Type) (dread : D -> bytes -> option chunkst -> nat -> dres * D) (d0 : D)
  (policy : nat -> nat -> option nat) (raw_dec : bytes -> option bytes) (crc32 : bytes -> N) (lfuel : nat)
  (Sc : fschema) (cfg : dcfg) (root : fnode) (approx : N) (sync : bytes) (vectored : bool),
  schema_wf Sc = true ->
  fnode_at Sc 0 = Some root ->
  length sync = 16%nat ->
  forall (cap : nat) (json cname : bytes) (user : list (bytes * bytes)) (sched : list wans) (st0 : wstate)
  (hs : list hop) (close : wop) (outs : list (wout * N)) (st' : wstate),
  (1 <= cap)%nat ->
  ContainerHeaderProofs.keys_utf8 user ->
  (length user <= 998)%nat ->
  wbuild sync json cname user sched = (WROk, st0) ->
  Forall (value_ok Sc cfg root) (vals_of hs) ->
  fits (length (vals_of hs)) ->
  (length (encs Sc root (vals_of hs)) < lfuel)%nat ->
  stream_codec_ok enc D dread d0 Sc root (vals_of hs) ->
  close = WFinish \/ close = WIntoInner \/ close = WDrop ->
  wrun enc Sc approx sync vectored st0 (map (op_of Sc root) hs ++ [close]) = (outs, st') ->
  Forall (fun r : wout * N => fst r = WROk) outs ->
  exists blocks : list (list avalue),
  w_sink st' = w_sink st0 ++ flat_map (gblk enc sync avalue (enc1 Sc root)) blocks /\
  concat blocks = vals_of hs /\
  (forall (bs1 : list (list avalue)) (b : list avalue) (bs2 : list (list avalue)) (pay mark : list N) (input : rstate),
  blocks = bs1 ++ b :: bs2 ->
  length mark = 16%nat ->
  fits (length pay) ->
  agree pay (enc (encs Sc root b)) ->
  stream_decoder_contract D dread (enc (encs Sc root b)) (encs Sc root b) pay d0 ->
  let file :=
  w_sink st0 ++
  flat_map (gblk enc sync avalue (enc1 Sc root)) bs1 ++
  (Varint.encode_long (Z.of_nat (length b)) ++ Varint.encode_long (Z.of_nat (length pay)) ++ pay ++ mark) ++
  flat_map (gblk enc sync avalue (enc1 Sc root)) bs2 in
  reads_file (length file) file input ->
  exists (i : nat) (e : cend),
  ccr_file D dread d0 policy raw_dec crc32 dval (cc_vdec Sc cfg root) (BStream cap) lfuel input =
  Ok (ContainerHeaderProofs.header_entries json cname user, sync, map (dval_any Sc root) (firstn i (vals_of hs)), e) /\
  e <> CFuel).
Proof. exact file_payload_replaced_prefix_codec. Qed.

Theorem C17_snappy_file_truncated :
  forall (raw_enc : bytes -> bytes) (raw_dec : bytes -> option bytes) (crc32 : bytes -> N),
  (forall x : bytes, raw_dec (raw_enc x) = Some x) ->
  (forall x : bytes, crc32 x < 4294967296)%N ->
  forall (D : Type) (dread : D -> bytes -> option chunkst -> nat -> dres * D) (d0 : D) (policy : nat -> nat -> option nat)
  (lfuel : nat) (Sc : fschema) (cfg : dcfg) (root : fnode) (approx : N) (sync : bytes) (vectored : bool),
  schema_wf Sc = true ->
  fnode_at Sc 0 = Some root ->
  length sync = 16%nat ->
  forall (json cname : bytes) (user : list (bytes * bytes)) (sched : list wans) (st0 : wstate) (hs : list hop)
  (close : wop) (outs : list (wout * N)) (st' : wstate),
  ContainerHeaderProofs.keys_utf8 user ->
  (length user <= 998)%nat ->
  wbuild sync json cname user sched = (WROk, st0) ->
  Forall (value_ok Sc cfg root) (vals_of hs) ->
  fits (length (vals_of hs)) ->
  snappy_sizes_ok raw_enc crc32 Sc root (vals_of hs) ->
  close = WFinish \/ close = WIntoInner \/ close = WDrop ->
  wrun (snappy_encode raw_enc crc32) Sc approx sync vectored st0 (map (op_of Sc root) hs ++ [close]) = (outs, st') ->
  Forall (fun r : wout * N => fst r = WROk) outs ->
  forall (j : nat) (input : rstate),
  reads_file (length (w_sink st')) (firstn j (w_sink st')) input ->
  ((j < length (w_sink st0))%nat ->
  exists e : err, ccr_file D dread d0 policy raw_dec crc32 dval (cc_vdec Sc cfg root) BSnappy lfuel input = Err e) /\
  ((length (w_sink st0) <= j)%nat ->
  exists (i : nat) (e : cend),
  ccr_file D dread d0 policy raw_dec crc32 dval (cc_vdec Sc cfg root) BSnappy lfuel input =
  Ok (ContainerHeaderProofs.header_entries json cname user, sync, map (dval_any Sc root) (firstn i (vals_of hs)), e) /\
  e <> CFuel /\ ((length (w_sink st') <= j)%nat -> i = length (vals_of hs) /\ e = CEof)).
Proof. exact file_truncated_prefix_snappy. Qed.

Theorem C17_compressed_reader_total :
  forall (D : Type) (dread : D -> bytes -> option chunkst -> nat -> dres * D) (d0 : D) (policy : nat -> nat -> option nat)
  (raw_dec : bytes -> option bytes) (crc32 : bytes -> N) (V : Type) (vdec : bytes -> result V * nat) (lfuel : nat)
  (sync : bytes) (codec : bcodec) (r : rstate), snd (ccr_read D dread d0 policy raw_dec crc32 V vdec codec lfuel sync r) <> CFuel.
Proof. exact ccr_read_no_fuel. Qed.

Theorem C17_empty_datum_rejected :
  forall (Sc : fschema) (cfg : dcfg) (root : fnode),
  nonempty_first root = true -> forall v : dval, fst (cc_vdec Sc cfg root []) <> Ok v.
Proof. exact cc_vdec_empty_rejected. Qed.


Check ToyDamage.toy_truncations_computed.       (* every cut of the two-block example file, both readers *)
Check ToyDamage.toy_truncations_by_theorem.
Check ToyDamage.count_changed_null_schema_accepted.
Check ToyDamage.payload_size_mismatch_refuted.
Check ToyDamage.cut_contract_needed.
Check cc_vdec_empty_accepted_null.

(** ** snappy files: count changed, payload replaced (proofs/ContainerCodecDamageSnappy.v); genuineness needs the explicit
    no-collision hypothesis (the raw decoder returns the original data or fails): shown necessary by payload_collision_refuted *)
Require Import ContainerCodecDamageSnappy.
Theorem C17_snappy_file_count_changed :
  forall (raw_enc : bytes -> bytes) (raw_dec : bytes -> option bytes) (crc32 : bytes -> N),
  (forall x : bytes, raw_dec (raw_enc x) = Some x) ->
  (forall x : bytes, crc32 x < 4294967296)%N ->
  forall (D : Type) (dread : D -> bytes -> option chunkst -> nat -> dres * D) (d0 : D) (policy : nat -> nat -> option nat)
  (lfuel : nat) (Sc : fschema) (cfg : dcfg) (root : fnode) (approx : N) (sync : bytes) (vectored : bool),
  schema_wf Sc = true ->
  fnode_at Sc 0 = Some root ->
  length sync = 16%nat ->
  forall (json cname : bytes) (user : list (bytes * bytes)) (sched : list wans) (st0 : wstate) (hs : list hop)
  (close : wop) (outs : list (wout * N)) (st' : wstate),
  ContainerHeaderProofs.keys_utf8 user ->
  (length user <= 998)%nat ->
  wbuild sync json cname user sched = (WROk, st0) ->
  Forall (value_ok Sc cfg root) (vals_of hs) ->
  fits (length (vals_of hs)) ->
  snappy_sizes_ok raw_enc crc32 Sc root (vals_of hs) ->
  close = WFinish \/ close = WIntoInner \/ close = WDrop ->
  wrun (snappy_encode raw_enc crc32) Sc approx sync vectored st0 (map (op_of Sc root) hs ++ [close]) = (outs, st') ->
  Forall (fun r : wout * N => fst r = WROk) outs ->
  exists blocks : list (list avalue),
  w_sink st' = w_sink st0 ++ flat_map (gblk (snappy_encode raw_enc crc32) sync avalue (enc1 Sc root)) blocks /\
  concat blocks = vals_of hs /\
  (forall (bs1 : list (list avalue)) (b : list avalue) (bs2 : list (list avalue)),
  blocks = bs1 ++ b :: bs2 ->
  let z := snappy_encode raw_enc crc32 (encs Sc root b) in
  let file :=
  fun c : nat =>
  w_sink st0 ++
  flat_map (gblk (snappy_encode raw_enc crc32) sync avalue (enc1 Sc root)) bs1 ++
  (Varint.encode_long (Z.of_nat c) ++ Varint.encode_long (Z.of_nat (length z)) ++ z ++ sync) ++
  flat_map (gblk (snappy_encode raw_enc crc32) sync avalue (enc1 Sc root)) bs2 in
  (forall (vs1 vs2 : list avalue) (input : rstate),
  b = vs1 ++ vs2 ->
  encs Sc root vs2 <> [] ->
  reads_file (length (file (length vs1))) (file (length vs1)) input ->
  ccr_file D dread d0 policy raw_dec crc32 dval (cc_vdec Sc cfg root) BSnappy lfuel input =
  Ok
  (ContainerHeaderProofs.header_entries json cname user, sync, map (dval_any Sc root) (concat bs1 ++ vs1),
  CBlock (BEndErr EndLeftover))) /\
  (forall (extra : nat) (input : rstate),
  fits (length b + S extra) ->
  (forall v : dval, fst (cc_vdec Sc cfg root []) <> Ok v) ->
  reads_file (length (file (length b + S extra)%nat)) (file (length b + S extra)%nat) input ->
  ccr_file D dread d0 policy raw_dec crc32 dval (cc_vdec Sc cfg root) BSnappy lfuel input =
  Ok (ContainerHeaderProofs.header_entries json cname user, sync, map (dval_any Sc root) (concat bs1 ++ b), CBlock BValueErr))).
Proof. exact file_count_changed_snappy. Qed.

Theorem C17_snappy_file_payload_replaced :
  forall (raw_enc : bytes -> bytes) (raw_dec : bytes -> option bytes) (crc32 : bytes -> N),
  (forall x : bytes, raw_dec (raw_enc x) = Some x) ->
  (forall x : bytes, crc32 x < 4294967296)%N ->
  forall (D : Type) (dread : D -> bytes -> option chunkst -> nat -> dres * D) (d0 : D) (policy : nat -> nat -> option nat)
  (lfuel : nat) (Sc : fschema) (cfg : dcfg) (root : fnode) (approx : N) (sync : bytes) (vectored : bool),
  schema_wf Sc = true ->
  fnode_at Sc 0 = Some root ->
  length sync = 16%nat ->
  forall (json cname : bytes) (user : list (bytes * bytes)) (sched : list wans) (st0 : wstate) (hs : list hop)
  (close : wop) (outs : list (wout * N)) (st' : wstate),
  ContainerHeaderProofs.keys_utf8 user ->
  (length user <= 998)%nat ->
  wbuild sync json cname user sched = (WROk, st0) ->
  Forall (value_ok Sc cfg root) (vals_of hs) ->
  fits (length (vals_of hs)) ->
  snappy_sizes_ok raw_enc crc32 Sc root (vals_of hs) ->
  close = WFinish \/ close = WIntoInner \/ close = WDrop ->
  wrun (snappy_encode raw_enc crc32) Sc approx sync vectored st0 (map (op_of Sc root) hs ++ [close]) = (outs, st') ->
  Forall (fun r : wout * N => fst r = WROk) outs ->
  exists blocks : list (list avalue),
  w_sink st' = w_sink st0 ++ flat_map (gblk (snappy_encode raw_enc crc32) sync avalue (enc1 Sc root)) blocks /\
  concat blocks = vals_of hs /\
  (forall (bs1 : list (list avalue)) (b : list avalue) (bs2 : list (list avalue)) (raw trailer mark : list N) (input : rstate),
  blocks = bs1 ++ b :: bs2 ->
  length mark = 16%nat ->
  length trailer = 4%nat ->
  fits (length (raw ++ trailer)) ->
  (forall d : bytes, raw_dec raw = Some d -> of_be32 trailer = crc32 d) ->
  (forall d : bytes, raw_dec raw = Some d -> d = encs Sc root b) ->
  let pay := raw ++ trailer in
  let file :=
  w_sink st0 ++
  flat_map (gblk (snappy_encode raw_enc crc32) sync avalue (enc1 Sc root)) bs1 ++
  (Varint.encode_long (Z.of_nat (length b)) ++ Varint.encode_long (Z.of_nat (length pay)) ++ pay ++ mark) ++
  flat_map (gblk (snappy_encode raw_enc crc32) sync avalue (enc1 Sc root)) bs2 in
  reads_file (length file) file input ->
  (exists (i : nat) (e : cend),
  ccr_file D dread d0 policy raw_dec crc32 dval (cc_vdec Sc cfg root) BSnappy lfuel input =
  Ok (ContainerHeaderProofs.header_entries json cname user, sync, map (dval_any Sc root) (concat bs1 ++ firstn i b), e) /\
  e <> CEof /\ e <> CFuel) \/
  mark = sync /\
  ccr_file D dread d0 policy raw_dec crc32 dval (cc_vdec Sc cfg root) BSnappy lfuel input =
  Ok (ContainerHeaderProofs.header_entries json cname user, sync, map (dval_any Sc root) (vals_of hs), CEof)).
Proof. exact file_payload_replaced_snappy_raw. Qed.


Check payload_collision_refuted.
