(** C15 -- Container writer: valid file at every quiescent point; failed values leave none.
    Statements only; proofs in proofs/ContainerProofs.v (about model/Container.v, the model of
    object_container_file_encoding/writer/mod.rs, tied to the crate by the correspondence run).
    [enc] is the block compressor (any function); the value serializer is the real [ser]. *)
From Coq Require Import List NArith.
Require Import Base Schema Sval Ser VectoredWrite Container FileSpec ContainerProofs ContainerFinal.
Import ListNotations.

(* a value whose serialization fails contributes no bytes and no count: buffer, count, pending
   block and sink are what they were after the preparatory flush *)
Theorem C15_fail : forall enc Sc approx sync vectored st v root st2 r s',
  w_gone st = false ->
  andthen (flush_finished sync vectored st) (maybe_finish_before enc approx sync vectored) = (WROk, st2) ->
  fnode_at Sc 0 = Some root ->
  ser Sc root v (mkS (w_buf st2) None (w_bufs st2) (w_sbufs st2) false) = (r, s') ->
  r <> Ok tt ->
  exists o st', wstep enc Sc approx sync vectored st (WSerialize v) = (o, st') /\ o <> WROk
     /\ w_buf st' = w_buf st2 /\ w_n st' = w_n st2 /\ w_pending st' = w_pending st2
     /\ w_sink st' = w_sink st2.
Proof. exact wstep_failed_value_leaves_block. Qed.

(* after building, and after EVERY call that returned Ok (any sink, any schedule), the sink holds
   the header followed by complete blocks (count > 0, size, data, sync) and nothing is pending;
   blocks are only ever appended *)
Theorem C15_built : forall enc sync json codec user sched st,
  wbuild sync json codec user sched = (WROk, st) ->
  wrep enc sync (w_sink st) st [] /\ wtidy st /\ w_gone st = false.
Proof. exact wbuild_wrep. Qed.
Theorem C15_inv : forall enc Sc approx sync vectored hdr st blocks op st',
  wrep enc sync hdr st blocks ->
  wstep enc Sc approx sync vectored st op = (WROk, st') ->
  exists blocks', wrep enc sync hdr st' blocks' /\ (exists more, blocks' = blocks ++ more).
Proof. exact wstep_ok_preserves_wrep. Qed.

(* accounting over whole histories on a Vec sink: the data of the flushed blocks followed by the
   buffer is exactly the bytes contributed by the calls in order (a successful serialize: what ser
   appended; a push: its bytes; a failed serialize: nothing), and the counts add up *)
Theorem C15_accounting : forall enc Sc approx sync vectored ops hdr st blocks outs st',
  wrep enc sync hdr st blocks -> w_sched st = [] ->
  wrun enc Sc approx sync vectored st ops = (outs, st') ->
  Forall (fun r => fst r <> WRUnmodelled) outs ->
  ran enc Sc sync hdr st blocks ops outs st' /\ w_sched st' = [].
Proof. exact wrun_accounting_vec_real. Qed.

(* the same for any sink and schedule over the histories in which every call returned Ok *)
Theorem C15_accounting_any_sink : forall enc Sc approx sync vectored ops hdr st blocks outs st',
  wrep enc sync hdr st blocks ->
  wrun enc Sc approx sync vectored st ops = (outs, st') ->
  Forall (fun r => fst r = WROk) outs -> ran enc Sc sync hdr st blocks ops outs st'.
Proof. exact wrun_accounting_all_ok_real. Qed.

(* after finish_block / into_inner / drop returning Ok nothing is left outside the blocks *)
Theorem C15_flush : forall enc Sc approx sync vectored hdr st blocks op st',
  wrep enc sync hdr st blocks -> wtidy st ->
  op = WFinish \/ op = WIntoInner \/ op = WDrop ->
  wstep enc Sc approx sync vectored st op = (WROk, st') -> w_n st' = 0 /\ w_buf st' = [].
Proof. exact wstep_finish_empties_tidy. Qed.

(* the "previous block should always be flushed" assertion never fires *)
Theorem C15_nopanic : forall enc Sc approx sync vectored ops st, winv st ->
  ~ In (WRPanic PWriterBlockNotFlushed) (map fst (fst (wrun enc Sc approx sync vectored st ops))).
Proof. exact wrun_no_block_panic_real. Qed.

(* with the null codec the sink is a file of the grammar: the independent reference parser reads
   back exactly the blocks *)
Theorem C15_parses : forall layout sync st blocks,
  wrep (fun b => b) sync (MAGIC ++ wr_meta layout ++ sync) st blocks ->
  Forall wblock_small blocks -> length sync = 16%nat ->
  Forall (fun blk => snd blk <> [] /\ N.of_nat (length (snd blk)) < 100000 /\
                     len_ok (flat_map wr_entry (snd blk)) /\ Forall entry_ok (snd blk)) layout ->
  ref_parse (w_sink st) = Some (mkFile (flat_map snd layout) sync (map to_rblock blocks)).
Proof. exact sink_parses. Qed.
