(** C04 -- Decoding untrusted bytes is total and resource-bounded under the configured limits.
    Statements only; proofs in proofs/DeSafetyProofs.v. Everything below holds for ARBITRARY input
    bytes, for every target program (the model of a Deserialize impl), every limit configuration,
    and for the slice reader as well as a BufRead delivering any chunking, unless a line says
    otherwise. [schema_keys_okb]: every key stored in a node is in range -- what freezing
    guarantees (C19_freeze_keys). Fuel is the model's stand-in for running time / stack:
    OutOfFuel is the only fuel-dependent outcome (C04_fuel_mono) and an explicit bound that
    depends only on the limits, the schema and the input LENGTH suffices (C04_total). *)
From Coq Require Import List NArith ZArith.
Require Import Base Schema Varint Reader Target De Wf DeSafetyProofs DeTotalProofs.
Import ListNotations.
Open Scope N_scope.

(* never panics: none of the expect / unwrap / index / unreachable sites is reachable *)
Theorem C04_nopanic : forall Sc cfg fuel n depth favor force t rs p,
  schema_keys_okb Sc = true -> keys_okb Sc n = true ->
  fst (de Sc cfg fuel n depth favor force t rs) <> Panic p.
Proof. exact de_no_panic_keys. Qed.
Theorem C04_datum_nopanic : forall Sc cfg fuel t rs p,
  schema_wf Sc = true -> de_datum fuel Sc cfg t rs <> Panic p.
Proof. exact de_datum_no_panic. Qed.

(* once the fuel suffices the result (value and reader state) no longer depends on it *)
Theorem C04_fuel_mono : forall Sc cfg fuel n depth favor force t rs,
  fst (de Sc cfg fuel n depth favor force t rs) <> OutOfFuel ->
  forall k, de Sc cfg (fuel + k) n depth favor force t rs = de Sc cfg fuel n depth favor force t rs.
Proof. exact de_fuel_mono. Qed.

(* termination with an explicit bound: (depth budget + 1) * (max_seq_size or widest record + 10)
   + input length -- a function of the limits and the input length, not of numbers written in
   the input; dynamically typed and ignoring consumers *)
Theorem C04_total : forall Sc cfg fuel t rs,
  schema_wf Sc = true -> c_max_seq cfg < 2 ^ 64 - 1 -> t = TAny \/ t = TIgnored ->
  (work_bound Sc cfg (c_depth cfg) (blen (rd_inp rs)) <= fuel)%nat ->
  (exists d r, de_datum fuel Sc cfg t rs = Ok (d, r)) \/ (exists e, de_datum fuel Sc cfg t rs = Err e).
Proof. exact de_datum_any_ok_or_err. Qed.
Theorem C04_work_bound : forall Sc cfg depth len,
  work_bound Sc cfg depth len =
  (S depth * (Nat.max (N.to_nat (c_max_seq cfg)) (max_fields Sc) + 10) + N.to_nat len)%nat.
Proof. exact work_bound_closed. Qed.

(* ... and for EVERY target program (any finite tree of hints and visitors, typed Rust shapes
   included): the bound additionally grows with the height of the target. Unmodelled marks the three
   places where the model does not follow the crate (f64 hint on a decimal, enum-typed map key over a
   record, a variant payload of another shape); [modelled] excludes them syntactically *)
Theorem C04_total_target : forall Sc cfg fuel t rs,
  schema_wf Sc = true -> c_max_seq cfg < 2 ^ 64 - 1 ->
  (work_bound_t Sc cfg (c_depth cfg) t (blen (rd_inp rs)) <= fuel)%nat ->
  (exists d r, de_datum fuel Sc cfg t rs = Ok (d, r)) \/ (exists e, de_datum fuel Sc cfg t rs = Err e) \/
  de_datum fuel Sc cfg t rs = Unmodelled.
Proof. exact de_datum_total_target. Qed.
Theorem C04_work_bound_target : forall Sc cfg depth t len,
  work_bound_t Sc cfg depth t len =
  (S depth * (Nat.max (N.to_nat (c_max_seq cfg)) (max_fields Sc) + 10 + 2 * theight t) + N.to_nat len)%nat.
Proof. exact work_bound_t_closed. Qed.
Theorem C04_total_any_node : forall Sc cfg fuel n depth favor force t rs,
  c_max_seq cfg < 2 ^ 64 - 1 -> (nfields n <= max_fields Sc)%nat ->
  (work_bound_t Sc cfg depth t (blen (rd_inp rs)) <= fuel)%nat ->
  fst (de Sc cfg fuel n depth favor force t rs) <> OutOfFuel.
Proof. exact de_total_target. Qed.

(* never reads outside its input: what remains is a suffix of the input, the position advanced
   by exactly what was dropped (every outcome, errors included) *)
Theorem C04_inbound : forall Sc cfg fuel n depth favor force t rs,
  schema_wf Sc = true -> node_wf Sc n = true ->
  let rs' := snd (de Sc cfg fuel n depth favor force t rs) in
  exists pre, rd_inp rs = pre ++ rd_inp rs' /\ rd_pos rs' = rd_pos rs + blen pre /\
              rd_max_alloc rs' = rd_max_alloc rs /\ (rd_chunks rs = None <-> rd_chunks rs' = None).
Proof. exact de_consumes_prefix. Qed.

(* depth limit: with the budget exhausted every array / map / record / union descent fails, and a
   successful result never nests deeper than the budget (+1: a duration's flat triple is free) *)
Theorem C04_depth_zero : forall Sc cfg fuel n favor force t rs d rs',
  descends Sc n -> de Sc cfg fuel n 0 favor force t rs <> (Ok d, rs').
Proof. exact de_depth_zero. Qed.
Theorem C04_depth : forall Sc cfg fuel n depth favor force t rs d rs',
  schema_keys_okb Sc = true -> keys_okb Sc n = true ->
  de Sc cfg fuel n depth favor force t rs = (Ok d, rs') -> (cdepth d <= S depth)%nat.
Proof. exact de_depth_limit. Qed.

(* sequence limit: one array / map never delivers more than max_seq_size elements, counted across
   all its blocks; a block header that would exceed it is an error before any of its elements *)
Theorem C04_seq : forall Sc cfg fuel n depth favor force t rs d rs',
  c_max_seq cfg < 2 ^ 64 - 1 -> (exists k, n = FArray k \/ n = FMap k) ->
  de Sc cfg fuel n depth favor force t rs = (Ok d, rs') -> N.of_nat (elems d) <= c_max_seq cfg.
Proof. exact de_seq_limit. Qed.
Theorem C04_seq_block : forall fuel cfg ignored b rs l rs1,
  b_cur b = 0 -> read_block_len fuel ignored rs = (Ok (Some l), rs1) ->
  c_max_seq cfg < N.min (b_nread b + l) (2 ^ 64 - 1) ->
  has_more fuel cfg ignored b rs = (Err EData, rs1).
Proof. exact has_more_over_limit. Qed.

(* allocation: reader input -- a field larger than the cap that is not already buffered is an error
   and nothing is consumed; slice input -- a read is a borrow of the input (no copy) *)
Theorem C04_alloc_reader : forall n rs c,
  rd_chunks rs = Some c -> blen (buffer rs) < n -> rd_max_alloc rs < n -> read_slice n rs = (Err EData, rs).
Proof. exact de_alloc_limit_chunked. Qed.
Theorem C04_alloc_slice : forall n rs r rs',
  rd_chunks rs = None -> read_slice n rs = (Ok r, rs') ->
  snd r = Some (rd_pos rs) /\ fst r = firstn (N.to_nat n) (rd_inp rs) /\ blen (fst r) = n /\ rs' = consume n rs.
Proof. exact read_slice_slice_borrows. Qed.

(* the hypotheses are needed / the limits really trigger *)
Check de_panic_needs_keys_ok.
Check de_depth_zero_union_null.
Check de_depth_zero_triggers.
Check de_seq_limit_triggers.
Check has_more_saturates.
Check de_alloc_limit_triggers.
Check de_total_needs_limit_not_length.
Check de_total_needs_theight.
Check hyps_satisfiable_t.

(** ** The allocation cap in container files (proofs/DeClosure.v, proofs/ContainerLimitsProofs.v): the cap the caller configured
    is the cap of the outer reader and of the reader of EVERY block, after any number of calls, errors included
    ([cinv r s]: the reader held by state s has rd_max_alloc = rd_max_alloc r and the same slice/BufRead mode) -- it is neither reset
    nor lowered when a block is entered or left --, and it is enforced in every block: a request for n bytes that are not buffered,
    with n above the cap, makes that call return an error ([next_tr]: the read_slice requests of one call). Two defective hand-overs
    (cap reset to the default; cap := min cap block size) are refuted on a concrete two-block file (module Witness) *)
Require Import Container DeClosure ContainerLimitsProofs.
Local Open Scope N_scope.
Theorem C04_container_cap_invariant :
  forall (Sc : fschema) (cfg : dcfg) (t : dtarget) (r : rstate) (m : list (bytes * bytes)) (sy : bytes) (r' : rstate) (k : nat),
  cr_open r = Ok (m, sy, r') -> cinv r (cr_state (cr_after Sc cfg sy t k {| cr_state := RNotInBlock r'; cr_pretend_eof := false |})).
Proof. exact container_cap_invariant. Qed.

Theorem C04_container_cap_enforced_in_every_block :
  forall (Sc : fschema) (cfg : dcfg) (t : dtarget) (r : rstate) (m : list (bytes * bytes)) (sy : bytes) (r' : rstate)
  (N0 k : nat) (l : list req) (n : N) (s : rstate),
  cr_open r = Ok (m, sy, r') ->
  rd_chunks r <> None ->
  (k < N0)%nat ->
  next_tr Sc cfg sy t (cr_after Sc cfg sy t k {| cr_state := RNotInBlock r'; cr_pretend_eof := false |}) l ->
  In (n, s) l ->
  blen (buffer s) < n ->
  rd_max_alloc r < n ->
  nth_error (cr_run Sc cfg sy t N0 {| cr_state := RNotInBlock r'; cr_pretend_eof := false |}) k = Some (IErr EData).
Proof. exact enforced_in_every_block_run. Qed.

Theorem C04_de_keeps_cap :
  forall (Sc : fschema) (cfg : dcfg) (fuel : nat) (n : fnode) (depth : nat) (favor force : bool) (t : dtarget) (rs : rstate),
  rd_max_alloc (snd (de Sc cfg fuel n depth favor force t rs)) = rd_max_alloc rs /\
  (rd_chunks rs = None <-> rd_chunks (snd (de Sc cfg fuel n depth favor force t rs)) = None).
Proof. exact de_keeps_cap. Qed.

Theorem C04_bytes_over_cap :
  forall (Sc : fschema) (cfg : dcfg) (f depth : nat) (favor : bool) (rs : rstate) (n : N) (rs1 : rstate),
  read_usize rs = (Ok n, rs1) ->
  rd_chunks rs <> None ->
  blen (buffer rs1) < n -> rd_max_alloc rs < n -> de Sc cfg (S f) FBytes depth favor false TAny rs = (Err EData, rs1).
Proof. exact de_bytes_over_cap. Qed.

Check Witness.reset_accepts_over_cap.
Check Witness.ratchet_refuses_legal.
Check Witness.model_enforces_in_block_2.
Check Witness.model_accepts_legal_in_block_2.
Check Witness.buffered_over_cap_is_not_refused.
Check reference_traces_exist.
