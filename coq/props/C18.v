(** C18 -- Single-object encoding: marker + schema fingerprint + datum, verified on read.
    Statements only; proofs in proofs/SingleObjectProofs.v, SingleObjectChunkProofs.v. [fp] is the
    8-byte fingerprint of the supplied schema (C08: le64 of CRC-64-AVRO of its canonical form). *)
From Coq Require Import List NArith.
Require Import Base Schema Sval Ser Target Reader De Denote SingleObject SingleObjectProofs SingleObjectChunkProofs.
Import ListNotations.
Open Scope N_scope.

Theorem C18_enc : forall Sc fp slow v bs,
  so_encode Sc fp slow v = Ok bs <-> exists d, to_datum Sc slow v = Ok d /\ bs = SO_MARKER ++ fp ++ d.
Proof. exact so_encode_layout. Qed.

Theorem C18_dec : forall fuel Sc cfg fp t rs d k, length fp = 8%nat ->
  (so_decode fuel Sc cfg fp t rs = Ok (d, k) <->
   (10 <= blen (rd_inp rs) /\ firstn 2 (rd_inp rs) = SO_MARKER /\ firstn 8 (skipn 2 (rd_inp rs)) = fp /\
    de_datum fuel Sc cfg t (consume 10 rs) = Ok (d, k))).
Proof. exact so_decode_spec. Qed.

(* a message written under a schema with a different fingerprint is never decoded *)
Theorem C18_mismatch : forall fuel Sc cfg fp fp' t d rest chunks ma,
  length fp = 8%nat -> length fp' = 8%nat -> fp <> fp' ->
  forall r, so_decode fuel Sc cfg fp t (mkRd (SO_MARKER ++ fp' ++ d ++ rest) 0 chunks ma) <> Ok r.
Proof. exact so_mismatch_rejected. Qed.

Theorem C18_short : forall fuel Sc cfg fp t rs r,
  blen (rd_inp rs) < 10 -> so_decode fuel Sc cfg fp t rs <> Ok r.
Proof. exact so_short_rejected. Qed.

Theorem C18_roundtrip : forall fuel Sc cfg fp slow v t bs d dv k,
  length fp = 8%nat -> so_encode Sc fp slow v = Ok bs -> to_datum Sc slow v = Ok d ->
  de_datum fuel Sc cfg t (mkRd d 10 None 0) = Ok (dv, k) ->
  so_decode fuel Sc cfg fp t (slice_reader bs) = Ok (dv, k).
Proof. exact so_roundtrip. Qed.

(* slice and reader input behave identically, whatever the chunking *)
Theorem C18_slice_reader : forall fuel Sc cfg fp t bs plan ma, N.of_nat (length bs) <= ma ->
  outcome_sim (so_decode fuel Sc cfg fp t (slice_reader bs))
              (so_decode fuel Sc cfg fp t (chunked_reader bs plan ma)).
Proof. exact so_chunk_independent. Qed.

(** ** The sink: any io::Write schedule (model/SinkWrite.v, proofs/SinkWriteProofs.v): marker, fingerprint and datum written with
    write_all through a sink that takes a few bytes per call / interrupts give exactly the message of the Vec result; a bare write
    for the header (result discarded) under a sink accepting fewer than 10 bytes reports Ok with a message that lacks bytes *)
Require Import VectoredWrite SinkWrite SinkWriteProofs WriterScheduleProofs.
Local Close Scope N_scope.
Theorem C18_sink_schedule_independent :
  forall (Sc : fschema) (fp : bytes) (slow : bool) (v : sval) (bs d : bytes) (ps : list (list N)) (s : list wans)
  (sink : bytes) (n : nat),
  so_encode Sc fp slow v = Ok bs ->
  to_datum Sc slow v = Ok d ->
  concat ps = d ->
  benign_schedule s ->
  (forall p : bytes, In p (SO_MARKER :: fp :: ps) -> length p + interruptions s <= n) ->
  exists s' : list wans, write_pieces_sched n s sink (SO_MARKER :: fp :: ps) = (WOk, sink ++ bs, s') /\ benign_schedule s'.
Proof. exact so_encode_schedule_independent. Qed.

Theorem C18_sink_any_schedule :
  forall (Sc : fschema) (fp : bytes) (slow : bool) (v : sval) (bs d : bytes) (ps : list (list N)) (s : list wans)
  (sink : bytes) (n : nat) (r : wres) (sink' : bytes) (s' : list wans),
  so_encode Sc fp slow v = Ok bs ->
  to_datum Sc slow v = Ok d ->
  concat ps = d ->
  write_pieces_sched n s sink (SO_MARKER :: fp :: ps) = (r, sink', s') ->
  exists w rest : list N, sink' = sink ++ w /\ bs = w ++ rest /\ (r = WOk <-> rest = []).
Proof. exact so_encode_any_schedule. Qed.

Theorem C18_header_write_once_refuted :
  forall (Sc : fschema) (fp : bytes) (slow : bool) (v : sval) (bs d : bytes) (ps : list (list N)) (s : list wans) (n : nat) (k : N),
  so_encode Sc fp slow v = Ok bs ->
  to_datum Sc slow v = Ok d ->
  concat ps = d ->
  length fp = 8 ->
  benign_schedule s ->
  (forall q : list N, In q ps -> length q + interruptions s <= n) ->
  fst (next_ans s) = Accept k ->
  N.to_nat k < 10 ->
  exists (sink' : bytes) (s' : list wans),
  write_mixed_sched n s [] ((false, SO_MARKER ++ fp) :: map (pair true) ps) = (WOk, sink', s') /\
  length sink' < length bs /\ sink' <> bs.
Proof. exact so_header_defect_refuted. Qed.


Check so_header_witness.
Check so_encode_sink_vec.
