(** C16 -- Container writer output independent of the sink's write schedule; sink errors surface.
    Statements only; proofs are in proofs/VectoredWriteProofs.v.
    write_all_vectored is the crate's copy of std's function (vectored_write_polyfill.rs), run
    against a sink whose answers follow an arbitrary schedule. *)
From Coq Require Import List NArith.
Require Import Base Schema VectoredWrite VectoredWriteProofs Container WriterScheduleProofs.
Import ListNotations.

(* EVERY schedule of partial writes and interruptions: as long as the first n answers are
   Accept/Interrupted and n exceeds (bytes + interruptions), the call returns Ok and the sink got
   exactly the concatenation of the slices appended -- nothing lost, duplicated or reordered *)
Theorem C16_schedule : forall vectored slices sched sink n,
  Forall benign (sched_prefix n sched) ->
  (length (concat slices)
   + length (filter (fun a => match a with Interrupted => true | _ => false end) (sched_prefix n sched)) < n)%nat ->
  exists sched', write_all_vectored n vectored slices sched sink = (WOk, sink ++ concat slices, sched').
Proof. exact write_all_vectored_benign_terminates. Qed.

(* whatever the sink answers, it only ever receives a prefix of the data, in order *)
Theorem C16_nothing_lost : forall fuel vectored bufs sched sink r sink' sched',
  wav_loop fuel vectored bufs sched sink = (r, sink', sched') ->
  exists w, sink' = sink ++ w /\ (exists rest, concat bufs = w ++ rest).
Proof. exact wav_sink_prefix. Qed.

(* Ok means everything was delivered *)
Theorem C16_ok_complete : forall fuel vectored bufs sched sink sink' sched',
  wav_loop fuel vectored bufs sched sink = (WOk, sink', sched') -> sink' = sink ++ concat bufs.
Proof. exact wav_ok_complete. Qed.

(* a zero-length write or a hard error while data remains makes the call return an error *)
Theorem C16_zero_or_hard : forall vectored bufs sched sink n k,
  (exists b t, bufs = b :: t /\ b <> []) ->
  Forall benign (sched_prefix k sched) ->
  (nth k (sched_prefix (S k) sched) Interrupted = Zero \/ nth k (sched_prefix (S k) sched) Interrupted = Hard) ->
  (k < n)%nat ->
  snd (fst (wav_loop k vectored bufs sched sink)) <> sink ++ concat bufs ->
  fst (fst (wav_loop n vectored bufs sched sink)) = WErrZero \/
  fst (fst (wav_loop n vectored bufs sched sink)) = WErrHard.
Proof. exact wav_first_bad_answer. Qed.

(* conversely an Ok run consumed only benign answers *)
Theorem C16_ok_only_benign : forall fuel vectored bufs sched sink sink' sched',
  wav_loop fuel vectored bufs sched sink = (WOk, sink', sched') ->
  exists k, (k < fuel)%nat /\ sched' = sched_drop k sched /\ Forall benign (sched_prefix k sched).
Proof. exact wav_ok_only_benign. Qed.

(* "advancing io slices beyond their length" never happens *)
Theorem C16_no_panic : forall fuel vectored slices sched sink,
  fst (fst (write_all_vectored fuel vectored slices sched sink)) <> WPanic.
Proof. exact write_all_vectored_no_panic. Qed.

(* two sinks (plain or vectored, any two schedules) that both return Ok hold the same bytes *)
Theorem C16_independent : forall vectored1 vectored2 slices sched1 sched2 sink n1 n2 s1 s2 r1 r2,
  write_all_vectored n1 vectored1 slices sched1 sink = (WOk, s1, r1) ->
  write_all_vectored n2 vectored2 slices sched2 sink = (WOk, s2, r2) ->
  s1 = s2 /\ s1 = sink ++ concat slices.
Proof. exact write_all_vectored_schedule_independent. Qed.

(* IoSlice::advance_slices drops exactly n bytes *)
Theorem C16_advance_slices : forall bufs n bufs',
  advance_slices bufs n = Some bufs' -> concat bufs' = skipn n (concat bufs).
Proof. exact advance_slices_concat. Qed.

(* non-vacuity: an irregular schedule with interruptions and an empty slice in the middle *)
Example C16_run :
  write_all_vectored 10 false [[1; 2]; []; [3; 4; 5]]%N
    [Accept 1; Interrupted; Accept 2; Interrupted; Accept 100] [9]%N
  = (WOk, [9; 1; 2; 3; 4; 5]%N, [Accept 100]).
Proof. vm_compute. reflexivity. Qed.

(* THE WRITER AS A WHOLE (writer/mod.rs: header write, every serialize / push / finish_block / into_inner
   / drop, any block codec, plain or vectored sink): for every schedule of partial writes and
   interruptions ([benign_schedule]: only Accept / Interrupted answers, not interrupting forever) the
   per-call outcomes and the byte stream the sink ends up with are identical to those of a sink that
   accepts everything at once -- nothing lost, duplicated or reordered. (FUEL_SINK: the model's bound on
   the retry loop; the hypothesis says the file is smaller than it.) *)
Theorem C16_writer_schedule : forall enc Sc approx sync vectored vectored0 json codec user ops sched o0 st0 outs st0F,
  benign_schedule sched ->
  wbuild sync json codec user [] = (o0, st0) ->
  wrun enc Sc approx sync vectored0 st0 ops = (outs, st0F) ->
  (length (w_sink st0F) + interruptions sched < FUEL_SINK)%nat ->
  exists st stF,
    wbuild sync json codec user sched = (o0, st) /\
    wrun enc Sc approx sync vectored st ops = (outs, stF) /\
    same st st0 /\ same stF st0F /\ w_sink stF = w_sink st0F.
Proof. exact wrun_schedule_independent_total. Qed.

(* a hard error or a zero-length write while data remains: the header write or the FIRST writer call
   during which it happens returns an error (never Ok), everything before it behaved as on the
   well-behaved sink, and what the sink holds is a prefix of what would have been written ([fails_at]
   / [sfail]; into_inner is special: on its error path the writer is dropped and Drop flushes the
   pending block once more, see Examples.into_inner_retry_duplicates) *)
Theorem C16_writer_error_surfaces : forall enc Sc approx sync vectored1 vectored2 json codec user ops s1 s2 I o2 st2 outs st2F,
  tame s1 -> (interruptions s1 <= I)%nat ->
  benign_schedule s2 -> (interruptions s2 <= I)%nat ->
  wbuild sync json codec user s2 = (o2, st2) ->
  wrun enc Sc approx sync vectored2 st2 ops = (outs, st2F) ->
  growth_ok I 0 ((o2, N.of_nat (length (w_sink st2))) :: outs) ->
  exists o1 st1,
    wbuild sync json codec user s1 = (o1, st1) /\
    ((o1 = WRErr /\ o2 = WROk /\ w_gone st1 = true /\
      exists rest, w_sink st2 = w_sink st1 ++ rest /\ rest <> [] /\ hit_bad s1 (w_sched st1)) \/
     (o1 = o2 /\ same st1 st2 /\ only_benign s1 (w_sched st1) /\
      ((exists st1F, wrun enc Sc approx sync vectored1 st1 ops = (outs, st1F) /\ same st1F st2F /\ only_benign s1 (w_sched st1F)) \/
       fails_at enc Sc approx sync vectored1 vectored2 st1 st2 ops outs))).
Proof. exact wrun_error_surfaces. Qed.
Check Examples.independent_example.
Check Examples.error_example.
Check Examples.into_inner_retry_duplicates.
