(** C10 -- No undefined behaviour from the self-referential schema / reader: the part that is LOGIC.
    Statements only; model in model/Ownership.v (index-level model of `TryFrom<SchemaMut> for Schema`
    and of the handle discipline Schema / Arc<Schema> / Reader / borrows), proofs in
    proofs/OwnershipProofs.v.
    NOT covered by these statements (no Gallina model can execute them): the Rust aliasing model,
    the soundness of `unsafe impl Send/Sync for NodeRef`, data races, the allocator (a Vec buffer
    keeps its address when the Vec value moves: assumed).  Those are exercised by the Miri replay
    of lib/p_C10.py, which is a detector validating the model, not a proof. *)
From Coq Require Import List Arith Bool.
Require Import Base Schema Ownership OwnershipProofs.
Import ListNotations.
Local Open Scope nat_scope.

(** every reference created by freeze (key_to_ref) has index < len, whatever the graph and whether
    or not freeze succeeds *)
Theorem C10_refs_in_bounds : forall pre g ok tr, freeze_run pre g = (ok, tr) ->
  forall idx, In (EvMkRef idx) tr -> idx < length g.
Proof. exact freeze_refs_in_bounds. Qed.

(** the event trace of freeze replays without violation on the checked memory, in which a
    dereference is a violation unless ALL slots have been written by pass 1 (and a reference /
    write outside the allocation or after its release is a violation); on success the allocation
    is live with every slot written; on the error path it has been released and no reference was
    ever dereferenced *)
Theorem C10_init_before_deref : forall pre g,
  exists m, exec_trace fm0 (snd (freeze_run pre g)) = Some m /\
    (if fst (freeze_run pre g)
     then fm_live m = true /\ fm_slots m = repeat true (length g) /\ g <> []
     else fm_live m = false /\ forall e, In e (snd (freeze_run pre g)) -> is_deref e = false).
Proof. exact freeze_init_before_deref. Qed.

(** in every reachable state of the handle machine -- before, during (intermediate state: the
    Reader's fields are dropped one after the other) and after any next operation -- every
    reference held by a live object points into a live allocation, and no operation faults *)
Theorem C10_live : forall ops o,
  live_ok (run ops) /\ live_ok (mid (run ops) o) /\ live_ok (exec (run ops) o) /\
  outcome_of (run ops) o <> Fault.
Proof. exact run_live. Qed.

(** while a Reader's reader_state is live, the allocation is live with a strong count >= 1 (the
    Reader's own Arc), whatever the caller cloned or dropped *)
Theorem C10_reader_keeps_alive : forall ops h a,
  lookup h (st_h (run ops)) = Some (OReader a true) ->
  exists len n, nth_error (st_a (run ops)) a = Some (mkAl true len (Some (S n))).
Proof. exact reader_keeps_alive. Qed.

(** uses through shared borrows leave the state unchanged (the model has no shared mutable state):
    concurrent read-only use = sequential use, as far as the model can say *)
Theorem C10_use_readonly : forall s src, exec s (OpUse src) = s.
Proof. exact use_readonly. Qed.

(** non-vacuity (see OwnershipProofs.v section 3) *)
Theorem C10_nonvacuous_freeze :
  freeze_run true g_cyclic =
  (true, [EvAlloc 4; EvMkRef 1; EvMkRef 2; EvWrite 0; EvWrite 1; EvMkRef 3; EvMkRef 0; EvWrite 2; EvWrite 3;
          EvDeref 2 3; EvDeref 2 0; EvWriteLookup 2]) /\
  freeze_run true [mkON false []; mkON false []; mkON true [0; 3]] =
    (false, [EvAlloc 3; EvWrite 0; EvWrite 1; EvMkRef 0; EvDropAlloc]) /\
  exec_trace fm0 [EvAlloc 2; EvMkRef 1; EvWrite 0; EvDeref 0 1] = None /\
  exec_trace fm0 [EvAlloc 2; EvMkRef 2] = None.
Proof.
  exact (conj ex_freeze_ok (conj (proj1 (proj2 ex_freeze_err))
        (conj (proj1 ex_checked_memory_rejects) (proj1 (proj2 ex_checked_memory_rejects))))).
Qed.

Theorem C10_nonvacuous_machine :
  outcome_of (mkSt [(1, OBorrow 0 0 0)] [mkAl false 3 None]) (OpUse 1) = Fault /\
  live_okb (mid (run [OpOpen 0 4 OpenOk]) (OpDrop 0)) = true /\
  live_okb (drop_reader_wrong_order_mid (run [OpOpen 0 4 OpenOk]) 0) = false /\
  live_okb (drop_reader_wrong_order_mid (run [OpOpen 0 4 OpenOk; OpClone 0 1]) 0) = true.
Proof. exact ex_fault_and_field_order. Qed.
