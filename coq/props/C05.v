(** C05 -- Container-file round trip for every codec, level, block size, flush pattern.
    Statements only; proofs in proofs/ContainerReadProofs.v (on ContainerProofs.v, RoundTripProofs.v).
    What is PROVED is the logic the crate itself implements -- writer state machine (block
    buffering, the >= approx_block_size tests, block headers, flushes, pre-serialized pushes),
    reader state machine (block entry, per-block limit, element countdown, sync check, end of
    stream) -- with the block codec instantiated to the null codec (identity), for EVERY list of
    conforming values, every approximate block size, every interleaving of explicit flushes and
    pushes, every sink write schedule on which the calls return Ok. The compression libraries
    (deflate, bzip2, snappy, xz, zstandard and their levels) are outside the model: for them the
    property is decided on the crate by the correspondence run (all codecs, levels, block sizes
    around internal buffer boundaries, slice and chunked readers). *)
From Coq Require Import List NArith ZArith.
Require Import Base Schema Sval Ser Target Reader De AvroValue Encoding Denote Wf VectoredWrite Container.
Require Import ContainerReadProofs ContainerHeaderProofs ContainerChunkProofs.
Import ListNotations.

(* a history: values (serialized through the writer), pushes of pre-serialized values, flushes *)
Theorem C05_roundtrip_null : forall Sc cfg root approx sync vectored,
  schema_wf Sc = true -> fnode_at Sc 0 = Some root -> length sync = 16%nat ->
  forall (hs : list hop) (close : wop) hdr st outs st',
  wgood Sc root sync hdr st [] [] ->               (* the state wbuild returns (C05_build) *)
  Forall (value_ok Sc cfg root) (vals_of hs) ->    (* conforming values within the limits *)
  fits (length (vals_of hs)) -> fits (length (encs Sc root (vals_of hs))) ->
  close = WFinish \/ close = WIntoInner \/ close = WDrop ->
  wrun (fun b => b) Sc approx sync vectored st (map (op_of Sc root) hs ++ [close]) = (outs, st') ->
  Forall (fun r : wout * N => fst r = WROk) outs ->
  exists tail,
    w_sink st' = hdr ++ tail /\
    forall pos ma k, exists ds,
      cr_run Sc cfg sync TAny (length (vals_of hs) + k) (mkCR (RNotInBlock (mkRd tail pos None ma)) false)
        = map IValue ds ++ repeat IEof k
      /\ map erase_borrow ds = map (dval_any Sc root) (vals_of hs).
Proof. exact session_read_back. Qed.

(* the WHOLE file, header included: build with any user metadata, any history, close; then opening
   the sink returns the metadata written (schema JSON, codec name, user entries) and reading yields
   exactly the values, in order, then end of stream *)
Theorem C05_roundtrip_file : forall Sc cfg root approx sync vectored json codec user sched st0 (hs : list hop) (close : wop) outs st',
  schema_wf Sc = true -> fnode_at Sc 0 = Some root -> length sync = 16%nat ->
  keys_utf8 user -> (length user <= 998)%nat -> Forall unreserved user ->
  Utf8.utf8_valid json = true -> In codec codec_names ->
  wbuild sync json codec user sched = (WROk, st0) ->
  Forall (value_ok Sc cfg root) (vals_of hs) ->
  fits (length (vals_of hs)) -> fits (length (encs Sc root (vals_of hs))) ->
  close = WFinish \/ close = WIntoInner \/ close = WDrop ->
  wrun (fun b => b) Sc approx sync vectored st0 (map (op_of Sc root) hs ++ [close]) = (outs, st') ->
  Forall (fun r : wout * N => fst r = WROk) outs ->
  forall k, exists entries r ds,
    cr_open (slice_reader (w_sink st')) = Ok (entries, sync, r) /\
    header_meta entries = Ok (json, codec, user) /\
    cr_run Sc cfg sync TAny (length (vals_of hs) + k) (mkCR (RNotInBlock r) false) = map IValue ds ++ repeat IEof k /\
    map erase_borrow ds = map (dval_any Sc root) (vals_of hs).
Proof. exact file_read_back_slice. Qed.

(* "from a slice or from any buffered reader": whatever a file yields from a slice -- values then end
   of stream -- it yields through a BufRead delivering ANY chunking *)
Theorem C05_any_buffered_reader : forall Sc cfg t file plan ma m sy s' n ds k,
  schema_wf Sc = true -> (N.of_nat (length file) <= ma)%N ->
  cr_open (slice_reader file) = Ok (m, sy, s') ->
  cr_run Sc cfg sy t n (mkCR (RNotInBlock s') false) = map IValue ds ++ repeat IEof k ->
  exists r' ds',
    cr_open (chunked_reader file plan ma) = Ok (m, sy, r') /\
    cr_run Sc cfg sy t n (mkCR (RNotInBlock r') false) = map IValue ds' ++ repeat IEof k /\
    map erase_borrow ds' = map erase_borrow ds.
Proof. exact container_chunk_independent. Qed.

(* what build returns: the header is in the sink and the writer is in the state above *)
Theorem C05_build : forall Sc root sync json codec user sched st,
  wbuild sync json codec user sched = (WROk, st) ->
  wgood Sc root sync (w_sink st) st [] [] /\ header_bytes sync json codec user = Ok (w_sink st).
Proof. exact wbuild_good. Qed.

(* the file is header + non-empty blocks holding the values in order, nothing left in the writer *)
Theorem C05_blocks : forall Sc root approx sync vectored,
  schema_wf Sc = true -> fnode_at Sc 0 = Some root ->
  forall (hs : list hop) (close : wop) hdr st outs st',
  wgood Sc root sync hdr st [] [] -> Forall (hop_ok Sc root) hs ->
  close = WFinish \/ close = WIntoInner \/ close = WDrop ->
  wrun (fun b => b) Sc approx sync vectored st (map (op_of Sc root) hs ++ [close]) = (outs, st') ->
  Forall (fun r : wout * N => fst r = WROk) outs ->
  exists blocks,
    w_sink st' = hdr ++ flat_map (blk Sc sync root) blocks /\ concat blocks = vals_of hs /\
    Forall (fun b => b <> []) blocks /\ w_buf st' = [] /\ w_n st' = 0%N.
Proof. exact writer_sink_blocks. Qed.

(* any file made of well-formed blocks, whatever the partition into blocks, reads back *)
Theorem C05_any_partition : forall Sc cfg sync root,
  schema_wf Sc = true -> fnode_at Sc 0 = Some root -> length sync = 16%nat ->
  forall blocks pos ma k, Forall (block_ok Sc cfg root) blocks ->
  exists ds,
    cr_run Sc cfg sync TAny (length (concat blocks) + k) (stB Sc sync root blocks [] pos ma)
      = map IValue ds ++ repeat IEof k
    /\ map erase_borrow ds = map (dval_any Sc root) (concat blocks).
Proof. exact blocks_read_back. Qed.

(* non-vacuity: a record schema, two blocks, user metadata, a sink accepting 7 bytes per call;
   header parsed by cr_open / header_meta; five chunk plans read the same *)
Check Example.file_written_and_read_back.
Check Example.chunked_reads_the_same.
