(** C05 -- Container-file round trip for every codec, level, block size, flush pattern.
    Statements only; proofs in proofs/ContainerReadProofs.v (on ContainerProofs.v, RoundTripProofs.v).
    What is PROVED is the logic the crate itself implements -- writer state machine (block
    buffering, the >= approx_block_size tests, block headers, flushes, pre-serialized pushes),
    reader state machine (block entry, per-block limit, element countdown, sync check, end of
    stream) -- with the block codec instantiated to the null codec (identity), for EVERY list of
    conforming values, every approximate block size, every interleaving of explicit flushes and
    pushes, every sink write schedule on which the calls return Ok; AND the crate's own code around
    the compression libraries (writer/compression.rs: the three grow-the-buffer encode loops, the
    snappy framing and CRC check), for EVERY library meeting a stated streaming contract
    (model/CodecLoop.v), which hook H3 validates against the real libraries on every run; AND the
    reader's code around the streaming decoders (reader/decompression.rs, model/DecodeLoop.v: BufReader
    over the decoder over Take, the end-of-block check that drives the decoder to its end, the snappy
    block), for EVERY decoder meeting `stream_decoder_contract`, every BufReader capacity >= 1, every
    chunking of the source, which hook H4 validates against the real decoders on every run. The
    libraries themselves (deflate, bzip2, snappy, xz, zstandard and their levels) are outside the
    model: decided on the crate by the correspondence run. *)
From Coq Require Import List NArith ZArith.
Require Import Base Schema Sval Ser Target Reader De AvroValue Encoding Denote Wf VectoredWrite Container.
Require Import ContainerReadProofs ContainerHeaderProofs ContainerChunkProofs.
Require Import CodecLoop CodecLoopProofs.
Require Import DecodeLoop DecodeLoopProofs DecodeLoopDe DecodeLoopToy.
Import ListNotations.

(* a history: values (serialized through the writer), pushes of pre-serialized values, flushes *)
Theorem C05_roundtrip_null : forall Sc cfg root approx sync vectored,
  schema_wf Sc = true -> fnode_at Sc 0 = Some root -> length sync = 16%nat ->
  forall (hs : list hop) (close : wop) hdr st outs st',
  wgood Sc root sync hdr st [] [] ->               (* the state wbuild returns (C05_build) *)
  Forall (value_ok Sc cfg root) (vals_of hs) ->    (* conforming values within the limits *)
  fits (length (vals_of hs)) -> fits (length (encs Sc root (vals_of hs))) ->
  close = WFinish \/ close = WIntoInner \/ close = WDrop ->
  wrun (fun b => b) Sc approx sync vectored st (map (op_of Sc root) hs ++ [close]) = (outs, st') ->
  Forall (fun r : wout * N => fst r = WROk) outs ->
  exists tail,
    w_sink st' = hdr ++ tail /\
    forall pos ma k, exists ds,
      cr_run Sc cfg sync TAny (length (vals_of hs) + k) (mkCR (RNotInBlock (mkRd tail pos None ma)) false)
        = map IValue ds ++ repeat IEof k
      /\ map erase_borrow ds = map (dval_any Sc root) (vals_of hs).
Proof. exact session_read_back. Qed.

(* the WHOLE file, header included: build with any user metadata, any history, close; then opening
   the sink returns the metadata written (schema JSON, codec name, user entries) and reading yields
   exactly the values, in order, then end of stream *)
Theorem C05_roundtrip_file : forall Sc cfg root approx sync vectored json codec user sched st0 (hs : list hop) (close : wop) outs st',
  schema_wf Sc = true -> fnode_at Sc 0 = Some root -> length sync = 16%nat ->
  keys_utf8 user -> (length user <= 998)%nat -> Forall unreserved user ->
  Utf8.utf8_valid json = true -> In codec codec_names ->
  wbuild sync json codec user sched = (WROk, st0) ->
  Forall (value_ok Sc cfg root) (vals_of hs) ->
  fits (length (vals_of hs)) -> fits (length (encs Sc root (vals_of hs))) ->
  close = WFinish \/ close = WIntoInner \/ close = WDrop ->
  wrun (fun b => b) Sc approx sync vectored st0 (map (op_of Sc root) hs ++ [close]) = (outs, st') ->
  Forall (fun r : wout * N => fst r = WROk) outs ->
  forall k, exists entries r ds,
    cr_open (slice_reader (w_sink st')) = Ok (entries, sync, r) /\
    header_meta entries = Ok (json, codec, user) /\
    cr_run Sc cfg sync TAny (length (vals_of hs) + k) (mkCR (RNotInBlock r) false) = map IValue ds ++ repeat IEof k /\
    map erase_borrow ds = map (dval_any Sc root) (vals_of hs).
Proof. exact file_read_back_slice. Qed.

(* "from a slice or from any buffered reader": whatever a file yields from a slice -- values then end
   of stream -- it yields through a BufRead delivering ANY chunking *)
Theorem C05_any_buffered_reader : forall Sc cfg t file plan ma m sy s' n ds k,
  schema_wf Sc = true -> (N.of_nat (length file) <= ma)%N ->
  cr_open (slice_reader file) = Ok (m, sy, s') ->
  cr_run Sc cfg sy t n (mkCR (RNotInBlock s') false) = map IValue ds ++ repeat IEof k ->
  exists r' ds',
    cr_open (chunked_reader file plan ma) = Ok (m, sy, r') /\
    cr_run Sc cfg sy t n (mkCR (RNotInBlock r') false) = map IValue ds' ++ repeat IEof k /\
    map erase_borrow ds' = map erase_borrow ds.
Proof. exact container_chunk_independent. Qed.

(* what build returns: the header is in the sink and the writer is in the state above *)
Theorem C05_build : forall Sc root sync json codec user sched st,
  wbuild sync json codec user sched = (WROk, st) ->
  wgood Sc root sync (w_sink st) st [] [] /\ header_bytes sync json codec user = Ok (w_sink st).
Proof. exact wbuild_good. Qed.

(* the file is header + non-empty blocks holding the values in order, nothing left in the writer *)
Theorem C05_blocks : forall Sc root approx sync vectored,
  schema_wf Sc = true -> fnode_at Sc 0 = Some root ->
  forall (hs : list hop) (close : wop) hdr st outs st',
  wgood Sc root sync hdr st [] [] -> Forall (hop_ok Sc root) hs ->
  close = WFinish \/ close = WIntoInner \/ close = WDrop ->
  wrun (fun b => b) Sc approx sync vectored st (map (op_of Sc root) hs ++ [close]) = (outs, st') ->
  Forall (fun r : wout * N => fst r = WROk) outs ->
  exists blocks,
    w_sink st' = hdr ++ flat_map (blk Sc sync root) blocks /\ concat blocks = vals_of hs /\
    Forall (fun b => b <> []) blocks /\ w_buf st' = [] /\ w_n st' = 0%N.
Proof. exact writer_sink_blocks. Qed.

(* any file made of well-formed blocks, whatever the partition into blocks, reads back *)
Theorem C05_any_partition : forall Sc cfg sync root,
  schema_wf Sc = true -> fnode_at Sc 0 = Some root -> length sync = 16%nat ->
  forall blocks pos ma k, Forall (block_ok Sc cfg root) blocks ->
  exists ds,
    cr_run Sc cfg sync TAny (length (concat blocks) + k) (stB Sc sync root blocks [] pos ma)
      = map IValue ds ++ repeat IEof k
    /\ map erase_borrow ds = map (dval_any Sc root) (concat blocks).
Proof. exact blocks_read_back. Qed.

(* non-vacuity: a record schema, two blocks, user metadata, a sink accepting 7 bytes per call;
   header parsed by cr_open / header_meta; five chunk plans read the same *)
Check Example.file_written_and_read_back.
Check Example.chunked_reads_the_same.


(* ------------------------------------------------------------------------------------------ *)
(* writer/compression.rs: the encode loops. For EVERY library meeting the contract, every input x,
   every output buffer left by previous blocks (empty: `start` >= 1 bytes), the loop of codec k
   (deflate | bzip2 | xz) ends with StreamEnd and a true assertion -- no Err, no panic --, within
   |x| + |enc x| + 1 library calls, and hands exactly `enc x` to the block writer; the buffer ends
   with length (initial) * 2^(calls-1); if "not finished" is only answered with a full window the
   number of calls is logarithmic in |enc x| / (initial length). *)
Theorem C05_loop_returns_full_stream :
  forall (k : lcodec) (lib : Type) (total_in total_out : lib -> nat)
         (call : lib -> bytes -> nat -> option (lstatus * bytes) * lib) (enc : bytes -> bytes)
         (x : bytes) (c0 : lib) (vec : bytes) (start : nat),
  stream_contract lib total_in total_out call enc (more_of k) x c0 -> (1 <= start)%nat ->
  forall fuel, (length x + length (enc x) < fuel)%nat ->
  exists c' vec' log,
    encode_stream lib total_in total_out call (classify_of k) fuel start c0 x vec
      = (LDone (length (enc x)), c', vec', log) /\
    compressed_buffer lib (encode_stream lib total_in total_out call (classify_of k) fuel start c0 x vec)
      = Some (enc x) /\
    (1 <= length log)%nat /\ (length log <= S (length x + length (enc x)))%nat /\
    length vec' = (Nat.max (length vec) (if Nat.eqb (length vec) 0 then start else 0) * 2 ^ (length log - 1))%nat /\
    (fills_window lib total_in call x c0 -> length log = 1%nat \/
       (Nat.max (length vec) (if Nat.eqb (length vec) 0 then start else 0) * 2 ^ (length log - 2) <= length (enc x))%nat).
Proof. exact encode_codec_returns_full_stream. Qed.

(* The contract above takes the compressed stream to be a function `enc` of the input. miniz_oxide at
   level 1 is observed (hook H3) to produce bytes that depend on where the output windows ended, so for it
   only the weaker contract holds: the stream produced by this sequence of calls is SOME complete stream
   that is valid for x (`valid x d`: the decoder turns d back into x), of length at most `obound x`.
   Under that contract: Ok, never Err or a panic, at most |x| + obound x + 1 calls, and the data handed
   to the block writer is valid for x. *)
Theorem C05_loop_returns_valid_stream :
  forall (k : lcodec) (lib : Type) (total_in total_out : lib -> nat)
         (call : lib -> bytes -> nat -> option (lstatus * bytes) * lib)
         (valid : bytes -> bytes -> Prop) (obound : bytes -> nat)
         (x : bytes) (c0 : lib) (vec : bytes) (start : nat),
  stream_contract_valid lib total_in total_out call (more_of k) valid obound x c0 -> (1 <= start)%nat ->
  forall fuel, (length x + obound x < fuel)%nat ->
  exists c' vec' log d,
    encode_stream lib total_in total_out call (classify_of k) fuel start c0 x vec
      = (LDone (length d), c', vec', log) /\
    compressed_buffer lib (encode_stream lib total_in total_out call (classify_of k) fuel start c0 x vec)
      = Some d /\ valid x d /\
    (1 <= length log)%nat /\ (length log <= S (length x + obound x))%nat /\
    length vec' = (Nat.max (length vec) (if Nat.eqb (length vec) 0 then start else 0) * 2 ^ (length log - 1))%nat /\
    (fills_window lib total_in call x c0 -> length log = 1%nat \/
       (Nat.max (length vec) (if Nat.eqb (length vec) 0 then start else 0) * 2 ^ (length log - 2) <= length d)%nat).
Proof. exact encode_codec_returns_valid_stream. Qed.

(* the same for ANY status classification that sends StreamEnd to the "end" arm and the library's
   documented "not finished" statuses to the "continue" arm *)
Theorem C05_loop_any_classification :
  forall (lib : Type) (total_in total_out : lib -> nat)
         (call : lib -> bytes -> nat -> option (lstatus * bytes) * lib) (classify : lstatus -> sclass)
         (lib_more : lstatus -> bool),
  classify_ok classify lib_more ->
  forall (enc : bytes -> bytes) (x : bytes) (c0 : lib) (vec : bytes),
  stream_contract lib total_in total_out call enc lib_more x c0 -> (1 <= length vec)%nat ->
  forall fuel, (length x + length (enc x) < fuel)%nat ->
  exists c' vec' log,
    encode_loop lib total_in total_out call classify fuel c0 x vec = (LDone (length (enc x)), c', vec', log) /\
    compressed_buffer lib (encode_loop lib total_in total_out call classify fuel c0 x vec) = Some (enc x) /\
    (1 <= length log)%nat /\ (length log <= S (length x + length (enc x)))%nat /\
    length vec' = (length vec * 2 ^ (length log - 1))%nat /\
    (fills_window lib total_in call x c0 -> length log = 1%nat \/
       (length vec * 2 ^ (length log - 2) <= length (enc x))%nat).
Proof. exact loop_returns_full_stream. Qed.

(* the contract is not vacuous: the "stored" compressor meets it for every input *)
Theorem C05_contract_inhabited : forall x,
  stream_contract nat (fun c => c) (fun c => c) toy_call (fun x => x) more_deflate x 0%nat /\
  fills_window nat (fun c => c) toy_call x 0%nat.
Proof. exact contract_inhabited. Qed.

(* the classifications before commit ef7c759 (bzip2 FinishOk, xz Ok treated as errors) do not meet
   the condition, and the same library answers give the stream now and gave Err then *)
Theorem C05_loop_before_fix_refuted :
  ~ classify_ok classify_bzip2_before_fix more_bzip2 /\ ~ classify_ok classify_xz_before_fix more_xz /\
  demo_run classify_bzip2 StFinishOk = (LDone 5, Some demo_stream) /\
  demo_run classify_bzip2_before_fix StFinishOk = (LErrStatus StFinishOk, None) /\
  demo_run classify_xz StOk = (LDone 5, Some demo_stream) /\
  demo_run classify_xz_before_fix StOk = (LErrStatus StOk, None).
Proof. exact before_fix_refuted. Qed.

(* snappy: raw codec + big-endian CRC32 of the uncompressed data; the reader accepts what the writer
   produces and returns the block; any other trailer is rejected; so is a block shorter than 4 bytes *)
Theorem C05_snappy_framing_roundtrip :
  forall (raw_enc : bytes -> bytes) (raw_dec : bytes -> option bytes) (crc32 : bytes -> N),
  (forall x, raw_dec (raw_enc x) = Some x) -> (forall x, crc32 x < 4294967296) ->
  forall x, snappy_decode raw_dec crc32 (snappy_encode raw_enc crc32 x) = Ok x.
Proof. exact snappy_framing_roundtrip. Qed.

Theorem C05_snappy_crc_checked :
  forall (raw_enc : bytes -> bytes) (raw_dec : bytes -> option bytes) (crc32 : bytes -> N),
  (forall x, raw_dec (raw_enc x) = Some x) ->
  forall x (t : bytes), length t = 4%nat -> of_be32 t <> crc32 x ->
  snappy_decode raw_dec crc32 (raw_enc x ++ t) = Err EData.
Proof. exact snappy_crc_checked. Qed.

Theorem C05_snappy_short_block :
  forall (raw_dec : bytes -> option bytes) (crc32 : bytes -> N) (blk : bytes),
  (length blk < 4)%nat -> snappy_decode raw_dec crc32 blk = Err EData.
Proof. exact snappy_short_block. Qed.

(** ** The reader side: compressed blocks (model/DecodeLoop.v) *)

(* a block as the writer lays it out -- the complete compressed stream z of the encodings of the count values,
   then the sync marker -- read through BufReader(capacity) over ANY streaming decoder meeting the contract over
   Take(|z|), from a slice or a source delivering ANY chunking (ch), whatever reads the deserializer issues
   (policy): exactly the values; the end-of-block check passes -- also when the decoder was never read (zero-byte
   datums) and when it lags behind the source --; the source is left behind the sync marker.
   Value decoder: De.de on the decompressed bytes (de_vdec; the abstraction is stated in DecodeLoop.v) *)
Theorem C05_compressed_block_read_back :
  forall (D : Type) (dread : D -> bytes -> option chunkst -> nat -> dres * D) (policy : nat -> nat -> option nat)
         Sc cfg root (z : bytes) (d0 : D) (vs : list avalue) sync rest ch cap fuel s,
  schema_wf Sc = true -> Forall (value_ok Sc cfg root) vs -> length sync = 16%nat ->
  stream_decoder_contract D dread z (encs Sc root vs) z d0 -> (1 <= cap)%nat -> (length (encs Sc root vs) < fuel)%nat ->
  block_open D d0 (z ++ sync ++ rest) ch (length z) cap = Some s ->
  exists ch', block_run D dread policy dval (de_vdec Sc cfg root) fuel (length vs) sync s
              = (map (dval_any Sc root) vs, BDone rest ch').
Proof. exact compressed_block_read_back_de. Qed.

(* the same for any value decoder that decodes the encoding of a written value whatever follows it *)
Theorem C05_compressed_block_read_back_any_values :
  forall (D : Type) (dread : D -> bytes -> option chunkst -> nat -> dres * D) (policy : nat -> nat -> option nat)
         (V : Type) (vdec : bytes -> result V * nat) (W : Type) (P : W -> Prop) (enc1 : W -> bytes) (val : W -> V),
  vdec_ok V vdec W P enc1 val ->
  forall (z : bytes) (d0 : D) (vs : list W) sync rest ch cap fuel s,
  Forall P vs -> length sync = 16%nat -> stream_decoder_contract D dread z (flat_map enc1 vs) z d0 ->
  (1 <= cap)%nat -> (length (flat_map enc1 vs) < fuel)%nat ->
  block_open D d0 (z ++ sync ++ rest) ch (length z) cap = Some s ->
  exists ch', block_run D dread policy V vdec fuel (length vs) sync s = (map val vs, BDone rest ch').
Proof. exact compressed_block_read_back. Qed.

(* snappy: the block written by the writer-side framing reads back *)
Theorem C05_snappy_block_read_back :
  forall (raw_enc : bytes -> bytes) (raw_dec : bytes -> option bytes) (crc32 : bytes -> N),
  (forall x, raw_dec (raw_enc x) = Some x) -> (forall x, crc32 x < 4294967296) ->
  forall (V : Type) (vdec : bytes -> result V * nat) (W : Type) (P : W -> Prop) (enc1 : W -> bytes) (val : W -> V),
  vdec_ok V vdec W P enc1 val ->
  forall vs sync rest, Forall P vs -> length sync = 16%nat ->
  snappy_run raw_dec crc32 V vdec (length vs) sync
             (snappy_encode raw_enc crc32 (flat_map enc1 vs) ++ sync ++ rest)
             (length (snappy_encode raw_enc crc32 (flat_map enc1 vs)))
  = Some (map val vs, BDone rest None).
Proof. exact snappy_block_read_back. Qed.

(* the model runs: a small concrete codec whose decoder lags behind its output, read back through capacities
   1, 2, 8, from a slice and from 1- / 2-byte chunks, with buffered and bypass reads, and zero-byte datums *)
Theorem C05_decoder_model_runs :
  let x := [5; 6; 7] in
  Forall (fun r => is_done r x [7])
    [toy_run x [] 3 7 None 1 toy_pol_buffered; toy_run x [] 3 7 None 2 toy_pol_buffered;
     toy_run x [] 3 7 None 8 toy_pol_buffered; toy_run x [] 3 7 None 1 toy_pol_direct;
     toy_run x [] 3 7 (Some (mkCh 1 [] 1)) 1 toy_pol_buffered; toy_run x [] 3 7 (Some (mkCh 1 [] 1)) 8 toy_pol_buffered;
     toy_run x [] 3 7 (Some (mkCh 2 [] 2)) 2 toy_pol_direct; toy_run x [] 3 7 (Some (mkCh 2 [3] 1)) 8 toy_pol_direct]
  /\ Forall (fun r => is_done r [tt; tt; tt] [])
    [toy_zero_run 3 None 1; toy_zero_run 3 None 8; toy_zero_run 3 (Some (mkCh 1 [] 1)) 1; toy_zero_run 3 (Some (mkCh 1 [] 1)) 8].
Proof. exact toy_read_back. Qed.

(* the end-of-block check before commit 8463ea9 ("Take limit = 0" only) rejects a valid block of zero-byte datums
   (the decoder was never read) and a valid block whose decoder lags, and accepts a lowered count; the check as it
   is now decides the three correctly *)
Theorem C05_end_check_before_fix_refuted :
  option_map (fun s => fst (block_end_before_fix toyst s)) (block_open toyst TRun (toy_enc [] ++ toy_sync) None 1 8) = Some EndTakeLeft /\
  option_map (fun s => fst (block_end toyst toy_dread s)) (block_open toyst TRun (toy_enc [] ++ toy_sync) None 1 8) = Some EndOk /\
  option_map (fun s => fst (block_end_before_fix toyst s)) (toy_state_after [5; 6; 7] 3 None 1) = Some EndTakeLeft /\
  option_map (fun s => fst (block_end toyst toy_dread s)) (toy_state_after [5; 6; 7] 3 None 1) = Some EndOk /\
  option_map (fun s => fst (block_end_before_fix toyst s)) (toy_state_after [5; 6; 7] 2 None 8) = Some EndOk /\
  option_map (fun s => fst (block_end toyst toy_dread s)) (toy_state_after [5; 6; 7] 2 None 8) = Some EndLeftover.
Proof. exact end_check_before_fix_refuted. Qed.

(* the decoder contract is not vacuous: the small codec of DecodeLoop.v (every data byte preceded by 1, end marker 0;
   its decoder works on what fill_buf shows, stops when dst is full and so lags behind its output) meets it for
   EVERY data x and EVERY content a of the Take that agrees with the stream -- the stream, any cut of it, the stream
   followed by any bytes -- under any request sizes and chunk plans; so blocks of it read back *)
Theorem C05_decoder_contract_inhabited : forall x a, agree a (toy_enc x) ->
  stream_decoder_contract toyst toy_dread (toy_enc x) x a TRun.
Proof. exact toy_contract. Qed.

Theorem C05_toy_block_read_back : forall (x : bytes) policy sync rest ch cap fuel s,
  length sync = 16%nat -> (1 <= cap)%nat -> (length x < fuel)%nat ->
  block_open toyst TRun (toy_enc x ++ sync ++ rest) ch (length (toy_enc x)) cap = Some s ->
  exists ch', block_run toyst toy_dread policy N byte_vdec fuel (length x) sync s = (x, BDone rest ch').
Proof. exact toy_block_read_back. Qed.

(** ** Whole files with compressed blocks (model/ContainerCodec.v, proofs/ContainerCodecProofs.v) *)
Require Import ContainerCodec ContainerCodecProofs.

(* a file written by the writer model with ANY block codec function enc -- any values, block layout, explicit
   flushes, closing op, sink schedule on which the calls return Ok -- read by the reader for compressed files
   (header through cr_open, then per block count / size / BufReader(cap) over a streaming decoder over Take / end
   check / sync marker) yields the written metadata, exactly the written values in order, then end of stream:
   for every decoder meeting the contract on the blocks the session cuts (stream_codec_ok), every capacity >= 1,
   every read policy of the deserializer, from a slice AND from a source delivered in ANY chunking *)
Theorem C05_compressed_file_read_back :
  forall (enc : bytes -> bytes) (D : Type) (dread : D -> bytes -> option chunkst -> nat -> dres * D) (d0 : D)
    (policy : nat -> nat -> option nat) (raw_dec : bytes -> option bytes) (crc32 : bytes -> N) (lfuel : nat) (Sc : fschema)
    (cfg : dcfg) (root : fnode) (approx : N) (sync : bytes) (vectored : bool),
  schema_wf Sc = true -> fnode_at Sc 0 = Some root -> length sync = 16%nat ->
  forall (cap : nat) (json cname : bytes) (user : list (bytes * bytes)) (sched : list wans) (st0 : wstate) (hs : list hop)
    (close : wop) (outs : list (wout * N)) (st' : wstate),
  (1 <= cap)%nat -> ContainerHeaderProofs.keys_utf8 user -> (length user <= 998)%nat ->
  wbuild sync json cname user sched = (WROk, st0) ->
  Forall (value_ok Sc cfg root) (vals_of hs) -> fits (length (vals_of hs)) ->
  (length (encs Sc root (vals_of hs)) < lfuel)%nat ->
  stream_codec_ok enc D dread d0 Sc root (vals_of hs) ->
  close = WFinish \/ close = WIntoInner \/ close = WDrop ->
  wrun enc Sc approx sync vectored st0 (map (op_of Sc root) hs ++ [close]) = (outs, st') ->
  Forall (fun r : wout * N => fst r = WROk) outs ->
  ccr_file D dread d0 policy raw_dec crc32 dval (cc_vdec Sc cfg root) (BStream cap) lfuel (slice_reader (w_sink st')) =
    Ok (ContainerHeaderProofs.header_entries json cname user, sync, map (dval_any Sc root) (vals_of hs), CEof) /\
  (forall (plan : list N) (ma : N), N.of_nat (length (w_sink st')) <= ma ->
   ccr_file D dread d0 policy raw_dec crc32 dval (cc_vdec Sc cfg root) (BStream cap) lfuel (chunked_reader (w_sink st') plan ma) =
     Ok (ContainerHeaderProofs.header_entries json cname user, sync, map (dval_any Sc root) (vals_of hs), CEof)).
Proof. exact ccr_file_read_back. Qed.

(* the snappy layout (raw block + CRC-32 of the uncompressed data), for any raw codec that inverts and any 32-bit checksum *)
Theorem C05_snappy_file_read_back :
  forall (raw_enc : bytes -> bytes) (raw_dec : bytes -> option bytes) (crc32 : bytes -> N),
  (forall x : bytes, raw_dec (raw_enc x) = Some x) -> (forall x : bytes, crc32 x < 4294967296) ->
  forall (D : Type) (dread : D -> bytes -> option chunkst -> nat -> dres * D) (d0 : D) (policy : nat -> nat -> option nat)
    (lfuel : nat) (Sc : fschema) (cfg : dcfg) (root : fnode) (approx : N) (sync : bytes) (vectored : bool),
  schema_wf Sc = true -> fnode_at Sc 0 = Some root -> length sync = 16%nat ->
  forall (json cname : bytes) (user : list (bytes * bytes)) (sched : list wans) (st0 : wstate) (hs : list hop) (close : wop)
    (outs : list (wout * N)) (st' : wstate),
  ContainerHeaderProofs.keys_utf8 user -> (length user <= 998)%nat ->
  wbuild sync json cname user sched = (WROk, st0) ->
  Forall (value_ok Sc cfg root) (vals_of hs) -> fits (length (vals_of hs)) ->
  snappy_sizes_ok raw_enc crc32 Sc root (vals_of hs) ->
  close = WFinish \/ close = WIntoInner \/ close = WDrop ->
  wrun (snappy_encode raw_enc crc32) Sc approx sync vectored st0 (map (op_of Sc root) hs ++ [close]) = (outs, st') ->
  Forall (fun r : wout * N => fst r = WROk) outs ->
  ccr_file D dread d0 policy raw_dec crc32 dval (cc_vdec Sc cfg root) BSnappy lfuel (slice_reader (w_sink st')) =
    Ok (ContainerHeaderProofs.header_entries json cname user, sync, map (dval_any Sc root) (vals_of hs), CEof) /\
  (forall (plan : list N) (ma : N), N.of_nat (length (w_sink st')) <= ma ->
   ccr_file D dread d0 policy raw_dec crc32 dval (cc_vdec Sc cfg root) BSnappy lfuel (chunked_reader (w_sink st') plan ma) =
     Ok (ContainerHeaderProofs.header_entries json cname user, sync, map (dval_any Sc root) (vals_of hs), CEof)).
Proof. exact file_read_back_snappy. Qed.

Check ToyExample.toy_file_computed.      (* a concrete 121-byte two-block file, three reader configurations, damaged variants *)
Check ToyExample.toy_file_by_theorem.
Check ToyExample.snappy_file_computed.
Check ToyExample.cap_zero_refuted.                  (* the hypotheses are needed *)
Check ToyExample.max_alloc_small_refuted.
