(** Schema node kinds (the variants of self_referential::SchemaNode) and the
    union lookup keys (UnionVariantLookupKey). *)
Require Import Base.

Inductive nkind :=
  | NkNull | NkBoolean | NkInt | NkLong | NkFloat | NkDouble | NkBytes | NkString
  | NkArray | NkMap | NkUnion | NkRecord | NkEnum | NkFixed | NkDecimal | NkBigDecimal
  | NkUuid | NkDate | NkTimeMillis | NkTimeMicros | NkTimestampMillis | NkTimestampMicros
  | NkDuration.

Inductive ukey :=
  | KNull | KUnitStruct | KBoolean | KInteger | KInteger4 | KInteger8 | KFloat4 | KFloat8
  | KStr | KSliceU8 | KUnitVariant | KStructOrMap | KSeqOrTupleOrTupleStruct.

(* which name(s) a node kind registers for by-name lookup *)
Inductive regname := RnNone | RnName | RnDecimalFixedName.

Definition ukey_eqb (a b : ukey) : bool :=
  match a, b with
  | KNull, KNull | KUnitStruct, KUnitStruct | KBoolean, KBoolean | KInteger, KInteger
  | KInteger4, KInteger4 | KInteger8, KInteger8 | KFloat4, KFloat4 | KFloat8, KFloat8
  | KStr, KStr | KSliceU8, KSliceU8 | KUnitVariant, KUnitVariant | KStructOrMap, KStructOrMap
  | KSeqOrTupleOrTupleStruct, KSeqOrTupleOrTupleStruct => true
  | _, _ => false
  end.

Definition all_ukeys : list ukey :=
  [KNull; KUnitStruct; KBoolean; KInteger; KInteger4; KInteger8; KFloat4; KFloat8;
   KStr; KSliceU8; KUnitVariant; KStructOrMap; KSeqOrTupleOrTupleStruct].
Definition all_nkinds : list nkind :=
  [NkNull; NkBoolean; NkInt; NkLong; NkFloat; NkDouble; NkBytes; NkString;
   NkArray; NkMap; NkUnion; NkRecord; NkEnum; NkFixed; NkDecimal; NkBigDecimal;
   NkUuid; NkDate; NkTimeMillis; NkTimeMicros; NkTimestampMillis; NkTimestampMicros; NkDuration].
