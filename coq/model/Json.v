(** JSON documents as serde_json sees them after lexing: the model of schema parsing starts at
    this AST (number tokens are kept as text), and serde_json's compact printer (to_string). *)
Require Import Base Text.
From Coq Require Import String.
Open Scope N_scope.
Notation length := List.length (only parsing).

Inductive json :=
  | JNull
  | JBool (b : bool)
  | JNum (tok : bytes)                    (* the number token as written *)
  | JStr (s : bytes)                      (* the string's contents (unescaped, UTF-8) *)
  | JArr (l : list json)
  | JObj (kvs : list (bytes * json)).     (* in document order, duplicates kept *)

(* a number token that deserializes into an unsigned integer type: digits only *)
Definition is_digit_b (b : N) : bool := (48 <=? b) && (b <=? 57).
Fixpoint digits_to_N (ds : bytes) (acc : N) : N :=
  match ds with [] => acc | d :: t => digits_to_N t (acc * 10 + (d - 48)) end.
Definition num_as_unsigned (tok : bytes) (max : N) : option N :=
  match tok with
  | [] => None
  | _ =>
      if forallb is_digit_b tok && Nat.leb (length tok) 20 then
        let n := digits_to_N tok 0 in
        if n <=? max then Some n else None
      else None
  end.

(* serde_json::ser string escaping: quote, backslash, b f n r t short escapes, other control
   characters as u00XX *)
Definition hex_digit (n : N) : N := if n <? 10 then 48 + n else 87 + n.
Definition escape_byte (b : N) : bytes :=
  if b =? 34 then lit "\"""
  else if b =? 92 then [92; 92]
  else if b =? 8 then [92; 98]
  else if b =? 12 then [92; 102]
  else if b =? 10 then [92; 110]
  else if b =? 13 then [92; 114]
  else if b =? 9 then [92; 116]
  else if b <? 32 then [92; 117; 48; 48; hex_digit (b / 16); hex_digit (b mod 16)]
  else [b].
Definition json_string (s : bytes) : bytes := [34] ++ flat_map escape_byte s ++ [34].

Fixpoint sep_concat (sep : bytes) (l : list bytes) : bytes :=
  match l with
  | [] => []
  | [x] => x
  | x :: t => x ++ sep ++ sep_concat sep t
  end.

Fixpoint json_text (j : json) : bytes :=
  match j with
  | JNull => lit "null"
  | JBool true => lit "true"
  | JBool false => lit "false"
  | JNum tok => tok
  | JStr s => json_string s
  | JArr l => lit "[" ++ sep_concat (lit ",") (map json_text l) ++ lit "]"
  | JObj kvs =>
      lit "{" ++ sep_concat (lit ",") (map (fun kv => json_string (fst kv) ++ lit ":" ++ json_text (snd kv)) kvs)
      ++ lit "}"
  end.
