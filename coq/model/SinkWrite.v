(** Model of std::io::Write::write_all (library/std/src/io/mod.rs) run against a sink whose answers
    follow a schedule (the [wans] answers of VectoredWrite.v), of a serialization as the list of
    pieces it hands to write_all, of a single `write` call whose count is discarded (the shape of the
    seeded defects in struct_or_map.rs / single_object_encoding.rs), and of std's
    `impl Write for &mut [u8]` (library/std/src/io/impls.rs).

    Used by: ser/serializer/*.rs (every write_all of the datum serializer) and
    single_object_encoding.rs (write_all marker, write_all fingerprint, then the datum). *)
Require Import Base VectoredWrite.
Open Scope nat_scope.

(** * One `write` call on the scheduled sink *)

(* what ONE Write::write(buf) call returns *)
Inductive w1res :=
  | W1Ok (n : nat)        (* Ok(n): n bytes of buf were taken *)
  | W1Interrupted         (* Err(ErrorKind::Interrupted) *)
  | W1Hard.               (* any other error *)

(* bytes an Accept k answer takes from a buffer of len bytes *)
Definition accept_len (k : N) (len : nat) : nat := Nat.min (Nat.max (N.to_nat k) 1) len.

(* the sink consumes one answer of the schedule; Accept k takes min(max(k,1), len) bytes (the same
   convention as wav_loop), so Ok(n) always has n <= buf.len() *)
Definition sink_write (sched : list wans) (sink buf : bytes) : w1res * bytes * list wans :=
  let (a, sched') := next_ans sched in
  match a with
  | Accept k =>
      let n := accept_len k (length buf) in
      (W1Ok n, sink ++ firstn n buf, sched')
  | Interrupted => (W1Interrupted, sink, sched')
  | Zero => (W1Ok 0, sink, sched')
  | Hard => (W1Hard, sink, sched')
  end.

(** * std's default write_all
      while !buf.is_empty() {
          match self.write(buf) {
              Ok(0) => return Err(WRITE_ALL_EOF),          (ErrorKind::WriteZero)
              Ok(n) => buf = &buf[n..],
              Err(ref e) if e.is_interrupted() => {}
              Err(e) => return Err(e),
          }
      }
      Ok(())
    fuel bounds the number of sink calls (an empty buf needs none). *)
Fixpoint write_all_sched (fuel : nat) (sched : list wans) (sink buf : bytes)
  : wres * bytes * list wans :=
  match buf with
  | [] => (WOk, sink, sched)
  | _ =>
      match fuel with
      | O => (WOutOfFuel, sink, sched)
      | S f =>
          let '(r, sink', sched') := sink_write sched sink buf in
          match r with
          | W1Ok n =>
              if Nat.eqb n 0 then (WErrZero, sink', sched')
              else write_all_sched f sched' sink' (skipn n buf)
          | W1Interrupted => write_all_sched f sched' sink' buf
          | W1Hard => (WErrHard, sink', sched')
          end
      end
  end.

(** * A serialization = the pieces it passes to write_all, in order, with `?` after each call
    (each write_all call has its own fuel) *)
Fixpoint write_pieces_sched (fuel : nat) (sched : list wans) (sink : bytes) (ps : list bytes)
  : wres * bytes * list wans :=
  match ps with
  | [] => (WOk, sink, sched)
  | p :: t =>
      let '(r, sink', sched') := write_all_sched fuel sched sink p in
      match r with
      | WOk => write_pieces_sched fuel sched' sink' t
      | _ => (r, sink', sched')
      end
  end.

(** * The defect shape: `writer.write(&piece).map_err(SerError::io)?`
    ONE write call, the returned count is discarded: Ok(n) for any n (even 0) goes on as if the whole
    piece had been written; an error (Interrupted included: nothing retries) is returned. *)
Definition write_once_sched (sched : list wans) (sink buf : bytes) : wres * bytes * list wans :=
  let '(r, sink', sched') := sink_write sched sink buf in
  match r with
  | W1Ok _ => (WOk, sink', sched')
  | W1Interrupted => (WErrHard, sink', sched')
  | W1Hard => (WErrHard, sink', sched')
  end.

(* pieces written with write_all (true) or with one bare write (false) *)
Fixpoint write_mixed_sched (fuel : nat) (sched : list wans) (sink : bytes) (ps : list (bool * bytes))
  : wres * bytes * list wans :=
  match ps with
  | [] => (WOk, sink, sched)
  | (all, p) :: t =>
      let '(r, sink', sched') :=
        if all then write_all_sched fuel sched sink p else write_once_sched sched sink p in
      match r with
      | WOk => write_mixed_sched fuel sched' sink' t
      | _ => (r, sink', sched')
      end
  end.

(** * Fixed-size slice sinks: impl Write for &mut [u8]
      fn write(&mut self, data) { let amt = min(data.len(), self.len()); copy; *self = rest; Ok(amt) }
      fn write_all(&mut self, data) { if self.write(data)? < data.len() { Err(WRITE_ALL_EOF) } else { Ok(()) } }
    The sink state is what was written so far and the remaining length of the slice. *)
Definition slice_write (rem : nat) (sink buf : bytes) : nat * bytes * nat :=
  let amt := Nat.min (length buf) rem in
  (amt, sink ++ firstn amt buf, rem - amt).

(* the override of write_all in impls.rs *)
Definition slice_write_all (rem : nat) (sink buf : bytes) : wres * bytes * nat :=
  let '(amt, sink', rem') := slice_write rem sink buf in
  if Nat.ltb amt (length buf) then (WErrZero, sink', rem') else (WOk, sink', rem').

(* the default write_all loop over slice_write (what a wrapper that only forwards `write` runs) *)
Fixpoint slice_write_all_loop (fuel : nat) (rem : nat) (sink buf : bytes) : wres * bytes * nat :=
  match buf with
  | [] => (WOk, sink, rem)
  | _ =>
      match fuel with
      | O => (WOutOfFuel, sink, rem)
      | S f =>
          let '(amt, sink', rem') := slice_write rem sink buf in
          if Nat.eqb amt 0 then (WErrZero, sink', rem')
          else slice_write_all_loop f rem' sink' (skipn amt buf)
      end
  end.

Fixpoint slice_write_pieces (rem : nat) (sink : bytes) (ps : list bytes) : wres * bytes * nat :=
  match ps with
  | [] => (WOk, sink, rem)
  | p :: t =>
      let '(r, sink', rem') := slice_write_all rem sink p in
      match r with
      | WOk => slice_write_pieces rem' sink' t
      | _ => (r, sink', rem')
      end
  end.

(* the slice as a schedule: its answer to a write call is Accept(remaining) while room remains and
   Ok(0) afterwards; the remaining room after each write_all depends on the pieces written, so the
   schedule is generated from the capacity and the pieces (write_all of an empty piece makes no
   call and consumes no answer) *)
Fixpoint slice_sched (cap : nat) (ps : list bytes) : list wans :=
  match ps with
  | [] => if Nat.eqb cap 0 then [Zero] else [Accept (N.of_nat cap)]
  | p :: t =>
      if Nat.eqb (length p) 0 then slice_sched cap t
      else if Nat.eqb cap 0 then [Zero]
      else if Nat.leb (length p) cap then Accept (N.of_nat cap) :: slice_sched (cap - length p) t
      else [Accept (N.of_nat cap); Zero]
  end.
