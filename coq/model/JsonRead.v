(** The JSON text layer: a reader for RFC 8259 JSON text as serde_json accepts it
    (serde_json::de::Deserializer over a byte slice, producing the AST of Json.v).

    - whitespace (space, \t, \n, \r) between tokens, nothing but whitespace after the value;
    - literals null / true / false;
    - numbers per the JSON grammar  -? (0 | [1-9][0-9]* ) (. [0-9]+)? ([eE] [+-]? [0-9]+)?  kept as the token
      text (the AST of Json.v keeps number tokens as written); a digit right after a leading 0 is an error;
    - strings: escapes (backslash then) quote, backslash, / b f n r t and uXXXX (either hex case); a leading surrogate must be followed
      by an escaped trailing surrogate, the pair is one code point; lone surrogates are errors; raw control
      characters < 0x20 are errors; the decoded contents must be well-formed UTF-8 (SliceRead::parse_str
      finishes with str::from_utf8 on the decoded contents);
    - arrays, objects (keys are strings; document order and duplicates kept);
    - recursion limit: [depth] is serde_json's remaining_depth (128 at start): entering an array or an
      object decrements it and fails with [JDepth] when it reaches 0.

    All recursive functions are structural: on the input for the lexical helpers, on [fuel] for strings and
    values; every unit of fuel is paid for by at least one consumed byte, so fuel = S (length text) suffices
    (proofs/JsonReadProofs.v: [json_parse_total]). *)
Require Import Base Utf8 Text Json.
Open Scope N_scope.
Notation length := List.length (only parsing).

Inductive jerror :=
  | JEof            (* EofWhileParsingValue / String / List / Object *)
  | JSyntax         (* ExpectedSomeValue, ExpectedSomeIdent, ExpectedColon, ExpectedListCommaOrEnd, KeyMustBeAString ... *)
  | JNumber         (* InvalidNumber *)
  | JEscape         (* InvalidEscape *)
  | JControl        (* ControlCharacterWhileParsingString *)
  | JSurrogate      (* LoneLeadingSurrogateInHexEscape / UnexpectedEndOfHexEscape *)
  | JUtf8           (* InvalidUnicodeCodePoint *)
  | JTrailing       (* TrailingCharacters *)
  | JDepth.         (* RecursionLimitExceeded *)

(* outcome of a reader: a value and the remaining input *)
Inductive jres (A : Type) :=
  | JOk (a : A) (rest : bytes)
  | JErr (e : jerror)
  | JFuel.
Arguments JOk {A} a rest.
Arguments JErr {A} e.
Arguments JFuel {A}.

Definition jbind {A B} (r : jres A) (f : A -> bytes -> jres B) : jres B :=
  match r with JOk a rest => f a rest | JErr e => JErr e | JFuel => JFuel end.

(** * Whitespace *)
Definition is_ws (b : N) : bool := (b =? 32) || (b =? 9) || (b =? 10) || (b =? 13).
Fixpoint skip_ws (s : bytes) : bytes :=
  match s with
  | b :: r => if is_ws b then skip_ws r else s
  | [] => []
  end.

(** * Literals: the remaining letters of null / true / false *)
Fixpoint expect {A} (word : bytes) (s : bytes) (a : A) : jres A :=
  match word with
  | [] => JOk a s
  | c :: word' =>
      match s with
      | [] => JErr JEof
      | b :: r => if b =? c then expect word' r a else JErr JSyntax
      end
  end.

(** * Numbers: each part returns the text it matched and the remaining input *)
Fixpoint span_digits (s : bytes) : bytes * bytes :=
  match s with
  | b :: r => if is_digit_b b then let (d, r') := span_digits r in (b :: d, r') else ([], s)
  | [] => ([], [])
  end.

(* one or more digits *)
Definition digits1 (s : bytes) : option (bytes * bytes) :=
  match span_digits s with
  | ([], _) => None
  | (d, r) => Some (d, r)
  end.

Definition read_sign (minus_only : bool) (s : bytes) : bytes * bytes :=
  match s with
  | b :: r => if (b =? 45) || (negb minus_only && (b =? 43)) then ([b], r) else ([], s)
  | [] => ([], s)
  end.

(* 0 | [1-9][0-9]*   -- and no digit after a leading 0 *)
Definition read_int (s : bytes) : option (bytes * bytes) :=
  match s with
  | b :: r =>
      if b =? 48 then
        match r with
        | c :: _ => if is_digit_b c then None else Some ([48], r)
        | [] => Some ([48], r)
        end
      else if is_digit_b b then let (d, r') := span_digits r in Some (b :: d, r')
      else None
  | [] => None
  end.

(* (. [0-9]+)? *)
Definition read_frac (s : bytes) : option (bytes * bytes) :=
  match s with
  | b :: r =>
      if b =? 46 then match digits1 r with Some (d, r') => Some (b :: d, r') | None => None end
      else Some ([], s)
  | [] => Some ([], s)
  end.

(* ([eE] [+-]? [0-9]+)? *)
Definition read_exp (s : bytes) : option (bytes * bytes) :=
  match s with
  | b :: r =>
      if (b =? 101) || (b =? 69) then
        let (sg, r1) := read_sign false r in
        match digits1 r1 with Some (d, r') => Some (b :: sg ++ d, r') | None => None end
      else Some ([], s)
  | [] => Some ([], s)
  end.

Definition read_number (s : bytes) : option (bytes * bytes) :=
  let (sg, s1) := read_sign true s in
  match read_int s1 with
  | None => None
  | Some (i, s2) =>
      match read_frac s2 with
      | None => None
      | Some (f, s3) =>
          match read_exp s3 with
          | None => None
          | Some (e, s4) => Some (sg ++ i ++ f ++ e, s4)
          end
      end
  end.

(* a well-formed number token: the number reader takes all of it *)
Definition json_number_wf (tok : bytes) : bool :=
  match read_number tok with
  | Some (_, []) => true
  | _ => false
  end.

(** * Strings *)
Definition hex_val (b : N) : option N :=
  if is_digit_b b then Some (b - 48)
  else if (65 <=? b) && (b <=? 70) then Some (b - 55)
  else if (97 <=? b) && (b <=? 102) then Some (b - 87)
  else None.

(* decode_hex_escape: four hex digits *)
Definition hex4 (s : bytes) : jres N :=
  match s with
  | a :: b :: c :: d :: r =>
      match hex_val a, hex_val b, hex_val c, hex_val d with
      | Some x, Some y, Some z, Some t => JOk (((x * 16 + y) * 16 + z) * 16 + t) r
      | _, _, _, _ => JErr JEscape
      end
  | _ => JErr JEof
  end.

(* parse_unicode_escape (validate = true), after the backslash-u *)
Definition read_unicode (s : bytes) : jres bytes :=
  jbind (hex4 s) (fun n r =>
    if (56320 <=? n) && (n <=? 57343) then JErr JSurrogate                 (* DC00..DFFF first *)
    else if (55296 <=? n) && (n <=? 56319) then                           (* D800..DBFF: leading *)
      match r with
      | b1 :: b2 :: r1 =>
          if (b1 =? 92) && (b2 =? 117) then
            jbind (hex4 r1) (fun n2 r2 =>
              if (56320 <=? n2) && (n2 <=? 57343)
              then JOk (utf8_encode (65536 + (n - 55296) * 1024 + (n2 - 56320))) r2
              else JErr JSurrogate)
          else JErr JSurrogate
      | _ => JErr JEof
      end
    else JOk (utf8_encode n) r).

(* parse_escape, after the backslash: the bytes the escape stands for *)
Definition read_escape (s : bytes) : jres bytes :=
  match s with
  | [] => JErr JEof
  | c :: r =>
      if c =? 34 then JOk [34] r
      else if c =? 92 then JOk [92] r
      else if c =? 47 then JOk [47] r
      else if c =? 98 then JOk [8] r
      else if c =? 102 then JOk [12] r
      else if c =? 110 then JOk [10] r
      else if c =? 114 then JOk [13] r
      else if c =? 116 then JOk [9] r
      else if c =? 117 then read_unicode r
      else JErr JEscape
  end.

(* the contents of a string, after the opening quote, up to and including the closing quote *)
Fixpoint read_str (fuel : nat) (s : bytes) : jres bytes :=
  match fuel with
  | O => JFuel
  | S f =>
      match s with
      | [] => JErr JEof
      | b :: r =>
          if b =? 34 then JOk [] r
          else if b =? 92 then
            jbind (read_escape r) (fun e r1 => jbind (read_str f r1) (fun t r2 => JOk (e ++ t) r2))
          else if b <? 32 then JErr JControl
          else jbind (read_str f r) (fun t r1 => JOk (b :: t) r1)
      end
  end.

Definition read_string (fuel : nat) (s : bytes) : jres bytes :=
  jbind (read_str fuel s) (fun t r => if utf8_valid t then JOk t r else JErr JUtf8).

(** * Values *)

(* key : value   -- the key is a string, [rv] reads a value *)
Definition read_member (rv : bytes -> jres json) (fuel : nat) (s : bytes) : jres (bytes * json) :=
  match skip_ws s with
  | [] => JErr JEof
  | q :: r =>
      if q =? 34 then
        jbind (read_string fuel r) (fun k r1 =>
          match skip_ws r1 with
          | [] => JErr JEof
          | c :: r2 => if c =? 58 then jbind (rv r2) (fun v r3 => JOk (k, v) r3) else JErr JSyntax
          end)
      else JErr JSyntax
  end.

(* remaining_depth -= 1; if remaining_depth == 0 { RecursionLimitExceeded } *)
Definition enter (depth : nat) : option nat :=
  match depth with S (S d) => Some (S d) | _ => None end.

Fixpoint read_value (fuel depth : nat) (s : bytes) {struct fuel} : jres json :=
  match fuel with
  | O => JFuel
  | S f =>
      match skip_ws s with
      | [] => JErr JEof
      | b :: r =>
          if b =? 110 then expect [117; 108; 108] r JNull                       (* null *)
          else if b =? 116 then expect [114; 117; 101] r (JBool true)           (* true *)
          else if b =? 102 then expect [97; 108; 115; 101] r (JBool false)      (* false *)
          else if b =? 34 then jbind (read_string f r) (fun t r1 => JOk (JStr t) r1)
          else if b =? 91 then                                                  (* [ *)
            match enter depth with
            | None => JErr JDepth
            | Some d =>
                match skip_ws r with
                | [] => JErr JEof
                | c :: r1 =>
                    if c =? 93 then JOk (JArr []) r1
                    else jbind (read_value f d r) (fun v r2 =>
                         jbind (read_elems f d r2) (fun l r3 => JOk (JArr (v :: l)) r3))
                end
            end
          else if b =? 123 then                                                 (* { *)
            match enter depth with
            | None => JErr JDepth
            | Some d =>
                match skip_ws r with
                | [] => JErr JEof
                | c :: r1 =>
                    if c =? 125 then JOk (JObj []) r1
                    else jbind (read_member (read_value f d) f r) (fun kv r2 =>
                         jbind (read_members f d r2) (fun l r3 => JOk (JObj (kv :: l)) r3))
                end
            end
          else if (b =? 45) || is_digit_b b then
            match read_number (b :: r) with
            | Some (tok, r1) => JOk (JNum tok) r1
            | None => JErr JNumber
            end
          else JErr JSyntax
      end
  end
(* after an element:  , value ...  or  ] *)
with read_elems (fuel depth : nat) (s : bytes) {struct fuel} : jres (list json) :=
  match fuel with
  | O => JFuel
  | S f =>
      match skip_ws s with
      | [] => JErr JEof
      | c :: r =>
          if c =? 93 then JOk [] r
          else if c =? 44 then
            jbind (read_value f depth r) (fun v r1 =>
            jbind (read_elems f depth r1) (fun l r2 => JOk (v :: l) r2))
          else JErr JSyntax
      end
  end
(* after a member:  , key : value ...  or  } *)
with read_members (fuel depth : nat) (s : bytes) {struct fuel} : jres (list (bytes * json)) :=
  match fuel with
  | O => JFuel
  | S f =>
      match skip_ws s with
      | [] => JErr JEof
      | c :: r =>
          if c =? 125 then JOk [] r
          else if c =? 44 then
            jbind (read_member (read_value f depth) f r) (fun kv r1 =>
            jbind (read_members f depth r1) (fun l r2 => JOk (kv :: l) r2))
          else JErr JSyntax
      end
  end.

(* a whole document: one value, then nothing but whitespace (Deserializer::end) *)
Definition json_parse (fuel depth : nat) (text : bytes) : jres json :=
  jbind (read_value fuel depth text) (fun j r =>
    match skip_ws r with [] => JOk j [] | _ => JErr JTrailing end).

Definition SERDE_JSON_DEPTH : nat := 128.

(* in the outcome type of the rest of the model: every rejection is a data error *)
Definition json_read_depth (depth fuel : nat) (text : bytes) : result json :=
  match json_parse fuel depth text with
  | JOk j _ => Ok j
  | JErr _ => Err EData
  | JFuel => OutOfFuel
  end.
Definition json_read (fuel : nat) (text : bytes) : result json := json_read_depth SERDE_JSON_DEPTH fuel text.

(* with the fuel that always suffices *)
Definition json_of_text (text : bytes) : result json := json_read (S (length text)) text.

(** * What the printer's input must satisfy to be read back: strings are UTF-8, number tokens are numbers *)
Fixpoint json_wf (j : json) : bool :=
  match j with
  | JNull | JBool _ => true
  | JNum tok => json_number_wf tok
  | JStr s => utf8_valid s
  | JArr l => forallb json_wf l
  | JObj kvs => forallb (fun kv => utf8_valid (fst kv) && json_wf (snd kv)) kvs
  end.

(* nesting depth: 0 for scalars *)
Fixpoint json_depth (j : json) : nat :=
  match j with
  | JArr l => S (fold_right (fun x m => Nat.max (json_depth x) m) O l)
  | JObj kvs => S (fold_right (fun kv m => Nat.max (json_depth (snd kv)) m) O kvs)
  | _ => O
  end.
