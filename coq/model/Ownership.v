(** Index-level model of the self-referential construction of [Schema] and of the handle
    discipline around it (property C10).  Executable, no proofs (proofs/OwnershipProofs.v).

    Sources (line numbers of /repo/serde_avro_fast/src at the time of writing):
      schema/self_referential.rs              l.249-438  TryFrom<SchemaMut> for Schema (freeze)
      schema/union_variants_per_type_lookup.rs l.65-152  PerTypeLookup::new (the only dereference during freeze)
      object_container_file_encoding/reader/mod.rs l.70-85 (field order), l.152-205 (new_and_metadata),
                                                   l.285-418 (deserialize_seed_next / _inner)

    WHAT IS MODELLED: which slot indices are turned into node references, which slots have
    been written when a reference is dereferenced, which handle owns / counts / borrows which
    allocation, and when an allocation is freed.
    WHAT IS NOT MODELLED (and cannot be in Gallina): the Rust aliasing model (Stacked / Tree
    Borrows: e.g. whether a `&mut` to a part of a node may coexist with a `&` to the whole node),
    the soundness of `unsafe impl Send/Sync for NodeRef`, data races, the allocator (that a `Vec`
    buffer does not move when the `Vec` value is moved is an ASSUMPTION of this model: an
    allocation keeps its identity under [OpMove]/[OpIntoArc]), unwinding.  Those are exercised
    with Miri by lib/p_C10.py (a detector, not a proof). *)
From Coq Require Import List Arith Bool.
Require Import Base Schema.
Import ListNotations.
Local Open Scope nat_scope.

(* ------------------------------------------------------------------------------------------ *)
(** * 1. freeze as steps over one allocation *)

(** What freeze looks at in a SchemaMut node as far as references go: the keys handed to
    [key_to_ref], in the order of the code, and whether the node is a union (pass 2). *)
Record onode := mkON { on_union : bool; on_keys : list nat }.

Definition shape (n : mnode) : onode :=
  match m_type n with
  | RArray k => mkON false [k]                       (* l.356 *)
  | RMap k => mkON false [k]                         (* l.357 *)
  | RUnion ks => mkON true ks                        (* l.358-373: variants pushed in order *)
  | RRecord _ fs => mkON false (map snd fs)          (* l.374-392: fields in order *)
  | _ => mkON false []                               (* no key: l.299-355, l.393-403 *)
  end.

Inductive fev :=
  | EvAlloc (len : nat)              (* l.261: (0..len).map(|_| Null).collect(); never grown afterwards *)
  | EvMkRef (idx : nat)              (* l.282: NodeRef::new(storage_start_ptr.add(idx)) *)
  | EvWrite (i : nat)                (* l.408: *curr_storage_node_ptr = new_node *)
  | EvDeref (by_slot idx : nat)      (* l.429 -> union_variants_per_type_lookup.rs l.152: schema_node.as_ref() *)
  | EvWriteLookup (i : nat)          (* l.429: *per_type_lookup = ... *)
  | EvDropAlloc.                     (* `?` at l.262/264/356/357/363/386: `ret` (or the temporary Vec) is dropped *)

(** key_to_ref (l.272-283) applied to the keys of one node, left to right; stops at the first
    key with idx >= len (the `?`). *)
Fixpoint mk_refs (len : nat) (ks : list nat) : bool * list fev :=
  match ks with
  | [] => (true, [])
  | k :: t =>
      if k <? len
      then let (ok, ev) := mk_refs len t in (ok, EvMkRef k :: ev)
      else (false, [])
  end.

(** pass 1, l.286-411: node i -> slot i; an error at node k stops the loop. *)
Fixpoint pass1 (len i : nat) (ns : list onode) : bool * list fev :=
  match ns with
  | [] => (true, [])
  | n :: t =>
      match mk_refs len (on_keys n) with
      | (true, ev) => let (ok, ev') := pass1 len (S i) t in (ok, ev ++ EvWrite i :: ev')
      | (false, ev) => (false, ev)
      end
  end.

(** pass 2, l.418-435: for every union slot, PerTypeLookup::new reads the node behind every variant. *)
Fixpoint pass2 (i : nat) (ns : list onode) : list fev :=
  match ns with
  | [] => []
  | n :: t =>
      (if on_union n then map (EvDeref i) (on_keys n) ++ [EvWriteLookup i] else []) ++ pass2 (S i) t
  end.

(** [pre_ok]: outcome of the fingerprint / JSON generation at l.262-266 (models: CanonicalForm.v,
    SchemaJson.v), which run after the placeholder vector was collected. *)
Definition freeze_run (pre_ok : bool) (g : list onode) : bool * list fev :=
  match g with
  | [] => (false, [])                                                  (* l.252-256 *)
  | _ =>
      let len := length g in
      if pre_ok then
        match pass1 len 0 g with
        | (true, ev) => (true, EvAlloc len :: ev ++ pass2 0 g)          (* l.436 Ok(ret) *)
        | (false, ev) => (false, EvAlloc len :: ev ++ [EvDropAlloc])
        end
      else (false, [EvAlloc len; EvDropAlloc])
  end.

(** The checked memory on which a trace is replayed: [None] = an index-level memory-safety
    violation (reference outside the allocation, access to a freed allocation, dereference
    before every slot has been written by pass 1). *)
Record fmem := mkFM { fm_live : bool; fm_slots : list bool; fm_refs : list nat }.
Definition fm0 : fmem := mkFM false [] [].

Definition all_written (m : fmem) : bool := forallb (fun b => b) (fm_slots m).

Fixpoint set_nth (l : list bool) (i : nat) : option (list bool) :=
  match l, i with
  | [], _ => None
  | _ :: t, O => Some (true :: t)
  | b :: t, S j => match set_nth t j with Some t' => Some (b :: t') | None => None end
  end.

Definition exec_ev (m : fmem) (e : fev) : option fmem :=
  match e with
  | EvAlloc len => if fm_live m then None else Some (mkFM true (repeat false len) [])
  | EvMkRef idx =>
      if fm_live m && (idx <? length (fm_slots m))
      then Some (mkFM true (fm_slots m) (idx :: fm_refs m)) else None
  | EvWrite i =>
      if fm_live m then
        match set_nth (fm_slots m) i with
        | Some sl => Some (mkFM true sl (fm_refs m))
        | None => None
        end
      else None
  | EvDeref _ idx =>
      if fm_live m && all_written m && (idx <? length (fm_slots m)) then Some m else None
  | EvWriteLookup i =>
      if fm_live m && all_written m && (i <? length (fm_slots m)) then Some m else None
  | EvDropAlloc => if fm_live m then Some (mkFM false [] []) else None   (* refs dropped, never dereferenced *)
  end.

Fixpoint exec_trace (m : fmem) (tr : list fev) : option fmem :=
  match tr with
  | [] => Some m
  | e :: t => match exec_ev m e with Some m' => exec_trace m' t | None => None end
  end.

Definition is_deref (e : fev) : bool := match e with EvDeref _ _ => true | _ => false end.

(* ------------------------------------------------------------------------------------------ *)
(** * 2. the handle machine *)

(** Objects a safe program can hold.  [a] is always an allocation index. *)
Inductive obj :=
  | OMut (g : list onode)               (* SchemaMut: plain data, no references *)
  | OSchema (a : nat)                   (* Schema by value (also inside a Box / Vec element): owns allocation a *)
  | OArc (a : nat)                      (* one Arc<Schema> handle on allocation a *)
  | OReader (a : nat) (st : bool)       (* container Reader: its own Arc on a (field `schema`, LAST field) and, while
                                           st = true, reader_state holding fake-'static refs into a (FIRST field);
                                           st = false: ReaderState::Broken (no config) or reader_state already dropped *)
  | OBorrow (root parent a : nat).      (* SerializerConfig / DeserializerConfig / SerializerState / DeserializerState /
                                           &Schema: borrows handle [parent]; [root] = the owning handle at the end of the
                                           borrow chain (what the lifetime is tied to); holds refs into a *)

Record alloc := mkAl { al_live : bool; al_len : nat; al_rc : option nat }.   (* rc = None: owned by value *)
Record state := mkSt { st_h : list (nat * obj); st_a : list alloc }.
Definition st0 : state := mkSt [] [].

Inductive open_fail := OpenOk | OpenFailBeforeSchema | OpenFailAfterSchema.

Inductive op :=
  | OpBuild (d : nat) (g : list onode)           (* SchemaMut::from_nodes *)
  | OpFreeze (s d : nat) (pre_ok : bool)         (* SchemaMut::freeze (consumes s) *)
  | OpParse (d len : nat)                        (* str::parse::<Schema>() : a frozen schema of len nodes *)
  | OpMove (s d : nat)                           (* move by value: let / Box::new / Vec::push / return *)
  | OpIntoArc (s d : nat)                        (* Arc::new(schema) *)
  | OpClone (s d : nat)                          (* Arc::clone / reader.schema().clone() *)
  | OpDrop (s : nat)
  | OpOpen (d len : nat) (f : open_fail)         (* Reader::from_slice / from_reader *)
  | OpRead (s : nat) (ok breaks : bool)          (* deserialize_next; ok: returns Ok(Some _) / Ok(None); breaks: the call
                                                    leaves ReaderState::Broken (l.342/373 mem::replace, then `?`): the config
                                                    holding the refs has been dropped *)
  | OpBorrow (s d : nat)                         (* config / state / &Schema taken from s *)
  | OpUse (s : nat).                             (* serialize / deserialize / json() through s: dereferences *)

(** [Done true] = the call returns Ok, [Done false] = Err; [Rejected] = the program does not
    compile (use of a moved / dropped value, move or drop or `&mut` use of a borrowed value) or the
    operation does not exist for that object; [Fault] = a reference into a freed allocation is used. *)
Inductive outcome := Done (ok : bool) | Rejected | Fault.

Fixpoint lookup (h : nat) (hs : list (nat * obj)) : option obj :=
  match hs with
  | [] => None
  | (k, o) :: t => if k =? h then Some o else lookup h t
  end.
Definition remove (h : nat) (hs : list (nat * obj)) : list (nat * obj) :=
  filter (fun p => negb (fst p =? h)) hs.
Definition borrows (h : nat) (o : obj) : bool :=
  match o with OBorrow r p _ => (r =? h) || (p =? h) | _ => false end.
Definition borrowed (h : nat) (hs : list (nat * obj)) : bool := existsb (fun p => borrows h (snd p)) hs.

Fixpoint upd (l : list alloc) (a : nat) (x : alloc) : list alloc :=
  match l, a with
  | [], _ => []
  | _ :: t, O => x :: t
  | y :: t, S b => y :: upd t b x
  end.

Definition alive (s : state) (a : nat) : bool :=
  match nth_error (st_a s) a with Some al => al_live al | None => false end.

(** the allocation whose nodes the object's references point to *)
Definition refs_of (o : obj) : option nat :=
  match o with
  | OSchema a | OArc a | OBorrow _ _ a => Some a
  | OReader a true => Some a
  | OReader _ false | OMut _ => None
  end.

(** Arc::drop: count - 1; at 0 the Schema (and its node vector) is freed *)
Definition release_arc (als : list alloc) (a : nat) : list alloc :=
  match nth_error als a with
  | Some (mkAl lv len (Some (S n))) => upd als a (mkAl (if n =? 0 then false else lv) len (Some n))
  | _ => als
  end.
Definition retain_arc (als : list alloc) (a : nat) : list alloc :=
  match nth_error als a with
  | Some (mkAl lv len (Some n)) => upd als a (mkAl lv len (Some (S n)))
  | _ => als
  end.
Definition free_owned (als : list alloc) (a : nat) : list alloc :=
  match nth_error als a with
  | Some (mkAl _ len rc) => upd als a (mkAl false len rc)
  | None => als
  end.
Definition to_arc (als : list alloc) (a : nat) : list alloc :=
  match nth_error als a with
  | Some (mkAl lv len _) => upd als a (mkAl lv len (Some 1))
  | None => als
  end.

(** [step s op = (outcome, mid, final)]: [mid] is the intermediate state that exists during
    the operation (only the drop of a Reader has one that differs from [final]: fields are
    dropped in declaration order, reader_state first, the Arc last). *)
Definition step (s : state) (o : op) : outcome * state * state :=
  let hs := st_h s in
  let als := st_a s in
  let rej := (Rejected, s, s) in
  let fin (r : bool) (s' : state) := (Done r, s', s') in
  match o with
  | OpBuild d g =>
      match lookup d hs with
      | None => fin true (mkSt ((d, OMut g) :: hs) als)
      | Some _ => rej
      end
  | OpFreeze src d pre =>
      match lookup src hs with
      | Some (OMut g) =>
          let hs' := remove src hs in
          if borrowed src hs then rej else
          match lookup d hs' with
          | Some _ => rej
          | None =>
              if fst (freeze_run pre g)
              then fin true (mkSt ((d, OSchema (length als)) :: hs') (als ++ [mkAl true (length g) None]))
              else fin false (mkSt hs' (als ++ [mkAl false (length g) None]))   (* allocated (if at all) and freed *)
          end
      | _ => rej
      end
  | OpParse d len =>
      match lookup d hs with
      | None => fin true (mkSt ((d, OSchema (length als)) :: hs) (als ++ [mkAl true len None]))
      | Some _ => rej
      end
  | OpMove src d =>
      match lookup src hs with
      | Some (OBorrow _ _ _) | None => rej
      | Some ob =>
          let hs' := remove src hs in
          if borrowed src hs then rej else
          match lookup d hs' with
          | Some _ => rej
          | None => fin true (mkSt ((d, ob) :: hs') als)
          end
      end
  | OpIntoArc src d =>
      match lookup src hs with
      | Some (OSchema a) =>
          let hs' := remove src hs in
          if borrowed src hs then rej else
          match lookup d hs' with
          | Some _ => rej
          | None => fin true (mkSt ((d, OArc a) :: hs') (to_arc als a))
          end
      | _ => rej
      end
  | OpClone src d =>
      match lookup src hs, lookup d hs with
      | Some (OArc a), None | Some (OReader a _), None =>
          fin true (mkSt ((d, OArc a) :: hs) (retain_arc als a))
      | _, _ => rej
      end
  | OpDrop src =>
      if borrowed src hs then rej else
      match lookup src hs with
      | None => rej
      | Some (OMut _) | Some (OBorrow _ _ _) => fin true (mkSt (remove src hs) als)
      | Some (OSchema a) => fin true (mkSt (remove src hs) (free_owned als a))
      | Some (OArc a) => fin true (mkSt (remove src hs) (release_arc als a))
      | Some (OReader a _) =>
          (Done true,
           mkSt ((src, OReader a false) :: remove src hs) als,          (* reader_state dropped (first field) *)
           mkSt (remove src hs) (release_arc als a))                    (* then `schema: Arc<Schema>` (last field) *)
      end
  | OpOpen d len f =>
      match lookup d hs with
      | Some _ => rej
      | None =>
          match f with
          | OpenFailBeforeSchema => fin false s                                          (* l.157-178 *)
          | OpenFailAfterSchema => fin false (mkSt hs (als ++ [mkAl false len (Some 0)])) (* Arc::new l.174, `?` l.183 *)
          | OpenOk => fin true (mkSt ((d, OReader (length als) true) :: hs) (als ++ [mkAl true len (Some 1)]))
          end
      end
  | OpRead src ok breaks =>
      if borrowed src hs then rej else          (* needs &mut self *)
      match lookup src hs with
      | Some (OReader a true) =>
          if alive s a
          then fin ok (mkSt ((src, OReader a (negb breaks)) :: remove src hs) als)
          else (Fault, s, s)
      | Some (OReader a false) => fin true s     (* l.293-295: Ok(None) without touching reader_state *)
      | _ => rej
      end
  | OpBorrow src d =>
      if src =? d then rej else
      match lookup src hs, lookup d hs with
      | Some (OSchema a), None | Some (OArc a), None | Some (OReader a _), None =>
          fin true (mkSt ((d, OBorrow src src a) :: hs) als)
      | Some (OBorrow r _ a), None => fin true (mkSt ((d, OBorrow r src a) :: hs) als)
      | _, _ => rej
      end
  | OpUse src =>
      match lookup src hs with
      | Some ob =>
          match refs_of ob with
          | Some a => if alive s a then fin true s else (Fault, s, s)
          | None => rej
          end
      | None => rej
      end
  end.

Definition outcome_of (s : state) (o : op) : outcome := fst (fst (step s o)).
Definition mid (s : state) (o : op) : state := snd (fst (step s o)).
Definition exec (s : state) (o : op) : state := snd (step s o).

Definition run (ops : list op) : state := fold_left exec ops st0.

(** outcomes of a whole history (what the OCaml driver prints and the Miri replay is compared with) *)
Fixpoint run_outcomes (s : state) (ops : list op) : list outcome :=
  match ops with
  | [] => []
  | o :: t => outcome_of s o :: run_outcomes (exec s o) t
  end.

(** every reference held by a live object points into a live allocation *)
Definition live_ok (s : state) : Prop :=
  forall h ob a, lookup h (st_h s) = Some ob -> refs_of ob = Some a -> alive s a = true.

(** the same as a computable check (used by the driver on every visited state) *)
Definition live_okb (s : state) : bool :=
  forallb (fun p => match refs_of (snd p) with Some a => alive s a | None => true end) (st_h s).

(** Non-example used for non-vacuity: a Reader whose fields were declared in the other order
    (Arc first, reader_state last) passes through this intermediate state on drop. *)
Definition drop_reader_wrong_order_mid (s : state) (src : nat) : state :=
  match lookup src (st_h s) with
  | Some (OReader a st) => mkSt ((src, OReader a st) :: remove src (st_h s)) (release_arc (st_a s) a)
  | _ => s
  end.
