(** Histories over one SerializerConfig: only the buffer pools survive from one to_datum call to
    the next (each call has its own writer). *)
Require Import Base Schema Sval Ser.
Open Scope N_scope.

Definition pools := (list buf * list (list (option buf)))%type.

(* one to_datum call with a sink that fails after `budget` bytes (None: a Vec) *)
Definition hist_step (Sc : fschema) (slow : bool) (p : pools) (job : sval * option N)
  : result bytes * pools :=
  match fnode_at Sc 0 with
  | None => (Panic PIndex, p)
  | Some root =>
      let '(r, st') := ser Sc root (fst job) (mkS [] (snd job) (fst p) (snd p) slow) in
      (match r with
       | Ok _ => Ok (s_out st')
       | Err e => Err e
       | Panic s => Panic s
       | OutOfFuel => OutOfFuel
       | Unmodelled => Unmodelled
       end, (s_bufs st', s_sbufs st'))
  end.

Fixpoint hist_run (Sc : fschema) (slow : bool) (p : pools) (jobs : list (sval * option N))
  : list (result bytes) * pools :=
  match jobs with
  | [] => ([], p)
  | j :: rest =>
      let (r, p') := hist_step Sc slow p j in
      let (rs, p'') := hist_run Sc slow p' rest in
      (r :: rs, p'')
  end.
