(** Model of schema/safe/parsing/{raw,mod}.rs and check_for_cycles.rs:
    JSON AST -> raw::SchemaNode (the derived Deserialize) -> register_node (name map,
    unresolved references, late remap) -> cycle check. *)
Require Import Base Schema Text Json.
From Coq Require Import String.
Open Scope N_scope.
Notation length := List.length (only parsing).

Inductive rtype :=
  | TyNull | TyBoolean | TyInt | TyLong | TyFloat | TyDouble | TyBytes | TyString
  | TyArray | TyMap | TyRecord | TyEnum | TyFixed.

(* serde(rename_all = "kebab-case") on raw::Type *)
Definition rtype_of_name (s : bytes) : option rtype :=
  if bytes_eqb s (lit "null") then Some TyNull
  else if bytes_eqb s (lit "boolean") then Some TyBoolean
  else if bytes_eqb s (lit "int") then Some TyInt
  else if bytes_eqb s (lit "long") then Some TyLong
  else if bytes_eqb s (lit "float") then Some TyFloat
  else if bytes_eqb s (lit "double") then Some TyDouble
  else if bytes_eqb s (lit "bytes") then Some TyBytes
  else if bytes_eqb s (lit "string") then Some TyString
  else if bytes_eqb s (lit "array") then Some TyArray
  else if bytes_eqb s (lit "map") then Some TyMap
  else if bytes_eqb s (lit "record") then Some TyRecord
  else if bytes_eqb s (lit "enum") then Some TyEnum
  else if bytes_eqb s (lit "fixed") then Some TyFixed
  else None.

(* raw::SchemaNode; the object form carries every known key of SchemaNodeObject *)
Inductive raw :=
  | RwType (t : rtype)
  | RwRef (s : bytes)
  | RwUnion (l : list raw)
  | RwObject (ty : rtype) (logical name namespace : option bytes)
            (fields : option (list (bytes * raw))) (symbols : option (list bytes))
            (items values : option raw) (size precision scale : option N).

Definition U64MAX : N := 18446744073709551615.
Definition U32MAX : N := 4294967295.

(* all values of a key, in document order *)
Definition lookup_all (k : bytes) (kvs : list (bytes * json)) : list json :=
  map snd (filter (fun kv => bytes_eqb (fst kv) k) kvs).

(* a known field of a derived struct: absent -> None, twice -> duplicate field error.
   Option<T> fields accept JSON null as None. *)
Definition known {A} (k : string) (kvs : list (bytes * json)) (conv : json -> result A)
  : result (option A) :=
  match lookup_all (lit k) kvs with
  | [] => Ok None
  | [JNull] => Ok None
  | [j] => rmap Some (conv j)
  | _ => Err EData
  end.

Definition as_str (j : json) : result bytes := match j with JStr s => Ok s | _ => Err EData end.
Definition as_unsigned (max : N) (j : json) : result N :=
  match j with
  | JNum tok => match num_as_unsigned tok max with Some n => Ok n | None => Err EData end
  | _ => Err EData
  end.

Fixpoint rmap_list {A B} (f : A -> result B) (l : list A) : result (list B) :=
  match l with
  | [] => Ok []
  | x :: t => let* y := f x in let* r := rmap_list f t in Ok (y :: r)
  end.

(* Deserialize for raw::SchemaNode *)
Fixpoint raw_of_json (j : json) {struct j} : result raw :=
  match j with
  | JStr s => Ok (match rtype_of_name s with Some t => RwType t | None => RwRef s end)
  | JArr l =>
      let* rs := (fix go (l : list json) : result (list raw) :=
                    match l with
                    | [] => Ok []
                    | x :: t => let* y := raw_of_json x in let* r := go t in Ok (y :: r)
                    end) l in
      Ok (RwUnion rs)
  | JObj kvs =>
      (* "type": required, must be one of the type names (a nested object is rejected) *)
      let* ty := match lookup_all (lit "type") kvs with
                 | [JStr s] => match rtype_of_name s with Some t => Ok t | None => Err EData end
                 | _ => Err EData
                 end in
      let* logical := known "logicalType" kvs as_str in
      let* name := known "name" kvs as_str in
      let* namespace := known "namespace" kvs as_str in
      (* lookups that recurse are written as nested fixpoints over the key list so that the
         recursive calls are on syntactic subterms *)
      let find_node (k : bytes) : result (option raw) :=
        (fix go (kvs : list (bytes * json)) (found : option (result (option raw))) : result (option raw) :=
           match kvs with
           | [] => match found with None => Ok None | Some r => r end
           | (k', v) :: t =>
               if bytes_eqb k' k then
                 match found with
                 | Some _ => Err EData
                 | None => go t (Some (match v with JNull => Ok None | _ => rmap Some (raw_of_json v) end))
                 end
               else go t found
           end) kvs None in
      let field_type : list (bytes * json) -> result raw :=
        fix go (fkvs : list (bytes * json)) : result raw :=
          match fkvs with
          | [] => Err EData
          | (k', v) :: t =>
              if bytes_eqb k' (lit "type") then
                (if Nat.eqb (length (lookup_all (lit "type") t)) 0 then raw_of_json v else Err EData)
              else go t
          end in
      let field_list : list json -> result (list (bytes * raw)) :=
        fix go (l : list json) : result (list (bytes * raw)) :=
          match l with
          | [] => Ok []
          | JObj fkvs :: t =>
              (* Field { name, type }: both required, duplicates rejected *)
              let* fname := match lookup_all (lit "name") fkvs with
                            | [JStr s] => Ok s
                            | _ => Err EData
                            end in
              let* fty := field_type fkvs in
              let* r := go t in Ok ((fname, fty) :: r)
          | _ :: _ => Err EData
          end in
      let* fields :=
        (fix go (kvs : list (bytes * json)) (found : option (result (option (list (bytes * raw)))))
           : result (option (list (bytes * raw))) :=
           match kvs with
           | [] => match found with None => Ok None | Some r => r end
           | (k', v) :: t =>
               if bytes_eqb k' (lit "fields") then
                 match found with
                 | Some _ => Err EData
                 | None => go t (Some (match v with
                                       | JNull => Ok None
                                       | JArr fl => rmap Some (field_list fl)
                                       | _ => Err EData
                                       end))
                 end
               else go t found
           end) kvs None in
      let* symbols :=
        match lookup_all (lit "symbols") kvs with
        | [] => Ok None
        | [JNull] => Ok None
        | [JArr sl] => rmap Some (rmap_list as_str sl)
        | _ => Err EData
        end in
      let* items := find_node (lit "items") in
      let* values := find_node (lit "values") in
      let* size := known "size" kvs (as_unsigned U64MAX) in
      let* precision := known "precision" kvs (as_unsigned U64MAX) in
      let* scale := known "scale" kvs (as_unsigned U32MAX) in
      Ok (RwObject ty logical name namespace fields symbols items values size precision scale)
  | _ => Err EData
  end.

(** * register_node *)
Definition namekey := (option bytes * bytes)%type.     (* (namespace, name) *)

Definition opt_bytes_eqb (a b : option bytes) : bool :=
  match a, b with
  | None, None => true
  | Some x, Some y => bytes_eqb x y
  | _, _ => false
  end.
Definition namekey_eqb (a b : namekey) : bool := opt_bytes_eqb (fst a) (fst b) && bytes_eqb (snd a) (snd b).

(* str::rsplit_once('.') *)
Definition rsplit_dot (s : bytes) : option (bytes * bytes) :=
  match rfind_dot s with
  | Some i => Some (firstn i s, skipn (S i) s)
  | None => None
  end.
Definition nonempty (s : bytes) : option bytes := match s with [] => None | _ => Some s end.

(* the NameKey of a reference / of a definition *)
Definition key_of_ref (enclosing : option bytes) (r : bytes) : namekey :=
  match rsplit_dot r with
  | Some (ns, nm) => (nonempty ns, nm)
  | None => (enclosing, r)
  end.
Definition key_of_def (enclosing : option bytes) (name : bytes) (namespace : option bytes) : namekey :=
  match rsplit_dot name with
  | Some (ns, nm) => (nonempty ns, nm)
  | None => (match namespace with Some ns => nonempty ns | None => enclosing end, name)
  end.
(* NameKey::name() *)
Definition name_of_key (k : namekey) : name :=
  match fst k with
  | None => mkName (snd k) None
  | Some ns => mkName (ns ++ [DOT] ++ snd k) (Some (length ns))
  end.

(* keys while parsing: resolved node index, or index into the unresolved list
   (LATE_NAME_LOOKUP_REMAP_BIT) *)
Definition pk_node (i : nat) : nat := 2 * i.
Definition pk_late (i : nat) : nat := 2 * i + 1.

Record pstate := mkP {
  p_nodes : list mnode;
  p_names : list (namekey * nat);
  p_unresolved : list namekey
}.

Fixpoint assoc_key (k : namekey) (l : list (namekey * nat)) : option nat :=
  match l with
  | [] => None
  | (k', v) :: t => if namekey_eqb k k' then Some v else assoc_key k t
  end.

Fixpoint set_node (l : list mnode) (i : nat) (v : mnode) : list mnode :=
  match l, i with
  | [], _ => []
  | _ :: t, O => v :: t
  | h :: t, S j => h :: set_node t j v
  end.

Definition logical_of (lname : option bytes) (precision scale : option N) : result (option logical) :=
  match lname with
  | None => Ok None
  | Some s =>
      if bytes_eqb s (lit "decimal") then
        match precision with
        | None => Err EData
        | Some p => Ok (Some (LDecimal (match scale with Some sc => sc | None => 0 end) p))
        end
      else if bytes_eqb s (lit "uuid") then Ok (Some LUuid)
      else if bytes_eqb s (lit "date") then Ok (Some LDate)
      else if bytes_eqb s (lit "time-millis") then Ok (Some LTimeMillis)
      else if bytes_eqb s (lit "time-micros") then Ok (Some LTimeMicros)
      else if bytes_eqb s (lit "timestamp-millis") then Ok (Some LTimestampMillis)
      else if bytes_eqb s (lit "timestamp-micros") then Ok (Some LTimestampMicros)
      else if bytes_eqb s (lit "duration") then Ok (Some LDuration)
      else if bytes_eqb s (lit "big-decimal") then Ok (Some LBigDecimal)
      else Ok (Some (LUnknown s))
  end.

Fixpoint register_node (r : raw) (enclosing : option bytes) (st : pstate) {struct r} : result (nat * pstate) :=
  match r with
  | RwRef s =>
      let k := key_of_ref enclosing s in
      match assoc_key k (p_names st) with
      | Some idx => Ok (pk_node idx, st)
      | None => Ok (pk_late (length (p_unresolved st)),
                    mkP (p_nodes st) (p_names st) (p_unresolved st ++ [k]))
      end
  | RwUnion l =>
      let idx := length (p_nodes st) in
      let st0 := mkP (p_nodes st ++ [mkNode RNull None]) (p_names st) (p_unresolved st) in
      let* res := (fix go (l : list raw) (st : pstate) : result (list nat * pstate) :=
                     match l with
                     | [] => Ok ([], st)
                     | x :: t =>
                         let* r1 := register_node x enclosing st in
                         let* r2 := go t (snd r1) in
                         Ok (fst r1 :: fst r2, snd r2)
                     end) l st0 in
      let st1 := snd res in
      Ok (pk_node idx, mkP (set_node (p_nodes st1) idx (mkNode (RUnion (fst res)) None)) (p_names st1) (p_unresolved st1))
  | RwType t =>
      let idx := length (p_nodes st) in
      let st0 := mkP (p_nodes st ++ [mkNode RNull None]) (p_names st) (p_unresolved st) in
      let prim (ty : regular) := Ok (pk_node idx, mkP (set_node (p_nodes st0) idx (mkNode ty None)) (p_names st0) (p_unresolved st0)) in
      match t with
      | TyNull => prim RNull | TyBoolean => prim RBoolean | TyInt => prim RInt | TyLong => prim RLong
      | TyFloat => prim RFloat | TyDouble => prim RDouble | TyBytes => prim RBytes | TyString => prim RString
      | _ => Err EData            (* a complex type must be in an object *)
      end
  | RwObject ty logical name namespace fields symbols items values size precision scale =>
      let idx := length (p_nodes st) in
      let st0 := mkP (p_nodes st ++ [mkNode RNull None]) (p_names st) (p_unresolved st) in
      (* any object with a "name" registers it *)
      let* named :=
        match name with
        | Some nm =>
            let k := key_of_def enclosing nm namespace in
            match assoc_key k (p_names st0) with
            | Some _ => Err EData          (* duplicate definition *)
            | None => Ok (Some k, mkP (p_nodes st0) ((k, idx) :: p_names st0) (p_unresolved st0))
            end
        | None => Ok (None, st0)
        end in
      let name_key := fst named in
      let st1 := snd named in
      let need_name : result namekey := match name_key with Some k => Ok k | None => Err EData end in
      let* res :=
        match ty with
        | TyArray =>
            match items with
            | Some it => let* r1 := register_node it enclosing st1 in Ok (RArray (fst r1), snd r1)
            | None => Err EData
            end
        | TyMap =>
            match values with
            | Some it => let* r1 := register_node it enclosing st1 in Ok (RMap (fst r1), snd r1)
            | None => Err EData
            end
        | TyEnum =>
            let* k := need_name in
            match symbols with
            | Some syms => Ok (REnum (name_of_key k) syms, st1)
            | None => Err EData
            end
        | TyFixed =>
            let* k := need_name in
            match size with
            | Some sz => Ok (RFixed (name_of_key k) sz, st1)
            | None => Err EData
            end
        | TyRecord =>
            let* k := need_name in
            match fields with
            | Some fl =>
                let* fres := (fix go (l : list (bytes * raw)) (st : pstate) : result (list (bytes * nat) * pstate) :=
                                match l with
                                | [] => Ok ([], st)
                                | (fname, fty) :: t =>
                                    let* r1 := register_node fty (fst k) st in
                                    let* r2 := go t (snd r1) in
                                    Ok ((fname, fst r1) :: fst r2, snd r2)
                                end) fl st1 in
                Ok (RRecord (name_of_key k) (fst fres), snd fres)
            | None => Err EData
            end
        | TyNull => Ok (RNull, st1) | TyBoolean => Ok (RBoolean, st1) | TyInt => Ok (RInt, st1)
        | TyLong => Ok (RLong, st1) | TyFloat => Ok (RFloat, st1) | TyDouble => Ok (RDouble, st1)
        | TyBytes => Ok (RBytes, st1) | TyString => Ok (RString, st1)
        end in
      let* lt := logical_of logical precision scale in
      let st2 := snd res in
      Ok (pk_node idx, mkP (set_node (p_nodes st2) idx (mkNode (fst res) lt)) (p_names st2) (p_unresolved st2))
  end.

(* late resolution of forward references *)
Definition fix_key (resolved : list nat) (k : nat) : nat :=
  if Nat.even k then Nat.div2 k else nth (Nat.div2 k) resolved O.
Definition fix_node (resolved : list nat) (n : mnode) : mnode :=
  mkNode (match m_type n with
          | RArray k => RArray (fix_key resolved k)
          | RMap k => RMap (fix_key resolved k)
          | RUnion ks => RUnion (map (fix_key resolved) ks)
          | RRecord nm fs => RRecord nm (map (fun f => (fst f, fix_key resolved (snd f))) fs)
          | other => other
          end) (m_logical n).

(** * check_for_cycles (after the repair: already checked records are not re-explored) *)
Definition is_record (g : schema_mut) (k : nat) : bool :=
  match nth_error g k with Some (mkNode (RRecord _ _) _) => true | _ => false end.

Fixpoint set_flag (l : list bool) (i : nat) (v : bool) : list bool :=
  match l, i with
  | [], _ => []
  | _ :: t, O => v :: t
  | h :: t, S j => h :: set_flag t j v
  end.

(* returns None on an unconditional cycle; the second component counts the calls (cost) *)
Fixpoint cyc_inner (fuel : nat) (g : schema_mut) (idx : nat) (visited checked : list bool) (calls : N)
  : option (list bool * list bool * N) :=
  match fuel with
  | O => None
  | S f =>
      let visited1 := set_flag visited idx true in
      let fields := match nth_error g idx with Some (mkNode (RRecord _ fs) _) => map snd fs | _ => [] end in
      let step :=
        fix go (fs : list nat) (visited checked : list bool) (calls : N) : option (list bool * list bool * N) :=
          match fs with
          | [] => Some (visited, checked, calls)
          | k :: rest =>
              if is_record g k then
                if nth k visited false then None
                else if nth k checked false then go rest visited checked calls
                else match cyc_inner f g k visited checked (calls + 1) with
                     | Some (v', c', n') => go rest v' c' n'
                     | None => None
                     end
              else go rest visited checked calls
          end in
      match step fields visited1 checked calls with
      | Some (v', c', n') => Some (set_flag v' idx false, set_flag c' idx true, n')
      | None => None
      end
  end.

Definition check_for_cycles (g : schema_mut) : option N :=
  let n := length g in
  (fix go (idxs : list nat) (visited checked : list bool) (calls : N) : option N :=
     match idxs with
     | [] => Some calls
     | i :: rest =>
         if is_record g i && negb (nth i checked false) then
           match cyc_inner (S n) g i visited checked (calls + 1) with
           | Some (v', c', n') => go rest v' c' n'
           | None => None
           end
         else go rest visited checked calls
     end) (seq 0 n) (repeat false n) (repeat false n) 0.

(* SchemaMut::from_str on a document AST *)
Definition parse_schema (j : json) : result schema_mut :=
  let* r := raw_of_json j in
  let* res := register_node r None (mkP [] [] []) in
  let st := snd res in
  let* resolved := rmap_list (fun k => match assoc_key k (p_names st) with
                                       | Some idx => Ok idx
                                       | None => Err EData
                                       end) (p_unresolved st) in
  let g := map (fix_node resolved) (p_nodes st) in
  match check_for_cycles g with
  | Some _ => Ok g
  | None => Err EData
  end.
