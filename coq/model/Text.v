(** ASCII literals and decimal printing for the text-producing parts of the model *)
Require Import Base.
From Coq Require Import String Ascii.
Open Scope N_scope.

Definition lit (s : string) : bytes := map (fun c => N.of_nat (nat_of_ascii c)) (list_ascii_of_string s).

(* Display for unsigned integers *)
Fixpoint dec_digits_fuel (fuel : nat) (n : N) (acc : bytes) : bytes :=
  match fuel with
  | O => acc
  | S f => let acc' := (48 + n mod 10) :: acc in
           if n <? 10 then acc' else dec_digits_fuel f (n / 10) acc'
  end.
Definition dec_digits (n : N) : bytes := dec_digits_fuel (S (N.to_nat (N.log2 n))) n [].
