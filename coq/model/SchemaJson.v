(** Model of schema/safe/serialize.rs: the JSON a built or edited SchemaMut reports for itself
    (generation-counter cycle guard, named types written once then by reference, namespace-relative
    spelling of names). Produces a JSON AST; the text is Json.json_text of it. *)
Require Import Base Schema Text Json.
From Coq Require Import String.
Open Scope N_scope.
Notation length := List.length (only parsing).

Record jstate := mkJ { j_cells : list N; j_written : N }.   (* node_traversal_state, n_written_names *)

Fixpoint set_cell (l : list N) (i : nat) (v : N) : list N :=
  match l, i with
  | [], _ => []
  | _ :: t, O => v :: t
  | h :: t, S j => h :: set_cell t j v
  end.

Definition logical_name (lt : logical) : bytes :=
  match lt with
  | LDecimal _ _ => lit "decimal" | LUuid => lit "uuid" | LDate => lit "date"
  | LTimeMillis => lit "time-millis" | LTimeMicros => lit "time-micros"
  | LTimestampMillis => lit "timestamp-millis" | LTimestampMicros => lit "timestamp-micros"
  | LDuration => lit "duration" | LBigDecimal => lit "big-decimal" | LUnknown s => s
  end.

Definition jnum (n : N) : json := JNum (dec_digits n).

(* serialize_type_and_logical_type *)
Definition type_and_logical (ty : string) (lt : option logical) : list (bytes * json) :=
  match lt with
  | None => [(lit "type", JStr (lit ty))]
  | Some l =>
      [(lit "logicalType", JStr (logical_name l)); (lit "type", JStr (lit ty))] ++
      match l with
      | LDecimal scale precision => [(lit "scale", jnum scale); (lit "precision", jnum precision)]
      | _ => []
      end
  end.

Definition prim_json (ty : string) (lt : option logical) : json :=
  match lt with None => JStr (lit ty) | Some _ => JObj (type_and_logical ty lt) end.

Definition opt_eqb (a b : option bytes) : bool :=
  match a, b with None, None => true | Some x, Some y => bytes_eqb x y | _, _ => false end.

(* str_for_ref / serialize_name *)
Definition str_for_ref (parent : option bytes) (nm : name) : bytes :=
  if opt_eqb parent (name_namespace nm) then name_short nm
  else match name_namespace nm with
       | None => [DOT] ++ nm_full nm
       | Some _ => nm_full nm
       end.
Definition name_entries (parent : option bytes) (nm : name) : list (bytes * json) :=
  if opt_eqb parent (name_namespace nm) then [(lit "name", JStr (name_short nm))]
  else match name_namespace nm with
       | None => [(lit "namespace", JStr []); (lit "name", JStr (name_short nm))]
       | Some _ => [(lit "name", JStr (nm_full nm))]
       end.

Fixpoint to_json (fuel : nat) (g : schema_mut) (key : nat) (parent : option bytes) (st : jstate)
  : result (json * jstate) :=
  match fuel with
  | O => OutOfFuel
  | S f =>
    match nth_error g key with
    | None => Err EData
    | Some node =>
      let lt := m_logical node in
      (* no_cycle_guard: the cell remembers n_written_names at entry; coming back without a new
         name having been written is a cycle that named references cannot break *)
      let guard (k : jstate -> result (json * jstate)) : result (json * jstate) :=
        let prev := nth key (j_cells st) 0 in
        if j_written st <=? prev then Err EData
        else
          let* r := k (mkJ (set_cell (j_cells st) key (j_written st)) (j_written st)) in
          Ok (fst r, mkJ (set_cell (j_cells (snd r)) key 0) (j_written (snd r))) in
      (* should_write_as_ref *)
      let named (nm : name) (full : jstate -> result (json * jstate)) : result (json * jstate) :=
        if 0 <? nth key (j_cells st) 0 then Ok (JStr (str_for_ref parent nm), st)
        else full (mkJ (set_cell (j_cells st) key (j_written st)) (j_written st + 1)) in
      match m_type node with
      | RNull => Ok (prim_json "null" lt, st)
      | RBoolean => Ok (prim_json "boolean" lt, st)
      | RInt => Ok (prim_json "int" lt, st)
      | RLong => Ok (prim_json "long" lt, st)
      | RFloat => Ok (prim_json "float" lt, st)
      | RDouble => Ok (prim_json "double" lt, st)
      | RBytes => Ok (prim_json "bytes" lt, st)
      | RString => Ok (prim_json "string" lt, st)
      | RArray items =>
          guard (fun st1 =>
            let* r := to_json f g items parent st1 in
            Ok (JObj (type_and_logical "array" lt ++ [(lit "items", fst r)]), snd r))
      | RMap values =>
          guard (fun st1 =>
            let* r := to_json f g values parent st1 in
            Ok (JObj (type_and_logical "map" lt ++ [(lit "values", fst r)]), snd r))
      | RUnion variants =>
          match lt with
          | Some _ => Err EData
          | None =>
              guard (fun st1 =>
                let* r := (fix go (ks : list nat) (st : jstate) : result (list json * jstate) :=
                             match ks with
                             | [] => Ok ([], st)
                             | k :: t =>
                                 let* r1 := to_json f g k parent st in
                                 let* r2 := go t (snd r1) in
                                 Ok (fst r1 :: fst r2, snd r2)
                             end) variants st1 in
                Ok (JArr (fst r), snd r))
          end
      | RRecord nm fields =>
          named nm (fun st1 =>
            let* r := (fix go (fs : list (bytes * nat)) (st : jstate) : result (list json * jstate) :=
                         match fs with
                         | [] => Ok ([], st)
                         | (fname, k) :: t =>
                             let* r1 := to_json f g k (name_namespace nm) st in
                             let* r2 := go t (snd r1) in
                             Ok (JObj [(lit "name", JStr fname); (lit "type", fst r1)] :: fst r2, snd r2)
                         end) fields st1 in
            Ok (JObj (type_and_logical "record" lt ++ name_entries parent nm ++ [(lit "fields", JArr (fst r))]), snd r))
      | REnum nm symbols =>
          named nm (fun st1 =>
            Ok (JObj (type_and_logical "enum" lt ++ name_entries parent nm ++
                      [(lit "symbols", JArr (map JStr symbols))]), st1))
      | RFixed nm size =>
          named nm (fun st1 =>
            Ok (JObj (type_and_logical "fixed" lt ++ name_entries parent nm ++ [(lit "size", jnum size)]), st1))
      end
    end
  end.

(* SchemaMut::serialize_to_json *)
Definition schema_json (fuel : nat) (g : schema_mut) : result bytes :=
  let* r := to_json fuel g O None (mkJ (repeat 0 (length g)) 1) in
  Ok (json_text (fst r)).
