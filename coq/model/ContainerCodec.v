(** Model of object_container_file_encoding/reader/{mod,decompression}.rs for files whose blocks are
    COMPRESSED: the header (Container.cr_open), then block after block

        fill_buf().is_empty()                      -> Ok(None): end of the stream
        n_objects_in_block = read_varint::<i64>()  -> try_into usize
        block_size         = read_varint::<i64>()  -> try_into usize
        compression_codec.state(reader, .., block_size)?
            streaming codecs (deflate, bzip2, xz, zstandard):
                BufReader::with_capacity(cap, Decoder::new(Take::take(reader, block_size)?))     = DecodeLoop.block_open
            snappy: read_slice(block_size - 4), raw decompress, CRC32, Cursor                     = DecodeLoop.snappy_open
        n_objects_in_block calls of deserialize_next, the end-of-block check of
        into_source_reader_and_config, the 16 bytes of the sync marker                           = DecodeLoop.block_run / snappy_run
        -> NotInBlock with the source behind the marker

    until the source is empty or something fails. The result is the list of the values delivered, in
    order, and how the run ended ([cend]). As in DecodeLoop.v a run is followed up to and including its
    first error (the crate would go on inside a block after a value error that is not an I/O error).

    The source is a [Reader.rstate]: the slice reader ([rd_chunks] = None) or a BufRead that follows a chunk
    plan ([rd_chunks] = Some _); the chunk plan is threaded through the blocks ([option chunkst], as in
    DecodeLoop.v). The compression library, the read policy of the deserializer and the value decoder are the
    parameters of DecodeLoop.v; [cc_vdec] instantiates the value decoder with [De.de]. Everything here is
    executable. *)
Require Import Base Schema Varint Target Reader De Container CodecLoop DecodeLoop.
From Coq Require Import Arith.
Local Open Scope nat_scope.

(* how the blocks are decompressed *)
Inductive bcodec :=
  | BStream (cap : nat)     (* deflate / bzip2 / xz / zstandard: BufReader (capacity cap; hook H4) over the streaming decoder *)
  | BSnappy.                (* decompressed on construction *)

(* how reading the blocks ended *)
Inductive cend :=
  | CEof                    (* the source is empty where a block would start: Ok(None) *)
  | CHead (it : item)       (* the count / size varint could not be read (Container.result_item of the read) *)
  | CNeg                    (* negative object count or block size *)
  | COpen                   (* CompressionCodec::state failed: Take beyond the slice; snappy: size < 4, framing, CRC, allocation cap *)
  | CBlock (b : bend)       (* inside the block: value error, end-of-block check, sync marker (never BDone) *)
  | CFuel.                  (* the block fuel of the model ran out *)

Section CodecReader.
Variable D : Type.                                         (* state of the library's streaming decoder *)
Variable dread : D -> bytes -> option chunkst -> nat -> dres * D.
Variable d0 : D.                                           (* Decoder::new *)
Variable policy : nat -> nat -> option nat.                (* direct reads of the deserializer, see DecodeLoop.v *)
Variable raw_dec : bytes -> option bytes.                  (* snap::raw *)
Variable crc32 : bytes -> N.
Variable V : Type.
Variable vdec : bytes -> result V * nat.                   (* value decoder on a slice: outcome, bytes consumed *)
Variable codec : bcodec.
Variable lfuel : nat.                                      (* fuel of DecodeLoop.lookahead: more than any block decompresses to *)
Variable sync : bytes.                                     (* the marker read from the header *)

(* one pass of the loop of deserialize_next_inner over a whole block *)
Inductive bstep :=
  | BNext (vs : list V) (r : rstate)       (* the block's values; NotInBlock behind its sync marker *)
  | BStop (vs : list V) (e : cend).

(* ReadSlice::read_slice of a BufRead allocates when the bytes are not in the current buffer: max_alloc_size *)
Definition snappy_gate (r : rstate) (size : nat) : bool :=
  match rd_chunks r with
  | None => true
  | Some _ => (N.of_nat (size - 4) <=? blen (buffer r))%N || negb (rd_max_alloc r <? N.of_nat (size - 4))%N
  end.

(* the reader behind a block of [size] bytes and its marker *)
Definition after_block (r2 : rstate) (size : nat) (rest : bytes) (ch : option chunkst) : rstate :=
  mkRd rest (rd_pos r2 + N.of_nat (size + 16))%N ch (rd_max_alloc r2).

Definition ccr_block (outer : rstate) : bstep :=
  match read_varint VI64 outer with
  | (Ok cnt, r1) =>
      if (cnt <? 0)%Z then BStop [] CNeg else
      match read_varint VI64 r1 with
      | (Ok size, r2) =>
          if (size <? 0)%Z then BStop [] CNeg else
          let count := Z.to_nat cnt in
          let size := Z.to_nat size in
          match codec with
          | BStream cap =>
              match block_open D d0 (rd_inp r2) (rd_chunks r2) size cap with
              | None => BStop [] COpen
              | Some s =>
                  match block_run D dread policy V vdec lfuel count sync s with
                  | (vs, BDone rest ch) => BNext vs (after_block r2 size rest ch)
                  | (vs, e) => BStop vs (CBlock e)
                  end
              end
          | BSnappy =>
              if snappy_gate r2 size then
                match snappy_run raw_dec crc32 V vdec count sync (rd_inp r2) size with
                | None => BStop [] COpen
                | Some (vs, BDone rest _) =>
                    BNext vs (after_block r2 size rest (rd_chunks (consume (N.of_nat (size + 16)) r2)))
                | Some (vs, e) => BStop vs (CBlock e)
                end
              else BStop [] COpen
          end
      | (r, _) => BStop [] (CHead (result_item r))
      end
  | (r, _) => BStop [] (CHead (result_item r))
  end.

(* block after block; [n] bounds the number of blocks *)
Fixpoint ccr_blocks (n : nat) (outer : rstate) : list V * cend :=
  match n with
  | O => ([], CFuel)
  | S m =>
      match rd_inp outer with
      | [] => ([], CEof)
      | _ :: _ =>
          match ccr_block outer with
          | BStop vs e => (vs, e)
          | BNext vs r' => let (ws, e) := ccr_blocks m r' in (vs ++ ws, e)
          end
      end
  end.

(* every block takes at least one byte of the source *)
Definition ccr_read (outer : rstate) : list V * cend :=
  ccr_blocks (S (length (rd_inp outer))) outer.

End CodecReader.

(* the value decoder: the crate's deserializer in slice mode on the decompressed bytes still to come (the
   abstraction stated in DecodeLoop.v), events turned into the owned form [cc_own] (= Denote.erase_borrow) -- nothing
   can be borrowed from a decompression buffer *)
Fixpoint cc_own (d : dval) : dval :=
  match d with
  | DBStr _ _ s => DStr s
  | DBBytes _ _ b => DBytes b
  | DSome d' => DSome (cc_own d')
  | DSeq ds => DSeq (map cc_own ds)
  | DMap kvs => DMap (map (fun kv => (cc_own (fst kv), cc_own (snd kv))) kvs)
  | DNewtype d' => DNewtype (cc_own d')
  | DEnum v d' => DEnum v (cc_own d')
  | DStruct fs => DStruct (map (fun kv => (fst kv, cc_own (snd kv))) fs)
  | other => other
  end.

Definition cc_vdec (Sc : fschema) (cfg : dcfg) (root : fnode) (p : bytes) : result dval * nat :=
  let (r, st) := de Sc cfg FUEL_SINK root (c_depth cfg) false false TAny (slice_reader p) in
  (rmap cc_own r, N.to_nat (rd_pos st)).

(* a whole file: the header, then the blocks with the marker found in the header. The schema (hence the value
   decoder) and the codec are the caller's, as for Container.cr_open: Container.header_meta interprets the entries *)
Definition ccr_file (D : Type) (dread : D -> bytes -> option chunkst -> nat -> dres * D) (d0 : D)
    (policy : nat -> nat -> option nat) (raw_dec : bytes -> option bytes) (crc32 : bytes -> N)
    (V : Type) (vdec : bytes -> result V * nat) (codec : bcodec) (lfuel : nat) (input : rstate)
  : result (list (bytes * bytes) * bytes * list V * cend) :=
  match cr_open input with
  | Ok (entries, sy, r) =>
      let (vs, e) := ccr_read D dread d0 policy raw_dec crc32 V vdec codec lfuel sy r in
      Ok (entries, sy, vs, e)
  | Err e => Err e
  | Panic p => Panic p
  | OutOfFuel => OutOfFuel
  | Unmodelled => Unmodelled
  end.
