(** Model of the datum deserializer: de/deserializer/mod.rs, types/*.rs,
    unit_variant_enum_access.rs, allowed_depth.rs, driven by a dtarget program
    (model/Target.v). One arm per (hint method x schema node kind). *)
Require Import Base Kinds Schema Varint Utf8 Sval Target Reader Text.
From Coq Require Import String.
Open Scope N_scope.
Notation length := List.length (only parsing).

Record dcfg := mkCfg { c_max_seq : N; c_depth : nat }.
Definition cfg_default : dcfg := mkCfg 1000000000 64.

(* slice.get(i) for an index read from the input *)
Definition nth_N {A} (l : list A) (i : N) : option A :=
  if i <? N.of_nat (length l) then nth_error l (N.to_nat i) else None.

(* AllowedDepth::dec *)
Definition dec_depth (d : nat) : RM nat :=
  match d with O => rfail (Err EData) | S d' => sret d' end.

(** * Leaf readers *)
Definition read_bool : RM dval :=
  do* r <- read_slice 1;
  match fst r with
  | [0] => sret (DBool false)
  | [1] => sret (DBool true)
  | _ => rfail (Err EData)
  end.

(* read_discriminant / read_len: i64 varint then try_into usize *)
Definition read_usize : RM N :=
  do* z <- read_varint VI64;
  if (z <? 0)%Z then rfail (Err EData) else sret (Z.to_N z).

Definition bytes_event (r : bytes * option N) : dval :=
  match snd r with
  | Some off => DBBytes off (blen (fst r)) (fst r)
  | None => DBytes (fst r)
  end.
Definition str_event (r : bytes * option N) : RM dval :=
  if utf8_valid (fst r) then
    sret (match snd r with
          | Some off => DBStr off (blen (fst r)) (fst r)
          | None => DStr (fst r)
          end)
  else rfail (Err EData).

Definition read_ld_bytes : RM dval := do* l <- read_usize; do* r <- read_slice l; sret (bytes_event r).
Definition read_ld_str : RM dval := do* l <- read_usize; do* r <- read_slice l; str_event r.

Definition le_val (bs : bytes) : N :=
  fold_right (fun b acc => b + 256 * acc) 0 bs.
Definition be_val (bs : bytes) : N :=
  fold_left (fun acc b => acc * 256 + b) bs 0.

(* SchemaTypeNameDeserializer: the variant name proposed for a node *)
Definition type_name (n : fnode) : bytes :=
  match n with
  | FNull => lit "Null" | FBoolean => lit "Boolean" | FInt => lit "Int" | FLong => lit "Long"
  | FFloat => lit "Float" | FDouble => lit "Double" | FBytes => lit "Bytes" | FString => lit "String"
  | FArray _ => lit "Array" | FMap _ => lit "Map" | FUnion _ => lit "Union"
  | FRecord nm _ => nm_full nm | FEnum nm _ => nm_full nm | FFixed nm _ => nm_full nm
  | FDecimal _ _ (Some (nm, _)) => nm_full nm
  | FDecimal _ _ None => lit "Decimal"
  | FBigDecimal => lit "BigDecimal" | FUuid => lit "Uuid" | FDate => lit "Date"
  | FTimeMillis => lit "TimeMillis" | FTimeMicros => lit "TimeMicros"
  | FTimestampMillis => lit "TimestampMillis" | FTimestampMicros => lit "TimestampMicros"
  | FDuration => lit "Duration"
  end.

(** * Decimals (types/decimal.rs) *)
Inductive vhint := VHStr | VHU64 | VHI64 | VHU128 | VHI128 | VHF64.

(* i128::from_be_bytes of `size` bytes sign-extended to 16 *)
Definition signed_be (bs : bytes) : Z :=
  let u := Z.of_N (be_val bs) in
  match bs with
  | b0 :: _ => if N.land b0 128 =? 0 then u else (u - 2 ^ (8 * Z.of_nat (length bs)))%Z
  | [] => 0%Z
  end.

(* rust_decimal Display of mantissa m (|m| < 2^96) with scale s <= 28 *)
Definition pad_left (n : nat) (ds : bytes) : bytes := repeat 48 (n - length ds) ++ ds.
Definition decimal_to_string (m : Z) (s : N) : bytes :=
  let a := Z.to_N (Z.abs m) in
  let ds := dec_digits a in
  let sn := N.to_nat s in
  let body :=
    if s =? 0 then ds
    else
      let padded := pad_left (S sn) ds in
      let ip := firstn (length padded - sn) padded in
      let fp := skipn (length padded - sn) padded in
      ip ++ lit "." ++ fp in
  if (m <? 0)%Z then lit "-" ++ body else body.

(* std::io::Take over the reader for BigDecimal: a window of `limit` bytes *)
Definition take_varint (limit : N) : RM (Z * N) := fun st =>
  (* VarIntReader::read_varint::<i64> through std::io::Read on the Take *)
  let avail := firstn (N.to_nat (N.min limit (blen (rd_inp st)))) (rd_inp st) in
  let g := gather avail in
  let st' := consume (blen g) st in
  match decode_i64 g with
  | Some (v, _) => (Ok (v, limit - blen g), st')
  | None => (Err EIo, st')
  end.
Definition take_exact (limit n : N) : RM (bytes * N) := fun st =>
  let avail := firstn (N.to_nat (N.min limit (blen (rd_inp st)))) (rd_inp st) in
  if blen avail <? n then (Err EIo, consume (blen avail) st)
  else (Ok (firstn (N.to_nat n) avail, limit - n), consume n st).

Definition U32_MAX : Z := 4294967295%Z.
Definition U128_MAX : Z := (2 ^ 128 - 1)%Z.

Definition finish_decimal (unscaled : Z) (scale : N) (hint : vhint) : RM dval :=
  let as_string : RM dval :=
    if (28 <? scale) || negb (Z.abs unscaled <? 2 ^ 96)%Z then rfail (Err EData)
    else if match hint with VHF64 => true | _ => false end then rfail Unmodelled
    else sret (DStr (decimal_to_string unscaled scale)) in
  if scale =? 0 then
    match hint with
    | VHU64 =>
        if Zin 0 U64_MAX unscaled then sret (DInt false W64 unscaled)
        else if (unscaled <? 0)%Z then sret (DInt true W128 unscaled)
        else as_string
    | VHI64 =>
        if Zin I64_MIN I64_MAX unscaled then sret (DInt true W64 unscaled)
        else sret (DInt true W128 unscaled)
    | VHU128 =>
        if Zin 0 U128_MAX unscaled then sret (DInt false W128 unscaled)
        else sret (DInt true W128 unscaled)
    | VHI128 => sret (DInt true W128 unscaled)
    | VHStr | VHF64 => as_string
    end
  else as_string.

(* read_decimal *)
Definition read_decimal (n : fnode) (hint : vhint) : RM dval :=
  match n with
  | FBigDecimal =>
      do* bytes_len <- read_varint VI64;
      if (bytes_len <? 0)%Z then rfail (Err EData) else
      do* r1 <- take_varint (Z.to_N bytes_len);
      let '(unsized_len, lim1) := r1 in
      if (unsized_len <? 0)%Z then rfail (Err EData) else
      let size := Z.to_N unsized_len in
      if 16 <? size then rfail (Err EData) else
      do* r2 <- take_exact lim1 size;
      let '(raw, lim2) := r2 in
      do* r3 <- take_varint lim2;
      let '(scale, lim3) := r3 in
      if negb (Zin 0 U32_MAX scale) then rfail (Err EData) else
      if 0 <? lim3 then rfail (Err EData) else
      finish_decimal (signed_be raw) (Z.to_N scale) hint
  | FDecimal _ scale None =>
      do* size <- read_usize;
      if 16 <? size then rfail (Err EData) else
      do* raw <- read_exact size;
      finish_decimal (signed_be raw) scale hint
  | FDecimal _ scale (Some (_, size)) =>
      if 16 <? size then rfail (Err EData) else
      do* raw <- read_exact size;
      finish_decimal (signed_be raw) scale hint
  | _ => rfail (Panic PUnreachable)
  end.

(** * Block reader (types/blocks.rs) *)
Record blk := mkBlk { b_cur : N; b_nread : N; b_finished : bool }.
Definition blk0 : blk := mkBlk 0 0 false.

(* read_block_len; fuel bounds the number of skipped byte-size blocks *)
Fixpoint read_block_len (fuel : nat) (ignored : bool) : RM (option N) :=
  match fuel with
  | O => rfail OutOfFuel
  | S f =>
      do* len <- read_varint VI64;
      if (len <? 0)%Z then
        if ignored then
          do* nbytes <- read_varint VI64;
          if (nbytes <? 0)%Z then rfail (Err EData) else
          do* _ <- skip_bytes (Z.to_N nbytes);
          read_block_len f ignored
        else
          do* _ <- read_varint VU64;
          sret (Some (Z.to_N (- len)))
      else sret (if (len =? 0)%Z then None else Some (Z.to_N len))
  end.

(* BlockReader::has_more *)
Definition has_more (fuel : nat) (cfg : dcfg) (ignored : bool) (b : blk) : RM (bool * blk) :=
  if b_cur b =? 0 then
    do* nl <- read_block_len fuel ignored;
    match nl with
    | None => sret (false, mkBlk 0 (b_nread b) true)
    | Some l =>
        let n_read := N.min (b_nread b + l) (2^64 - 1) in
        if c_max_seq cfg <? n_read then rfail (Err EData)
        else sret (true, mkBlk (l - 1) n_read false)
    end
  else sret (true, mkBlk (b_cur b - 1) (b_nread b) (b_finished b)).

(** * The visitor side: which seeds a target uses for children *)
Inductive seqpolicy :=
  | PRepeat (t : dtarget)                         (* pull until None *)
  | PFixed (ts : list dtarget).                   (* pull exactly these, then stop *)

Inductive seqshape := ShSeq | ShStruct (names : list bytes) | ShIgnored.

Definition seq_policy (t : dtarget) : seqpolicy * seqshape :=
  match t with
  | TTuple ts | TTupleStruct _ ts => (PFixed ts, ShSeq)
  | TStruct _ fs => (PFixed (map snd fs), ShStruct (map fst fs))
  | TSeq t' => (PRepeat t', ShSeq)
  | TIgnored => (PRepeat TIgnored, ShIgnored)
  | _ => (PRepeat TAny, ShSeq)
  end.

Definition shape_seq (sh : seqshape) (ds : list dval) : dval :=
  match sh with
  | ShSeq => DSeq ds
  | ShStruct names => DStruct (combine names ds)
  | ShIgnored => DIgnored
  end.

(* events produced by serde's primitive deserializers (U32Deserializer, field-name
   deserializers): recorded as they are, or swallowed by IgnoredAny *)
Definition prim_event (t : dtarget) (e : dval) : dval :=
  match t with TIgnored => DIgnored | _ => e end.

Definition leaf (t : dtarget) (e : dval) : dval := prim_event t e.

Fixpoint find_field (nm : bytes) (fs : list (bytes * dtarget)) (i : nat) : option (nat * dtarget) :=
  match fs with
  | [] => None
  | (f, t) :: rest => if bytes_eqb f nm then Some (i, t) else find_field nm rest (S i)
  end.

Fixpoint set_seen (l : list bool) (i : nat) : list bool :=
  match l, i with
  | [], _ => []
  | _ :: t, O => true :: t
  | h :: t, S j => h :: set_seen t j
  end.

(* struct visitors append the fields that never arrived as DMissing *)
Fixpoint missing_fields (fs : list (bytes * dtarget)) (seen : list bool) : list (bytes * dval) :=
  match fs, seen with
  | (f, _) :: rest, s :: srest => (if s then [] else [(f, DMissing)]) ++ missing_fields rest srest
  | _, _ => []
  end.

Definition MONTHS : bytes := lit "months".
Definition DAYS : bytes := lit "days".
Definition MILLISECONDS : bytes := lit "milliseconds".

(* the sources of visit_map *)
Inductive mapsrc :=
  | MSMap (values : nat) (depth : nat) (ignored : bool) (b : blk)
  | MSRecord (fields : list (bytes * nat)) (depth : nat)
  | MSDuration (vals : list N) (idx : nat).

Section DeFix.
Variable Sc : fschema.
Variable cfg : dcfg.

Definition node_at (k : nat) : RM fnode :=
  match fnode_at Sc k with None => rfail (Panic PIndex) | Some n => sret n end.

(* which visit_map loop a target runs *)
Inductive mappolicy :=
  | MPGeneric (tk tv : dtarget) (ignored_result : bool)
  | MPStruct (fs : list (bytes * dtarget)).
Definition map_policy (t : dtarget) : mappolicy :=
  match t with
  | TStruct _ fs => MPStruct fs
  | TMap tk tv => MPGeneric tk tv false
  | TIgnored => MPGeneric TIgnored TIgnored true
  | _ => MPGeneric TAny TAny false
  end.

(* force_any: the union arm of deserialize_any calls deserialize_any on the variant (whatever hint
   method the target had called on the union node) *)
Fixpoint de (fuel : nat) (n : fnode) (depth : nat) (favor : bool) (force_any : bool) (t : dtarget) {struct fuel} : RM dval :=
  match fuel with
  | O => rfail OutOfFuel
  | S f =>
    let any : RM dval :=
      match n with
      | FNull => sret (leaf t DUnit)
      | FBoolean => do* e <- read_bool; sret (leaf t e)
      | FInt | FDate | FTimeMillis => do* z <- read_varint VI32; sret (leaf t (DInt true W32 z))
      | FLong | FTimeMicros | FTimestampMillis | FTimestampMicros =>
          do* z <- read_varint VI64; sret (leaf t (DInt true W64 z))
      | FFloat => do* bs <- read_exact 4; sret (leaf t (DF32 (le_val bs)))
      | FDouble => do* bs <- read_exact 8; sret (leaf t (DF64 (le_val bs)))
      | FBytes => do* e <- read_ld_bytes; sret (leaf t e)
      | FString | FUuid => do* e <- read_ld_str; sret (leaf t e)
      | FArray items =>
          do* d' <- dec_depth depth;
          seq_array f items d' false t blk0 false
      | FMap values =>
          do* d' <- dec_depth depth;
          map_visit f (MSMap values d' false blk0) t
      | FUnion variants =>
          do* disc <- read_usize;
          match nth_N variants disc with
          | None => rfail (Err EData)
          | Some k =>
              do* d' <- dec_depth depth;
              do* n' <- node_at k;
              de f n' d' false true t
          end
      | FRecord _ fields =>
          do* d' <- dec_depth depth;
          map_visit f (MSRecord fields d') t
      | FEnum _ symbols =>
          do* disc <- read_usize;
          match nth_N symbols disc with
          | None => rfail (Err EData)
          | Some s => sret (leaf t (DStr s))
          end
      | FFixed _ size => do* r <- read_slice size; sret (leaf t (bytes_event r))
      | FDecimal _ _ _ | FBigDecimal => do* e <- read_decimal n VHStr; sret (leaf t e)
      | FDuration =>
          do* bs <- read_exact 12;
          map_visit f (MSDuration [le_val (firstn 4 bs); le_val (firstn 4 (skipn 4 bs)); le_val (skipn 8 bs)] O) t
      end in
    let duration_seq : RM dval :=
      do* bs <- read_exact 12;
      seq_duration f [le_val (firstn 4 bs); le_val (firstn 4 (skipn 4 bs)); le_val (skipn 8 bs)] t in
    let decimal_hint (h : vhint) : RM dval :=
      match n with
      | FDecimal _ _ _ | FBigDecimal => do* e <- read_decimal n h; sret (leaf t e)
      | _ => any
      end in
    let identifier : RM dval :=
      match n with
      | FInt => do* z <- read_varint VI32;
                if (z <? 0)%Z then rfail (Err EData) else sret (leaf t (DInt false W64 z))
      | FLong => do* z <- read_varint VI64;
                 if (z <? 0)%Z then rfail (Err EData) else sret (leaf t (DInt false W64 z))
      | _ => any
      end in
    if force_any then any else
    match t with
    | TAny | TUnitStruct _ | TMap _ _ | TStruct _ _ | TVUnit | TVNewtype _ => any
    | THint h =>
        match h with
        | HBool | HI8 | HI16 | HI32 | HU8 | HU16 | HU32 | HF32 | HChar | HUnit => any
        | HU64 =>
            match n with
            | FEnum _ _ =>
                do* z <- read_varint VI64;
                if (z <? 0)%Z then rfail (Err EData) else sret (leaf t (DInt false W64 z))
            | _ => decimal_hint VHU64
            end
        | HI64 =>
            match n with
            | FLong => do* z <- read_varint VI64; sret (leaf t (DInt true W64 z))
            | _ => decimal_hint VHI64
            end
        | HU128 => decimal_hint VHU128
        | HI128 => decimal_hint VHI128
        | HF64 =>
            match n with
            | FDouble => do* bs <- read_exact 8; sret (leaf t (DF64 (le_val bs)))
            | _ => decimal_hint VHF64
            end
        | HStr | HString =>
            match n with
            | FString | FBytes => do* e <- read_ld_str; sret (leaf t e)
            | FFixed _ size => do* r <- read_slice size; do* e <- str_event r; sret (leaf t e)
            | _ => any
            end
        | HBytes | HByteBuf =>
            match n with
            | FBytes => do* e <- read_ld_bytes; sret (leaf t e)
            | FDuration => do* r <- read_slice 12; sret (leaf t (bytes_event r))
            | _ => any
            end
        | HIdentifier => identifier
        end
    | TNewtypeStruct _ t' => do* d <- de f n depth favor false t'; sret (DNewtype d)
    | TOption t' =>
        match n with
        | FNull => sret DNone
        | FUnion variants =>
            do* disc <- read_usize;
            match nth_N variants disc with
            | None => rfail (Err EData)
            | Some k =>
                do* vn <- node_at k;
                match vn with
                | FNull => sret DNone
                | _ =>
                    let other_is_null :=
                      Nat.eqb (length variants) 2 &&
                      match nth_error variants (1 - N.to_nat disc) with
                      | Some k2 => match fnode_at Sc k2 with Some FNull => true | _ => false end
                      | None => false
                      end in
                    do* d' <- dec_depth depth;
                    do* d <- de f vn d' (negb other_is_null) false t';
                    sret (DSome d)
                end
            end
        | _ => do* d <- de f n depth favor false t'; sret (DSome d)
        end
    | TSeq _ =>
        match n with
        | FArray items => do* d' <- dec_depth depth; seq_array f items d' false t blk0 false
        | FDuration => duration_seq
        | _ => any
        end
    | TTuple ts | TTupleStruct _ ts =>
        match n with
        | FArray items => do* d' <- dec_depth depth; seq_array f items d' false t blk0 true
        | FDuration => if Nat.eqb (length ts) 3 then duration_seq else any
        | _ => any
        end
    | TEnum _ variants =>
        let type_name_access (vn : fnode) (d' : nat) : RM dval :=
          enum_payload f variants (type_name vn) vn d' in
        if favor then type_name_access n depth else
        match n with
        | FUnion uvariants =>
            do* disc <- read_usize;
            match nth_N uvariants disc with
            | None => rfail (Err EData)
            | Some k => do* d' <- dec_depth depth; do* vn <- node_at k; type_name_access vn d'
            end
        | FInt | FLong | FBytes | FString | FEnum _ _ | FFixed _ _ =>
            do* d' <- dec_depth depth;
            do* key <- de f n d' false false (THint HIdentifier);
            let idx :=
              match key with
              | DInt false W64 z =>
                  if (z <? Z.of_nat (length variants))%Z then Some (Z.to_nat z) else None
              | _ => match dval_bytes key with
                     | Some s => index_of s (map fst variants)
                     | None => None
                     end
              end in
            match idx with
            | None => rfail (Err EData)
            | Some i =>
                match nth_error variants i with
                | Some (vname, TVUnit) => sret (DEnum vname DUnit)
                | _ => rfail (Err EData)
                end
            end
        | _ => do* d' <- dec_depth depth; type_name_access n d'
        end
    | TIgnored =>
        match n with
        | FString => do* _ <- read_ld_bytes; sret DIgnored
        | FArray items => do* d' <- dec_depth depth; seq_array f items d' true t blk0 false
        | FMap values => do* d' <- dec_depth depth; map_visit f (MSMap values d' true blk0) t
        | FInt => do* _ <- read_varint VU32; sret DIgnored
        | FLong | FEnum _ _ => do* _ <- read_varint VU64; sret DIgnored
        | FDuration => do* _ <- read_exact 12; sret DIgnored
        | _ => any
        end
    end
  end

(* visit_seq over an Avro array. expect_end: the deserialize_tuple path checks that the
   sequence is exhausted after the visitor returns *)
with seq_array (fuel : nat) (items : nat) (depth : nat) (ignored : bool) (t : dtarget) (b : blk)
               (expect_end : bool) {struct fuel} : RM dval :=
  match fuel with
  | O => rfail OutOfFuel
  | S f =>
      let (pol, sh) := seq_policy t in
      do* r <- seq_array_loop f items depth ignored pol b [];
      let '(ds, b') := r in
      if expect_end && negb (b_finished b') then
        do* hm <- has_more f cfg ignored b';
        if fst hm then rfail (Err EData) else sret (shape_seq sh ds)
      else sret (shape_seq sh ds)
  end

with seq_array_loop (fuel : nat) (items : nat) (depth : nat) (ignored : bool) (pol : seqpolicy)
                    (b : blk) (acc : list dval) {struct fuel} : RM (list dval * blk) :=
  match fuel with
  | O => rfail OutOfFuel
  | S f =>
      match pol with
      | PFixed [] => sret (rev acc, b)
      | PFixed (t1 :: ts) =>
          do* hm <- has_more f cfg ignored b;
          if fst hm then
            do* n' <- node_at items;
            do* d <- de f n' depth false false t1;
            seq_array_loop f items depth ignored (PFixed ts) (snd hm) (d :: acc)
          else rfail (Err EData)                 (* invalid_length *)
      | PRepeat t1 =>
          do* hm <- has_more f cfg ignored b;
          if fst hm then
            do* n' <- node_at items;
            do* d <- de f n' depth false false t1;
            seq_array_loop f items depth ignored pol (snd hm) (d :: acc)
          else sret (rev acc, snd hm)
      end
  end

(* visit_seq over DurationMapAndSeqAccess *)
with seq_duration (fuel : nat) (vals : list N) (t : dtarget) {struct fuel} : RM dval :=
  match fuel with
  | O => rfail OutOfFuel
  | S f =>
      let (pol, sh) := seq_policy t in
      match pol with
      | PRepeat t1 => sret (shape_seq sh (map (fun v => prim_event t1 (DInt false W32 (Z.of_N v))) vals))
      | PFixed ts =>
          if Nat.ltb (length vals) (length ts) then rfail (Err EData)
          else sret (shape_seq sh (map (fun p => prim_event (fst p) (DInt false W32 (Z.of_N (snd p))))
                                       (combine ts vals)))
      end
  end

(* visit_map *)
with map_visit (fuel : nat) (src : mapsrc) (t : dtarget) {struct fuel} : RM dval :=
  match fuel with
  | O => rfail OutOfFuel
  | S f =>
      match map_policy t with
      | MPGeneric tk tv ign =>
          do* kvs <- map_loop f src tk tv [];
          sret (if ign then DIgnored else DMap kvs)
      | MPStruct fs =>
          do* r <- struct_loop f src fs (repeat false (length fs)) [];
          sret (DStruct r)
      end
  end

(* next key of a map source: None at the end *)
with map_next_key (fuel : nat) (src : mapsrc) (tk : dtarget) {struct fuel}
  : RM (option (dval * mapsrc)) :=
  match fuel with
  | O => rfail OutOfFuel
  | S f =>
      match src with
      | MSMap values depth ignored b =>
          do* hm <- has_more f cfg ignored b;
          if fst hm then
            (* StringDeserializer: any -> StringVisitor; ignored_any -> BytesVisitor *)
            do* k <- (match tk with
                      | TIgnored => do* _ <- read_ld_bytes; sret DIgnored
                      | _ => read_ld_str
                      end);
            sret (Some (k, MSMap values depth ignored (snd hm)))
          else sret None
      | MSRecord fields depth =>
          match fields with
          | [] => sret None
          | (nm, _) :: _ =>
              match tk with
              | TEnum _ _ => rfail Unmodelled      (* serde's StrDeserializer::deserialize_enum *)
              | _ => sret (Some (prim_event tk (DStr nm), src))
              end
          end
      | MSDuration vals idx =>
          match vals with
          | [] => sret None
          | _ =>
              let nm := match idx with O => MONTHS | S O => DAYS | _ => MILLISECONDS end in
              sret (Some (match tk with
                          | TIgnored => DIgnored
                          | THint HU64 => DInt false W64 (Z.of_nat idx)
                          | _ => DStr nm
                          end, src))
          end
      end
  end

(* next value of a map source *)
with map_next_value (fuel : nat) (src : mapsrc) (tv : dtarget) {struct fuel} : RM (dval * mapsrc) :=
  match fuel with
  | O => rfail OutOfFuel
  | S f =>
      match src with
      | MSMap values depth ignored b =>
          do* n' <- node_at values;
          do* d <- de f n' depth false false tv;
          sret (d, src)
      | MSRecord fields depth =>
          match fields with
          | [] => rfail (Panic PNextValueWithoutKey)
          | (_, k) :: rest =>
              do* n' <- node_at k;
              do* d <- de f n' depth false false tv;
              sret (d, MSRecord rest depth)
          end
      | MSDuration vals idx =>
          match vals with
          | [] => rfail (Panic PIndex)
          | v :: rest => sret (prim_event tv (DInt false W32 (Z.of_N v)), MSDuration rest (S idx))
          end
      end
  end

with map_loop (fuel : nat) (src : mapsrc) (tk tv : dtarget) (acc : list (dval * dval)) {struct fuel}
  : RM (list (dval * dval)) :=
  match fuel with
  | O => rfail OutOfFuel
  | S f =>
      do* nk <- map_next_key f src tk;
      match nk with
      | None => sret (rev acc)
      | Some (k, src1) =>
          do* r <- map_next_value f src1 tv;
          map_loop f (snd r) tk tv ((k, fst r) :: acc)
      end
  end

(* the derived-struct style visitor: identifier keys, unknown keys ignored, duplicates rejected *)
with struct_loop (fuel : nat) (src : mapsrc) (fs : list (bytes * dtarget)) (seen : list bool)
                 (acc : list (bytes * dval)) {struct fuel} : RM (list (bytes * dval)) :=
  match fuel with
  | O => rfail OutOfFuel
  | S f =>
      do* nk <- map_next_key f src (THint HIdentifier);
      match nk with
      | None => sret (rev acc ++ missing_fields fs seen)
      | Some (k, src1) =>
          let found :=
            match k with
            | DInt false W64 z =>
                match nth_error fs (Z.to_nat z) with
                | Some (nm, tf) => if (0 <=? z)%Z then Some (Z.to_nat z, nm, tf) else None
                | None => None
                end
            | _ => match dval_bytes k with
                   | Some s => match find_field s fs O with
                               | Some (i, tf) => Some (i, s, tf)
                               | None => None
                               end
                   | None => None
                   end
            end in
          match found with
          | Some (i, nm, tf) =>
              if nth i seen false then rfail (Err EData)      (* duplicate field *)
              else
                do* r <- map_next_value f src1 tf;
                struct_loop f (snd r) fs (set_seen seen i) ((nm, fst r) :: acc)
          | None =>
              do* r <- map_next_value f src1 TIgnored;
              struct_loop f (snd r) fs seen acc
          end
      end
  end

(* visit_enum with the variant name proposed by the schema (SchemaTypeNameEnumAccess) *)
with enum_payload (fuel : nat) (variants : list (bytes * dtarget)) (vname : bytes) (vn : fnode)
                  (depth : nat) {struct fuel} : RM dval :=
  match fuel with
  | O => rfail OutOfFuel
  | S f =>
      match index_of vname (map fst variants) with
      | None => rfail (Err EData)
      | Some i =>
          match nth_error variants i with
          | None => rfail (Panic PIndex)
          | Some (nm, payload) =>
              match payload with
              | TVUnit => do* _ <- de f vn depth false false TIgnored; sret (DEnum nm DUnit)
              | TVNewtype t' => do* d <- de f vn depth false false t'; sret (DEnum nm d)
              | TTuple ts =>
                  do* d <- de f vn depth false false (TTuple ts);
                  match d with DSeq _ => sret (DEnum nm d) | _ => rfail (Err EData) end
              | TStruct sn fs =>
                  do* d <- de f vn depth false false (TStruct sn fs);
                  match d with DStruct _ => sret (DEnum nm d) | _ => rfail (Err EData) end
              | _ => rfail Unmodelled
              end
          end
      end
  end.

End DeFix.

(* from_datum_slice / from_datum_reader against a target: the events and the input left *)
Definition de_datum (fuel : nat) (Sc : fschema) (cfg : dcfg) (t : dtarget) (rs : rstate)
  : result (dval * N) :=
  match fnode_at Sc 0 with
  | None => Panic PIndex
  | Some root =>
      match de Sc cfg fuel root (c_depth cfg) false false t rs with
      | (Ok d, st) => Ok (d, blen (rd_inp st))
      | (Err e, _) => Err e
      | (Panic p, _) => Panic p
      | (OutOfFuel, _) => OutOfFuel
      | (Unmodelled, _) => Unmodelled
      end
  end.
