(** Model of object_container_file_encoding/writer/vectored_write_polyfill.rs
    (write_all_vectored, a copy of std's unstable function) against a sink whose
    answers follow a schedule, and of std's IoSlice::advance_slices. *)
Require Import Base.
Open Scope N_scope.

(* what the sink answers to one write / write_vectored call *)
Inductive wans :=
  | Accept (k : N)      (* accepts min(max(k,1), available) bytes *)
  | Interrupted         (* Err(ErrorKind::Interrupted) *)
  | Zero                (* Ok(0) *)
  | Hard.               (* any other error *)

(* the schedule: a list of answers, the last one repeats (an empty schedule accepts everything) *)
Definition next_ans (sched : list wans) : wans * list wans :=
  match sched with
  | [] => (Accept (2^64), [])
  | [a] => (a, [a])
  | a :: t => (a, t)
  end.

(* IoSlice::advance_slices(&mut bufs, n): drop the slices that n covers entirely (including empty
   ones on the way), advance into the next one. None = the "advancing io slices beyond their
   length" panic. *)
Fixpoint advance_slices (bufs : list bytes) (n : nat) : option (list bytes) :=
  match bufs with
  | [] => if Nat.eqb n 0 then Some [] else None
  | b :: t =>
      if Nat.leb (length b) n then advance_slices t (n - length b)
      else Some (skipn n b :: t)
  end.

(* bytes the sink takes for Accept k: all slices together (a sink with a real write_vectored)
   or only the first non-empty slice (the default write_vectored) *)
Definition available (vectored : bool) (bufs : list bytes) : bytes :=
  if vectored then concat bufs
  else match filter (fun b => negb (Nat.eqb (length b) 0)) bufs with
       | [] => []
       | b :: _ => b
       end.

Inductive wres := WOk | WErrZero | WErrHard | WPanic | WOutOfFuel.

(* write_all_vectored_inner after the initial advance_slices(&mut bufs, 0); fuel bounds the
   number of sink calls *)
Fixpoint wav_loop (fuel : nat) (vectored : bool) (bufs : list bytes) (sched : list wans) (sink : bytes)
  : wres * bytes * list wans :=
  match fuel with
  | O => (WOutOfFuel, sink, sched)
  | S f =>
      match bufs with
      | [] => (WOk, sink, sched)
      | _ =>
          let (a, sched') := next_ans sched in
          match a with
          | Accept k =>
              let av := available vectored bufs in
              let n := Nat.min (Nat.max (N.to_nat k) 1) (length av) in
              if Nat.eqb n 0 then (WErrZero, sink, sched')
              else match advance_slices bufs n with
                   | None => (WPanic, sink ++ firstn n av, sched')
                   | Some bufs' => wav_loop f vectored bufs' sched' (sink ++ firstn n av)
                   end
          | Interrupted => wav_loop f vectored bufs sched' sink
          | Zero => (WErrZero, sink, sched')
          | Hard => (WErrHard, sink, sched')
          end
      end
  end.

Definition write_all_vectored (fuel : nat) (vectored : bool) (slices : list bytes) (sched : list wans)
                              (sink : bytes) : wres * bytes * list wans :=
  match advance_slices slices 0 with
  | None => (WPanic, sink, sched)
  | Some bufs => wav_loop fuel vectored bufs sched sink
  end.

(* number of Interrupted answers among the first n of the (repeating) schedule *)
Fixpoint sched_prefix (n : nat) (sched : list wans) : list wans :=
  match n with
  | O => []
  | S m => let (a, s') := next_ans sched in a :: sched_prefix m s'
  end.
