(** Model of `TryFrom<SchemaMut> for Schema` (schema/self_referential.rs) for a graph assembled
    through the builder API (no stored JSON): empty graph rejected, canonical-form fingerprint,
    regenerated JSON, then the bounds-checked conversion of every node. The union lookup tables
    built in the second pass are functions of the frozen nodes (Schema.union_unnamed/union_named). *)
Require Import Base Schema CanonicalForm SchemaJson.

Definition freeze_built (fuel : nat) (g : schema_mut) : result (fschema * bytes * bytes) :=
  match g with
  | [] => Err EData
  | _ =>
      let* fp := fingerprint fuel g in
      let* js := schema_json fuel g in
      let* fs := freeze_nodes (List.length g) g in
      Ok (fs, fp, js)
  end.
