(** Common definitions of the model: bytes, outcomes, small list helpers.
    No proofs here (the model must still run when a proof breaks). *)
From Coq Require Export NArith ZArith List Bool.
Export ListNotations.
Open Scope N_scope.

Definition byte := N.
Definition bytes := list N.

(* error classes that are observable through the API *)
Inductive err := EData | EIo.

(* panic sites of the modelled Rust code *)
Inductive site :=
  | PSerKeyBeforeValue      (* struct_or_map.rs: serialize_value without serialize_key *)
  | PRecordEqualArm         (* struct_or_map.rs field_idx: Ordering::Equal => panic! *)
  | PPoolAssert             (* assert!(v.is_empty()) on a pooled buffer *)
  | PExpectedFieldsUnwrap   (* expected_fields.next().unwrap() *)
  | PDebugAssertBuffers     (* end(): debug_assert!(buffers all None) *)
  | PUnreachable            (* unreachable!() / impossible arm *)
  | PIndex                  (* slice indexing out of bounds *)
  | PNextValueWithoutKey    (* record.rs next_value_seed expect *)
  | PWriterBlockNotFlushed  (* writer: "Previous block should always be flushed" *)
  | PWriterExpect           (* writer: expect sites *)
  | POverflow.              (* debug-build arithmetic overflow *)

Inductive result (A : Type) :=
  | Ok (a : A)
  | Err (e : err)
  | Panic (s : site)
  | OutOfFuel
  | Unmodelled.
Arguments Ok {A} a.
Arguments Err {A} e.
Arguments Panic {A} s.
Arguments OutOfFuel {A}.
Arguments Unmodelled {A}.

Definition rbind {A B} (r : result A) (f : A -> result B) : result B :=
  match r with
  | Ok a => f a
  | Err e => Err e
  | Panic s => Panic s
  | OutOfFuel => OutOfFuel
  | Unmodelled => Unmodelled
  end.
Definition rmap {A B} (f : A -> B) (r : result A) : result B := rbind r (fun a => Ok (f a)).
Definition is_ok {A} (r : result A) : bool := match r with Ok _ => true | _ => false end.

Notation "'let*' x ':=' r 'in' k" := (rbind r (fun x => k))
  (at level 200, x pattern, r at level 100, k at level 200, right associativity).

(* state + outcome: the state survives errors *)
Definition sres (S A : Type) : Type := (result A * S)%type.
Definition sbind {S A B} (m : S -> sres S A) (f : A -> S -> sres S B) : S -> sres S B :=
  fun s => match m s with
           | (Ok a, s') => f a s'
           | (Err e, s') => (Err e, s')
           | (Panic p, s') => (Panic p, s')
           | (OutOfFuel, s') => (OutOfFuel, s')
           | (Unmodelled, s') => (Unmodelled, s')
           end.
Definition sret {S A} (a : A) : S -> sres S A := fun s => (Ok a, s).
Definition sfail {S A} (r : result A) : S -> sres S A := fun s => (r, s).

Notation "'do*' x '<-' m ';' k" := (sbind m (fun x => k))
  (at level 200, x pattern, m at level 100, k at level 200, right associativity).

Definition bytes_eqb (a b : bytes) : bool :=
  (Nat.eqb (length a) (length b)) && forallb (fun p => N.eqb (fst p) (snd p)) (combine a b).

Fixpoint index_of (x : bytes) (l : list bytes) : option nat :=
  match l with
  | [] => None
  | y :: t => if bytes_eqb x y then Some O else option_map S (index_of x t)
  end.

(* last match wins (HashMap insert / collect semantics for duplicate keys) *)
Fixpoint index_of_last_from (x : bytes) (l : list bytes) (i : nat) (acc : option nat) : option nat :=
  match l with
  | [] => acc
  | y :: t => index_of_last_from x t (S i) (if bytes_eqb x y then Some i else acc)
  end.
Definition index_of_last (x : bytes) (l : list bytes) : option nat := index_of_last_from x l O None.

Definition ascii (s : list nat) : bytes := map N.of_nat s.

Definition Zin (lo hi z : Z) : bool := (Z.leb lo z && Z.leb z hi)%bool.
Definition I32_MIN : Z := (-2147483648)%Z.
Definition I32_MAX : Z := 2147483647%Z.
Definition I64_MIN : Z := (-9223372036854775808)%Z.
Definition I64_MAX : Z := 9223372036854775807%Z.
Definition I128_MIN : Z := (- 2^127)%Z.
Definition I128_MAX : Z := (2^127 - 1)%Z.
Definition U64_MAX : Z := 18446744073709551615%Z.
Definition USIZE_MAX : Z := U64_MAX.
Definition byte_ok (b : N) : bool := b <? 256.
Definition bytes_okb (bs : bytes) : bool := forallb byte_ok bs.
