(** Model of object_container_file_encoding/reader/decompression.rs: the per-codec decompression
    state of one container block and the end-of-block check of `into_source_reader_and_config`.

    Streaming codecs (deflate, bzip2, xz, zstandard) -- as written in the crate:

        state():   BufReader::new(Decoder::new(Take::take(reader, block_size)?))        // capacity 8192 (hook H4: any)
        values:    deserialize_seed.deserialize(deserializer_state.deserializer())      // reads through the BufReader
        into_source_reader_and_config():
            let mut buf_reader = reader.into_inner();
            let mut drive_reader_to_end_buf = [0];
            let read = buf_reader.read(&mut drive_reader_to_end_buf).map_err(..)?;      // Err -> Err
            if read != 0 { return Err("decompressed data left in the block") }
            decoder.into_inner().into_left_after_take()?                                // Take limit > 0 -> Err
        then (reader/mod.rs) the 16 bytes of the sync marker are read from the source and compared.

    The compression library is ABSTRACT: a `Section` over the decoder's state `D` and one function
    `dread` = one `Read::read(dst)` of the decoder on the Take (what the Take still holds, the chunk plan of
    the source -- opaque --, `dst.len()`), answering `DErr` or the bytes produced and the number of
    compressed bytes consumed from the Take. What the crate may assume of a decoder is the record
    `stream_decoder_contract` (no proofs here: the model must still run when a proof breaks).

    `std::io::BufReader` is modelled as written in std: `fill_buf` refills (one decoder read of `capacity`
    bytes) only when the buffer is empty; `read(dst)` with an empty buffer and `dst.len() >= capacity`
    bypasses the buffer (one decoder read of `dst.len()` bytes).

    THE ABSTRACTION for values: the deserializer is not re-modelled over this reader. A value is decoded
    by `vdec` (instantiated with `De.de` in slice mode, see `de_vdec`) from the decompressed bytes that
    are still to come (`lookahead`: the buffer, then what the decoder delivers from here on -- computed
    on a copy of the state), which says how many bytes `k` the value takes; the real state is then
    advanced by `br_demand k`: the BufReader discipline above, where for every refill with an empty buffer
    the parameter `policy need cap` says whether the deserializer's call was `fill_buf` (a `cap`-sized
    decoder read into the buffer) or a `read`/`read_exact` of `r >= cap` outstanding bytes (bypass).
    That `de` reading through any chunking equals `de` on the slice is C11 (ReaderProofs.C11_de). After a
    value error the model stops the block (the crate would go on with the next datum when the error is
    not an I/O error); runs are compared up to and including the first error.

    Snappy: exact (block_size >= 4, raw codec on the first block_size - 4 bytes, big-endian CRC32 of the
    DECOMPRESSED data in the last 4, `Cursor`; end of block: cursor position < length -> Err). *)
Require Import Base Reader CodecLoop.
From Coq Require Import Arith.
Local Open Scope nat_scope.

(* ------------------------------------------------------------------------------------------ *)
(** * The Take over the source *)

(* std::io::Take<R> / SliceReadTake: the source from the current position on (to the end of the file),
   the limit left, the chunk plan of the source (None: a slice) *)
Record take := mkTk { tk_src : bytes; tk_limit : nat; tk_ch : option chunkst }.

(* what the Take can still deliver: fewer than `limit` bytes when the source ends early *)
Definition tk_avail (t : take) : bytes := firstn (tk_limit t) (tk_src t).

Definition tk_consume (k : nat) (t : take) : take :=
  mkTk (skipn k (tk_src t)) (tk_limit t - k)
       (match tk_ch t with
        | None => None
        | Some c => Some (consume_chunks (S k) c (N.of_nat k))
        end).

(* one decoder read: Err, or the bytes produced and the compressed bytes consumed *)
Inductive dres := DErr | DOut (out : bytes) (consumed : nat).

(* how a demand for decompressed bytes ended *)
Inductive dem := DemOk | DemEof | DemErr | DemFuel.

(* the end-of-block check *)
Inductive endres :=
  | EndOk
  | EndDecoderErr      (* the 1-byte read returned Err *)
  | EndLeftover        (* the 1-byte read returned 1: decompressed data left *)
  | EndTakeLeft.       (* the Take limit is not 0: compressed bytes of the block not consumed *)

(* how reading one block ended *)
Inductive bend :=
  | BDone (src : bytes) (ch : option chunkst)   (* the source behind the sync marker *)
  | BValueErr
  | BEndErr (e : endres)
  | BSyncShort         (* fewer than 16 bytes behind the block *)
  | BSyncMismatch.

Section Block.
Variable D : Type.                                         (* state of the library's streaming decoder *)
Variable dread : D -> bytes -> option chunkst -> nat -> dres * D.
Variable policy : nat -> nat -> option nat.                (* see the header: bypass reads of the deserializer *)
Variable V : Type.
Variable vdec : bytes -> result V * nat.                   (* value decoder on a slice: outcome, bytes consumed *)

(* a library cannot produce more than dst.len() bytes nor consume more than the Take holds; what a failing read
   consumed is not modelled: after Err the Take is never looked at again (the reader is Broken) *)
Definition dec_read (d : D) (t : take) (want : nat) : option bytes * D * take :=
  match dread d (tk_avail t) (tk_ch t) want with
  | (DErr, d') => (None, d', t)
  | (DOut o k, d') => (Some (firstn want o), d', tk_consume (Nat.min k (length (tk_avail t))) t)
  end.

Record bstate := mkB {
  b_dec : D;
  b_take : take;
  b_buf : bytes;          (* BufReader: filled and not yet consumed *)
  b_cap : nat }.          (* BufReader capacity *)

(* CompressionCodec::state for the streaming codecs; `slice`: SliceRead::take fails when the block
   size exceeds the slice, io::Take does not look *)
Definition block_open (d0 : D) (src : bytes) (ch : option chunkst) (size cap : nat) : option bstate :=
  match ch with
  | None => if length src <? size then None else Some (mkB d0 (mkTk src size None) [] cap)
  | Some _ => Some (mkB d0 (mkTk src size ch) [] cap)
  end.

(* std::io::BufReader::read(dst), dst.len() = n: None = Err *)
Definition br_read (n : nat) (s : bstate) : option bytes * bstate :=
  match b_buf s with
  | [] =>
      if b_cap s <=? n then
        (* bypass *)
        match dec_read (b_dec s) (b_take s) n with
        | (r, d, t) => (r, mkB d t [] (b_cap s))
        end
      else
        (* fill_buf, then copy *)
        match dec_read (b_dec s) (b_take s) (b_cap s) with
        | (None, d, t) => (None, mkB d t [] (b_cap s))
        | (Some o, d, t) => (Some (firstn n o), mkB d t (skipn n o) (b_cap s))
        end
  | buf => (Some (firstn n buf), mkB (b_dec s) (b_take s) (skipn n buf) (b_cap s))
  end.

(* the deserializer takes `need` more decompressed bytes *)
Fixpoint br_demand (fuel need : nat) (s : bstate) : dem * bstate :=
  match fuel with
  | O => (DemFuel, s)
  | S f =>
      match need with
      | O => (DemOk, s)
      | S _ =>
          match b_buf s with
          | _ :: _ =>
              let m := Nat.min need (length (b_buf s)) in
              br_demand f (need - m) (mkB (b_dec s) (b_take s) (skipn m (b_buf s)) (b_cap s))
          | [] =>
              let direct := match policy need (b_cap s) with
                            | Some r => if (b_cap s <=? r) && (r <=? need) then Some r else None
                            | None => None
                            end in
              match direct with
              | Some r =>
                  match dec_read (b_dec s) (b_take s) r with
                  | (None, d, t) => (DemErr, mkB d t [] (b_cap s))
                  | (Some [], d, t) => (DemEof, mkB d t [] (b_cap s))
                  | (Some o, d, t) => br_demand f (need - length o) (mkB d t [] (b_cap s))
                  end
              | None =>
                  match dec_read (b_dec s) (b_take s) (b_cap s) with
                  | (None, d, t) => (DemErr, mkB d t [] (b_cap s))
                  | (Some [], d, t) => (DemEof, mkB d t [] (b_cap s))
                  | (Some o, d, t) => br_demand f need (mkB d t o (b_cap s))
                  end
              end
          end
      end
  end.

(* what the decoder delivers from here on, asked `want` bytes at a time, until it answers 0 or Err *)
Fixpoint drain (fuel : nat) (d : D) (t : take) (want : nat) : bytes :=
  match fuel with
  | O => []
  | S f =>
      match dec_read d t want with
      | (None, _, _) => []
      | (Some [], _, _) => []
      | (Some o, d', t') => o ++ drain f d' t' want
      end
  end.

Definition lookahead (fuel : nat) (s : bstate) : bytes :=
  b_buf s ++ drain fuel (b_dec s) (b_take s) (b_cap s).

(* one datum *)
Definition block_value (fuel : nat) (s : bstate) : option V * bstate :=
  let la := lookahead fuel s in
  match vdec la with
  | (Ok v, k) =>
      if length la <? k then (None, s)          (* the value decoder ran past the end of the data *)
      else
        match br_demand (2 * k + 2) k s with
        | (DemOk, s') => (Some v, s')
        | (_, s') => (None, s')
        end
  | (_, k) => (None, snd (br_demand (2 * k + 2) k s))
  end.

(* into_source_reader_and_config, BufReader arm *)
Definition block_end (s : bstate) : endres * bstate :=
  match br_read 1 s with
  | (None, s') => (EndDecoderErr, s')
  | (Some (_ :: _), s') => (EndLeftover, s')
  | (Some [], s') => if tk_limit (b_take s') =? 0 then (EndOk, s') else (EndTakeLeft, s')
  end.

Fixpoint block_values (fuel n : nat) (s : bstate) : list V * option bstate :=
  match n with
  | O => ([], Some s)
  | S m =>
      match block_value fuel s with
      | (Some v, s') => let (vs, r) := block_values fuel m s' in (v :: vs, r)
      | (None, _) => ([], None)
      end
  end.

(* the sync marker behind the block *)
Definition sync_check (sync : bytes) (t : take) : bend :=
  let src := tk_src t in
  if length src <? 16 then BSyncShort
  else if bytes_eqb (firstn 16 src) sync then BDone (skipn 16 src) (tk_ch (tk_consume 16 (mkTk src 16 (tk_ch t))))
  else BSyncMismatch.

(* `count` calls of deserialize_next inside the block, then the call that leaves it *)
Definition block_run (fuel count : nat) (sync : bytes) (s : bstate) : list V * bend :=
  match block_values fuel count s with
  | (vs, None) => (vs, BValueErr)
  | (vs, Some s') =>
      match block_end s' with
      | (EndOk, s'') => (vs, sync_check sync (b_take s''))
      | (e, _) => (vs, BEndErr e)
      end
  end.

(* the check as it was before commit 8463ea9: only the Take limit was looked at *)
Definition block_end_before_fix (s : bstate) : endres * bstate :=
  if tk_limit (b_take s) =? 0 then (EndOk, s) else (EndTakeLeft, s).

(* -------------------------------------------------------------------------------------- *)
(** ** What the crate assumes of a streaming decoder *)

Definition agree (a z : bytes) : Prop := is_prefix a z \/ is_prefix z a.

(* the decoder states reachable while the Take initially holds the bytes [a]: compressed bytes consumed
   so far, decompressed bytes produced so far. Every read asks for at least one byte; the chunk plan the
   decoder sees is arbitrary at every step ("any chunking of the source") *)
Inductive dreach (a : bytes) (d0 : D) : D -> nat -> bytes -> Prop :=
  | dreach_start : dreach a d0 d0 0 []
  | dreach_read : forall d cons out ch want o k d',
      dreach a d0 d cons out -> 1 <= want ->
      dread d (skipn cons a) ch want = (DOut o k, d') ->
      dreach a d0 d' (cons + Nat.min k (length a - cons)) (out ++ firstn want o).

(* z: a complete compressed stream; x: the data it decodes to; a: what the Take holds (z itself, z cut
   short, or z followed by other bytes); d0: a fresh decoder *)
Record stream_decoder_contract (z x a : bytes) (d0 : D) : Prop := mkDC {
  (* (i)/(ii) the output of a prefix is a prefix -- whatever the Take holds beyond the bytes consumed,
     nothing is produced that the complete stream does not produce at that position *)
  dc_prefix : agree a z -> forall d cons out, dreach a d0 d cons out -> is_prefix out x;
  (* on the complete stream the decoder does not fail *)
  dc_no_error : a = z -> forall d cons out ch want, dreach a d0 d cons out -> 1 <= want ->
      fst (dread d (skipn cons a) ch want) <> DErr;
  (* ... and a read returns 0 only after all of the data has been delivered (Read::read: 0 = end) *)
  dc_progress : a = z -> forall d cons out ch want o k d', dreach a d0 d cons out -> 1 <= want ->
      length out < length x ->
      dread d (skipn cons a) ch want = (DOut o k, d') -> firstn want o <> [];
  (* (iii) ONLY a read that returns 0 guarantees that the compressed stream was consumed to its end: after
     the last byte of data has been delivered the consumed count may still lag *)
  dc_end : is_prefix z a -> forall d cons out ch want o k d', dreach a d0 d cons out -> 1 <= want ->
      dread d (skipn cons a) ch want = (DOut o k, d') -> firstn want o = [] ->
      length z <= cons + Nat.min k (length a - cons);
  (* (iv) bytes behind the end of the stream are not consumed *)
  dc_trailing : is_prefix z a -> forall d cons out, dreach a d0 d cons out -> cons <= length z
}.

(* the value decoder: the encoding of a written value w (one that meets P) decodes to its value whatever
   follows ... *)
Definition vdec_ok (W : Type) (P : W -> Prop) (enc1 : W -> bytes) (val : W -> V) : Prop :=
  forall w rest, P w -> vdec (enc1 w ++ rest) = (Ok (val w), length (enc1 w)).
(* ... and a successful decode does not depend on bytes behind the ones it consumed *)
Definition vdec_prefix_det : Prop :=
  forall p ext v k, vdec p = (Ok v, k) -> k <= length p -> vdec (p ++ ext) = (Ok v, k).

End Block.

(* ------------------------------------------------------------------------------------------ *)
(** * A decoder that answers from a recorded trace (hook H4): replay of the end-of-block check *)

(* answer of one recorded decoder read: None = Err, Some (produced, compressed consumed by this read) *)
Record rdec := mkRD { rd_answers : list (option (nat * nat)); rd_wants : list nat (* requests made, in order *) }.

Definition replay_dread (d : rdec) (avail : bytes) (ch : option chunkst) (want : nat) : dres * rdec :=
  match rd_answers d with
  | [] => (DErr, mkRD [] (rd_wants d ++ [want]))
  | None :: t => (DErr, mkRD t (rd_wants d ++ [want]))
  | Some (p, c) :: t => (DOut (repeat 0%N p) c, mkRD t (rd_wants d ++ [want]))
  end.

(* the state in which the crate entered the check: capacity, bytes buffered, Take limit left; the recorded
   answer of the decoder read the check made (if it made one).
   -> decision, requests the model made of the decoder, answers not used, Take limit afterwards *)
Definition replay_end (cap buffered limit : nat) (answers : list (option (nat * nat)))
  : endres * list nat * nat * nat :=
  let s := mkB rdec (mkRD answers []) (mkTk (repeat 0%N limit) limit None) (repeat 0%N buffered) cap in
  match block_end rdec replay_dread s with
  | (e, s') => (e, rd_wants (b_dec rdec s'), length (rd_answers (b_dec rdec s')), tk_limit (b_take rdec s'))
  end.

Definition replay_end_before_fix (cap buffered limit : nat) : endres :=
  fst (block_end_before_fix rdec (mkB rdec (mkRD [] []) (mkTk (repeat 0%N limit) limit None) (repeat 0%N buffered) cap)).

(* ------------------------------------------------------------------------------------------ *)
(** * A small concrete codec and its streaming decoder (non-vacuity, examples, the defects of 8463ea9)

    stream ::= (1 byte)* 0 : every data byte is preceded by 1, the stream ends with 0. The decoder
    works on what `fill_buf` of the Take shows (at most the current chunk), produces at most dst.len()
    bytes and -- like the real libraries -- does not look at the input once dst is full: after the last
    data byte has been delivered the end marker has NOT been consumed. *)
Definition toy_enc (x : bytes) : bytes := flat_map (fun b => [1%N; b]) x ++ [0%N].

(* TData: the marker 1 has been consumed, its data byte not yet *)
Inductive toyst := TRun | TData | TEnd.

(* decode from the visible bytes v into a window of `want` bytes: produced, consumed, new state; None = not a stream *)
Fixpoint toy_scan (st : toyst) (v : bytes) (want : nat) : option (bytes * nat * toyst) :=
  match v with
  | [] => Some ([], 0, st)
  | b :: rest =>
      match st with
      | TEnd => Some ([], 0, TEnd)
      | TRun =>
          match want with
          | O => Some ([], 0, TRun)                (* dst is full: stop without looking further *)
          | S _ =>
              if N.eqb b 0 then Some ([], 1, TEnd)
              else if N.eqb b 1 then
                match toy_scan TData rest want with
                | Some (o, c, st') => Some (o, S c, st')
                | None => None
                end
              else None
          end
      | TData =>
          match want with
          | O => Some ([], 0, TData)
          | S w =>
              match toy_scan TRun rest w with
              | Some (o, c, st') => Some (b :: o, S c, st')
              | None => None
              end
          end
      end
  end.

(* what fill_buf of the Take shows: the current chunk, at most what the Take holds *)
Definition toy_visible (avail : bytes) (ch : option chunkst) : bytes :=
  match ch with
  | None => avail
  | Some c => match firstn (N.to_nat (ch_left c)) avail with [] => firstn 1 avail | v => v end
  end.

(* one Read::read: loops over fill_buf/consume until something was produced or the stream ended; an empty
   Take before that is an error ("unexpected end of stream") *)
Fixpoint toy_read (fuel : nat) (st : toyst) (avail : bytes) (ch : option chunkst) (want cons : nat)
  : dres * toyst :=
  match fuel with
  | O => (DErr, st)
  | S f =>
      match st with
      | TEnd => (DOut [] cons, TEnd)
      | _ =>
          match want with
          | O => (DOut [] cons, st)
          | S _ =>
              match avail with
              | [] => (DErr, st)
              | _ :: _ =>
                  match toy_scan st (toy_visible avail ch) want with
                  | None => (DErr, st)
                  | Some (((_ :: _) as o), c, st') => (DOut o (cons + c), st')
                  | Some ([], c, TEnd) => (DOut [] (cons + c), TEnd)
                  | Some ([], c, st') =>
                      if c =? 0 then (DErr, st')
                      else toy_read f st' (skipn c avail)
                             (match ch with
                              | None => None
                              | Some k => Some (consume_chunks (S c) k (N.of_nat c))
                              end) want (cons + c)
                  end
              end
          end
      end
  end.

Definition toy_dread (st : toyst) (avail : bytes) (ch : option chunkst) (want : nat) : dres * toyst :=
  toy_read (S (length avail)) st avail ch want 0.

(* values of the examples: one byte each, or zero bytes *)
Definition byte_vdec (p : bytes) : result N * nat :=
  match p with
  | b :: _ => (Ok b, 1)
  | [] => (Err EData, 0)
  end.
Definition unit_vdec (p : bytes) : result unit * nat := (Ok tt, 0).

(* ------------------------------------------------------------------------------------------ *)
(** * Snappy blocks: decompressed on construction, Cursor *)
Section SnappyBlock.
Variable raw_dec : bytes -> option bytes.
Variable crc32 : bytes -> N.
Variable V : Type.
Variable vdec : bytes -> result V * nat.

(* CompressionCodec::state, Snappy arm: the data and the source behind the block *)
Definition snappy_open (src : bytes) (size : nat) : option (bytes * bytes) :=
  if length src <? size then None
  else match snappy_decode raw_dec crc32 (firstn size src) with
       | Ok d => Some (d, skipn size src)
       | _ => None
       end.

Fixpoint snappy_values (n : nat) (data : bytes) : list V * option bytes :=
  match n with
  | O => ([], Some data)
  | S m =>
      match vdec data with
      | (Ok v, k) =>
          if length data <? k then ([], None) else
          let (vs, r) := snappy_values m (skipn k data) in (v :: vs, r)
      | _ => ([], None)
      end
  end.

Definition snappy_run (count : nat) (sync : bytes) (src : bytes) (size : nat) : option (list V * bend) :=
  match snappy_open src size with
  | None => None                                   (* Err when the block is entered *)
  | Some (data, after) =>
      Some (match snappy_values count data with
            | (vs, None) => (vs, BValueErr)
            | (vs, Some (_ :: _)) => (vs, BEndErr EndLeftover)    (* cursor.position() < len *)
            | (vs, Some []) => (vs, sync_check sync (mkTk after 0 None))
            end)
  end.
End SnappyBlock.
