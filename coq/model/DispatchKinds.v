(** The vocabulary of the dispatch tables that translators/gen_dispatch.py (and gen_ser_dispatch.py)
    recover from the source: one row per (schema node kind, symbolic action of the match arm).
    Fixed file: the generated gen/GenDeDispatch.v only contains data built from these constructors;
    proofs/DeDispatchTie.v gives the symbols their meaning in terms of the model's primitives and
    shows that model/De.v's [de] is the interpretation of the generated tables. *)
From Coq Require Import String List NArith Bool.
Require Import Base Kinds.
Import ListNotations.

(* the pattern side of an arm: a SchemaNode variant, the `_` arm, or a pattern the translator could not read *)
Inductive dkind :=
  | DK (k : nkind)
  | DKWild
  | DKUnparsed (text : string).

(* the Rust integer type handed to read_varint *)
Inductive ity := Wi32 | Wi64 | Wu32 | Wu64.
(* the Visitor method that receives the value *)
Inductive vmeth := Vunit | Vi32 | Vi64 | Vu32 | Vu64.
(* the adapter around the visitor for length-delimited / fixed-size byte runs *)
Inductive ldvis := LBytes (* BytesVisitor: borrowed/owned bytes, no utf-8 check *) | LStr (* StringVisitor: utf-8 checked *).
Inductive dmode := DRegular | DBig.                       (* DecimalMode *)
Inductive dhint := DHStr | DHU64 | DHI64 | DHU128 | DHI128 | DHF64.   (* VisitorHint *)
Inductive duracc := DurMap | DurSeq.                       (* visit_map / visit_seq over DurationMapAndSeqAccess *)

Inductive daction :=
  | AVisitUnit                          (* visitor.visit_unit() *)
  | AVisitNone                          (* visitor.visit_none() *)
  | AVisitSomeSelf                      (* visitor.visit_some(self) *)
  | AReadBool                           (* read_bool(state, visitor) *)
  | AVarint (w : ity) (v : vmeth)       (* visitor.<v>(state.read_varint::<w>()?)  (v = Vunit: the value is dropped) *)
  | AVarintTry (w : ity) (v : vmeth)    (* read_varint::<w>, try_into() the visitor's type (error when it does not fit), visit *)
  | AFloat32 | AFloat64                 (* visit_f32/f64(from_le_bytes(read_const_size_buf()?)) *)
  | ALenDelimited (v : ldvis)           (* read_length_delimited(state, <v>(visitor)) *)
  | ASeq (ignored : bool)               (* visit_seq(ArraySeqAccess{.., BlockReader::new(state, ignored, depth.dec()?)}) *)
  | AMap (ignored : bool)               (* visit_map(MapMapAccess{.., BlockReader::new(state, ignored, depth.dec()?)}) *)
  | ATupleSeq (ignored : bool)          (* deserialize_tuple: visit_seq(&mut access)?, then block_reader.expect_end()? *)
  | AUnion                              (* read_union_discriminant, depth.dec()?, deserialize_any on the variant *)
  | ARecord                             (* visit_map(RecordMapAccess{fields, state, depth.dec()?}) *)
  | AEnumStr                            (* read_enum_as_str(state, &symbols, visitor) *)
  | AFixed (v : ldvis)                  (* state.read_slice(fixed.size, <v>(visitor)) *)
  | ASlice (n : N) (v : ldvis)          (* state.read_slice(n, <v>(visitor)) *)
  | ADecimal (m : dmode) (h : dhint)    (* read_decimal(state, mode, hint, visitor) *)
  | AConst (n : N) (v : vmeth)          (* state.read_const_size_buf::<n>()?; visitor.<v>() *)
  | ADuration (a : duracc) (n : N)      (* visit_map/visit_seq(DurationMapAndSeqAccess{&read_const_size_buf::<n>()?}) *)
  | AGuardLen (n : N) (a : daction)     (* arm guarded by `if len == n`; otherwise falls to the `_` arm *)
  | AEnumUnion                          (* deserialize_enum on a union: SchemaTypeNameEnumAccess on the read variant *)
  | AEnumUnitVariant                    (* deserialize_enum: UnitVariantEnumAccess on the node itself *)
  | AEnumTypeName                       (* deserialize_enum: SchemaTypeNameEnumAccess on the node itself *)
  | AOptionUnion                        (* deserialize_option's Union arm (pinned text, see gen_dispatch.py) *)
  | AFallbackAny                        (* self.deserialize_any(visitor) *)
  | AUnknown (text : string).           (* not recognised: the canonical text of the arm *)

Definition nkind_eqb (a b : nkind) : bool :=
  match a, b with
  | NkNull, NkNull | NkBoolean, NkBoolean | NkInt, NkInt | NkLong, NkLong | NkFloat, NkFloat
  | NkDouble, NkDouble | NkBytes, NkBytes | NkString, NkString | NkArray, NkArray | NkMap, NkMap
  | NkUnion, NkUnion | NkRecord, NkRecord | NkEnum, NkEnum | NkFixed, NkFixed | NkDecimal, NkDecimal
  | NkBigDecimal, NkBigDecimal | NkUuid, NkUuid | NkDate, NkDate | NkTimeMillis, NkTimeMillis
  | NkTimeMicros, NkTimeMicros | NkTimestampMillis, NkTimestampMillis
  | NkTimestampMicros, NkTimestampMicros | NkDuration, NkDuration => true
  | _, _ => false
  end.

Lemma nkind_eqb_eq a b : nkind_eqb a b = true <-> a = b.
Proof. split; [destruct a, b; simpl; congruence | intros ->; destruct b; reflexivity]. Qed.

(* what a `match` does for a node of kind k: the first arm naming k, else the `_` arm *)
Fixpoint find_kind (k : nkind) (tbl : list (dkind * daction)) : option daction :=
  match tbl with
  | [] => None
  | (DK k', a) :: rest => if nkind_eqb k k' then Some a else find_kind k rest
  | _ :: rest => find_kind k rest
  end.
Fixpoint find_wild (tbl : list (dkind * daction)) : option daction :=
  match tbl with
  | [] => None
  | (DKWild, a) :: _ => Some a
  | _ :: rest => find_wild rest
  end.
Definition arm_of (tbl : list (dkind * daction)) (k : nkind) : daction :=
  match find_kind k tbl with
  | Some a => a
  | None => match find_wild tbl with
            | Some a => a
            | None => AUnknown "no arm"
            end
  end.

(* a table written as a function: the rows of the kinds that have their own arm (in all_nkinds order),
   then the `_` row when there is one *)
Definition rows_of (own : nkind -> option daction) (wild : option daction) : list (dkind * daction) :=
  flat_map (fun k => match own k with Some a => [(DK k, a)] | None => [] end) all_nkinds
  ++ match wild with Some a => [(DKWild, a)] | None => [] end.

(** Boolean equality of rows, only used to DISPLAY which rows differ when a tie fails (the ties themselves are
    plain equalities closed by [reflexivity]) *)
Definition ity_eqb (a b : ity) : bool :=
  match a, b with Wi32, Wi32 | Wi64, Wi64 | Wu32, Wu32 | Wu64, Wu64 => true | _, _ => false end.
Definition vmeth_eqb (a b : vmeth) : bool :=
  match a, b with Vunit, Vunit | Vi32, Vi32 | Vi64, Vi64 | Vu32, Vu32 | Vu64, Vu64 => true | _, _ => false end.
Definition ldvis_eqb (a b : ldvis) : bool :=
  match a, b with LBytes, LBytes | LStr, LStr => true | _, _ => false end.
Definition dmode_eqb (a b : dmode) : bool :=
  match a, b with DRegular, DRegular | DBig, DBig => true | _, _ => false end.
Definition dhint_eqb (a b : dhint) : bool :=
  match a, b with
  | DHStr, DHStr | DHU64, DHU64 | DHI64, DHI64 | DHU128, DHU128 | DHI128, DHI128 | DHF64, DHF64 => true
  | _, _ => false
  end.
Definition duracc_eqb (a b : duracc) : bool :=
  match a, b with DurMap, DurMap | DurSeq, DurSeq => true | _, _ => false end.
Fixpoint daction_eqb (a b : daction) : bool :=
  match a, b with
  | AVisitUnit, AVisitUnit | AVisitNone, AVisitNone | AVisitSomeSelf, AVisitSomeSelf | AReadBool, AReadBool
  | AFloat32, AFloat32 | AFloat64, AFloat64 | AUnion, AUnion | ARecord, ARecord | AEnumStr, AEnumStr
  | AEnumUnion, AEnumUnion | AEnumUnitVariant, AEnumUnitVariant | AEnumTypeName, AEnumTypeName
  | AOptionUnion, AOptionUnion | AFallbackAny, AFallbackAny => true
  | AVarint w v, AVarint w' v' | AVarintTry w v, AVarintTry w' v' => ity_eqb w w' && vmeth_eqb v v'
  | ALenDelimited v, ALenDelimited v' | AFixed v, AFixed v' => ldvis_eqb v v'
  | ASeq i, ASeq i' | AMap i, AMap i' | ATupleSeq i, ATupleSeq i' => Bool.eqb i i'
  | ASlice n v, ASlice n' v' => N.eqb n n' && ldvis_eqb v v'
  | ADecimal m h, ADecimal m' h' => dmode_eqb m m' && dhint_eqb h h'
  | AConst n v, AConst n' v' => N.eqb n n' && vmeth_eqb v v'
  | ADuration x n, ADuration x' n' => duracc_eqb x x' && N.eqb n n'
  | AGuardLen n x, AGuardLen n' x' => N.eqb n n' && daction_eqb x x'
  | AUnknown s, AUnknown s' => String.eqb s s'
  | _, _ => false
  end.
Definition dkind_eqb (a b : dkind) : bool :=
  match a, b with
  | DK k, DK k' => nkind_eqb k k'
  | DKWild, DKWild => true
  | DKUnparsed s, DKUnparsed s' => String.eqb s s'
  | _, _ => false
  end.
Definition row_in (r : dkind * daction) (l : list (dkind * daction)) : bool :=
  existsb (fun r' => dkind_eqb (fst r) (fst r') && daction_eqb (snd r) (snd r')) l.
Inductive rowdiff :=
  | SourceHas (k : dkind) (a : daction)      (* an arm of the source that is not a row of the model *)
  | ModelHas (k : dkind) (a : daction).      (* a row of the model that is not an arm of the source *)
Definition rows_diff (gen model : list (dkind * daction)) : list rowdiff :=
  map (fun r => SourceHas (fst r) (snd r)) (filter (fun r => negb (row_in r model)) gen)
  ++ map (fun r => ModelHas (fst r) (snd r)) (filter (fun r => negb (row_in r gen)) model).
Definition named_diffs (l : list (string * list (dkind * daction) * list (dkind * daction)))
  : list (string * list rowdiff) :=
  flat_map (fun x => match rows_diff (snd (fst x)) (snd x) with
                     | [] => []
                     | d => [(fst (fst x), d)]
                     end) l.
