(** The action symbols of the serializer's dispatch tables (translators/gen_ser_dispatch.py ->
    gen/GenSerDispatch.v). Rows reuse [dkind] of DispatchKinds.v. An arm the translator does not recognise is
    [SUnclassified] (its canonical text is a comment in the generated file): the tie then pins only that the kind
    HAS an arm in that method. *)
From Coq Require Import String List NArith Bool.
Require Import Base Kinds DispatchKinds.
Import ListNotations.

Inductive saction :=
  | SWriteBoolByte                      (* writer.write_all(&[v as u8]) *)
  | SWriteLeBytes                       (* writer.write_all(&v.to_le_bytes()) *)
  | SWriteLeBytesAsF32                  (* writer.write_all(&(v as f32).to_le_bytes()) *)
  | SReject                             (* Err(SerError::..) *)
  | SOk                                 (* Ok(()) *)
  | SViaUnion (k : ukey)                (* serialize_union_unnamed(union, key, |ser| ser.<same method>(<same arguments>)) *)
  | SViaUnionDone (k : ukey)            (* serialize_union_unnamed(union, key, |_| Ok(())) *)
  | SViaUnionIntKey                     (* ... with the key chosen by size_of::<N>(): 4 -> Integer4, 8 -> Integer8, else Integer *)
  | SWriteLd                            (* state.write_length_delimited(v [.as_bytes()]) *)
  | SWriteLdUtf8Checked                 (* from_utf8(v) must succeed, then write_length_delimited(v) *)
  | SAsStr (param : N)                  (* self.serialize_str(<parameter number param>) *)
  | SWriteVarintTry (w : ity)           (* write_varint::<w>(num.try_into()?) *)
  | SFixedExact                         (* len must equal fixed.size, then write_all *)
  | SLenExact (n : N)                   (* len must equal n, then write_all *)
  | SDecimalParse (m : dmode)           (* v.parse::<rust_decimal::Decimal>()? then decimal::serialize(mode) *)
  | SDecimalFromF64 (m : dmode)         (* FromPrimitive::from_f64(v)? then decimal::serialize(mode) *)
  | SEnumDiscriminant                   (* i64 in 0..symbols.len(), write_varint::<i64> *)
  | SEnumByName                         (* per_name_lookup.get(v)?, write_varint::<i64> *)
  | SSeqArray | SSeqBytes | SSeqFixed | SSeqDuration (n : N)       (* serialize_seq's constructors *)
  | SMapRecord | SMapMap | SMapDuration (n : N)                    (* serialize_map's constructors *)
  | SIfParamIs (param : N) (lit : string) (a : saction)            (* arm guarded by `if <parameter> == "lit"` *)
  | SUnclassified.

Fixpoint sfind_kind (k : nkind) (tbl : list (dkind * saction)) : option saction :=
  match tbl with
  | [] => None
  | (DK k', a) :: rest => if nkind_eqb k k' then Some a else sfind_kind k rest
  | _ :: rest => sfind_kind k rest
  end.
Fixpoint sfind_wild (tbl : list (dkind * saction)) : option saction :=
  match tbl with
  | [] => None
  | (DKWild, a) :: _ => Some a
  | _ :: rest => sfind_wild rest
  end.
Definition sarm_of (tbl : list (dkind * saction)) (k : nkind) : saction :=
  match sfind_kind k tbl with
  | Some a => a
  | None => match sfind_wild tbl with Some a => a | None => SUnclassified end
  end.
Definition srows_of (own : nkind -> option saction) (wild : saction) : list (dkind * saction) :=
  flat_map (fun k => match own k with Some a => [(DK k, a)] | None => [] end) all_nkinds ++ [(DKWild, wild)].
