(** Model of the datum serializer: ser/serializer/{mod,struct_or_map,seq_or_tuple,
    blocks,decimal,extract_for_duration}.rs and the buffer pools of ser/mod.rs.
    One equation per (serde call x schema node kind) cell; Rust Drop code on
    error paths is written out explicitly. *)
Require Import Base Kinds GenUnionTable Schema Varint Utf8 Sval.
Open Scope N_scope.

(** * Serializer state *)
(* a Vec<u8>: contents and "capacity() > 0" *)
Definition buf := (bytes * bool)%type.

Record sstate := mkS {
  s_out : bytes;                         (* what the current writer holds *)
  s_budget : option N;                   (* bytes the sink still accepts; None: a Vec *)
  s_bufs : list buf;                     (* Buffers::field_reordering_buffers (a stack: head = last pushed) *)
  s_sbufs : list (list (option buf));    (* Buffers::field_reordering_super_buffers *)
  s_slow : bool                          (* allow_slow_sequence_to_bytes *)
}.

Definition st_with_out (st : sstate) (o : bytes) (b : option N) : sstate :=
  mkS o b (s_bufs st) (s_sbufs st) (s_slow st).
Definition st_with_bufs (st : sstate) (l : list buf) : sstate :=
  mkS (s_out st) (s_budget st) l (s_sbufs st) (s_slow st).
Definition st_with_sbufs (st : sstate) (l : list (list (option buf))) : sstate :=
  mkS (s_out st) (s_budget st) (s_bufs st) l (s_slow st).

Definition M (A : Type) := sstate -> sres sstate A.

(* writer.write_all(bs) *)
Definition write (bs : bytes) : M unit := fun st =>
  match s_budget st with
  | None => (Ok tt, st_with_out st (s_out st ++ bs) None)
  | Some b =>
      let n := N.of_nat (length bs) in
      if n <=? b then (Ok tt, st_with_out st (s_out st ++ bs) (Some (b - n)))
      else (Err EIo, st_with_out st (s_out st ++ firstn (N.to_nat b) bs) (Some 0))
  end.

Definition fail {A} (r : result A) : M A := fun st => (r, st).
Definition write_varint (z : Z) : M unit := write (encode_long z).

(* usize -> i64 try_into *)
Definition usize_to_i64 (n : N) : M Z :=
  if (Z.of_N n <=? I64_MAX)%Z then sret (Z.of_N n) else fail (Err EData).

(* write_length_delimited *)
Definition write_ld (data : bytes) : M unit :=
  do* l <- usize_to_i64 (N.of_nat (length data)); do* _ <- write_varint l; write data.

Definition le_bytes (n : nat) (x : N) : bytes :=
  map (fun k => N.land (N.shiftr x (8 * N.of_nat k)) 255) (seq 0 n).

(* i128::to_be_bytes *)
Definition be16 (z : Z) : bytes :=
  let u := Z.to_N (z mod 2 ^ 128)%Z in rev (le_bytes 16 u).

(** * Union resolution *)
Definition unnamed_step (Sc : fschema) (ks : list nat) (key : ukey) : M nat :=
  match union_unnamed Sc ks key with
  | None => fail (Err EData)
  | Some (d, k') => do* _ <- write_varint d; sret k'
  end.

(* serialize_union_unnamed around a leaf that handles every non-union node.
   A type-key lookup never yields a union node (proved from the generated table);
   the arm is kept as an explicit marker. *)
Definition via_union (Sc : fschema) (n : fnode) (key : ukey) (leaf : fnode -> M unit) : M unit :=
  match n with
  | FUnion ks =>
      do* k' <- unnamed_step Sc ks key;
      match fnode_at Sc k' with
      | None => fail (Panic PIndex)
      | Some (FUnion _) => fail (Panic PUnreachable)
      | Some n' => leaf n'
      end
  | _ => leaf n
  end.

(* serialize_lookup_union_variant_by_name: the node to continue at *)
Definition named_step (Sc : fschema) (n : fnode) (nm : bytes) : M fnode :=
  match n with
  | FUnion ks =>
      match union_named Sc ks nm with
      | None => sret n
      | Some (d, k') =>
          do* _ <- write_varint d;
          match fnode_at Sc k' with
          | None => fail (Panic PIndex)
          | Some n' => sret n'
          end
      end
  | _ => sret n
  end.

(* serialize_unit_variant on a union: a unit variant named after the null variant of the union
   (the name the deserializer reports for it) designates that variant; otherwise by type *)
Definition unit_variant_null (Sc : fschema) (n : fnode) (ename variant : bytes) (by_type : M unit) : M unit :=
  match n with
  | FUnion ks =>
      (* ... unless the type-directed choice is an enum variant that has this symbol and whose name is
         the name of the Rust enum being serialized *)
      let is_symbol_of_enum_variant :=
        match union_unnamed Sc ks KUnitVariant with
        | Some (_, k) =>
            match fnode_at Sc k with
            | Some (FEnum enm syms) =>
                match symbol_index syms variant with
                | Some _ => bytes_eqb (name_short enm) ename || bytes_eqb (nm_full enm) ename
                | None => false
                end
            | _ => false
            end
        | None => false
        end in
      match union_named Sc ks variant with
      | Some (d, k') =>
          match fnode_at Sc k' with
          | Some FNull => if is_symbol_of_enum_variant then by_type else write_varint d
          | _ => by_type
          end
      | None => by_type
      end
  | _ => by_type
  end.

(** * Decimals (decimal.rs and the integer path of serialize_integer) *)
Definition is_digit (b : N) : bool := (48 <=? b) && (b <=? 57).
Fixpoint digits_val (ds : bytes) (acc : N) : N :=
  match ds with [] => acc | d :: t => digits_val t (acc * 10 + (d - 48)) end.
Fixpoint split_dot (s : bytes) (acc : bytes) : bytes * option bytes :=
  match s with
  | [] => (rev acc, None)
  | c :: t => if c =? 46 then (rev acc, Some t) else split_dot t (c :: acc)
  end.
(* canonical grammar -?d+(.d+)? with at most 28 fractional digits and a mantissa below 2^96
   (parsed exactly by rust_decimal); anything else is outside
   the modelled domain of rust_decimal's FromStr *)
Definition parse_decimal (s : bytes) : option (Z * N) :=
  let (neg, body) := match s with 45 :: t => (true, t) | _ => (false, s) end in
  let (ip, fp) := split_dot body [] in
  let fpd := match fp with Some f => f | None => [] end in
  if negb (forallb is_digit ip) || negb (forallb is_digit fpd) then None
  else if Nat.eqb (length ip) 0 then None
  else if (match fp with Some [] => true | _ => false end) then None
  else if Nat.ltb 28 (length fpd) || Nat.ltb 40 (length ip + length fpd) then None
  else
    let m := Z.of_N (digits_val (ip ++ fpd) 0) in
    if (m <? 2 ^ 96)%Z then Some ((if neg then - m else m)%Z, N.of_nat (length fpd)) else None.

Definition TWO96 : Z := (2 ^ 96)%Z.

(* Decimal::rescale then the crate's "scale() != decimal.scale" test: Some m' when the
   target scale is reached *)
Definition rescale (m : Z) (s target : N) : option Z :=
  if s =? target then Some m
  else if (m =? 0)%Z then (if target <=? 28 then Some 0%Z else None)
  else if target <? s then
    let diff := s - target in
    let a := Z.abs m in
    let q := (a / 10 ^ Z.of_N (diff - 1))%Z in
    let d := (q mod 10)%Z in
    let r := (q / 10 + (if (5 <=? d)%Z then 1 else 0))%Z in
    Some (if (m <? 0)%Z then (- r)%Z else r)
  else
    let m' := (m * 10 ^ Z.of_N (target - s))%Z in
    if (Z.abs m' <? TWO96)%Z then Some m' else None.

Fixpoint count_leading (v : N) (l : bytes) : nat :=
  match l with b :: t => if b =? v then S (count_leading v t) else O | [] => O end.

(* can_truncate_without_altering_number (buf non empty) *)
Definition can_truncate (b : bytes) : nat :=
  match b with
  | [] => O
  | b0 :: _ =>
    if N.land b0 128 =? 0 then
      let ct := count_leading 0 b in
      if negb (Nat.eqb ct 0) &&
         (match nth_error b ct with None => true | Some v => negb (N.land v 128 =? 0) end)
      then pred ct else ct
    else
      let ct := count_leading 255 b in
      if negb (Nat.eqb ct 0) &&
         (match nth_error b ct with None => true | Some v => N.land v 128 =? 0 end)
      then pred ct else ct
  end.

Inductive dmode := DBig | DRegular (scale : N) (repr : option (name * N)).

Definition repeat_byte (v : N) (n : nat) : bytes := repeat v n.

(* decimal::serialize with the rust_decimal value (mantissa m, scale s) *)
Definition ser_decimal (mode : dmode) (m : Z) (s : N) : M unit :=
  let rescaled :=
    match mode with
    | DRegular scale _ => rescale m s scale
    | DBig => Some m
    end in
  match rescaled with
  | None => fail (Err EData)
  | Some m' =>
    let scale_to_write := match mode with DBig => encode_long (Z.of_N s) | _ => [] end in
    let b := be16 m' in
    match mode with
    | DBig =>
        let start := can_truncate b in
        let len := Z.of_nat (16 - start) in
        let len_buf := encode_long len in
        do* _ <- write_varint (Z.of_nat (length len_buf) + len + Z.of_nat (length scale_to_write))%Z;
        do* _ <- write len_buf;
        do* _ <- write (skipn start b);
        write scale_to_write
    | DRegular _ None =>
        let start := can_truncate b in
        do* _ <- write_varint (Z.of_nat (16 - start));
        write (skipn start b)
    | DRegular _ (Some (_, size)) =>
        if size <=? 16 then
          let start := (16 - N.to_nat size)%nat in
          if Nat.ltb start 16 then
            (* buf.get(0..start + 1) is Some *)
            let ct := can_truncate (firstn (S start) b) in
            if Nat.ltb ct start then fail (Err EData) else write (skipn start b)
          else
            (* size = 0: only zero can be represented *)
            if (m' =? 0)%Z then write [] else fail (Err EData)
        else
          let pad := match b with b0 :: _ => if N.land b0 128 =? 0 then 0 else 255 | [] => 0 end in
          do* _ <- write (repeat_byte pad (N.to_nat size - 16));
          write b
    end
  end.

(* sign_extension_len of serialize_integer's Decimal arm *)
Fixpoint sign_ext_len (fuel : nat) (b : bytes) : nat :=
  match fuel, b with
  | S f, b0 :: ((b1 :: _) as t) =>
      if ((b0 =? 0) && (N.land b1 128 =? 0)) || ((b0 =? 255) && negb (N.land b1 128 =? 0))
      then S (sign_ext_len f t) else O
  | _, _ => O
  end.

Definition ser_int_decimal (scale : N) (repr : option (name * N)) (z : Z) : M unit :=
  if negb (Zin I128_MIN I128_MAX z) then fail (Err EData) else
  (* 10i128.checked_pow(scale).and_then(|pow| n.checked_mul(pow)) *)
  let pow := (10 ^ Z.of_N scale)%Z in
  if negb (Zin I128_MIN I128_MAX pow) then fail (Err EData) else
  let n := (z * pow)%Z in
  if negb (Zin I128_MIN I128_MAX n) then fail (Err EData) else
  let b := be16 n in
  let sel := sign_ext_len 15 b in
  match repr with
  | None =>
      let out := skipn sel b in
      do* _ <- write_varint (Z.of_nat (length out)); write out
  | Some (_, size) =>
      if 16 <? size then fail (Err EData) else
      let start := (16 - N.to_nat size)%nat in
      if Nat.ltb sel start then fail (Err EData) else write (skipn start b)
  end.

(** * Leaves that do not recurse *)
Definition int_key (w : iw) : ukey :=
  match w with W32 => KInteger4 | W64 => KInteger8 | _ => KInteger end.

Definition ser_int_leaf (z : Z) (n : fnode) : M unit :=
  match n with
  | FInt | FDate | FTimeMillis =>
      if Zin I32_MIN I32_MAX z then write_varint z else fail (Err EData)
  | FLong | FTimestampMillis | FTimestampMicros | FTimeMicros =>
      if Zin I64_MIN I64_MAX z then write_varint z else fail (Err EData)
  | FDecimal _ scale repr => ser_int_decimal scale repr z
  | FEnum _ symbols =>
      if negb (Zin I64_MIN I64_MAX z) then fail (Err EData)
      else if (z <? 0)%Z || (Z.of_nat (length symbols) <=? z)%Z then fail (Err EData)
      else write_varint z
  | _ => fail (Err EData)
  end.

Definition ser_str_leaf (s : bytes) (n : fnode) : M unit :=
  match n with
  | FString | FBytes | FUuid => write_ld s
  | FEnum _ symbols =>
      match symbol_index symbols s with
      | None => fail (Err EData)
      | Some i => write_varint (Z.of_nat i)
      end
  | FFixed _ size => if size =? N.of_nat (length s) then write s else fail (Err EData)
  | FDecimal _ scale repr =>
      match parse_decimal s with
      | None => fail Unmodelled
      | Some (m, sc) => ser_decimal (DRegular scale repr) m sc
      end
  | FBigDecimal =>
      match parse_decimal s with
      | None => fail Unmodelled
      | Some (m, sc) => ser_decimal DBig m sc
      end
  | _ => fail (Err EData)
  end.

Definition ser_bytes_leaf (b : bytes) (n : fnode) : M unit :=
  match n with
  | FBytes => write_ld b
  | FString => if utf8_valid b then write_ld b else fail (Err EData)
  | FFixed _ size => if size =? N.of_nat (length b) then write b else fail (Err EData)
  | FDuration => if Nat.eqb (length b) 12 then write b else fail (Err EData)
  | _ => fail (Err EData)
  end.

(* ExtractU8Serializer *)
Definition extract_u8 (v : sval) : M N :=
  match v with
  | SInt _ _ z => if Zin 0 255 z then sret (Z.to_N z) else fail (Err EData)
  | _ => fail (Err EData)
  end.
(* ExtractU32ForDuration: only serialize_u32 *)
Definition extract_u32 (v : sval) : M N :=
  match v with
  | SInt false W32 z => sret (Z.to_N z)
  | _ => fail (Err EData)
  end.

Definition MONTHS : bytes := [109; 111; 110; 116; 104; 115].
Definition DAYS : bytes := [100; 97; 121; 115].
Definition MILLISECONDS : bytes := [109; 105; 108; 108; 105; 115; 101; 99; 111; 110; 100; 115].
Definition NULLNAME : bytes := [78; 117; 108; 108].
(* DurationFieldName::from_str : 0 months, 1 days, 2 milliseconds *)
Definition duration_field (s : bytes) : option nat :=
  if bytes_eqb s MONTHS then Some 0%nat
  else if bytes_eqb s DAYS then Some 1%nat
  else if bytes_eqb s MILLISECONDS then Some 2%nat
  else None.

(** * Buffer pools *)
(* pool.pop().map(|v| { assert!(v.is_empty()); v }).unwrap_or_else(Vec::new) *)
Definition pop_buf : M buf := fun st =>
  match s_bufs st with
  | [] => (Ok ([], false), st)
  | (c, cap) :: t =>
      match c with
      | [] => (Ok ([], cap), st_with_bufs st t)
      | _ => (Panic PPoolAssert, st_with_bufs st t)
      end
  end.
Definition push_buf (b : buf) : M unit := fun st => (Ok tt, st_with_bufs st (b :: s_bufs st)).

Definition pop_sbuf : M (list (option buf) * bool) := fun st =>
  match s_sbufs st with
  | [] => (Ok ([], false), st)
  | v :: t =>
      match v with
      | [] => (Ok ([], true), st_with_sbufs st t)
      | _ => (Panic PPoolAssert, st_with_sbufs st t)
      end
  end.

(* run m with a Vec<u8> writer holding `start`, then restore the outer writer;
   returns what the Vec holds afterwards *)
Definition with_buffer {A} (start : bytes) (m : M A) : M (A * bytes) := fun st =>
  let o := s_out st in
  let b := s_budget st in
  let (r, st') := m (st_with_out st start None) in
  let inner := s_out st' in
  (rmap (fun a => (a, inner)) r, st_with_out st' o b).

(** * Records (struct_or_map.rs) *)
Record recstate := mkR {
  r_cur : nat;                        (* current_idx; expected_fields = skipn r_cur fields *)
  r_bufs : list (option buf);         (* buffers *)
  r_cap : bool                        (* buffers.capacity() > 0 *)
}.

Definition record_new : M recstate :=
  do* p <- pop_sbuf; sret (mkR O (fst p) (snd p)).

(* Drop for KindRecord *)
Definition record_drop (rs : recstate) : M unit := fun st =>
  if r_cap rs then
    let returned := fold_left (fun acc o => match o with Some (_, cap) => ([], cap) :: acc | None => acc end)
                              (r_bufs rs) (s_bufs st) in
    (Ok tt, st_with_sbufs (st_with_bufs st returned) ([] :: s_sbufs st))
  else (Ok tt, st).

(* field_idx *)
Definition rec_field_idx (fields : list (bytes * nat)) (rs : recstate) (nm : bytes) : result (nat * nat) :=
  match nth_error fields (r_cur rs) with
  | None => Err EData
  | Some (first_name, first_schema) =>
      if bytes_eqb first_name nm then Ok (r_cur rs, first_schema)
      else match field_index fields nm with
           | None => Err EData
           | Some idx =>
               if Nat.ltb (r_cur rs) idx then
                 match nth_error fields idx with
                 | Some (_, k) => Ok (idx, k)
                 | None => Panic PIndex
                 end
               else if Nat.ltb idx (r_cur rs) then Err EData
               else Panic PRecordEqualArm
           end
  end.

Fixpoint list_set {A} (l : list A) (i : nat) (v : A) : list A :=
  match l, i with
  | [], _ => []
  | _ :: t, O => v :: t
  | h :: t, S j => h :: list_set t j v
  end.
Definition resize_to {A} (l : list A) (n : nat) (d : A) : list A :=
  if Nat.ltb (length l) n then l ++ repeat d (n - length l) else l.

(* the "while let Some(buf) = buffers.get_mut(cur).and_then(take)" flush loop.
   unwrap_check: expected_fields.next().unwrap() in serialize_record_value
   (absent in end()); nfields bounds the iteration. *)
Fixpoint flush_ready (fuel : nat) (nfields : nat) (unwrap_check : bool) (rs : recstate) : M recstate :=
  match fuel with
  | O => sret rs
  | S f =>
      match nth_error (r_bufs rs) (r_cur rs) with
      | Some (Some (content, cap)) =>
          let rs1 := mkR (r_cur rs) (list_set (r_bufs rs) (r_cur rs) None) (r_cap rs) in
          fun st =>
            match write content st with
            | (Ok _, st1) =>
                match push_buf ([], cap) st1 with
                | (_, st2) =>
                    if unwrap_check && negb (Nat.ltb (r_cur rs) nfields)
                    then (Panic PExpectedFieldsUnwrap, st2)
                    else flush_ready f nfields unwrap_check (mkR (S (r_cur rs)) (r_bufs rs1) (r_cap rs1)) st2
                end
            | (Err e, st1) => (Err e, st1)
            | (Panic p, st1) => (Panic p, st1)
            | (OutOfFuel, st1) => (OutOfFuel, st1)
            | (Unmodelled, st1) => (Unmodelled, st1)
            end
      | _ => sret rs
      end
  end.

(* On the failure paths of the flush loop the taken buffer is dropped and the slot stays None;
   the record state that Drop later sees is therefore not the one returned above. The callers
   below run record_drop on a state recomputed by [flush_state_on_error]. *)

(* end() for records: null-fill missing fields, flush *)
Fixpoint record_end (fuel : nat) (Sc : fschema) (fields : list (bytes * nat)) (rs : recstate) : M recstate :=
  match fuel with
  | O => sret rs
  | S f =>
      match nth_error fields (r_cur rs) with
      | None => sret rs
      | Some (_, k) =>
          let missing : M recstate := fail (Err EData) in
          let continue_ : M recstate :=
            do* rs' <- flush_ready (length fields) (length fields) false
                          (mkR (S (r_cur rs)) (r_bufs rs) (r_cap rs));
            record_end f Sc fields rs' in
          match fnode_at Sc k with
          | None => fail (Panic PIndex)
          | Some FNull => continue_
          | Some (FUnion ks) =>
              match union_unnamed Sc ks KNull with
              | Some (d, k') =>
                  match fnode_at Sc k' with
                  | Some FNull => do* _ <- write_varint d; continue_
                  | _ => missing
                  end
              | None => missing
              end
          | Some _ => missing
          end
      end
  end.

(** * The serializer *)
Inductive rkind :=
  | RKRecord (fields : list (bytes * nat))
  | RKMap (values : nat)
  | RKDuration.

Section SerFix.
Variable Sc : fschema.

(* BlockWriter *)
Definition block_new (min_len : N) : M N :=
  if 0 <? min_len then
    do* l <- usize_to_i64 min_len; do* _ <- write_varint l; sret min_len
  else sret 0.
Definition block_next (cur : N) : M N :=
  if cur =? 0 then do* _ <- write_varint 1%Z; sret 0 else sret (cur - 1).
Definition block_end (cur : N) : M unit :=
  if cur =? 0 then write_varint 0%Z else fail (Err EData).

Definition slow_check : M unit := fun st => if s_slow st then (Ok tt, st) else (Err EData, st).

(* The pieces below are parameterised by the recursive calls of the serializer:
   serk k v = serialize v at the node with key k; serstr v = serialize v at a String node (map keys). *)
  (* serialize_record_value *)
Definition record_value (serk : nat -> sval -> M unit) (fields : list (bytes * nat)) (rs : recstate) (idx k : nat) (v' : sval) : M recstate :=
    if Nat.eqb idx (r_cur rs) then
      do* _ <- serk k v';
      if negb (Nat.ltb (r_cur rs) (length fields)) then fail (Panic PExpectedFieldsUnwrap) else
      flush_ready (length fields) (length fields) true (mkR (S (r_cur rs)) (r_bufs rs) (r_cap rs))
    else
      let grown := Nat.ltb (length (r_bufs rs)) (S idx) in
      let bufs := resize_to (r_bufs rs) (S idx) None in
      let rs1 := mkR (r_cur rs) bufs (r_cap rs || grown) in
      match nth_error bufs idx with
      | Some (Some _) => fun st => (Err EData, st)   (* same field twice *)
      | _ =>
          fun st =>
            match pop_buf st with
            | (Ok (start, cap), st1) =>
                match with_buffer start (serk k v') st1 with
                | (Ok (_, content), st2) =>
                    let cap' := cap || negb (Nat.eqb (length content) 0) in
                    (Ok (mkR (r_cur rs1) (list_set bufs idx (Some (content, cap'))) (r_cap rs1)), st2)
                | (Err e, st2) => (Err e, st2)
                | (Panic p, st2) => (Panic p, st2)
                | (OutOfFuel, st2) => (OutOfFuel, st2)
                | (Unmodelled, st2) => (Unmodelled, st2)
                end
            | (Err e, st1) => (Err e, st1)
            | (Panic p, st1) => (Panic p, st1)
            | (OutOfFuel, st1) => (OutOfFuel, st1)
            | (Unmodelled, st1) => (Unmodelled, st1)
            end
      end.

  (* the state Drop sees when record_value fails: buffers may have been resized *)
Definition record_value_rs_on_error  (rs : recstate) (idx : nat) : recstate :=
    if Nat.eqb idx (r_cur rs) then rs
    else mkR (r_cur rs) (resize_to (r_bufs rs) (S idx) None)
             (r_cap rs || Nat.ltb (length (r_bufs rs)) (S idx)).

  (* struct fields presented to a record / map / duration *)
Definition struct_fields (serk : nat -> sval -> M unit) :=
    fix go (kind : rkind) (rs : recstate) (blk : N) (dur : list (option N)) (fs : list (bytes * sval))
        {struct fs} : sstate -> (result (recstate * N * list (option N)) * recstate * sstate) :=
      fun st =>
      match fs with
      | [] => (Ok (rs, blk, dur), rs, st)
      | (key, v') :: rest =>
          match kind with
          | RKRecord fields =>
              match rec_field_idx fields rs key with
              | Ok (idx, k) =>
                  match record_value serk fields rs idx k v' st with
                  | (Ok rs', st') => go kind rs' blk dur rest st'
                  | (Err e, st') => (Err e, record_value_rs_on_error rs idx, st')
                  | (Panic p, st') => (Panic p, record_value_rs_on_error rs idx, st')
                  | (OutOfFuel, st') => (OutOfFuel, rs, st')
                  | (Unmodelled, st') => (Unmodelled, rs, st')
                  end
              | Err e => (Err e, rs, st)
              | Panic p => (Panic p, rs, st)
              | OutOfFuel => (OutOfFuel, rs, st)
              | Unmodelled => (Unmodelled, rs, st)
              end
          | RKMap values =>
              match (do* blk' <- block_next blk;
                     do* _ <- ser_str_leaf key FString;
                     do* _ <- serk values v';
                     sret blk') st with
              | (Ok blk', st') => go kind rs blk' dur rest st'
              | (Err e, st') => (Err e, rs, st')
              | (Panic p, st') => (Panic p, rs, st')
              | (OutOfFuel, st') => (OutOfFuel, rs, st')
              | (Unmodelled, st') => (Unmodelled, rs, st')
              end
          | RKDuration =>
              match duration_field key with
              | None => (Err EData, rs, st)
              | Some i =>
                  match nth_error dur i with
                  | Some (Some _) => (Err EData, rs, st)
                  | _ =>
                      match extract_u32 v' st with
                      | (Ok x, st') => go kind rs blk (list_set dur i (Some x)) rest st'
                      | (Err e, st') => (Err e, rs, st')
                      | (Panic p, st') => (Panic p, rs, st')
                      | (OutOfFuel, st') => (OutOfFuel, rs, st')
                      | (Unmodelled, st') => (Unmodelled, rs, st')
                      end
                  end
              end
          end
      end.

  (* the calls of SerializeMap: hint = the pending key *)
Definition map_calls (serk : nat -> sval -> M unit) (serstr : sval -> M unit) :=
    fix go (kind : rkind) (rs : recstate) (blk : N) (dur : list (option N))
           (hint : option (nat * nat)) (calls : list (option sval * option sval))
        {struct calls} : sstate -> (result (recstate * N * list (option N)) * recstate * sstate) :=
      fun st =>
      match calls with
      | [] => (Ok (rs, blk, dur), rs, st)
      | (ko, vo) :: rest =>
          match kind with
          | RKRecord fields =>
              (* key: FindFieldIndexSerializer accepts serialize_str only *)
              let key_res : result (option (nat * nat)) :=
                match ko with
                | None => Ok hint
                | Some (SStr key) => rmap Some (rec_field_idx fields rs key)
                | Some _ => Err EData
                end in
              match key_res with
              | Ok hint' =>
                  match vo with
                  | None => go kind rs blk dur hint' rest st
                  | Some v' =>
                      match hint' with
                      | None => (Panic PSerKeyBeforeValue, rs, st)
                      | Some (idx, k) =>
                          match record_value serk fields rs idx k v' st with
                          | (Ok rs', st') => go kind rs' blk dur None rest st'
                          | (Err e, st') => (Err e, record_value_rs_on_error rs idx, st')
                          | (Panic p, st') => (Panic p, record_value_rs_on_error rs idx, st')
                          | (OutOfFuel, st') => (OutOfFuel, rs, st')
                          | (Unmodelled, st') => (Unmodelled, rs, st')
                          end
                      end
                  end
              | Err e => (Err e, rs, st)
              | Panic p => (Panic p, rs, st)
              | OutOfFuel => (OutOfFuel, rs, st)
              | Unmodelled => (Unmodelled, rs, st)
              end
          | RKMap values =>
              match (do* blk' <- (match ko with
                                  | Some k' => do* b <- block_next blk; do* _ <- serstr k'; sret b
                                  | None => sret blk
                                  end);
                     do* _ <- (match vo with Some v' => serk values v' | None => sret tt end);
                     sret blk') st with
              | (Ok blk', st') => go kind rs blk' dur hint rest st'
              | (Err e, st') => (Err e, rs, st')
              | (Panic p, st') => (Panic p, rs, st')
              | (OutOfFuel, st') => (OutOfFuel, rs, st')
              | (Unmodelled, st') => (Unmodelled, rs, st')
              end
          | RKDuration =>
              (* key: ExtractFieldNameForDuration accepts serialize_str only; hint = (field, 0) *)
              let key_res : result (option (nat * nat)) :=
                match ko with
                | None => Ok hint
                | Some (SStr key) =>
                    match duration_field key with Some i => Ok (Some (i, O)) | None => Err EData end
                | Some _ => Err EData
                end in
              match key_res with
              | Ok hint' =>
                  match vo with
                  | None => go kind rs blk dur hint' rest st
                  | Some v' =>
                      match hint' with
                      | None => (Panic PSerKeyBeforeValue, rs, st)
                      | Some (i, _) =>
                          match nth_error dur i with
                          | Some (Some _) => (Err EData, rs, st)
                          | _ =>
                              match extract_u32 v' st with
                              | (Ok x, st') => go kind rs blk (list_set dur i (Some x)) None rest st'
                              | (Err e, st') => (Err e, rs, st')
                              | (Panic p, st') => (Panic p, rs, st')
                              | (OutOfFuel, st') => (OutOfFuel, rs, st')
                              | (Unmodelled, st') => (Unmodelled, rs, st')
                              end
                          end
                      end
                  end
              | Err e => (Err e, rs, st)
              | Panic p => (Panic p, rs, st)
              | OutOfFuel => (OutOfFuel, rs, st)
              | Unmodelled => (Unmodelled, rs, st)
              end
          end
      end.

  (* finish a struct/map presentation: end() then Drop *)
Definition finish  (kind : rkind)
             (r : result (recstate * N * list (option N)) * recstate * sstate) : sres sstate unit :=
    match r with
    | (res, rs_drop, st) =>
        match kind with
        | RKRecord fields =>
            match res with
            | Ok (rs, _, _) =>
                match record_end (S (length fields)) Sc fields rs st with
                | (Ok rs', st') =>
                    (* debug_assert!(all None); buffers.clear() *)
                    if existsb (fun o => match o with Some _ => true | None => false end) (r_bufs rs')
                    then (Panic PDebugAssertBuffers, snd (record_drop rs' st'))
                    else (Ok tt, snd (record_drop (mkR (r_cur rs') [] (r_cap rs')) st'))
                | (Err e, st') => (Err e, snd (record_drop rs st'))
                | (Panic p, st') => (Panic p, snd (record_drop rs st'))
                | (OutOfFuel, st') => (OutOfFuel, st')
                | (Unmodelled, st') => (Unmodelled, st')
                end
            | Err e => (Err e, snd (record_drop rs_drop st))
            | Panic p => (Panic p, snd (record_drop rs_drop st))
            | OutOfFuel => (OutOfFuel, st)
            | Unmodelled => (Unmodelled, st)
            end
        | RKMap _ =>
            match res with
            | Ok (_, blk, _) => block_end blk st
            | Err e => (Err e, st) | Panic p => (Panic p, st)
            | OutOfFuel => (OutOfFuel, st) | Unmodelled => (Unmodelled, st)
            end
        | RKDuration =>
            match res with
            | Ok (_, _, dur) =>
                match dur with
                | [Some a; Some b; Some c] => write (le_bytes 4 a ++ le_bytes 4 b ++ le_bytes 4 c) st
                | _ => (Err EData, st)
                end
            | Err e => (Err e, st) | Panic p => (Panic p, st)
            | OutOfFuel => (OutOfFuel, st) | Unmodelled => (Unmodelled, st)
            end
        end
    end.

  (* serialize_struct_or_struct_variant after the by-name step, and serialize_map *)
Definition start_kind  (len_ok_duration : bool) (min_len : N) (n' : fnode)
                 (run : rkind -> recstate -> N -> sstate ->
                        (result (recstate * N * list (option N)) * recstate * sstate)) : M unit :=
    match n' with
    | FRecord _ fields =>
        do* rs <- record_new;
        fun st => finish (RKRecord fields) (run (RKRecord fields) rs 0 st)
    | FMap values =>
        do* blk <- block_new min_len;
        fun st => finish (RKMap values) (run (RKMap values) (mkR O [] false) blk st)
    | FDuration =>
        if len_ok_duration
        then fun st => finish RKDuration (run RKDuration (mkR O [] false) 0 st)
        else fail (Err EData)
    | _ => fail (Err EData)
    end.

  (* elements of a seq / tuple / tuple struct / tuple variant *)
Definition seq_leaf (serk : nat -> sval -> M unit) (len : option N) (vs : list sval) (n' : fnode) : M unit :=
    match n' with
    | FArray items =>
        do* blk <- block_new (match len with Some l => l | None => 0 end);
        do* blk' <- (fix go (blk : N) (vs : list sval) {struct vs} : M N :=
                       match vs with
                       | [] => sret blk
                       | v' :: rest => do* b <- block_next blk; do* _ <- serk items v'; go b rest
                       end) blk vs;
        block_end blk'
    | FDuration =>
        if (match len with Some l => negb (l =? 3) | None => false end) then fail (Err EData) else
        do* cnt <- (fix go (cnt : nat) (vs : list sval) {struct vs} : M nat :=
                      match vs with
                      | [] => sret cnt
                      | v' :: rest =>
                          if Nat.leb 3 cnt then fail (Err EData)
                          else do* x <- extract_u32 v'; do* _ <- write (le_bytes 4 x); go (S cnt) rest
                      end) O vs;
        if Nat.eqb cnt 3 then sret tt else fail (Err EData)
    | FBytes =>
        do* _ <- slow_check;
        match len with
        | None =>
            (* BufferedBytes: the buffer is returned to the pool by Drop if capacity() > 0 *)
            do* b <- pop_buf;
            fun st =>
              let collect :=
                (fix go (acc : bytes) (vs : list sval) {struct vs} : M bytes :=
                   match vs with
                   | [] => sret acc
                   | v' :: rest => do* x <- extract_u8 v'; go (acc ++ [x]) rest
                   end) [] vs in
              match collect st with
              | (Ok content, st1) =>
                  let cap := snd b || negb (Nat.eqb (length content) 0) in
                  let (r, st2) := write_ld content st1 in
                  (r, if cap then snd (push_buf ([], cap) st2) else st2)
              | (r, st1) =>
                  (* elements pushed before the failing one still grew the buffer *)
                  let pushed :=
                    (fix cnt (vs : list sval) {struct vs} : bool :=
                       match vs with
                       | [] => false
                       | v' :: rest => match extract_u8 v' st with (Ok _, _) => true | _ => false end
                       end) vs in
                  let cap := snd b || pushed in
                  (match r with Ok _ => Ok tt | Err e => Err e | Panic p => Panic p
                              | OutOfFuel => OutOfFuel | Unmodelled => Unmodelled end,
                   if cap then snd (push_buf ([], cap) st1) else st1)
              end
        | Some l =>
            do* li <- usize_to_i64 l;
            do* _ <- write_varint li;
            do* remaining <- (fix go (remaining : N) (vs : list sval) {struct vs} : M N :=
                           match vs with
                           | [] => sret remaining
                           | v' :: rest =>
                               if remaining =? 0 then fail (Err EData)
                               else do* x <- extract_u8 v'; do* _ <- write [x]; go (remaining - 1) rest
                           end) l vs;
            if remaining =? 0 then sret tt else fail (Err EData)
        end
    | FFixed _ size =>
        do* _ <- slow_check;
        if (match len with Some l => negb (l =? size) | None => false end) then fail (Err EData) else
        do* remaining <- (fix go (remaining : N) (vs : list sval) {struct vs} : M N :=
                       match vs with
                       | [] => sret remaining
                       | v' :: rest =>
                           if remaining =? 0 then fail (Err EData)
                           else do* x <- extract_u8 v'; do* _ <- write [x]; go (remaining - 1) rest
                       end) size vs;
        if remaining =? 0 then sret tt else fail (Err EData)
    | _ => fail (Err EData)
    end.

Fixpoint ser (n : fnode) (v : sval) {struct v} : M unit :=
  let at_key (k : nat) (v' : sval) : M unit :=
    match fnode_at Sc k with None => fail (Panic PIndex) | Some n' => ser n' v' end in
  match v with
  | SBool b =>
      via_union Sc n KBoolean (fun n' => match n' with FBoolean => write [if b then 1 else 0] | _ => fail (Err EData) end)
  | SInt _ w z => via_union Sc n (int_key w) (ser_int_leaf z)
  | SF32 bits =>
      via_union Sc n KFloat4 (fun n' => match n' with FFloat => write (le_bytes 4 bits) | _ => fail (Err EData) end)
  | SF64 bits narrowed =>
      via_union Sc n KFloat8 (fun n' =>
        match n' with
        | FDouble => write (le_bytes 8 bits)
        | FFloat => write (le_bytes 4 narrowed)
        | FDecimal _ _ _ | FBigDecimal => fail Unmodelled
        | _ => fail (Err EData)
        end)
  | SChar cp => via_union Sc n KStr (ser_str_leaf (utf8_encode cp))
  | SStr s => via_union Sc n KStr (ser_str_leaf s)
  | SBytes b => via_union Sc n KSliceU8 (ser_bytes_leaf b)
  | SNone | SUnit =>
      match n with
      | FNull => sret tt
      | FUnion ks => do* _ <- unnamed_step Sc ks KNull; sret tt
      | _ => fail (Err EData)
      end
  | SSome v' => ser n v'
  | SUnitStruct nm =>
      via_union Sc n KUnitStruct (fun n' =>
        match n' with
        | FNull => sret tt
        | FString | FBytes | FEnum _ _ => ser_str_leaf nm n'
        | _ => fail (Err EData)
        end)
  | SUnitVariant ename _ variant =>
      unit_variant_null Sc n ename variant
        (via_union Sc n KUnitVariant (fun n' =>
          match n' with
          | FNull => if bytes_eqb variant NULLNAME then sret tt else fail (Err EData)
          | FString | FBytes | FEnum _ _ => ser_str_leaf variant n'
          | _ => fail (Err EData)
          end))
  | SNewtypeStruct nm v' => do* n' <- named_step Sc n nm; ser n' v'
  | SNewtypeVariant _ _ variant v' => do* n' <- named_step Sc n variant; ser n' v'
  | SSeq len vs => via_union Sc n KSeqOrTupleOrTupleStruct (seq_leaf at_key len vs)
  | STuple vs => via_union Sc n KSeqOrTupleOrTupleStruct (seq_leaf at_key (Some (N.of_nat (length vs))) vs)
  | STupleStruct _ vs => via_union Sc n KSeqOrTupleOrTupleStruct (seq_leaf at_key (Some (N.of_nat (length vs))) vs)
  | STupleVariant _ _ variant vs =>
      do* n' <- named_step Sc n variant;
      via_union Sc n' KSeqOrTupleOrTupleStruct (seq_leaf at_key (Some (N.of_nat (length vs))) vs)
  | SMap len calls =>
      via_union Sc n KStructOrMap (fun n' =>
        start_kind (match len with Some l => l =? 3 | None => true end)
                   (match len with Some l => l | None => 0 end) n'
                   (fun kind rs blk => map_calls at_key (ser FString) kind rs blk [None; None; None] None calls))
  | SStruct nm len fs =>
      do* n' <- named_step Sc n nm;
      via_union Sc n' KStructOrMap (fun n'' =>
        start_kind (len =? 3) len n''
                   (fun kind rs blk => struct_fields at_key kind rs blk [None; None; None] fs))
  | SStructVariant _ _ variant len fs =>
      do* n' <- named_step Sc n variant;
      via_union Sc n' KStructOrMap (fun n'' =>
        start_kind (len =? 3) len n''
                   (fun kind rs blk => struct_fields at_key kind rs blk [None; None; None] fs))
  | SFail => fail (Err EData)
  end.

End SerFix.

Definition st0 (slow : bool) : sstate := mkS [] None [] [] slow.

(* to_datum_vec with a fresh configuration *)
Definition to_datum (Sc : fschema) (slow : bool) (v : sval) : result bytes :=
  match fnode_at Sc 0 with
  | None => Panic PIndex
  | Some root =>
      match ser Sc root v (st0 slow) with
      | (Ok _, st) => Ok (s_out st)
      | (Err e, _) => Err e
      | (Panic p, _) => Panic p
      | (OutOfFuel, _) => OutOfFuel
      | (Unmodelled, _) => Unmodelled
      end
  end.
