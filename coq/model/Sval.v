(** The interface between a Serialize impl and the crate: the tree of
    Serializer method calls. *)
Require Import Base.
Open Scope N_scope.

Inductive iw := W8 | W16 | W32 | W64 | W128.

Inductive sval :=
  | SBool (b : bool)
  | SInt (signed : bool) (w : iw) (z : Z)
  | SF32 (bits : N)
  | SF64 (bits : N) (narrowed : N)       (* narrowed = (v as f32).to_bits(): oracle input *)
  | SChar (cp : N)
  | SStr (s : bytes)
  | SBytes (b : bytes)
  | SNone
  | SSome (v : sval)
  | SUnit
  | SUnitStruct (n : bytes)
  | SUnitVariant (e : bytes) (i : N) (v : bytes)
  | SNewtypeStruct (n : bytes) (v : sval)
  | SNewtypeVariant (e : bytes) (i : N) (vn : bytes) (v : sval)
  | SSeq (len : option N) (vs : list sval)
  | STuple (vs : list sval)
  | STupleStruct (n : bytes) (vs : list sval)
  | STupleVariant (e : bytes) (i : N) (vn : bytes) (vs : list sval)
  (* map calls: (Some k, Some v) = serialize_entry; (Some k, None) = serialize_key;
     (None, Some v) = serialize_value; (None, None) is not produced *)
  | SMap (len : option N) (calls : list (option sval * option sval))
  | SStruct (n : bytes) (len : N) (fields : list (bytes * sval))
  | SStructVariant (e : bytes) (i : N) (vn : bytes) (len : N) (fields : list (bytes * sval))
  | SFail.

(* integer in the range of its Rust type (the harness can only build such values) *)
Definition int_in_type (signed : bool) (w : iw) (z : Z) : bool :=
  let bits := match w with W8 => 8 | W16 => 16 | W32 => 32 | W64 => 64 | W128 => 128 end%Z in
  if signed then Zin (- 2 ^ (bits - 1)) (2 ^ (bits - 1) - 1) z else Zin 0 (2 ^ bits - 1) z.
