(** integer-encoding 4.1.0: VarInt::encode_var / decode_var for u64 and i64,
    the TryFrom narrowing of the other widths, zig-zag. Transliterated from
    varint.rs; every wrap at 64 bits is explicit. *)
Require Import Base.
Open Scope N_scope.

Definition W64 : N := 2^64.

(* u64::encode_var: while n >= 0x80 { dst[i] = MSB | (n as u8); n >>= 7 } dst[i] = n as u8.
   A u64 needs at most 10 bytes; fuel 9 continuation bytes then the last byte. *)
Fixpoint enc_fuel (fuel : nat) (n : N) : bytes :=
  match fuel with
  | O => [n mod 256]
  | S f => if n <? 128 then [n] else (N.lor 128 (n mod 128)) :: enc_fuel f (N.shiftr n 7)
  end.
Definition encode_u64 (n : N) : bytes := enc_fuel 9 n.

(* zigzag_encode(from: i64) = ((from << 1) ^ (from >> 63)) as u64 *)
Definition zigzag (z : Z) : N :=
  if (0 <=? z)%Z then Z.to_N (2 * z) else Z.to_N (- 2 * z - 1).
(* zigzag_decode(from: u64) = ((from >> 1) ^ (-((from & 1) as i64)) as u64) as i64 *)
Definition unzigzag (n : N) : Z :=
  if N.even n then Z.of_N (n / 2) else (- Z.of_N (n / 2) - 1)%Z.

Definition encode_i64 (z : Z) : bytes := encode_u64 (zigzag z).

(* u64::decode_var: result |= ((b & 0x7f) as u64) << shift (bits shifted out of the word are lost);
   shift += 7; if shift > 63 { success = b < 2; break } else if b & 0x80 == 0 { success; break } *)
Fixpoint dec_loop (src : bytes) (result shift : N) : option (N * N) :=
  match src with
  | [] => None
  | b :: rest =>
      let result' := N.lor result ((N.shiftl (N.land b 127) shift) mod W64) in
      let shift' := shift + 7 in
      if 63 <? shift' then (if b <? 2 then Some (result', shift' / 7) else None)
      else if N.land b 128 =? 0 then Some (result', shift' / 7)
      else dec_loop rest result' shift'
  end.
(* returns (value, number of bytes read) *)
Definition decode_u64 (src : bytes) : option (N * N) := dec_loop src 0 0.
Definition decode_i64 (src : bytes) : option (Z * N) :=
  match decode_u64 src with Some (n, k) => Some (unzigzag n, k) | None => None end.

(* the integer types the crate instantiates read_varint / write_varint at *)
Inductive vty := VI32 | VI64 | VU32 | VU64.

(* decode_var for the narrower types: decode as i64/u64 then TryFrom (None when out of range) *)
Definition decode_var (t : vty) (src : bytes) : option (Z * N) :=
  match t with
  | VI64 => decode_i64 src
  | VI32 => match decode_i64 src with
            | Some (z, k) => if Zin I32_MIN I32_MAX z then Some (z, k) else None
            | None => None
            end
  | VU64 => match decode_u64 src with Some (n, k) => Some (Z.of_N n, k) | None => None end
  | VU32 => match decode_u64 src with
            | Some (n, k) => if n <? 2^32 then Some (Z.of_N n, k) else None
            | None => None
            end
  end.

(* write_varint::<i32>(n) is (n as i64).encode_var; same bytes as i64 *)
Definition encode_long (z : Z) : bytes := encode_i64 z.

(* The byte-wise slow path of ReaderRead::read_varint (after the fix of F4):
   gather bytes until one has its MSB clear, at most 10, then decode_var them. *)
Fixpoint gather_fuel (fuel : nat) (src : bytes) : bytes :=
  match fuel, src with
  | O, _ => []
  | _, [] => []
  | S f, b :: rest => if N.land b 128 =? 0 then [b] else b :: gather_fuel f rest
  end.
Definition gather (src : bytes) : bytes := gather_fuel 10 src.
