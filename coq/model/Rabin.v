(** Model of schema/safe/rabin.rs: the state update and constants come from
    gen/GenRabin.v, which is regenerated from the Rust source on every run. *)
From Coq Require Import NArith List.
Import ListNotations.
Require Import GenRabin CrcSpec.
Open Scope N_scope.

(* Rabin::write over a byte slice *)
Definition rabin_write (s : N) (data : list N) : N := fold_left gen_step data s.
(* Rabin::default() then write(data) then the raw u64 *)
Definition rabin (data : list N) : N := rabin_write gen_init data.
(* Rabin::finish *)
Definition rabin_finish (s : N) : list N := if gen_finish_le then le64 s else be64 s.
(* fingerprint of a string written in several pieces (fmt::Write::write_str calls) *)
Definition rabin_pieces (pieces : list (list N)) : N := fold_left rabin_write pieces gen_init.
