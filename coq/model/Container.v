(** Model of object_container_file_encoding/{mod,writer/mod,reader/mod}.rs.
    Compression is a parameter: [enc]/[dec] over whole blocks (null codec = identity);
    the streaming details of the compression libraries are outside the model. *)
Require Import Base Schema Varint Sval Ser Target Reader De VectoredWrite Text.
From Coq Require Import String.
Open Scope N_scope.
Notation length := List.length (only parsing).

Definition HEADER_CONST : bytes := [79; 98; 106; 1].        (* 'O' 'b' 'j' 1 *)
(* METADATA_SCHEMA: Map(Bytes) *)
Definition META_SCHEMA : fschema := [FMap 1; FBytes].

Definition FUEL_SINK : nat := N.to_nat 100000.

Inductive wop :=
  | WSerialize (v : sval)
  | WPush (bs : bytes) (n : N)
  | WFinish
  | WIntoInner
  | WDrop.

(* what a writer call returned *)
Inductive wout := WROk | WRErr | WRGone | WRPanic (s : site) | WRUnmodelled.

Section Codec.
Variable enc : bytes -> bytes.
Variable Sc : fschema.
Variable approx : N.            (* approx_block_size *)
Variable sync : bytes.          (* 16 bytes *)
Variable vectored : bool.       (* whether the sink has a real write_vectored *)

Record wstate := mkW {
  w_buf : bytes;                              (* serializer_state.writer *)
  w_n : N;                                    (* n_elements_in_block *)
  w_pending : option (bytes * bytes);         (* block_header_size = Some: (header, compressed block) *)
  w_sink : bytes;
  w_sched : list wans;
  w_bufs : list buf;                          (* the serializer configuration's pools *)
  w_sbufs : list (list (option buf));
  w_gone : bool                               (* into_inner / drop happened *)
}.

Definition w_with (st : wstate) (b : bytes) (n : N) (p : option (bytes * bytes)) : wstate :=
  mkW b n p (w_sink st) (w_sched st) (w_bufs st) (w_sbufs st) (w_gone st).

(* flush_finished_block *)
Definition flush_finished (st : wstate) : wout * wstate :=
  match w_pending st with
  | None => (WROk, st)
  | Some (hdr, blk) =>
      match write_all_vectored FUEL_SINK vectored [hdr; blk; sync] (w_sched st) (w_sink st) with
      | (WOk, sink', sched') =>
          (WROk, mkW [] (w_n st) None sink' sched' (w_bufs st) (w_sbufs st) (w_gone st))
      | (WPanic, sink', sched') =>
          (WRPanic PIndex, mkW (w_buf st) (w_n st) (w_pending st) sink' sched' (w_bufs st) (w_sbufs st) (w_gone st))
      | (WOutOfFuel, sink', sched') =>
          (WRUnmodelled, mkW (w_buf st) (w_n st) (w_pending st) sink' sched' (w_bufs st) (w_sbufs st) (w_gone st))
      | (_, sink', sched') =>
          (WRErr, mkW (w_buf st) (w_n st) (w_pending st) sink' sched' (w_bufs st) (w_sbufs st) (w_gone st))
      end
  end.

(* WriterInner::finish_block *)
Definition inner_finish (st : wstate) : wout * wstate :=
  if 0 <? w_n st then
    match w_pending st with
    | Some _ => (WRPanic PWriterBlockNotFlushed, st)
    | None =>
        let blk := enc (w_buf st) in
        let hdr := encode_long (Z.of_N (w_n st)) ++ encode_long (Z.of_nat (length blk)) in
        (WROk, w_with st (w_buf st) 0 (Some (hdr, blk)))
    end
  else (WROk, st).

Definition andthen (r : wout * wstate) (k : wstate -> wout * wstate) : wout * wstate :=
  match r with
  | (WROk, st) => k st
  | other => other
  end.

(* Writer::finish_block *)
Definition finish_block (st : wstate) : wout * wstate :=
  andthen (inner_finish st) flush_finished.

Definition maybe_finish_before (st : wstate) : wout * wstate :=
  if approx <=? N.of_nat (length (w_buf st)) then finish_block st else (WROk, st).
Definition maybe_finish_after (st : wstate) : wout * wstate :=
  if approx <=? N.of_nat (length (w_buf st)) then inner_finish st else (WROk, st).

Definition U64_LIMIT : N := 2^64.

Definition wstep (st : wstate) (op : wop) : wout * wstate :=
  if w_gone st then (WRGone, st) else
  match op with
  | WSerialize v =>
      andthen (flush_finished st) (fun st1 =>
      andthen (maybe_finish_before st1) (fun st2 =>
        match fnode_at Sc 0 with
        | None => (WRPanic PIndex, st2)
        | Some root =>
            let before := w_buf st2 in
            match ser Sc root v (mkS before None (w_bufs st2) (w_sbufs st2) false) with
            | (Ok _, s') =>
                let st3 := mkW (s_out s') (w_n st2 + 1) (w_pending st2) (w_sink st2) (w_sched st2)
                               (s_bufs s') (s_sbufs s') false in
                andthen (maybe_finish_after st3) flush_finished
            | (r, s') =>
                (* truncate(buf_len_before_attempt) *)
                (match r with
                 | Panic p => WRPanic p
                 | Unmodelled | OutOfFuel => WRUnmodelled
                 | _ => WRErr
                 end,
                 mkW before (w_n st2) (w_pending st2) (w_sink st2) (w_sched st2) (s_bufs s') (s_sbufs s') false)
            end
        end))
  | WPush bs n =>
      andthen (flush_finished st) (fun st1 =>
      andthen (maybe_finish_before st1) (fun st2 =>
        let st3 := w_with st2 (w_buf st2 ++ bs) (w_n st2) (w_pending st2) in
        if U64_LIMIT <=? w_n st2 + n then (WRErr, st3)
        else andthen (maybe_finish_after (w_with st3 (w_buf st3) (w_n st2 + n) (w_pending st3))) flush_finished))
  | WFinish => finish_block st
  | WIntoInner =>
      match finish_block st with
      | (WROk, st') => (WROk, mkW (w_buf st') (w_n st') (w_pending st') (w_sink st') (w_sched st') (w_bufs st') (w_sbufs st') true)
      | (r, st') =>
          (* the writer is dropped on the error path: Drop flushes once more *)
          let (_, st'') := finish_block st' in
          (r, mkW (w_buf st'') (w_n st'') (w_pending st'') (w_sink st'') (w_sched st'') (w_bufs st'') (w_sbufs st'') true)
      end
  | WDrop =>
      let (r, st') := finish_block st in
      (r, mkW (w_buf st') (w_n st') (w_pending st') (w_sink st') (w_sched st') (w_bufs st') (w_sbufs st') true)
  end.

(* the header: magic, metadata map (avro.schema, avro.codec, user entries), sync marker,
   written with std's write_all *)
Definition header_bytes (json codec_name : bytes) (user : list (bytes * bytes)) : result bytes :=
  let entries :=
    (Some (SStr (lit "avro.schema")), Some (SStr json)) ::
    (Some (SStr (lit "avro.codec")), Some (SUnitVariant (lit "CompressionCodec") 0 codec_name)) ::
    map (fun kv => (Some (SStr (fst kv)), Some (SBytes (snd kv)))) user in
  match ser META_SCHEMA (FMap 1) (SMap None entries) (mkS HEADER_CONST None [] [] false) with
  | (Ok _, s') => Ok (s_out s' ++ sync)
  | (Err e, _) => Err e
  | (Panic p, _) => Panic p
  | (OutOfFuel, _) => OutOfFuel
  | (Unmodelled, _) => Unmodelled
  end.

Definition wbuild (json codec_name : bytes) (user : list (bytes * bytes)) (sched : list wans)
  : wout * wstate :=
  match header_bytes json codec_name user with
  | Ok h =>
      match write_all_vectored FUEL_SINK false [h] sched [] with
      | (WOk, sink', sched') => (WROk, mkW [] 0 None sink' sched' [] [] false)
      | (WOutOfFuel, sink', sched') => (WRUnmodelled, mkW [] 0 None sink' sched' [] [] true)
      | (_, sink', sched') => (WRErr, mkW [] 0 None sink' sched' [] [] true)
      end
  | _ => (WRErr, mkW [] 0 None [] sched [] [] true)
  end.

(* run a history; returns per call (outcome, sink length) and the final state *)
Fixpoint wrun (st : wstate) (ops : list wop) : list (wout * N) * wstate :=
  match ops with
  | [] => ([], st)
  | op :: rest =>
      let (r, st') := wstep st op in
      let (rs, st'') := wrun st' rest in
      ((r, N.of_nat (length (w_sink st'))) :: rs, st'')
  end.

End Codec.

(** * Reader (null codec; compressed blocks are outside the executable model) *)
Inductive rdstate :=
  | RBroken
  | RNotInBlock (outer : rstate)
  (* inner: reader limited to the block's bytes (std::io::Take / the split slice); after: the outer
     input behind the block; short: the Take limit exceeds what the source holds *)
  | RInBlock (inner : rstate) (after : bytes) (short : bool) (n_left : N).

Record crstate := mkCR { cr_state : rdstate; cr_pretend_eof : bool }.

Inductive item := IValue (d : dval) | IEof | IErr (e : err) | IPanic (s : site) | IUnmodelled.

Section ReaderNull.
Variable Sc : fschema.
Variable cfg : dcfg.
Variable sync : bytes.
Variable t : dtarget.

Definition is_io (e : err) : bool := match e with EIo => true | EData => false end.

(* count, size, Take::take *)
Definition enter_block (outer : rstate) : result (rstate * bytes * bool * N) :=
  match read_varint VI64 outer with
  | (Ok cnt, r1) =>
      if (cnt <? 0)%Z then Err EData else
      match read_varint VI64 r1 with
      | (Ok size, r2) =>
          if (size <? 0)%Z then Err EData else
          let size := Z.to_N size in
          let have := blen (rd_inp r2) in
          match rd_chunks r2 with
          | None =>
              if have <? size then Err EData
              else Ok (mkRd (firstn (N.to_nat size) (rd_inp r2)) (rd_pos r2) None (rd_max_alloc r2),
                       skipn (N.to_nat size) (rd_inp r2), false, Z.to_N cnt)
          | Some _ =>
              let take := N.min size have in
              Ok (mkRd (firstn (N.to_nat take) (rd_inp r2)) (rd_pos r2) (rd_chunks r2) (rd_max_alloc r2),
                  skipn (N.to_nat take) (rd_inp r2), have <? size, Z.to_N cnt)
          end
      | (Err e, _) => Err e
      | (Panic p, _) => Panic p
      | (OutOfFuel, _) => OutOfFuel
      | (Unmodelled, _) => Unmodelled
      end
  | (Err e, _) => Err e
  | (Panic p, _) => Panic p
  | (OutOfFuel, _) => OutOfFuel
  | (Unmodelled, _) => Unmodelled
  end.

Definition result_item {A} (r : result A) : item :=
  match r with
  | Ok _ => IUnmodelled
  | Err e => IErr e
  | Panic p => IPanic p
  | OutOfFuel | Unmodelled => IUnmodelled
  end.

(* deserialize_next_inner; fuel bounds the blocks crossed by one call (empty blocks) *)
Fixpoint cr_inner (fuel : nat) (s : rdstate) : item * rdstate :=
  match fuel with
  | O => (IUnmodelled, s)
  | S f =>
      match s with
      | RBroken => (IErr EData, RBroken)
      | RNotInBlock outer =>
          match rd_inp outer with
          | [] => (IEof, s)
          | _ =>
              match enter_block outer with
              | Ok (inner, after, short, n) => cr_inner f (RInBlock inner after short n)
              | other => (result_item other, RBroken)
              end
          end
      | RInBlock inner after short n =>
          if n =? 0 then
            if negb (Nat.eqb (length (rd_inp inner)) 0) || short then (IErr EData, RBroken)
            else
              let outer := mkRd after (rd_pos inner) (rd_chunks inner) (rd_max_alloc inner) in
              match read_exact 16 outer with
              | (Ok m, outer') =>
                  if bytes_eqb m sync then cr_inner f (RNotInBlock outer') else (IErr EData, RBroken)
              | (r, _) => (result_item r, RBroken)
              end
          else
            match fnode_at Sc 0 with
            | None => (IPanic PIndex, s)
            | Some root =>
                match de Sc cfg FUEL_SINK root (c_depth cfg) false false t inner with
                | (Ok d, inner') => (IValue d, RInBlock inner' after short (n - 1))
                | (r, inner') => (result_item r, RInBlock inner' after short (n - 1))
                end
            end
      end
  end.

(* deserialize_seed_next *)
Definition cr_next (st : crstate) : item * crstate :=
  if cr_pretend_eof st then (IEof, st)
  else
    let (it, s') := cr_inner 1000 (cr_state st) in
    let unrecoverable :=
      match it with
      | IErr e => is_io e || match s' with RBroken => true | _ => false end
      | _ => false
      end in
    (it, mkCR s' unrecoverable).

Fixpoint cr_run (n : nat) (st : crstate) : list item :=
  match n with
  | O => []
  | S m => let (it, st') := cr_next st in it :: cr_run m st'
  end.

End ReaderNull.

(* the header as the reader sees it: magic, metadata map<bytes> (max_seq_size 1000), sync marker.
   Returns the metadata entries (key, value) in file order, the sync marker and the reader
   positioned at the first block. Interpreting avro.schema / avro.codec is done by the caller. *)
Definition cr_open (r : rstate) : result (list (bytes * bytes) * bytes * rstate) :=
  match read_exact 4 r with
  | (Ok magic, r1) =>
      if negb (bytes_eqb magic HEADER_CONST) then Err EData else
      match de META_SCHEMA (mkCfg 1000 64) (N.to_nat 100000) (FMap 1) 64 false false (TMap (THint HIdentifier) TAny) r1 with
      | (Ok (DMap kvs), r2) =>
          let entries := map (fun kv => (match dval_bytes (fst kv) with Some k => k | None => [] end,
                                         match dval_bytes (snd kv) with Some v => v | None => [] end)) kvs in
          match read_exact 16 r2 with
          | (Ok sy, r3) => Ok (entries, sy, r3)
          | (Err e, _) => Err e
          | (Panic p, _) => Panic p
          | (OutOfFuel, _) => OutOfFuel
          | (Unmodelled, _) => Unmodelled
          end
      | (Ok _, _) => Panic PUnreachable
      | (Err e, _) => Err e
      | (Panic p, _) => Panic p
      | (OutOfFuel, _) => OutOfFuel
      | (Unmodelled, _) => Unmodelled
      end
  | (Err e, _) => Err e
  | (Panic p, _) => Panic p
  | (OutOfFuel, _) => OutOfFuel
  | (Unmodelled, _) => Unmodelled
  end.

(* interpreting the metadata like the derived Deserialize of Metadata<String, M> (flatten):
   avro.schema exactly once and valid UTF-8; avro.codec at most once (absent = null) and one of
   the codec names; everything else is user metadata *)
Definition AVRO_SCHEMA_KEY : bytes := lit "avro.schema".
Definition AVRO_CODEC_KEY : bytes := lit "avro.codec".
Definition codec_names : list bytes :=
  [lit "null"; lit "deflate"; lit "bzip2"; lit "snappy"; lit "xz"; lit "zstandard"].

Definition header_meta (entries : list (bytes * bytes))
  : result (bytes * bytes * list (bytes * bytes)) :=
  let schemas := filter (fun kv => bytes_eqb (fst kv) AVRO_SCHEMA_KEY) entries in
  let codecs := filter (fun kv => bytes_eqb (fst kv) AVRO_CODEC_KEY) entries in
  let user := filter (fun kv => negb (bytes_eqb (fst kv) AVRO_SCHEMA_KEY) && negb (bytes_eqb (fst kv) AVRO_CODEC_KEY)) entries in
  match schemas with
  | [(_, json)] =>
      if negb (Utf8.utf8_valid json) then Err EData else
      match codecs with
      | [] => Ok (json, lit "null", user)
      | [(_, c)] => if existsb (bytes_eqb c) codec_names then Ok (json, c, user) else Err EData
      | _ => Err EData
      end
  | _ => Err EData
  end.
