(** SchemaMut (schema/safe/mod.rs), Name (schema/mod.rs), the frozen Schema
    (schema/self_referential.rs: TryFrom<SchemaMut>) and the per-union lookup
    tables (schema/union_variants_per_type_lookup.rs, data from gen/GenUnionTable.v).
    Node references are indices; freeze bounds-checks every key (key_to_ref). *)
Require Import Base Kinds GenUnionTable.
Open Scope N_scope.

(** Name { fully_qualified_name, namespace_delimiter_idx } *)
Record name := mkName { nm_full : bytes; nm_delim : option nat }.

Definition DOT : N := 46.

(* str::rfind('.') : index of the last dot *)
Fixpoint rfind_from (b : bytes) (i : nat) (acc : option nat) : option nat :=
  match b with
  | [] => acc
  | c :: t => rfind_from t (S i) (if c =? DOT then Some i else acc)
  end.
Definition rfind_dot (b : bytes) : option nat := rfind_from b O None.

(* Name::from_fully_qualified_name *)
Definition name_of_fqn (s : bytes) : name :=
  match rfind_dot s with
  | Some O => mkName (tl s) None          (* ".x" -> { namespace: None, name: "x" } *)
  | other => mkName s other
  end.
(* Name::name() *)
Definition name_short (n : name) : bytes :=
  match nm_delim n with None => nm_full n | Some i => skipn (S i) (nm_full n) end.
(* Name::namespace() *)
Definition name_namespace (n : name) : option bytes :=
  match nm_delim n with None => None | Some i => Some (firstn i (nm_full n)) end.

(** SchemaMut *)
Inductive regular :=
  | RNull | RBoolean | RInt | RLong | RFloat | RDouble | RBytes | RString
  | RArray (items : nat) | RMap (values : nat) | RUnion (variants : list nat)
  | RRecord (n : name) (fields : list (bytes * nat))
  | REnum (n : name) (symbols : list bytes)
  | RFixed (n : name) (size : N).

Inductive logical :=
  | LDecimal (scale precision : N) | LUuid | LDate | LTimeMillis | LTimeMicros
  | LTimestampMillis | LTimestampMicros | LDuration | LBigDecimal | LUnknown (s : bytes).

Record mnode := mkNode { m_type : regular; m_logical : option logical }.
Definition schema_mut := list mnode.

(** Frozen schema nodes (self_referential::SchemaNode) *)
Inductive fnode :=
  | FNull | FBoolean | FInt | FLong | FFloat | FDouble | FBytes | FString
  | FArray (items : nat) | FMap (values : nat) | FUnion (variants : list nat)
  | FRecord (n : name) (fields : list (bytes * nat))
  | FEnum (n : name) (symbols : list bytes)
  | FFixed (n : name) (size : N)
  | FDecimal (precision scale : N) (repr : option (name * N))   (* None: bytes; Some: fixed *)
  | FBigDecimal | FUuid | FDate | FTimeMillis | FTimeMicros | FTimestampMillis
  | FTimestampMicros | FDuration.
Definition fschema := list fnode.

Definition kind_of (n : fnode) : nkind :=
  match n with
  | FNull => NkNull | FBoolean => NkBoolean | FInt => NkInt | FLong => NkLong
  | FFloat => NkFloat | FDouble => NkDouble | FBytes => NkBytes | FString => NkString
  | FArray _ => NkArray | FMap _ => NkMap | FUnion _ => NkUnion | FRecord _ _ => NkRecord
  | FEnum _ _ => NkEnum | FFixed _ _ => NkFixed | FDecimal _ _ _ => NkDecimal
  | FBigDecimal => NkBigDecimal | FUuid => NkUuid | FDate => NkDate
  | FTimeMillis => NkTimeMillis | FTimeMicros => NkTimeMicros
  | FTimestampMillis => NkTimestampMillis | FTimestampMicros => NkTimestampMicros
  | FDuration => NkDuration
  end.

(* the (logical type, base type) -> node kind arms of TryFrom<SchemaMut> for Schema;
   keys are checked by key_to_ref (Err when idx >= len) *)
Definition key_ok (len : nat) (k : nat) : bool := Nat.ltb k len.

Definition freeze_node (len : nat) (n : mnode) : result fnode :=
  match m_logical n, m_type n with
  | Some (LDecimal scale precision), RBytes => Ok (FDecimal precision scale None)
  | Some (LDecimal scale precision), RFixed nm size => Ok (FDecimal precision scale (Some (nm, size)))
  | Some LUuid, RString => Ok FUuid
  | Some LDate, RInt => Ok FDate
  | Some LTimeMillis, RInt => Ok FTimeMillis
  | Some LTimeMicros, RLong => Ok FTimeMicros
  | Some LTimestampMillis, RLong => Ok FTimestampMillis
  | Some LTimestampMicros, RLong => Ok FTimestampMicros
  | Some LDuration, RFixed nm 12 => Ok FDuration
  | Some LBigDecimal, RBytes => Ok FBigDecimal
  | _, ty =>
      match ty with
      | RNull => Ok FNull | RBoolean => Ok FBoolean | RInt => Ok FInt | RLong => Ok FLong
      | RFloat => Ok FFloat | RDouble => Ok FDouble | RBytes => Ok FBytes | RString => Ok FString
      | RArray k => if key_ok len k then Ok (FArray k) else Err EData
      | RMap k => if key_ok len k then Ok (FMap k) else Err EData
      | RUnion ks => if forallb (key_ok len) ks then Ok (FUnion ks) else Err EData
      | RRecord nm fs => if forallb (fun f => key_ok len (snd f)) fs then Ok (FRecord nm fs) else Err EData
      | REnum nm syms => Ok (FEnum nm syms)
      | RFixed nm size => Ok (FFixed nm size)
      end
  end.

Fixpoint freeze_nodes (len : nat) (ns : list mnode) : result fschema :=
  match ns with
  | [] => Ok []
  | n :: t => let* f := freeze_node len n in let* r := freeze_nodes len t in Ok (f :: r)
  end.

(* node lookup; a frozen schema has all keys in range *)
Definition fnode_at (S : fschema) (k : nat) : option fnode := nth_error S k.

(** Union lookup tables *)
Inductive nsc := NSNone | NSSome (prio : N) (disc : Z) (node : nat) | NSConflict (prio : N).

Definition register (cur : nsc) (prio : N) (disc : Z) (node : nat) : nsc :=
  match cur with
  | NSNone => NSSome prio disc node
  | NSSome old _ _ =>
      if old <? prio then cur
      else if old =? prio then NSConflict old
      else NSSome prio disc node
  | NSConflict old => if prio <? old then NSSome prio disc node else cur
  end.

Fixpoint prio_of (key : ukey) (regs : list (ukey * N)) : list N :=
  match regs with
  | [] => []
  | (k, p) :: t => if ukey_eqb k key then p :: prio_of key t else prio_of key t
  end.

(* fold over the variants in order; each variant may register the key several times *)
Fixpoint lookup_unnamed_from (S : fschema) (ks : list nat) (key : ukey) (disc : Z) (cur : nsc) : nsc :=
  match ks with
  | [] => cur
  | k :: t =>
      let cur' := match fnode_at S k with
                  | Some n => fold_left (fun c p => register c p disc k) (prio_of key (gen_registrations (kind_of n))) cur
                  | None => cur
                  end in
      lookup_unnamed_from S t key (disc + 1)%Z cur'
  end.

(* PerTypeLookup::unnamed : Some (discriminant, node) *)
Definition union_unnamed (S : fschema) (ks : list nat) (key : ukey) : option (Z * nat) :=
  match lookup_unnamed_from S ks key 0%Z NSNone with
  | NSSome _ d n => Some (d, n)
  | _ => None
  end.

(* the names the deserializer reports for a variant (per_name), in insertion order *)
Definition variant_names (n : fnode) : list bytes :=
  (match gen_type_name (kind_of n) with Some t => [t] | None => [] end) ++
  (match n with
   | FDecimal _ _ None => match gen_decimal_bytes_type_name with Some t => [t] | None => [] end
   | _ => []
   end) ++
  (match gen_register_name (kind_of n), n with
   | RnName, FRecord nm _ | RnName, FEnum nm _ | RnName, FFixed nm _ => [nm_full nm]
   | RnDecimalFixedName, FDecimal _ _ (Some (nm, _)) => [nm_full nm]
   | _, _ => []
   end).

(* convenience names (per_alias): never take precedence over the actual name of a variant *)
Definition variant_aliases (n : fnode) : list bytes :=
  (match n with
   | FDecimal _ _ (Some _) => match gen_decimal_fixed_type_alias with Some t => [t] | None => [] end
   | _ => []
   end) ++
  (match gen_register_name (kind_of n), n with
   | RnName, FRecord nm _ | RnName, FEnum nm _ | RnName, FFixed nm _ => [name_short nm]
   | RnDecimalFixedName, FDecimal _ _ (Some (nm, _)) => [name_short nm]
   | _, _ => []
   end).

Fixpoint named_entries_from (names_of : fnode -> list bytes) (S : fschema) (ks : list nat) (disc : Z)
  : list (bytes * (Z * nat)) :=
  match ks with
  | [] => []
  | k :: t =>
      (match fnode_at S k with
       | Some n => map (fun nm => (nm, (disc, k))) (names_of n)
       | None => []
       end) ++ named_entries_from names_of S t (disc + 1)%Z
  end.

Fixpoint assoc_last (x : bytes) (l : list (bytes * (Z * nat))) (acc : option (Z * nat)) : option (Z * nat) :=
  match l with
  | [] => acc
  | (k, v) :: t => assoc_last x t (if bytes_eqb x k then Some v else acc)
  end.

(* PerTypeLookup::named: HashMap insert = last wins; aliases only fill the gaps *)
Definition union_named (S : fschema) (ks : list nat) (nm : bytes) : option (Z * nat) :=
  match assoc_last nm (named_entries_from variant_names S ks 0%Z) None with
  | Some v => Some v
  | None => assoc_last nm (named_entries_from variant_aliases S ks 0%Z) None
  end.

(* per_name_lookup of records and enums: HashMap collect, last insert wins *)
Definition field_index (fields : list (bytes * nat)) (nm : bytes) : option nat :=
  index_of_last nm (map fst fields).
Definition symbol_index (symbols : list bytes) (nm : bytes) : option nat :=
  index_of_last nm symbols.
