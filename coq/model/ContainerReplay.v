(** Instances of the parameters of ContainerCodec.ccr_file for the correspondence run of whole files
    (lib/containercodec.py, OCaml command `ccr`): a streaming decoder that REPLAYS what the crate's decoder did when
    the crate read the same file (hook H4: every `read` of the decoder -- bytes requested, bytes produced or Err, Take
    limit left), and a snappy raw codec / CRC32 given as tables.

    [ccr_file] builds the decoder of EVERY block from the same [d0] (Decoder::new). The replay decoder therefore
    carries the recorded reads of all the blocks of the file; on the first read of a block it finds its own by what it
    sees: the compressed bytes the Take holds ([rpb_avail]: the [size] bytes of the block, fewer when the source ends
    early) and the state of the source's chunk plan at the block's first byte ([rpb_ch]: bytes left in the current
    fill_buf chunk, number of planned chunks behind it; None for a slice). The real decoders are functions of exactly
    that (and of the requests made), so two blocks with the same key have the same reads (checked by the runner).

    Answers. Answer i of a block is what the crate's decoder returned at its i-th read: Err, or the bytes produced
    and the number of compressed bytes the read took from the Take. The model's requests need not be the crate's (the
    read policy of DecodeLoop.v is a parameter; [lookahead] asks [cap] bytes at a time on a copy): a request for fewer
    bytes than the recorded read produced gets the first [want] of them (with the read's consumption) and the rest
    stays at the head of the trace (consumption 0) -- the decompressed STREAM, the place of an error in it, the place of
    the end (a read answering 0) and the Take limit at that point are those of the recorded run whatever the requests.
    When the trace is used up the decoder answers Err: the model asked for a read the crate never made.
    (proofs/ContainerReplayProofs.v: rp_step_window, rp_step_stream, rp_step_exact.) *)
Require Import Base Reader CodecLoop DecodeLoop ContainerCodec.
From Coq Require Import Arith.
Local Open Scope nat_scope.

(* one recorded read: None = Err, Some (bytes produced, compressed bytes consumed by this read) *)
Definition rp_answer := option (bytes * nat).

Record rp_block := mkRPB {
  rpb_avail : bytes;                 (* what the Take holds when the block is entered *)
  rpb_ch : option (N * nat);         (* chunk plan at the block's first byte: (ch_left, length ch_later) *)
  rpb_answers : list rp_answer }.

Record rp_dec := mkRPD {
  rp_table : list rp_block;          (* the blocks of the file *)
  rp_cur : option (list rp_answer)   (* None: fresh (Decoder::new); Some t: inside a block, t still to be replayed *)
}.

Definition rp_d0 (table : list rp_block) : rp_dec := mkRPD table None.

Definition rp_chkey (ch : option chunkst) : option (N * nat) :=
  match ch with
  | None => None
  | Some c => Some (ch_left c, length (ch_later c))
  end.

Definition rp_chkey_eqb (a b : option (N * nat)) : bool :=
  match a, b with
  | None, None => true
  | Some (l1, n1), Some (l2, n2) => N.eqb l1 l2 && Nat.eqb n1 n2
  | _, _ => false
  end.

Fixpoint rp_find (table : list rp_block) (avail : bytes) (key : option (N * nat)) : option (list rp_answer) :=
  match table with
  | [] => None
  | b :: rest =>
      if rp_chkey_eqb (rpb_ch b) key && bytes_eqb (rpb_avail b) avail then Some (rpb_answers b)
      else rp_find rest avail key
  end.

(* one read of [want] bytes answered from the trace *)
Definition rp_step (t : list rp_answer) (want : nat) : dres * list rp_answer :=
  match t with
  | [] => (DErr, [])
  | None :: rest => (DErr, rest)
  | Some (o, c) :: rest =>
      if length o <=? want then (DOut o c, rest)
      else (DOut (firstn want o) c, Some (skipn want o, 0) :: rest)
  end.

Definition rp_dread (d : rp_dec) (avail : bytes) (ch : option chunkst) (want : nat) : dres * rp_dec :=
  let t := match rp_cur d with
           | Some t => Some t
           | None => rp_find (rp_table d) avail (rp_chkey ch)
           end in
  match t with
  | None => (DErr, mkRPD (rp_table d) (Some []))          (* a block the crate never entered *)
  | Some t => let (r, t') := rp_step t want in (r, mkRPD (rp_table d) (Some t'))
  end.

(* the two extreme read policies of DecodeLoop.br_demand: every refill is a fill_buf (a [cap]-sized decoder read); every
   refill with at least [cap] bytes outstanding is a bypassing read of all of them *)
Definition rp_policy_fill (need cap : nat) : option nat := None.
Definition rp_policy_direct (need cap : nat) : option nat := Some need.

(* snap::raw and crc32fast as tables: compressed bytes -> what the library's decoder gave for them (None: it failed);
   data -> its CRC32. Bytes not in the table: the decoder fails / no stored trailer can match (2^32) *)
Fixpoint rp_raw_dec (table : list (bytes * option bytes)) (b : bytes) : option bytes :=
  match table with
  | [] => None
  | (k, v) :: rest => if bytes_eqb k b then v else rp_raw_dec rest b
  end.

Fixpoint rp_crc32 (table : list (bytes * N)) (d : bytes) : N :=
  match table with
  | [] => 4294967296%N
  | (k, v) :: rest => if bytes_eqb k d then v else rp_crc32 rest d
  end.
