(** Model of de/read/mod.rs: the Read / ReadSlice traits for SliceRead and for
    ReaderRead over a BufRead whose fill_buf results follow a chunk plan. *)
Require Import Base Varint.
Open Scope N_scope.

(* chunk plan of the BufRead: bytes left in the current fill_buf chunk, the sizes of the chunks
   after it, and the size that repeats once those are used up; all sizes are > 0 *)
Record chunkst := mkCh { ch_left : N; ch_later : list N; ch_last : N }.

Record rstate := mkRd {
  rd_inp : bytes;               (* input not yet consumed *)
  rd_pos : N;                   (* bytes consumed so far (offset of rd_inp in the original input) *)
  rd_chunks : option chunkst;   (* None: SliceRead. Some: ReaderRead over the chunked BufRead *)
  rd_max_alloc : N              (* ReaderRead::max_alloc_size *)
}.

Definition RM (A : Type) := rstate -> sres rstate A.
Definition rfail {A} (r : result A) : RM A := fun st => (r, st).

Definition next_chunk (c : chunkst) : chunkst :=
  match ch_later c with
  | [] => mkCh (ch_last c) [] (ch_last c)
  | x :: t => mkCh x t (ch_last c)
  end.

(* the chunk plan after consuming k bytes (possibly across several chunks) *)
Fixpoint consume_chunks (fuel : nat) (c : chunkst) (k : N) : chunkst :=
  match fuel with
  | O => c
  | S f =>
      if k <? ch_left c then mkCh (ch_left c - k) (ch_later c) (ch_last c)
      else if ch_left c =? 0 then c
      else consume_chunks f (next_chunk c) (k - ch_left c)
  end.

Definition consume (k : N) (st : rstate) : rstate :=
  mkRd (skipn (N.to_nat k) (rd_inp st)) (rd_pos st + k)
       (match rd_chunks st with
        | None => None
        | Some c => Some (consume_chunks (S (N.to_nat k)) c k)
        end)
       (rd_max_alloc st).

(* what fill_buf returns *)
Definition buffer (st : rstate) : bytes :=
  match rd_chunks st with
  | None => rd_inp st
  | Some c => firstn (N.to_nat (N.min (ch_left c) (N.of_nat (length (rd_inp st))))) (rd_inp st)
  end.

Definition blen (b : bytes) : N := N.of_nat (length b).

(* Read::read_varint::<I> *)
Definition read_varint (t : vty) : RM Z := fun st =>
  match rd_chunks st with
  | None =>
      match decode_var t (rd_inp st) with
      | None => (Err EData, st)
      | Some (v, k) => (Ok v, consume k st)
      end
  | Some _ =>
      match decode_var t (buffer st) with
      | Some (v, k) => (Ok v, consume k st)
      | None =>
          (* gather byte by byte (std::io::Read::read), then decode the same way *)
          let g := gather (rd_inp st) in
          let st' := consume (blen g) st in
          match decode_var t g with
          | Some (v, _) => (Ok v, st')
          | None => (Err EIo, st')
          end
      end
  end.

(* read_exact(n) through std::io::Read (read_const_size_buf, decimals) *)
Definition read_exact (n : N) : RM bytes := fun st =>
  if blen (rd_inp st) <? n then (Err EIo, consume (blen (rd_inp st)) st)
  else (Ok (firstn (N.to_nat n) (rd_inp st)), consume n st).

(* ReadSlice::read_slice: the bytes and, in slice mode, the offset they are borrowed from *)
Definition read_slice (n : N) : RM (bytes * option N) := fun st =>
  match rd_chunks st with
  | None =>
      if blen (rd_inp st) <? n then (Err EData, st)
      else (Ok (firstn (N.to_nat n) (rd_inp st), Some (rd_pos st)), consume n st)
  | Some _ =>
      if n <=? blen (buffer st) then (Ok (firstn (N.to_nat n) (rd_inp st), None), consume n st)
      else if rd_max_alloc st <? n then (Err EData, st)
      else
        if blen (rd_inp st) <? n then (Err EIo, consume (blen (rd_inp st)) st)
        else (Ok (firstn (N.to_nat n) (rd_inp st), None), consume n st)
  end.

(* Read::skip_bytes(n: u64) *)
Definition skip_bytes (n : N) : RM unit := fun st =>
  if blen (rd_inp st) <? n then
    (Err EData, match rd_chunks st with None => st | Some _ => consume (blen (rd_inp st)) st end)
  else (Ok tt, consume n st).

Definition slice_reader (inp : bytes) : rstate := mkRd inp 0 None 0.
(* plan: the chunk sizes the harness was given (zeros removed); empty = everything at once *)
Definition chunked_reader (inp : bytes) (plan : list N) (max_alloc : N) : rstate :=
  let p := filter (fun c => negb (c =? 0)) plan in
  let c := match p with
           | [] => mkCh (2^64) [] (2^64)
           | x :: t => mkCh x t (last p x)
           end in
  mkRd inp 0 (Some c) max_alloc.
