(** str::from_utf8 validity (Unicode 15 table 3-7 "Well-Formed UTF-8 Byte
    Sequences", which is what core::str::from_utf8 implements) and
    char::encode_utf8. *)
Require Import Base.
Open Scope N_scope.

Definition inr (lo hi b : N) : bool := (lo <=? b) && (b <=? hi).
Definition cont (b : N) : bool := inr 128 191 b.

Fixpoint utf8_valid_fuel (fuel : nat) (s : bytes) : bool :=
  match fuel with
  | O => false
  | S f =>
    match s with
    | [] => true
    | b0 :: r0 =>
      if b0 <? 128 then utf8_valid_fuel f r0
      else if inr 194 223 b0 then
        match r0 with b1 :: r1 => cont b1 && utf8_valid_fuel f r1 | _ => false end
      else if b0 =? 224 then
        match r0 with b1 :: b2 :: r2 => inr 160 191 b1 && cont b2 && utf8_valid_fuel f r2 | _ => false end
      else if inr 225 236 b0 || inr 238 239 b0 then
        match r0 with b1 :: b2 :: r2 => cont b1 && cont b2 && utf8_valid_fuel f r2 | _ => false end
      else if b0 =? 237 then
        match r0 with b1 :: b2 :: r2 => inr 128 159 b1 && cont b2 && utf8_valid_fuel f r2 | _ => false end
      else if b0 =? 240 then
        match r0 with b1 :: b2 :: b3 :: r3 => inr 144 191 b1 && cont b2 && cont b3 && utf8_valid_fuel f r3 | _ => false end
      else if inr 241 243 b0 then
        match r0 with b1 :: b2 :: b3 :: r3 => cont b1 && cont b2 && cont b3 && utf8_valid_fuel f r3 | _ => false end
      else if b0 =? 244 then
        match r0 with b1 :: b2 :: b3 :: r3 => inr 128 143 b1 && cont b2 && cont b3 && utf8_valid_fuel f r3 | _ => false end
      else false
    end
  end.
Definition utf8_valid (s : bytes) : bool := utf8_valid_fuel (S (length s)) s.

(* char::encode_utf8 for a scalar value *)
Definition utf8_encode (cp : N) : bytes :=
  if cp <? 128 then [cp]
  else if cp <? 2048 then [192 + cp / 64; 128 + cp mod 64]
  else if cp <? 65536 then [224 + cp / 4096; 128 + (cp / 64) mod 64; 128 + cp mod 64]
  else [240 + cp / 262144; 128 + (cp / 4096) mod 64; 128 + (cp / 64) mod 64; 128 + cp mod 64].
Definition is_scalar (cp : N) : bool := (cp <? 55296) || ((57343 <? cp) && (cp <? 1114112)).
