(** Model of object_container_file_encoding/writer/compression.rs, `CompressionCodecState::encode`:
    the three hand-written grow-the-buffer loops (deflate, bzip2, xz) around a streaming compressor
    called with the Finish action, the snappy framing (raw codec + big-endian CRC32 of the
    uncompressed data, with the reader-side check of reader/decompression.rs) and the one-shot
    zstandard call. The compression libraries are abstract: a `Section` over the library's state,
    its `total_in` / `total_out` counters (which the crate's code reads) and one `call` = one
    `compress.compress(input, window, Finish)`. What the crate may assume of a library is stated
    as the record `stream_contract` (no proofs here: the model must still run when a proof breaks).

    The loop, as written in the crate (the same text three times, up to the status names):

        if self.output_vec.is_empty() { self.output_vec.resize(START, 0); }     // START = 32 * 1024
        let mut input = input;
        loop {
            let before_in = compress.total_in() as usize;
            let status = compress.compress(input, &mut self.output_vec[compress.total_out() as usize..], Finish)
                                 .map_err(..)?;
            let written = compress.total_in() as usize - before_in;
            match status {
                <not finished> => { input = &input[written..]; self.output_vec.resize(self.output_vec.len() * 2, 0); }
                <unexpected>   => return Err(..),
                StreamEnd      => { assert_eq!(input.len(), written); *len = compress.total_out() as usize; break; }
            }
        }

    `output_vec` belongs to the codec state: it is NOT cleared between blocks, so a later block starts
    with whatever length (and stale contents) the previous blocks left. *)
Require Import Base.
From Coq Require Import Arith.
Local Open Scope nat_scope.

(* ------------------------------------------------------------------------------------------ *)
(** * Statuses of the three libraries and how the crate's three `match status` classify them *)

(* the union of flate2::Status, bzip2::Status, xz2::stream::Status *)
Inductive lstatus :=
  | StOk | StBufError | StStreamEnd | StFlushOk | StRunOk | StFinishOk | StMemNeeded | StGetCheck.

Inductive sclass :=
  | CMore          (* advance the input, double the buffer, call again *)
  | CEnd           (* assert the input was consumed, record the length, leave *)
  | CUnexpected.   (* return Err *)

Inductive lcodec := LDeflate | LBzip2 | LXz.

(* flate2::Status = Ok | BufError | StreamEnd *)
Definition classify_deflate (s : lstatus) : sclass :=
  match s with
  | StOk => CMore
  | StStreamEnd => CEnd
  | _ => CUnexpected        (* BufError; the other names are not flate2 statuses *)
  end.

(* bzip2::Status = Ok | FlushOk | RunOk | FinishOk | StreamEnd | MemNeeded *)
Definition classify_bzip2 (s : lstatus) : sclass :=
  match s with
  | StMemNeeded | StFinishOk => CMore
  | StStreamEnd => CEnd
  | _ => CUnexpected        (* FlushOk | RunOk | Ok *)
  end.

(* xz2::stream::Status = Ok | StreamEnd | GetCheck | MemNeeded *)
Definition classify_xz (s : lstatus) : sclass :=
  match s with
  | StMemNeeded | StOk => CMore
  | StStreamEnd => CEnd
  | _ => CUnexpected        (* GetCheck *)
  end.

Definition classify_of (k : lcodec) : lstatus -> sclass :=
  match k with LDeflate => classify_deflate | LBzip2 => classify_bzip2 | LXz => classify_xz end.

(* the statuses each library documents for "called with Finish, not finished yet" *)
Definition more_deflate (s : lstatus) : bool := match s with StOk => true | _ => false end.
Definition more_bzip2 (s : lstatus) : bool := match s with StFinishOk | StMemNeeded => true | _ => false end.
Definition more_xz (s : lstatus) : bool := match s with StOk | StMemNeeded => true | _ => false end.
Definition more_of (k : lcodec) : lstatus -> bool :=
  match k with LDeflate => more_deflate | LBzip2 => more_bzip2 | LXz => more_xz end.

(* the classification of commit ef7c759^ (before the repair): bzip2 FinishOk and xz Ok were errors *)
Definition classify_bzip2_before_fix (s : lstatus) : sclass :=
  match s with StMemNeeded => CMore | StStreamEnd => CEnd | _ => CUnexpected end.
Definition classify_xz_before_fix (s : lstatus) : sclass :=
  match s with StMemNeeded => CMore | StStreamEnd => CEnd | _ => CUnexpected end.

(* ------------------------------------------------------------------------------------------ *)
(** * The loop *)

(* how the loop ends *)
Inductive lend :=
  | LDone (len : nat)          (* StreamEnd and the assertion holds; len = total_out = the length recorded *)
  | LErrLib                    (* the library call itself returned Err(_): `.map_err(..)?` *)
  | LErrStatus (st : lstatus)  (* a status of the "unexpected" arm: Err *)
  | LPanicAssert               (* assert_eq!(input.len(), written) fails *)
  | LPanicIndex                (* output_vec[total_out..] or input[written..] out of range *)
  | LPanicOverflow             (* total_in() - before_in underflows *)
  | LOutOfFuel.

(* the arguments of one library call *)
Record lcall := mkCall { lc_in : nat;      (* input.len() *)
                         lc_free : nat }.  (* length of the output window *)

Section Loop.
Variable lib : Type.                       (* state of flate2::Compress / bzip2::Compress / xz2::stream::Stream *)
Variable total_in total_out : lib -> nat.
(* one call with the Finish action: input slice, length of the output window ->
   None = Err(_) | Some (status, the bytes written at the start of the window); new state *)
Variable call : lib -> bytes -> nat -> option (lstatus * bytes) * lib.
Variable classify : lstatus -> sclass.

(* the library writes w at offset off of the buffer *)
Definition write_at (off : nat) (w : bytes) (vec : bytes) : bytes :=
  firstn off vec ++ w ++ skipn (off + length w) vec.

(* output_vec.resize(output_vec.len() * 2, 0) *)
Definition double (vec : bytes) : bytes := vec ++ repeat 0%N (length vec).

(* returns: how it ended, the library state, output_vec, the calls made (in order) *)
Fixpoint encode_loop (fuel : nat) (c : lib) (input vec : bytes) : lend * lib * bytes * list lcall :=
  match fuel with
  | O => (LOutOfFuel, c, vec, [])
  | S f =>
      let before_in := total_in c in
      let off := total_out c in
      if length vec <? off then (LPanicIndex, c, vec, []) else
      let free := length vec - off in
      let args := mkCall (length input) free in
      match call c input free with
      | (None, c') => (LErrLib, c', vec, [args])
      | (Some (st, w), c') =>
          (* a library cannot write outside the window it was given *)
          let vec1 := write_at off (firstn free w) vec in
          if total_in c' <? before_in then (LPanicOverflow, c', vec1, [args]) else
          let written := total_in c' - before_in in
          match classify st with
          | CMore =>
              if length input <? written then (LPanicIndex, c', vec1, [args]) else
              match encode_loop f c' (skipn written input) (double vec1) with
              | (r, c2, v2, log) => (r, c2, v2, args :: log)
              end
          | CUnexpected => (LErrStatus st, c', vec1, [args])
          | CEnd =>
              if length input =? written then (LDone (total_out c'), c', vec1, [args])
              else (LPanicAssert, c', vec1, [args])
          end
      end
  end.

(* `encode` for one block: c0 is the compressor after reset() (deflate) or freshly created
   (bzip2, xz); vec is output_vec as the previous blocks left it; start = 32 * 1024 (hook H3) *)
Definition encode_stream (fuel start : nat) (c0 : lib) (input vec : bytes) : lend * lib * bytes * list lcall :=
  let vec0 := match vec with [] => repeat 0%N start | _ => vec end in
  encode_loop fuel c0 input vec0.

(* `compressed_buffer`: what the block writer receives after Ok *)
Definition compressed_buffer (r : lend * lib * bytes * list lcall) : option bytes :=
  match r with
  | (LDone len, _, vec, _) => Some (firstn len vec)
  | _ => None
  end.

(* -------------------------------------------------------------------------------------- *)
(** ** What the crate assumes of a streaming compressor (the library contract) *)

Variable enc : bytes -> bytes.             (* the complete compressed stream of an input *)
Variable lib_more : lstatus -> bool.       (* the "not finished yet" statuses of this library *)

(* the library states the loop can be in while it compresses the block x, with the output produced so
   far: every call passes the not yet consumed rest of x and a non-empty window, and did not fail *)
Inductive reach (x : bytes) (c0 : lib) : lib -> bytes -> Prop :=
  | reach_start : reach x c0 c0 []
  | reach_call : forall c out free st w c',
      reach x c0 c out -> 0 < free ->
      call c (skipn (total_in c) x) free = (Some (st, w), c') ->
      reach x c0 c' (out ++ w).

Definition is_prefix (a b : bytes) : Prop := exists rest, b = a ++ rest.

Record stream_contract (x : bytes) (c0 : lib) : Prop := mkContract {
  (* reset() / a fresh compressor: the counters are zero *)
  sc_start : total_in c0 = 0 /\ total_out c0 = 0;
  (* with a non-empty window and the Finish action the call does not return Err(_) *)
  sc_no_error : forall c out free, reach x c0 c out -> 0 < free ->
      fst (call c (skipn (total_in c) x) free) <> None;
  (* output goes into the window, total_out counts it *)
  sc_window : forall c out free st w c', reach x c0 c out -> 0 < free ->
      call c (skipn (total_in c) x) free = (Some (st, w), c') ->
      length w <= free /\ total_out c' = total_out c + length w;
  (* total_in grows by what was consumed, which is at most what was passed *)
  sc_input : forall c out free st w c', reach x c0 c out -> 0 < free ->
      call c (skipn (total_in c) x) free = (Some (st, w), c') ->
      total_in c <= total_in c' /\ total_in c' <= length x;
  (* under Finish the output produced so far is always a prefix of the complete stream *)
  sc_prefix : forall c out free st w c', reach x c0 c out -> 0 < free ->
      call c (skipn (total_in c) x) free = (Some (st, w), c') ->
      is_prefix (out ++ w) (enc x);
  (* StreamEnd: the whole stream has been produced and the whole input consumed *)
  sc_end : forall c out free w c', reach x c0 c out -> 0 < free ->
      call c (skipn (total_in c) x) free = (Some (StStreamEnd, w), c') ->
      out ++ w = enc x /\ total_in c' = length x;
  (* any other status is one of the library's "not finished yet" statuses *)
  sc_more : forall c out free st w c', reach x c0 c out -> 0 < free ->
      call c (skipn (total_in c) x) free = (Some (st, w), c') ->
      st <> StStreamEnd -> lib_more st = true;
  (* progress: with a non-empty window a call consumes input, produces output, or ends *)
  sc_progress : forall c out free st w c', reach x c0 c out -> 0 < free ->
      call c (skipn (total_in c) x) free = (Some (st, w), c') ->
      st = StStreamEnd \/ total_in c < total_in c' \/ w <> []
}.

(* The contract above takes the complete stream to be a FUNCTION of the input: whatever windows the
   library is given, it produces the same bytes. That is what a reader of the libraries' documentation
   expects, and bzip2, liblzma and miniz_oxide at levels >= 2 are observed to behave so; miniz_oxide at
   level 1 does NOT (hook H3: for inputs above ~116 KiB the bytes it produces depend on where the output
   window ended; both streams decode to the input). What the crate needs is less: the stream produced
   by THIS sequence of calls, whichever it is, is a valid complete stream for the input, and streams
   have bounded length. `valid x d` = "d is a complete stream that the library's decoder turns back
   into x"; `obound x` = an upper bound of the output for input x (deflateBound and the like). *)
Variable valid : bytes -> bytes -> Prop.
Variable obound : bytes -> nat.

Record stream_contract_valid (x : bytes) (c0 : lib) : Prop := mkContractValid {
  wc_start : total_in c0 = 0 /\ total_out c0 = 0;
  wc_no_error : forall c out free, reach x c0 c out -> 0 < free ->
      fst (call c (skipn (total_in c) x) free) <> None;
  wc_window : forall c out free st w c', reach x c0 c out -> 0 < free ->
      call c (skipn (total_in c) x) free = (Some (st, w), c') ->
      length w <= free /\ total_out c' = total_out c + length w;
  wc_input : forall c out free st w c', reach x c0 c out -> 0 < free ->
      call c (skipn (total_in c) x) free = (Some (st, w), c') ->
      total_in c <= total_in c' /\ total_in c' <= length x;
  (* the output never exceeds the bound *)
  wc_bound : forall c out free st w c', reach x c0 c out -> 0 < free ->
      call c (skipn (total_in c) x) free = (Some (st, w), c') ->
      length (out ++ w) <= obound x;
  (* StreamEnd: what has been produced is a complete valid stream for x, the whole input is consumed *)
  wc_end : forall c out free w c', reach x c0 c out -> 0 < free ->
      call c (skipn (total_in c) x) free = (Some (StStreamEnd, w), c') ->
      valid x (out ++ w) /\ total_in c' = length x;
  wc_more : forall c out free st w c', reach x c0 c out -> 0 < free ->
      call c (skipn (total_in c) x) free = (Some (st, w), c') ->
      st <> StStreamEnd -> lib_more st = true;
  wc_progress : forall c out free st w c', reach x c0 c out -> 0 < free ->
      call c (skipn (total_in c) x) free = (Some (st, w), c') ->
      st = StStreamEnd \/ total_in c < total_in c' \/ w <> []
}.

(* a further clause that the three libraries are observed to satisfy (validated on the traces of
   hook H3) and that gives the logarithmic bound: "not finished" is only answered when the window
   has been filled completely *)
Definition fills_window (x : bytes) (c0 : lib) : Prop :=
  forall c out free st w c', reach x c0 c out -> 0 < free ->
    call c (skipn (total_in c) x) free = (Some (st, w), c') ->
    st <> StStreamEnd -> length w = free.

(* the crate's classification agrees with the library's documentation *)
Definition classify_ok : Prop :=
  classify StStreamEnd = CEnd /\ forall st, st <> StStreamEnd -> lib_more st = true -> classify st = CMore.

End Loop.

(* ------------------------------------------------------------------------------------------ *)
(** * A library that answers from a recorded trace (hook H3) -- the replay instance used by the
      correspondence run: the model loop is driven by the real library's answers and must make the
      calls the crate made *)

Record rcall := mkRC { rc_status : lstatus; rc_consumed : nat; rc_ptotal : nat (* total_out after the call *) }.
Record rlib := mkRL { rl_trace : list rcall; rl_stream : bytes; rl_in : nat; rl_out : nat }.

Definition replay_call (c : rlib) (input : bytes) (free : nat) : option (lstatus * bytes) * rlib :=
  match rl_trace c with
  | [] => (None, c)       (* the trace is exhausted: the model asked for a call the crate did not make *)
  | a :: t =>
      let n := rc_ptotal a - rl_out c in
      let w := firstn n (skipn (rl_out c) (rl_stream c) ++ repeat 0%N n) in
      (Some (rc_status a, w), mkRL t (rl_stream c) (rl_in c + rc_consumed a) (rc_ptotal a))
  end.

(* one block: trace and block bytes of the real run; returns the model's decision, the number of
   recorded answers NOT used, output_vec afterwards, the calls the model makes, the block it hands on *)
Definition replay_block (k : lcodec) (start : nat) (vec input stream : bytes) (trace : list rcall)
  : lend * nat * bytes * list lcall * option bytes :=
  let r := encode_stream rlib rl_in rl_out replay_call (classify_of k) (S (length trace)) start
                         (mkRL trace stream 0 0) input vec in
  match r with
  | (e, c, v, log) => (e, length (rl_trace c), v, log, compressed_buffer rlib r)
  end.

(* ------------------------------------------------------------------------------------------ *)
(** * Snappy: raw codec + 4 bytes big-endian CRC32 of the uncompressed data; reader-side check *)

Local Open Scope N_scope.

(* u32::to_be_bytes / u32::from_be_bytes *)
Definition be32 (n : N) : bytes :=
  [(n / 16777216) mod 256; (n / 65536) mod 256; (n / 256) mod 256; n mod 256].
Definition of_be32 (b : bytes) : N :=
  match b with
  | [b3; b2; b1; b0] => b3 * 16777216 + b2 * 65536 + b1 * 256 + b0
  | _ => 0
  end.

Section Snappy.
Variable raw_enc : bytes -> bytes.            (* snap::raw::Encoder::compress, truncated to its result *)
Variable raw_dec : bytes -> option bytes.     (* decompress_len + Decoder::decompress + "written = len"; None = any error *)
Variable crc32 : bytes -> N.                  (* crc32fast::hash *)

(* writer/compression.rs, Kind::Snappy *)
Definition snappy_encode (x : bytes) : bytes := raw_enc x ++ be32 (crc32 x).

(* reader/decompression.rs, CompressionCodec::Snappy, on the block_size bytes of the block *)
Definition snappy_decode (blk : bytes) : result bytes :=
  if (length blk <? 4)%nat then Err EData                     (* block_size.checked_sub(4) *)
  else
    let raw := firstn (length blk - 4) blk in
    let tail := skipn (length blk - 4) blk in
    match raw_dec raw with
    | None => Err EData
    | Some d => if crc32 d =? of_be32 tail then Ok d else Err EData
    end.
End Snappy.

(* ------------------------------------------------------------------------------------------ *)
(** * Zstandard: output_vec.clear(); reserve(compress_bound); compress_to_buffer -- one call, the
      previous contents of the buffer do not matter *)
Definition zstd_encode (bulk : bytes -> option bytes) (x : bytes) (vec : bytes) : result bytes :=
  match bulk x with
  | Some out => Ok ([] ++ out)
  | None => Err EData
  end.
