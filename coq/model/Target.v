(** The interface between the crate's Deserializer and a Deserialize impl:
    a target is a program of hint calls whose visitors record the callback they
    receive (the same table is implemented by harness/src/dtarget.rs). *)
Require Import Base Sval.
Open Scope N_scope.

Inductive hint :=
  | HBool | HI8 | HI16 | HI32 | HI64 | HI128 | HU8 | HU16 | HU32 | HU64 | HU128
  | HF32 | HF64 | HChar | HStr | HString | HBytes | HByteBuf | HIdentifier | HUnit.

Inductive dtarget :=
  | TAny
  | TIgnored                                  (* serde::de::IgnoredAny *)
  | THint (h : hint)
  | TUnitStruct (n : bytes)
  | TNewtypeStruct (n : bytes) (t : dtarget)
  | TOption (t : dtarget)
  | TSeq (t : dtarget)
  | TTuple (ts : list dtarget)
  | TTupleStruct (n : bytes) (ts : list dtarget)
  | TMap (tk tv : dtarget)
  | TStruct (n : bytes) (fields : list (bytes * dtarget))
  (* variants: name and payload; payload is TVUnit, TVNewtype t, TTuple ts or TStruct _ fs *)
  | TEnum (n : bytes) (variants : list (bytes * dtarget))
  | TVUnit
  | TVNewtype (t : dtarget).

(* the callbacks a visitor received, as data *)
Inductive dval :=
  | DBool (b : bool)
  | DInt (signed : bool) (w : iw) (z : Z)
  | DF32 (bits : N)
  | DF64 (bits : N)
  | DChar (cp : N)
  | DUnit
  | DNone
  | DSome (d : dval)
  | DStr (s : bytes)                          (* visit_str: transient *)
  | DBStr (off len : N) (s : bytes)           (* visit_borrowed_str: offset into the input *)
  | DBytes (b : bytes)
  | DBBytes (off len : N) (b : bytes)
  | DSeq (ds : list dval)
  | DMap (kvs : list (dval * dval))
  | DNewtype (d : dval)
  | DEnum (variant : bytes) (d : dval)
  | DStruct (fields : list (bytes * dval))
  | DMissing
  | DIgnored.

(* the bytes of a string/bytes event, for key matching in struct and enum visitors *)
Definition dval_bytes (d : dval) : option bytes :=
  match d with
  | DStr s | DBStr _ _ s | DBytes s | DBBytes _ _ s => Some s
  | _ => None
  end.
