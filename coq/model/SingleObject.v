(** Model of single_object_encoding.rs: C3 01, the schema's 8-byte fingerprint, the datum. *)
Require Import Base Schema Sval Ser Target Reader De.
Open Scope N_scope.

Definition SO_MARKER : bytes := [195; 1].

(* to_single_object_vec *)
Definition so_encode (Sc : fschema) (fp : bytes) (slow : bool) (v : sval) : result bytes :=
  match to_datum Sc slow v with
  | Ok d => Ok (SO_MARKER ++ fp ++ d)
  | Err e => Err e
  | Panic p => Panic p
  | OutOfFuel => OutOfFuel
  | Unmodelled => Unmodelled
  end.

(* to_single_object on a writer that still accepts `budget` bytes (None: a Vec; Some n: a fixed-size slice of n
   bytes, or any sink that fails once n bytes went through): write_all of the marker, write_all of the
   fingerprint, then to_datum on the same writer. A writer that only takes a prefix per `write` call (short writes)
   is transparent to write_all, so it is the budget None. *)
Definition so_encode_sink (Sc : fschema) (fp : bytes) (slow : bool) (budget : option N) (v : sval) : result bytes :=
  match fnode_at Sc 0 with
  | None => Panic PIndex
  | Some root =>
      match (do* _ <- write SO_MARKER; do* _ <- write fp; ser Sc root v) (mkS [] budget [] [] slow) with
      | (Ok _, st) => Ok (s_out st)
      | (Err e, _) => Err e
      | (Panic p, _) => Panic p
      | (OutOfFuel, _) => OutOfFuel
      | (Unmodelled, _) => Unmodelled
      end
  end.

(* check_header *)
Definition so_check_header (fp : bytes) (hdr : bytes) : bool :=
  bytes_eqb (firstn 2 hdr) SO_MARKER && bytes_eqb (skipn 2 hdr) fp.

(* from_single_object_slice / from_single_object_reader: the mode is that of the reader state *)
Definition so_decode (fuel : nat) (Sc : fschema) (cfg : dcfg) (fp : bytes) (t : dtarget) (rs : rstate)
  : result (dval * N) :=
  if blen (rd_inp rs) <? 10 then Err (match rd_chunks rs with None => EData | Some _ => EIo end)
  else
    let hdr := firstn 10 (rd_inp rs) in
    if so_check_header fp hdr then de_datum fuel Sc cfg t (consume 10 rs)
    else Err EData.
