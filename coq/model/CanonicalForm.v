(** Model of schema/safe/canonical_form.rs: write_canonical_form over a SchemaMut
    node vector (after the repair of the unnamed-cycle overflow: a generation
    counter per unnamed node in progress), and the fingerprint. *)
Require Import Base Schema Text Rabin.
From Coq Require Import String.
Open Scope N_scope.

Record cfstate := mkCF {
  cf_out : bytes;                (* everything written so far *)
  cf_written : list bool;        (* named_type_written *)
  cf_being : list nat;           (* unnamed_type_being_written *)
  cf_nnamed : nat                (* n_named_types_written *)
}.

Definition cf_emit (s : bytes) (st : cfstate) : cfstate :=
  mkCF (cf_out st ++ s) (cf_written st) (cf_being st) (cf_nnamed st).

Fixpoint set_nth {A} (l : list A) (i : nat) (v : A) : list A :=
  match l, i with
  | [], _ => []
  | _ :: t, O => v :: t
  | h :: t, S j => h :: set_nth t j v
  end.

(* should_not_write_only_name: true = write in full (and mark), false = the name was written *)
Definition cf_first_time (key : nat) (nm : name) (st : cfstate) : bool * cfstate :=
  match nth_error (cf_written st) key with
  | Some false =>
      (true, mkCF (cf_out st) (set_nth (cf_written st) key true) (cf_being st) (S (cf_nnamed st)))
  | _ => (false, cf_emit (lit """" ++ nm_full nm ++ lit """") st)
  end.

Fixpoint sep_by {A} (f : A -> cfstate -> result cfstate) (l : list A) (first : bool) (st : cfstate)
  : result cfstate :=
  match l with
  | [] => Ok st
  | x :: t =>
      let st1 := if first then st else cf_emit (lit ",") st in
      let* st2 := f x st1 in sep_by f t false st2
  end.

Fixpoint write_cf (fuel : nat) (g : schema_mut) (key : nat) (st : cfstate) : result cfstate :=
  match fuel with
  | O => OutOfFuel
  | S f =>
    match nth_error g key with
    | None => Err EData
    | Some node =>
      let unnamed := match m_type node with RUnion _ | RArray _ | RMap _ => true | _ => false end in
      let prev := nth key (cf_being st) O in
      if unnamed && Nat.ltb (cf_nnamed st) prev then Err EData else
      let st0 := if unnamed
                 then mkCF (cf_out st) (cf_written st) (set_nth (cf_being st) key (S (cf_nnamed st))) (cf_nnamed st)
                 else st in
      let* st' :=
        match m_type node with
        | RNull => Ok (cf_emit (lit """null""") st0)
        | RBoolean => Ok (cf_emit (lit """boolean""") st0)
        | RBytes => Ok (cf_emit (lit """bytes""") st0)
        | RDouble => Ok (cf_emit (lit """double""") st0)
        | RFloat => Ok (cf_emit (lit """float""") st0)
        | RInt => Ok (cf_emit (lit """int""") st0)
        | RLong => Ok (cf_emit (lit """long""") st0)
        | RString => Ok (cf_emit (lit """string""") st0)
        | RUnion variants =>
            let* s1 := sep_by (fun k s => write_cf f g k s) variants true (cf_emit (lit "[") st0) in
            Ok (cf_emit (lit "]") s1)
        | RArray items =>
            let* s1 := write_cf f g items (cf_emit (lit "{""type"":""array"",""items"":") st0) in
            Ok (cf_emit (lit "}") s1)
        | RMap values =>
            let* s1 := write_cf f g values (cf_emit (lit "{""type"":""map"",""values"":") st0) in
            Ok (cf_emit (lit "}") s1)
        | REnum nm symbols =>
            let (full, s1) := cf_first_time key nm st0 in
            if full then
              let s2 := cf_emit (lit "{""name"":""" ++ nm_full nm ++ lit """,""type"":""enum"",""symbols"":[") s1 in
              let* s3 := sep_by (fun sym s => Ok (cf_emit (lit """" ++ sym ++ lit """") s)) symbols true s2 in
              Ok (cf_emit (lit "]}") s3)
            else Ok s1
        | RFixed nm size =>
            let (full, s1) := cf_first_time key nm st0 in
            if full then
              Ok (cf_emit (lit "{""name"":""" ++ nm_full nm ++ lit """,""type"":""fixed"",""size"":" ++ dec_digits size ++ lit "}") s1)
            else Ok s1
        | RRecord nm fields =>
            let (full, s1) := cf_first_time key nm st0 in
            if full then
              let s2 := cf_emit (lit "{""name"":""" ++ nm_full nm ++ lit """,""type"":""record"",""fields"":[") s1 in
              let* s3 := sep_by (fun fld s =>
                                   let* s' := write_cf f g (snd fld)
                                                (cf_emit (lit "{""name"":""" ++ fst fld ++ lit """,""type"":") s) in
                                   Ok (cf_emit (lit "}") s'))
                                fields true s2 in
              Ok (cf_emit (lit "]}") s3)
            else Ok s1
        end in
      Ok (if unnamed
          then mkCF (cf_out st') (cf_written st') (set_nth (cf_being st') key prev) (cf_nnamed st')
          else st')
    end
  end.

Definition cf_init (g : schema_mut) : cfstate :=
  mkCF [] (repeat false (List.length g)) (repeat O (List.length g)) O.

Definition canonical_form (fuel : nat) (g : schema_mut) : result bytes :=
  let* st := write_cf fuel g O (cf_init g) in Ok (cf_out st).

(* SchemaMut::canonical_form_rabin_fingerprint *)
Definition fingerprint (fuel : nat) (g : schema_mut) : result bytes :=
  let* t := canonical_form fuel g in Ok (rabin_finish (rabin t)).
