(** Extraction of the executable model for the correspondence driver.
    ExtrOcamlBasic only; N and Z stay the extracted inductives. *)
Require Import Base Kinds GenUnionTable Schema Varint Utf8 Sval Ser Rabin CrcSpec Text CanonicalForm Target Reader De VectoredWrite AvroValue Encoding Denote DenoteOpt Container FileSpec Json JsonRead JsonReadSchema Parse SchemaJson PcfSpec SerHistory SingleObject Freeze Ownership Wf Derive CodecLoop DecodeLoop ContainerCodec ContainerReplay.
Require Extraction.
Require Import ExtrOcamlBasic.
Extraction Language OCaml.
Set Extraction Output Directory "../ocaml/gen".
Separate Extraction
  Base.result Base.err Base.site
  Schema.freeze_nodes Schema.name_of_fqn Schema.union_unnamed Schema.union_named
  Ser.to_datum Ser.ser Ser.st0
  Sval.int_in_type
  Varint.decode_var Varint.encode_long
  Rabin.rabin Rabin.rabin_finish CrcSpec.crc64_avro CrcSpec.le64
  CanonicalForm.canonical_form CanonicalForm.fingerprint
  De.de_datum De.cfg_default Reader.slice_reader Reader.chunked_reader
  VectoredWrite.write_all_vectored
  AvroValue.conforms Encoding.encode_e Encoding.erase Encoding.layout_ok Encoding.canon Encoding.spec_encode
  Container.wbuild Container.wrun Container.cr_open Container.cr_run Container.mkCR Container.header_meta
  SingleObject.so_encode SingleObject.so_encode_sink SingleObject.so_decode SerHistory.hist_run SerHistory.hist_step FileSpec.ref_parse Parse.parse_schema Parse.check_for_cycles SchemaJson.schema_json Freeze.freeze_built PcfSpec.pcf Json.json_text
  JsonRead.json_of_text JsonReadSchema.parse_schema_text
  Ownership.shape Ownership.freeze_run Ownership.exec_trace Ownership.fm0 Ownership.step Ownership.live_okb Ownership.st0
  Derive.derive_schema Derive.derive_schema_unregistered Derive.fullnames Derive.no_dup_bytes
  CodecLoop.replay_block CodecLoop.snappy_encode CodecLoop.snappy_decode CodecLoop.be32 CodecLoop.of_be32
  DecodeLoop.replay_end DecodeLoop.replay_end_before_fix
  ContainerCodec.ccr_file ContainerCodec.cc_vdec ContainerCodec.BStream ContainerCodec.CEof
  ContainerReplay.rp_d0 ContainerReplay.rp_dread ContainerReplay.rp_policy_fill ContainerReplay.rp_policy_direct
  ContainerReplay.rp_raw_dec ContainerReplay.rp_crc32
  Wf.depth_cost Denote.dval_any Denote.present Denote.erase_borrow Denote.typed_target Denote.dval_typed
  DenoteOpt.typed_target_opt DenoteOpt.dval_typed_opt.
