(** A second family of ordinary Rust data types for a schema (next to [Denote.typed_target]):
    the Rust side keeps a position OPTIONAL although the schema's union is not of the shape
    [null,T] / [T,null]. Every such union is typed [Option<U>] where [U] is the enum that
    represents the union by the names of its non-null branches:
      - a union without a null branch ([A,B], [A], [A,B,C] ...): always [Some (U::A ..)];
      - a union of three or more branches one of which is null: [None] for the null branch,
        [Some (U::A ..)] otherwise.
    [null,T] / [T,null] stay [Option<T>] as in [typed_target].
    [dval_typed_opt] gives the callbacks such a target must receive for a conforming value.
    Definitions only (specification side; used by the C01/C03 runs as expectation). *)
Require Import Base Schema Sval Target AvroValue Text De Denote.
From Coq Require Import String.
Open Scope N_scope.
Notation length := List.length (only parsing).

Section DenOpt.
Variable Sc : fschema.

Definition is_null_at (k : nat) : bool :=
  match fnode_at Sc k with Some FNull => true | _ => false end.

Definition as_option_shape (ks : list nat) : bool :=
  match ks with
  | [a; b0] => (is_null_at a && negb (is_null_at b0)) || (is_null_at b0 && negb (is_null_at a))
  | _ => false
  end.

Fixpoint typed_target_opt (fuel : nat) (n : fnode) : dtarget :=
  match fuel with
  | O => TAny
  | S f =>
    let at_key (k : nat) : dtarget :=
      match fnode_at Sc k with Some n' => typed_target_opt f n' | None => TAny end in
    match n with
    | FNull => THint HUnit
    | FBoolean => THint HBool
    | FInt | FDate | FTimeMillis => THint HI32
    | FLong | FTimeMicros | FTimestampMillis | FTimestampMicros => THint HI64
    | FFloat => THint HF32
    | FDouble => THint HF64
    | FBytes | FFixed _ _ => THint HBytes
    | FString | FUuid => THint HStr
    | FArray k => TSeq (at_key k)
    | FMap k => TMap (THint HStr) (at_key k)
    | FUnion ks =>
        let opt_enum :=
          TOption (TEnum (str_lit "U")
                     (map (fun k => match fnode_at Sc k with
                                    | Some n' => (type_name n', TVNewtype (typed_target_opt f n'))
                                    | None => ([], TVUnit)
                                    end)
                          (filter (fun k => negb (is_null_at k)) ks))) in
        match ks with
        | [a; b0] =>
            if is_null_at a && negb (is_null_at b0) then TOption (at_key b0)
            else if is_null_at b0 && negb (is_null_at a) then TOption (at_key a)
            else opt_enum
        | _ => opt_enum
        end
    | FRecord nm fields => TStruct (nm_full nm) (map (fun fk => (fst fk, at_key (snd fk))) fields)
    | FEnum nm syms => TEnum (nm_full nm) (map (fun s => (s, TVUnit)) syms)
    | FDecimal _ _ _ | FBigDecimal => THint HStr
    | FDuration => TTuple [THint HU32; THint HU32; THint HU32]
    end
  end.

Fixpoint dval_typed_opt (n : fnode) (v : avalue) {struct v} : dval :=
  let at_key (k : nat) (v' : avalue) : dval :=
    match fnode_at Sc k with Some n' => dval_typed_opt n' v' | None => DMissing end in
  match v with
  | AArray vs => match n with FArray k => DSeq (map (at_key k) vs) | _ => DMissing end
  | AMap kvs => match n with FMap k => DMap (map (fun kv => (DStr (fst kv), at_key k (snd kv))) kvs) | _ => DMissing end
  | AUnion i v' =>
      match n with
      | FUnion ks =>
          match nth_error ks i with
          | Some k =>
              match fnode_at Sc k with
              | Some n' =>
                  if as_option_shape ks then
                    match n' with FNull => DNone | _ => DSome (dval_typed_opt n' v') end
                  else
                    match n' with
                    | FNull => DNone
                    | _ => DSome (DEnum (type_name n') (dval_typed_opt n' v'))
                    end
              | None => DMissing
              end
          | None => DMissing
          end
      | _ => DMissing
      end
  | ARecord vs =>
      match n with
      | FRecord _ fields =>
          DStruct ((fix go (fields : list (bytes * nat)) (vs : list avalue) {struct vs} : list (bytes * dval) :=
                      match fields, vs with
                      | (f, k) :: fr, v' :: vr => (f, at_key k v') :: go fr vr
                      | _, _ => []
                      end) fields vs)
      | _ => DMissing
      end
  | AEnum i => match n with FEnum _ syms => DEnum (nth i syms []) DUnit | _ => DMissing end
  | ADuration a b0 c =>
      DSeq [DInt false W32 (Z.of_N a); DInt false W32 (Z.of_N b0); DInt false W32 (Z.of_N c)]
  | other => dval_any Sc n other
  end.

(* has the schema a union position where [typed_target_opt] differs from [typed_target]
   (so that the second family is worth running) *)
Definition union_not_option_shaped (n : fnode) : bool :=
  match n with FUnion ks => negb (as_option_shape ks) | _ => false end.

End DenOpt.
