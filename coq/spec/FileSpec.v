(** The object container file layout of the Avro specification and a reference parser,
    written from the specification and independent of the model of the crate's reader:
      file   ::= magic(4: 'O','b','j',1) meta sync(16) block*
      meta   ::= map<bytes> in the datum encoding (any block layout)
      block  ::= long count, long size, data(size bytes), sync (the same 16 bytes)
    Block data is opaque here (codec framing and datum decoding are not this layer). *)
Require Import Base.
Open Scope N_scope.

(* long: zig-zag varint, at most 10 bytes; returns value and rest *)
Fixpoint spec_read_varint (fuel : nat) (bs : bytes) (shift : N) (acc : N) : option (N * bytes) :=
  match fuel with
  | O => None
  | S f =>
      match bs with
      | [] => None
      | b :: rest =>
          let acc' := acc + (b mod 128) * 2 ^ shift in
          if b <? 128 then Some (acc', rest) else spec_read_varint f rest (shift + 7) acc'
      end
  end.
Definition spec_read_long (bs : bytes) : option (Z * bytes) :=
  match spec_read_varint 10 bs 0 0 with
  | Some (n, rest) =>
      if 2 ^ 64 <=? n then None
      else Some (if N.even n then Z.of_N (n / 2) else (- Z.of_N (n / 2) - 1)%Z, rest)
  | None => None
  end.

Definition take_n (n : N) (bs : bytes) : option (bytes * bytes) :=
  if N.of_nat (length bs) <? n then None
  else Some (firstn (N.to_nat n) bs, skipn (N.to_nat n) bs).

Definition read_ld (bs : bytes) : option (bytes * bytes) :=
  match spec_read_long bs with
  | Some (l, rest) => if (l <? 0)%Z then None else take_n (Z.to_N l) rest
  | None => None
  end.

(* entries of one map block *)
Fixpoint read_entries (n : nat) (bs : bytes) (acc : list (bytes * bytes)) : option (list (bytes * bytes) * bytes) :=
  match n with
  | O => Some (acc, bs)
  | S m =>
      match read_ld bs with
      | Some (k, r1) =>
          match read_ld r1 with
          | Some (v, r2) => read_entries m r2 (acc ++ [(k, v)])
          | None => None
          end
      | None => None
      end
  end.

Fixpoint read_meta (fuel : nat) (bs : bytes) (acc : list (bytes * bytes)) : option (list (bytes * bytes) * bytes) :=
  match fuel with
  | O => None
  | S f =>
      match spec_read_long bs with
      | Some (cnt, rest) =>
          if (cnt =? 0)%Z then Some (acc, rest)
          else if (Z.abs cnt <? 100000)%Z then
            let rest' := if (cnt <? 0)%Z
                         then match spec_read_long rest with Some (_, r) => Some r | None => None end
                         else Some rest in
            match rest' with
            | Some r =>
                match read_entries (Z.to_nat (Z.abs cnt)) r acc with
                | Some (acc', r') => read_meta f r' acc'
                | None => None
                end
            | None => None
            end
          else None
      | None => None
      end
  end.

Record rblock := mkBlock { rb_count : Z; rb_data : bytes }.

Fixpoint read_blocks (fuel : nat) (sync : bytes) (bs : bytes) (acc : list rblock) : option (list rblock) :=
  match fuel with
  | O => None
  | S f =>
      match bs with
      | [] => Some acc
      | _ =>
          match spec_read_long bs with
          | Some (cnt, r1) =>
              match spec_read_long r1 with
              | Some (size, r2) =>
                  if (size <? 0)%Z || (cnt <? 0)%Z then None else
                  match take_n (Z.to_N size) r2 with
                  | Some (data, r3) =>
                      match take_n 16 r3 with
                      | Some (sy, r4) =>
                          if bytes_eqb sy sync then read_blocks f sync r4 (acc ++ [mkBlock cnt data]) else None
                      | None => None
                      end
                  | None => None
                  end
              | None => None
              end
          | None => None
          end
      end
  end.

Definition MAGIC : bytes := [79; 98; 106; 1].

Record rfile := mkFile { rf_meta : list (bytes * bytes); rf_sync : bytes; rf_blocks : list rblock }.

Definition ref_parse (file : bytes) : option rfile :=
  match take_n 4 file with
  | Some (m, r0) =>
      if negb (bytes_eqb m MAGIC) then None else
      match read_meta (S (length file)) r0 [] with
      | Some (meta, r1) =>
          match take_n 16 r1 with
          | Some (sync, r2) =>
              match read_blocks (S (length file)) sync r2 [] with
              | Some blocks => Some (mkFile meta sync blocks)
              | None => None
              end
          | None => None
          end
      | None => None
      end
  | None => None
  end.

(** * Reference writer: every file in the grammar *)
Require Import Encoding.

Definition wr_ld (bs : bytes) : bytes := spec_long (Z.of_nat (length bs)) ++ bs.
Definition wr_entry (kv : bytes * bytes) : bytes := wr_ld (fst kv) ++ wr_ld (snd kv).

(* the metadata map in an arbitrary block layout: each block (negative-count form?, entries) *)
Definition wr_meta_block (blk : bool * list (bytes * bytes)) : bytes :=
  let items := flat_map wr_entry (snd blk) in
  let cnt := Z.of_nat (length (snd blk)) in
  if fst blk then spec_long (- cnt) ++ spec_long (Z.of_nat (length items)) ++ items
  else spec_long cnt ++ items.
Definition wr_meta (layout : list (bool * list (bytes * bytes))) : bytes :=
  flat_map wr_meta_block layout ++ spec_long 0.

Definition wr_block (sync : bytes) (b : rblock) : bytes :=
  spec_long (rb_count b) ++ spec_long (Z.of_nat (length (rb_data b))) ++ rb_data b ++ sync.

Definition ref_write (layout : list (bool * list (bytes * bytes))) (sync : bytes) (blocks : list rblock) : bytes :=
  MAGIC ++ wr_meta layout ++ sync ++ flat_map (wr_block sync) blocks.

(* the conditions under which a file is in the grammar *)
Definition file_wf (layout : list (bool * list (bytes * bytes))) (sync : bytes) (blocks : list rblock) : Prop :=
  length sync = 16%nat /\
  Forall (fun blk => snd blk <> [] /\ N.of_nat (length (snd blk)) < 100000) layout /\
  Forall (fun b => (0 <= rb_count b <= I64_MAX)%Z) blocks.
