(** CRC-64-AVRO ("Rabin fingerprint") exactly as the Avro specification
    defines it (section "Schema Fingerprints"), written from the specification
    text and independent of the crate:

      static long fingerprint64(byte[] buf) {
        long fp = EMPTY;
        for (int i = 0; i < buf.length; i++)
          fp = (fp >>> 8) ^ FP_TABLE[(int)(fp ^ buf[i]) & 0xff];
        return fp; }
      static void initFPTable() {
        for (int i = 0; i < 256; i++) {
          long fp = i;
          for (int j = 0; j < 8; j++) fp = (fp >>> 1) ^ (EMPTY & -(fp & 1L));
          FP_TABLE[i] = fp; } }

    plus the purely bitwise reading (no table) used for the linearity argument. *)
From Coq Require Import NArith List.
Import ListNotations.
Open Scope N_scope.

Definition SPEC_EMPTY : N := 0xc15d213aa4d7a795.

(* fp = (fp >>> 1) ^ (EMPTY & -(fp & 1)) *)
Definition bit_step (x : N) : N :=
  N.lxor (N.shiftr x 1) (if N.testbit x 0 then SPEC_EMPTY else 0).

Fixpoint iter (n : nat) (f : N -> N) (x : N) : N :=
  match n with O => x | S k => iter k f (f x) end.

Definition f8 : N -> N := iter 8 bit_step.

(* the table of the specification *)
Definition spec_table (i : N) : N := f8 i.

(* one byte of fingerprint64 *)
Definition spec_step (fp b : N) : N :=
  N.lxor (N.shiftr fp 8) (spec_table (N.land (N.lxor fp b) 255)).

Definition crc64_avro (buf : list N) : N := fold_left spec_step buf SPEC_EMPTY.

(* bitwise reading: xor the byte into the low bits, then 8 single-bit steps *)
Definition bitwise_step (fp b : N) : N := f8 (N.lxor fp b).
Definition crc64_avro_bitwise (buf : list N) : N := fold_left bitwise_step buf SPEC_EMPTY.

(* little-endian 8 bytes of a 64-bit word *)
Definition le64 (x : N) : list N :=
  map (fun k => N.land (N.shiftr x (8 * N.of_nat k)) 255) (seq 0 8).
Definition be64 (x : N) : list N := rev (le64 x).

Definition bytes_ok (bs : list N) : Prop := Forall (fun b => b < 256) bs.
