(** What a conforming value looks like on the serde side:
    [dval_any]  the callbacks a dynamically-typed (deserialize_any) consumer must receive,
    [present]   the canonical serde presentation that determines every union branch by name,
    [dval_typed]/[typed_target] the events for ordinary Rust data types (structs, enums as unions,
                Option, seq, map, str/bytes). *)
Require Import Base Schema Sval Target AvroValue Text De.
From Coq Require Import String.
Open Scope N_scope.
Notation length := List.length (only parsing).

Section Den.
Variable Sc : fschema.

Definition str_lit (s : string) : bytes := lit s.

Fixpoint dval_any (n : fnode) (v : avalue) {struct v} : dval :=
  let at_key (k : nat) (v' : avalue) : dval :=
    match fnode_at Sc k with Some n' => dval_any n' v' | None => DMissing end in
  match v with
  | ANull => DUnit
  | ABool b => DBool b
  | AInt z => DInt true W32 z
  | ALong z => DInt true W64 z
  | AFloat b => DF32 b
  | ADouble b => DF64 b
  | ABytes b => DBytes b
  | AString s => DStr s
  | AArray vs => match n with FArray k => DSeq (map (at_key k) vs) | _ => DMissing end
  | AMap kvs => match n with FMap k => DMap (map (fun kv => (DStr (fst kv), at_key k (snd kv))) kvs) | _ => DMissing end
  | AUnion i v' =>
      match n with
      | FUnion ks => match nth_error ks i with Some k => at_key k v' | None => DMissing end
      | _ => DMissing
      end
  | ARecord vs =>
      match n with
      | FRecord _ fields =>
          DMap ((fix go (fields : list (bytes * nat)) (vs : list avalue) {struct vs} : list (dval * dval) :=
                   match fields, vs with
                   | (f, k) :: fr, v' :: vr => (DStr f, at_key k v') :: go fr vr
                   | _, _ => []
                   end) fields vs)
      | _ => DMissing
      end
  | AEnum i => match n with FEnum _ syms => DStr (nth i syms []) | _ => DMissing end
  | AFixed b => DBytes b
  | ADecimal m => match n with FDecimal _ scale _ => DStr (decimal_to_string m scale) | _ => DMissing end
  | ABigDecimal m s => DStr (decimal_to_string m s)
  | ADuration a b c =>
      DMap [(DStr (str_lit "months"), DInt false W32 (Z.of_N a));
            (DStr (str_lit "days"), DInt false W32 (Z.of_N b));
            (DStr (str_lit "milliseconds"), DInt false W32 (Z.of_N c))]
  end.

(* borrowed events compare equal to transient ones once the offset is dropped *)
Fixpoint erase_borrow (d : dval) : dval :=
  match d with
  | DBStr _ _ s => DStr s
  | DBBytes _ _ b => DBytes b
  | DSome d' => DSome (erase_borrow d')
  | DSeq ds => DSeq (map erase_borrow ds)
  | DMap kvs => DMap (map (fun kv => (erase_borrow (fst kv), erase_borrow (snd kv))) kvs)
  | DNewtype d' => DNewtype (erase_borrow d')
  | DEnum v d' => DEnum v (erase_borrow d')
  | DStruct fs => DStruct (map (fun kv => (fst kv, erase_borrow (snd kv))) fs)
  | other => other
  end.

(* canonical presentation: union branches by the name the deserializer reports *)
Fixpoint present (n : fnode) (v : avalue) {struct v} : sval :=
  let at_key (k : nat) (v' : avalue) : sval :=
    match fnode_at Sc k with Some n' => present n' v' | None => SFail end in
  match v with
  | ANull => SUnit
  | ABool b => SBool b
  | AInt z => SInt true W32 z
  | ALong z => SInt true W64 z
  | AFloat b => SF32 b
  | ADouble b => SF64 b 0
  | ABytes b => SBytes b
  | AString s => SStr s
  | AArray vs => match n with FArray k => SSeq (Some (N.of_nat (length vs))) (map (at_key k) vs) | _ => SFail end
  | AMap kvs =>
      match n with
      | FMap k => SMap (Some (N.of_nat (length kvs)))
                       (map (fun kv => (Some (SStr (fst kv)), Some (at_key k (snd kv)))) kvs)
      | _ => SFail
      end
  | AUnion i v' =>
      match n with
      | FUnion ks =>
          match nth_error ks i with
          | Some k =>
              match fnode_at Sc k with
              | Some n' => SNewtypeVariant [] (N.of_nat i) (type_name n') (present n' v')
              | None => SFail
              end
          | None => SFail
          end
      | _ => SFail
      end
  | ARecord vs =>
      match n with
      | FRecord nm fields =>
          SStruct (nm_full nm) (N.of_nat (length fields))
            ((fix go (fields : list (bytes * nat)) (vs : list avalue) {struct vs} : list (bytes * sval) :=
                match fields, vs with
                | (f, k) :: fr, v' :: vr => (f, at_key k v') :: go fr vr
                | _, _ => []
                end) fields vs)
      | _ => SFail
      end
  | AEnum i => match n with FEnum _ syms => SStr (nth i syms []) | _ => SFail end
  | AFixed b => SBytes b
  | ADecimal m => match n with FDecimal _ scale _ => SStr (decimal_to_string m scale) | _ => SFail end
  | ABigDecimal m s => SStr (decimal_to_string m s)
  | ADuration a b c =>
      STuple [SInt false W32 (Z.of_N a); SInt false W32 (Z.of_N b); SInt false W32 (Z.of_N c)]
  end.

End Den.
