(** What a conforming value looks like on the serde side:
    [dval_any]  the callbacks a dynamically-typed (deserialize_any) consumer must receive,
    [present]   the canonical serde presentation that determines every union branch by name,
    [dval_typed]/[typed_target] the events for ordinary Rust data types (structs, enums as unions,
                Option, seq, map, str/bytes). *)
Require Import Base Schema Sval Target AvroValue Text De.
From Coq Require Import String.
Open Scope N_scope.
Notation length := List.length (only parsing).

Section Den.
Variable Sc : fschema.

Definition str_lit (s : string) : bytes := lit s.

Fixpoint dval_any (n : fnode) (v : avalue) {struct v} : dval :=
  let at_key (k : nat) (v' : avalue) : dval :=
    match fnode_at Sc k with Some n' => dval_any n' v' | None => DMissing end in
  match v with
  | ANull => DUnit
  | ABool b => DBool b
  | AInt z => DInt true W32 z
  | ALong z => DInt true W64 z
  | AFloat b => DF32 b
  | ADouble b => DF64 b
  | ABytes b => DBytes b
  | AString s => DStr s
  | AArray vs => match n with FArray k => DSeq (map (at_key k) vs) | _ => DMissing end
  | AMap kvs => match n with FMap k => DMap (map (fun kv => (DStr (fst kv), at_key k (snd kv))) kvs) | _ => DMissing end
  | AUnion i v' =>
      match n with
      | FUnion ks => match nth_error ks i with Some k => at_key k v' | None => DMissing end
      | _ => DMissing
      end
  | ARecord vs =>
      match n with
      | FRecord _ fields =>
          DMap ((fix go (fields : list (bytes * nat)) (vs : list avalue) {struct vs} : list (dval * dval) :=
                   match fields, vs with
                   | (f, k) :: fr, v' :: vr => (DStr f, at_key k v') :: go fr vr
                   | _, _ => []
                   end) fields vs)
      | _ => DMissing
      end
  | AEnum i => match n with FEnum _ syms => DStr (nth i syms []) | _ => DMissing end
  | AFixed b => DBytes b
  | ADecimal m => match n with FDecimal _ scale _ => DStr (decimal_to_string m scale) | _ => DMissing end
  | ABigDecimal m s => DStr (decimal_to_string m s)
  | ADuration a b c =>
      DMap [(DStr (str_lit "months"), DInt false W32 (Z.of_N a));
            (DStr (str_lit "days"), DInt false W32 (Z.of_N b));
            (DStr (str_lit "milliseconds"), DInt false W32 (Z.of_N c))]
  end.

(* borrowed events compare equal to transient ones once the offset is dropped *)
Fixpoint erase_borrow (d : dval) : dval :=
  match d with
  | DBStr _ _ s => DStr s
  | DBBytes _ _ b => DBytes b
  | DSome d' => DSome (erase_borrow d')
  | DSeq ds => DSeq (map erase_borrow ds)
  | DMap kvs => DMap (map (fun kv => (erase_borrow (fst kv), erase_borrow (snd kv))) kvs)
  | DNewtype d' => DNewtype (erase_borrow d')
  | DEnum v d' => DEnum v (erase_borrow d')
  | DStruct fs => DStruct (map (fun kv => (fst kv, erase_borrow (snd kv))) fs)
  | other => other
  end.

(* canonical presentation: union branches by the name the deserializer reports *)
Fixpoint present (n : fnode) (v : avalue) {struct v} : sval :=
  let at_key (k : nat) (v' : avalue) : sval :=
    match fnode_at Sc k with Some n' => present n' v' | None => SFail end in
  match v with
  | ANull => SUnit
  | ABool b => SBool b
  | AInt z => SInt true W32 z
  | ALong z => SInt true W64 z
  | AFloat b => SF32 b
  | ADouble b => SF64 b 0
  | ABytes b => SBytes b
  | AString s => SStr s
  | AArray vs => match n with FArray k => SSeq (Some (N.of_nat (length vs))) (map (at_key k) vs) | _ => SFail end
  | AMap kvs =>
      match n with
      | FMap k => SMap (Some (N.of_nat (length kvs)))
                       (map (fun kv => (Some (SStr (fst kv)), Some (at_key k (snd kv)))) kvs)
      | _ => SFail
      end
  | AUnion i v' =>
      match n with
      | FUnion ks =>
          match nth_error ks i with
          | Some k =>
              match fnode_at Sc k with
              | Some n' => SNewtypeVariant [] (N.of_nat i) (type_name n') (present n' v')
              | None => SFail
              end
          | None => SFail
          end
      | _ => SFail
      end
  | ARecord vs =>
      match n with
      | FRecord nm fields =>
          SStruct (nm_full nm) (N.of_nat (length fields))
            ((fix go (fields : list (bytes * nat)) (vs : list avalue) {struct vs} : list (bytes * sval) :=
                match fields, vs with
                | (f, k) :: fr, v' :: vr => (f, at_key k v') :: go fr vr
                | _, _ => []
                end) fields vs)
      | _ => SFail
      end
  | AEnum i => match n with FEnum _ syms => SStr (nth i syms []) | _ => SFail end
  | AFixed b => SBytes b
  | ADecimal m => match n with FDecimal _ scale _ => SStr (decimal_to_string m scale) | _ => SFail end
  | ABigDecimal m s => SStr (decimal_to_string m s)
  | ADuration a b c =>
      STuple [SInt false W32 (Z.of_N a); SInt false W32 (Z.of_N b); SInt false W32 (Z.of_N c)]
  end.

(* the ordinary Rust data type for a node: struct per record, enum per union (Option for
   [null,T] / [T,null]), unit enum per Avro enum, Vec, string-keyed map, str/bytes.
   Recursive schemas are unfolded [fuel] levels. *)
Fixpoint typed_target (fuel : nat) (n : fnode) : dtarget :=
  match fuel with
  | O => TAny
  | S f =>
    let at_key (k : nat) : dtarget :=
      match fnode_at Sc k with Some n' => typed_target f n' | None => TAny end in
    match n with
    | FNull => THint HUnit
    | FBoolean => THint HBool
    | FInt | FDate | FTimeMillis => THint HI32
    | FLong | FTimeMicros | FTimestampMillis | FTimestampMicros => THint HI64
    | FFloat => THint HF32
    | FDouble => THint HF64
    | FBytes | FFixed _ _ => THint HBytes
    | FString | FUuid => THint HStr
    | FArray k => TSeq (at_key k)
    | FMap k => TMap (THint HStr) (at_key k)
    | FUnion ks =>
        let is_null (k : nat) := match fnode_at Sc k with Some FNull => true | _ => false end in
        match ks with
        | [a; b0] =>
            if is_null a && negb (is_null b0) then TOption (at_key b0)
            else if is_null b0 && negb (is_null a) then TOption (at_key a)
            else TEnum (str_lit "U")
                       (map (fun k => match fnode_at Sc k with
                                      | Some FNull => (type_name FNull, TVUnit)
                                      | Some n' => (type_name n', TVNewtype (typed_target f n'))
                                      | None => ([], TVUnit)
                                      end) ks)
        | _ => TEnum (str_lit "U")
                     (map (fun k => match fnode_at Sc k with
                                    | Some FNull => (type_name FNull, TVUnit)
                                    | Some n' => (type_name n', TVNewtype (typed_target f n'))
                                    | None => ([], TVUnit)
                                    end) ks)
        end
    | FRecord nm fields => TStruct (nm_full nm) (map (fun fk => (fst fk, at_key (snd fk))) fields)
    | FEnum nm syms => TEnum (nm_full nm) (map (fun s => (s, TVUnit)) syms)
    | FDecimal _ _ _ | FBigDecimal => THint HStr
    | FDuration => TTuple [THint HU32; THint HU32; THint HU32]
    end
  end.

Fixpoint dval_typed (n : fnode) (v : avalue) {struct v} : dval :=
  let at_key (k : nat) (v' : avalue) : dval :=
    match fnode_at Sc k with Some n' => dval_typed n' v' | None => DMissing end in
  match v with
  | AArray vs => match n with FArray k => DSeq (map (at_key k) vs) | _ => DMissing end
  | AMap kvs => match n with FMap k => DMap (map (fun kv => (DStr (fst kv), at_key k (snd kv))) kvs) | _ => DMissing end
  | AUnion i v' =>
      match n with
      | FUnion ks =>
          let is_null (k : nat) := match fnode_at Sc k with Some FNull => true | _ => false end in
          let as_option :=
            match ks with
            | [a; b0] => (is_null a && negb (is_null b0)) || (is_null b0 && negb (is_null a))
            | _ => false
            end in
          match nth_error ks i with
          | Some k =>
              match fnode_at Sc k with
              | Some n' =>
                  if as_option then
                    match n' with FNull => DNone | _ => DSome (dval_typed n' v') end
                  else
                    match n' with
                    | FNull => DEnum (type_name FNull) DUnit
                    | _ => DEnum (type_name n') (dval_typed n' v')
                    end
              | None => DMissing
              end
          | None => DMissing
          end
      | _ => DMissing
      end
  | ARecord vs =>
      match n with
      | FRecord _ fields =>
          DStruct ((fix go (fields : list (bytes * nat)) (vs : list avalue) {struct vs} : list (bytes * dval) :=
                      match fields, vs with
                      | (f, k) :: fr, v' :: vr => (f, at_key k v') :: go fr vr
                      | _, _ => []
                      end) fields vs)
      | _ => DMissing
      end
  | AEnum i => match n with FEnum _ syms => DEnum (nth i syms []) DUnit | _ => DMissing end
  | ADuration a b0 c =>
      DSeq [DInt false W32 (Z.of_N a); DInt false W32 (Z.of_N b0); DInt false W32 (Z.of_N c)]
  | other => dval_any n other
  end.

End Den.
