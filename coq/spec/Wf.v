(** Well-formedness of a (frozen) schema as the Avro specification requires, and the
    documented limits of the crate (depth budget, sequence size, 16-byte / 96-bit decimals),
    as executable predicates. *)
Require Import Base Schema AvroValue Encoding De Utf8.
Open Scope N_scope.

Fixpoint distinct (l : list bytes) : bool :=
  match l with
  | [] => true
  | x :: t => negb (existsb (bytes_eqb x) t) && distinct t
  end.

Definition keys_of (n : fnode) : list nat :=
  match n with
  | FArray k | FMap k => [k]
  | FUnion ks => ks
  | FRecord _ fs => map snd fs
  | _ => []
  end.

Definition is_union (n : fnode) : bool := match n with FUnion _ => true | _ => false end.

(* per node: keys in range; union branches are not unions and are pairwise distinct in the name
   the deserializer reports for them (for unnamed types this is "at most one branch of each
   type", for named types "distinct fullnames"); record field names and enum symbols distinct;
   names are byte strings *)
Definition node_wf (Sc : fschema) (n : fnode) : bool :=
  forallb (fun k => Nat.ltb k (length Sc)) (keys_of n) &&
  match n with
  | FUnion ks =>
      forallb (fun k => match fnode_at Sc k with Some v => negb (is_union v) | None => false end) ks &&
      distinct (map (fun k => match fnode_at Sc k with Some v => type_name v | None => [] end) ks)
  | FRecord nm fs => distinct (map fst fs) && forallb (fun f => bytes_okb (fst f)) fs && bytes_okb (nm_full nm)
  | FEnum nm syms => distinct syms && forallb bytes_okb syms && forallb utf8_valid syms && bytes_okb (nm_full nm)
  | FFixed nm _ => bytes_okb (nm_full nm)
  | FDecimal _ _ (Some (nm, _)) => bytes_okb (nm_full nm)
  | _ => true
  end.

Definition schema_wf (Sc : fschema) : bool :=
  negb (Nat.eqb (length Sc) 0) && forallb (node_wf Sc) Sc.

(* the depth budget a value needs: one unit per array, map, union and record descent
   (AllowedDepth::dec sites of deserialize_any) *)
Section Lim.
Variable Sc : fschema.
Variable cfg : dcfg.

Definition list_max (l : list nat) : nat := fold_right Nat.max O l.

Fixpoint depth_cost (e : evalue) : nat :=
  match e with
  | EArray blocks => S (list_max (flat_map (fun blk => map depth_cost (snd blk)) blocks))
  | EMap blocks => S (list_max (flat_map (fun blk => map (fun kv => depth_cost (snd kv)) (snd blk)) blocks))
  | EUnion _ v => S (depth_cost v)
  | ERecord fs => S (list_max (map depth_cost fs))
  | _ => O
  end.

(* sizes within the configured / documented limits *)
Fixpoint within_limits (n : fnode) (e : evalue) {struct e} : bool :=
  let at_key (k : nat) (e' : evalue) : bool :=
    match fnode_at Sc k with Some n' => within_limits n' e' | None => false end in
  match e with
  | EArray blocks =>
      (N.of_nat (length (flat_map (fun blk => snd blk) blocks)) <=? c_max_seq cfg) &&
      match n with FArray k => forallb (fun blk => forallb (at_key k) (snd blk)) blocks | _ => false end
  | EMap blocks =>
      (N.of_nat (length (flat_map (fun blk => snd blk) blocks)) <=? c_max_seq cfg) &&
      match n with FMap k => forallb (fun blk => forallb (fun kv => at_key k (snd kv)) (snd blk)) blocks | _ => false end
  | EUnion i v =>
      match n with
      | FUnion ks => match nth_error ks i with Some k => at_key k v | None => false end
      | _ => false
      end
  | ERecord fs =>
      match n with
      | FRecord _ fields =>
          (fix go (fields : list (bytes * nat)) (fs : list evalue) {struct fs} : bool :=
             match fields, fs with
             | [], [] => true
             | (_, k) :: fr, v :: vr => at_key k v && go fr vr
             | _, _ => false
             end) fields fs
      | _ => false
      end
  | EDecimal m pad =>
      (Z.abs m <? 2 ^ 96)%Z &&
      match n with
      | FDecimal _ scale None => (scale <=? 28) && Nat.leb (min_twos_len_fuel 40 m 1 + pad) 16
      | FDecimal _ scale (Some (_, size)) => (scale <=? 28) && (size <=? 16)
      | _ => false
      end
  | EBigDecimal m s pad =>
      (Z.abs m <? 2 ^ 96)%Z && (s <=? 28) && Nat.leb (min_twos_len_fuel 40 m 1 + pad) 16
  | _ => true
  end.

End Lim.

(* number of nodes of a value: a sufficient amount of fuel is linear in it *)
Fixpoint esize (e : evalue) : nat :=
  match e with
  | EArray blocks => S (length blocks + fold_right plus O (flat_map (fun blk => map esize (snd blk)) blocks))
  | EMap blocks => S (length blocks + fold_right plus O (flat_map (fun blk => map (fun kv => S (esize (snd kv))) (snd blk)) blocks))
  | EUnion _ v => S (esize v)
  | ERecord fs => S (fold_right plus O (map esize fs))
  | _ => 1%nat
  end.
