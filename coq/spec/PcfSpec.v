(** Parsing Canonical Form, as the Avro specification defines it ("Transforming into Parsing
    Canonical Form"), on the schema DOCUMENT (JSON AST), with no node graph:
      [PRIMITIVES] primitives in simple form;  [FULLNAMES] names replaced by fullnames, namespace
      attributes dropped;  [STRIP] only type, name, fields, symbols, items, values, size kept;
      [ORDER] name, type, fields, symbols, items, values, size;  [WHITESPACE] none.
    (No string escaping, like the reference implementation.) Fullnames follow the "Names"
    section: a dotted name is a fullname; otherwise the namespace attribute, otherwise the
    enclosing namespace; the empty namespace is the null namespace. *)
Require Import Base Text Json.
From Coq Require Import String.
Open Scope N_scope.
Notation length := List.length (only parsing).

Definition PDOT : N := 46.
Definition has_dot (s : bytes) : bool := existsb (fun c => c =? PDOT) s.

(* last dot splits namespace and simple name *)
Fixpoint last_dot (s : bytes) (i : nat) (acc : option nat) : option nat :=
  match s with [] => acc | c :: t => last_dot t (S i) (if c =? PDOT then Some i else acc) end.

(* (namespace, fullname) of a definition *)
Definition spec_fullname (enclosing : option bytes) (name : bytes) (namespace : option bytes)
  : option bytes * bytes :=
  match last_dot name O None with
  | Some i =>
      let ns := firstn i name in
      let simple := skipn (S i) name in
      match ns with
      | [] => (None, simple)                       (* ".x": the null namespace *)
      | _ => (Some ns, name)
      end
  | None =>
      let ns := match namespace with
                | Some [] => None
                | Some n => Some n
                | None => enclosing
                end in
      (ns, match ns with Some n => n ++ [PDOT] ++ name | None => name end)
  end.

Definition primitive_names : list bytes :=
  [lit "null"; lit "boolean"; lit "int"; lit "long"; lit "float"; lit "double"; lit "bytes"; lit "string"].
Definition is_primitive (s : bytes) : bool := existsb (bytes_eqb s) primitive_names.

Definition get (k : string) (kvs : list (bytes * json)) : option json :=
  match filter (fun kv => bytes_eqb (fst kv) (lit k)) kvs with
  | (_, v) :: _ => Some v
  | [] => None
  end.
Definition get_str (k : string) (kvs : list (bytes * json)) : option bytes :=
  match get k kvs with Some (JStr s) => Some s | _ => None end.

Definition q (s : bytes) : bytes := [34] ++ s ++ [34].

Fixpoint pcf (fuel : nat) (enclosing : option bytes) (j : json) : bytes :=
  match fuel with
  | O => []
  | S f =>
    match j with
    | JStr s =>
        if is_primitive s then q s
        else q (snd (spec_fullname enclosing s None))       (* a reference: its fullname *)
    | JArr l => lit "[" ++ sep_concat (lit ",") (map (pcf f enclosing) l) ++ lit "]"
    | JObj kvs =>
        match get_str "type" kvs with
        | Some ty =>
            if is_primitive ty then q ty
            else if bytes_eqb ty (lit "array") then
              lit "{""type"":""array"",""items"":" ++
              (match get "items" kvs with Some it => pcf f enclosing it | None => [] end) ++ lit "}"
            else if bytes_eqb ty (lit "map") then
              lit "{""type"":""map"",""values"":" ++
              (match get "values" kvs with Some it => pcf f enclosing it | None => [] end) ++ lit "}"
            else
              let nm := match get_str "name" kvs with Some n => n | None => [] end in
              let (ns, full) := spec_fullname enclosing nm (get_str "namespace" kvs) in
              if bytes_eqb ty (lit "record") then
                lit "{""name"":" ++ q full ++ lit ",""type"":""record"",""fields"":[" ++
                sep_concat (lit ",")
                  (match get "fields" kvs with
                   | Some (JArr fl) =>
                       map (fun fj => match fj with
                                      | JObj fkvs =>
                                          lit "{""name"":" ++ q (match get_str "name" fkvs with Some n => n | None => [] end) ++
                                          lit ",""type"":" ++
                                          (match get "type" fkvs with Some t => pcf f ns t | None => [] end) ++ lit "}"
                                      | _ => []
                                      end) fl
                   | _ => []
                   end) ++ lit "]}"
              else if bytes_eqb ty (lit "enum") then
                lit "{""name"":" ++ q full ++ lit ",""type"":""enum"",""symbols"":[" ++
                sep_concat (lit ",")
                  (match get "symbols" kvs with
                   | Some (JArr sl) => map (fun sj => match sj with JStr s => q s | _ => [] end) sl
                   | _ => []
                   end) ++ lit "]}"
              else if bytes_eqb ty (lit "fixed") then
                lit "{""name"":" ++ q full ++ lit ",""type"":""fixed"",""size"":" ++
                (match get "size" kvs with Some (JNum tok) => tok | _ => [] end) ++ lit "}"
              else []
        | None => []
        end
    | _ => []
    end
  end.
