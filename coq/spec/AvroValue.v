(** Avro values and conformance to a schema, written from the Avro 1.11
    specification (not from the crate). The schema representation (frozen node
    vector) is shared with the model; nothing else is. *)
Require Import Base Schema Utf8.
Open Scope N_scope.

Inductive avalue :=
  | ANull
  | ABool (b : bool)
  | AInt (z : Z)                              (* int, date, time-millis *)
  | ALong (z : Z)                             (* long, time-micros, timestamp-* *)
  | AFloat (bits : N)
  | ADouble (bits : N)
  | ABytes (bs : bytes)
  | AString (s : bytes)                       (* string, uuid *)
  | AArray (vs : list avalue)
  | AMap (kvs : list (bytes * avalue))
  | AUnion (branch : nat) (v : avalue)
  | ARecord (fields : list avalue)            (* in schema order *)
  | AEnum (idx : nat)
  | AFixed (bs : bytes)
  | ADecimal (unscaled : Z)                   (* scale comes from the schema *)
  | ABigDecimal (unscaled : Z) (scale : N)
  | ADuration (months days millis : N).

(* number of bytes of the shortest two's complement representation of z *)
Fixpoint min_twos_len_fuel (fuel : nat) (z : Z) (n : nat) : nat :=
  match fuel with
  | O => n
  | S f => if ((- 2 ^ (8 * Z.of_nat n - 1) <=? z) && (z <=? 2 ^ (8 * Z.of_nat n - 1) - 1))%Z && negb (Nat.eqb n 0)
           then n else min_twos_len_fuel f z (S n)
  end.
Definition fits_twos (z : Z) (nbytes : nat) : bool :=
  if Nat.eqb nbytes 0 then (z =? 0)%Z
  else ((- 2 ^ (8 * Z.of_nat nbytes - 1) <=? z) && (z <=? 2 ^ (8 * Z.of_nat nbytes - 1) - 1))%Z.

Section Conf.
Variable Sc : fschema.

Fixpoint conforms (n : fnode) (v : avalue) {struct v} : bool :=
  let at_key (k : nat) (v' : avalue) : bool :=
    match fnode_at Sc k with Some n' => conforms n' v' | None => false end in
  match n, v with
  | FNull, ANull => true
  | FBoolean, ABool _ => true
  | (FInt | FDate | FTimeMillis), AInt z => Zin I32_MIN I32_MAX z
  | (FLong | FTimeMicros | FTimestampMillis | FTimestampMicros), ALong z => Zin I64_MIN I64_MAX z
  | FFloat, AFloat bits => bits <? 2^32
  | FDouble, ADouble bits => bits <? 2^64
  | FBytes, ABytes bs => bytes_okb bs
  | (FString | FUuid), AString s => bytes_okb s && utf8_valid s
  | FArray k, AArray vs => forallb (at_key k) vs
  | FMap k, AMap kvs => forallb (fun kv => bytes_okb (fst kv) && utf8_valid (fst kv) && at_key k (snd kv)) kvs
  | FUnion ks, AUnion i v' =>
      match nth_error ks i with Some k => at_key k v' | None => false end
  | FRecord _ fs, ARecord vs =>
      Nat.eqb (length fs) (length vs) &&
      (fix go (fs : list (bytes * nat)) (vs : list avalue) {struct vs} : bool :=
         match fs, vs with
         | [], [] => true
         | (_, k) :: fr, v' :: vr => at_key k v' && go fr vr
         | _, _ => false
         end) fs vs
  | FEnum _ syms, AEnum i => Nat.ltb i (length syms)
  | FFixed _ size, AFixed bs => bytes_okb bs && (N.of_nat (length bs) =? size)
  | FDecimal _ _ None, ADecimal m => fits_twos m 16
  | FDecimal _ _ (Some (_, size)), ADecimal m => (size <=? 16) && fits_twos m (N.to_nat size)
  | FBigDecimal, ABigDecimal m _ => fits_twos m 16
  | FDuration, ADuration a b c => (a <? 2^32) && (b <? 2^32) && (c <? 2^32)
  | _, _ => false
  end.

End Conf.
