(** The block codec layer of the object container file, written from the specification
    ("Object Container Files") and independent of the model of the crate. spec/FileSpec.v stops at
    opaque block data; this file adds what the specification says about that data:

      "A file data block consists of: a long indicating the count of objects in this block, a long
       indicating the size in bytes of the serialized objects in the current block, AFTER any codec is
       applied, the serialized objects (if a codec is specified, this is compressed by that codec), the
       file's 16-byte sync marker."
      "avro.codec: the name of the compression codec used to compress blocks, as a string. If absent,
       it is assumed to be "null"."      "avro.schema contains the schema of objects stored in the file"
      "null: the null codec simply passes through data uncompressed."
      "snappy: the snappy codec uses Google's Snappy compression library. Each compressed block is
       followed by the 4-byte, big-endian CRC32 checksum of the UNCOMPRESSED data in the block."

    The compression libraries themselves (raw snappy, deflate, ...) are parameters: a codec is seen
    through its decompressor [bytes -> option bytes]. Everything here is executable. *)
Require Import Base FileSpec.
From Coq Require Import Arith.
Open Scope N_scope.

(* ------------------------------------------------------------------------------------------ *)
(** * The two reserved metadata entries *)

Definition SCHEMA_KEY : bytes := [97; 118; 114; 111; 46; 115; 99; 104; 101; 109; 97].   (* "avro.schema" *)
Definition CODEC_KEY : bytes := [97; 118; 114; 111; 46; 99; 111; 100; 101; 99].         (* "avro.codec" *)
Definition NULL_NAME : bytes := [110; 117; 108; 108].                                   (* "null" *)
Definition SNAPPY_NAME : bytes := [115; 110; 97; 112; 112; 121].                       (* "snappy" *)

(* the value of a key of the metadata map (first entry with that key) *)
Fixpoint meta_get (key : bytes) (meta : list (bytes * bytes)) : option bytes :=
  match meta with
  | [] => None
  | (k, v) :: rest => if bytes_eqb k key then Some v else meta_get key rest
  end.

Definition file_schema (f : rfile) : option bytes := meta_get SCHEMA_KEY (rf_meta f).
(* "If absent, it is assumed to be null" *)
Definition file_codec (f : rfile) : bytes :=
  match meta_get CODEC_KEY (rf_meta f) with Some c => c | None => NULL_NAME end.

(* ------------------------------------------------------------------------------------------ *)
(** * Blocks of serialized objects under a codec *)

(* a block before the codec is applied: the count of objects and their serialization, concatenated *)
Record oblock := mkOBlock { ob_count : Z; ob_objects : bytes }.

(* writer side: "the serialized objects (compressed by that codec)"; the size that the block announces is
   then the length of [rb_data], i.e. the size AFTER the codec is applied (FileSpec.wr_block) *)
Definition codec_block (enc : bytes -> bytes) (b : oblock) : rblock :=
  mkBlock (ob_count b) (enc (ob_objects b)).

(* reader side: a codec is its decompressor; None = the data is not a compressed block *)
Definition decoder := bytes -> option bytes.

Definition decode_block (dec : decoder) (b : rblock) : option oblock :=
  match dec (rb_data b) with
  | Some objs => Some (mkOBlock (rb_count b) objs)
  | None => None
  end.

Fixpoint decode_blocks (dec : decoder) (bs : list rblock) : option (list oblock) :=
  match bs with
  | [] => Some []
  | b :: rest =>
      match decode_block dec b, decode_blocks dec rest with
      | Some o, Some os => Some (o :: os)
      | _, _ => None
      end
  end.

(* a whole file read with the decompressor [dec]: metadata, sync marker, the blocks of serialized objects *)
Record ofile := mkOFile { of_meta : list (bytes * bytes); of_sync : bytes; of_blocks : list oblock }.

Definition ref_read (dec : decoder) (file : bytes) : option ofile :=
  match ref_parse file with
  | Some f =>
      match decode_blocks dec (rf_blocks f) with
      | Some os => Some (mkOFile (rf_meta f) (rf_sync f) os)
      | None => None
      end
  | None => None
  end.

(* all the serialized objects of the file, in order *)
Definition file_objects (f : ofile) : bytes := flat_map ob_objects (of_blocks f).
Definition file_count (f : ofile) : Z := fold_right Z.add 0%Z (map ob_count (of_blocks f)).

(* ------------------------------------------------------------------------------------------ *)
(** * The null codec *)
Definition null_decoder : decoder := fun data => Some data.

(* ------------------------------------------------------------------------------------------ *)
(** * CRC-32 (ISO 3309 / ITU-T V.42, the checksum of zlib, gzip and PNG): polynomial 0x04C11DB7 reflected
      = 0xEDB88320, register initialised to all ones, final complement; bit by bit, no table *)

Definition crc32_bit (x : N) : N :=
  N.lxor (N.shiftr x 1) (if N.testbit x 0 then 0xEDB88320 else 0).

Fixpoint iter_n (n : nat) (f : N -> N) (x : N) : N :=
  match n with O => x | S k => iter_n k f (f x) end.

Definition crc32_step (c b : N) : N := iter_n 8 crc32_bit (N.lxor c b).

Definition spec_crc32 (bs : bytes) : N := N.lxor (fold_left crc32_step bs 0xFFFFFFFF) 0xFFFFFFFF.

(* 4 bytes, big endian *)
Definition spec_be32 (x : N) : bytes :=
  [(x / 2 ^ 24) mod 256; (x / 2 ^ 16) mod 256; (x / 2 ^ 8) mod 256; x mod 256].

(* ------------------------------------------------------------------------------------------ *)
(** * The snappy framing: compressed block, then the big-endian CRC32 of the uncompressed data *)

Section Snappy.
Variable raw_enc : bytes -> bytes.            (* the Snappy library, compression (block format) *)
Variable raw_dec : bytes -> option bytes.     (* the Snappy library, decompression; None = not a snappy block *)
Variable crc : bytes -> N.                    (* the checksum; [spec_crc32] in the specification *)

Definition snappy_frame (x : bytes) : bytes := raw_enc x ++ spec_be32 (crc x).

Definition snappy_decoder : decoder := fun data =>
  if (length data <? 4)%nat then None
  else
    let n := (length data - 4)%nat in
    match raw_dec (firstn n data) with
    | Some x => if bytes_eqb (skipn n data) (spec_be32 (crc x)) then Some x else None
    | None => None
    end.
End Snappy.

(* the decompressor of a file from its metadata, for the two codecs this layer knows; the other codec
   names of the specification (deflate, bzip2, xz, zstandard) are plain library streams without framing:
   [others name] supplies their decompressors *)
Definition decoder_of (raw_snappy_dec : bytes -> option bytes) (others : bytes -> option decoder)
                      (name : bytes) : option decoder :=
  if bytes_eqb name NULL_NAME then Some null_decoder
  else if bytes_eqb name SNAPPY_NAME then Some (snappy_decoder raw_snappy_dec spec_crc32)
  else others name.

Definition ref_read_auto (raw_snappy_dec : bytes -> option bytes) (others : bytes -> option decoder)
                         (file : bytes) : option ofile :=
  match ref_parse file with
  | Some f =>
      match decoder_of raw_snappy_dec others (file_codec f) with
      | Some dec => ref_read dec file
      | None => None
      end
  | None => None
  end.
