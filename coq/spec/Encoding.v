(** The Avro binary encoding, from the specification ("Binary Encoding"):
    - null: zero bytes; boolean: one byte 0/1;
    - int, long: variable-length zig-zag; float/double: 4/8 bytes little-endian;
    - bytes, string: long length then the bytes;
    - arrays, maps: a series of blocks (long count, items), terminated by count zero; a
      negative count is followed by the long byte size of the block and stands for |count| items;
    - unions: the long position of the branch, then the value; records: fields in order;
      enums: the int position of the symbol; fixed: the bytes;
    - decimal: two's-complement big-endian unscaled value (bytes: length-prefixed);
      duration: three little-endian unsigned 32-bit integers.
    [evalue] is a value together with the encoder's free choices (block layout, sign-extension
    padding of decimals): every legal encoding of a value is encode_e of some evalue that erases
    to it. The long encoding is written here independently of model/Varint.v. *)
Require Import Base Schema AvroValue.
Open Scope N_scope.

(* zig-zag + base-128 little-endian groups, most significant bit = continuation *)
Fixpoint spec_varint_fuel (fuel : nat) (n : N) : bytes :=
  match fuel with
  | O => [n mod 128]
  | S f => if n <? 128 then [n] else (128 + n mod 128) :: spec_varint_fuel f (n / 128)
  end.
Definition spec_zigzag (z : Z) : N :=
  if (0 <=? z)%Z then Z.to_N (2 * z) else Z.to_N (- 2 * z - 1).
Definition spec_long (z : Z) : bytes := spec_varint_fuel 10 (spec_zigzag z).

Definition spec_le (nbytes : nat) (x : N) : bytes :=
  map (fun k => (x / 2 ^ (8 * N.of_nat k)) mod 256) (seq 0 nbytes).
(* two's complement big endian on nbytes *)
Definition spec_twos_be (nbytes : nat) (z : Z) : bytes :=
  rev (spec_le nbytes (Z.to_N (z mod 2 ^ (8 * Z.of_nat nbytes)))).

Inductive evalue :=
  | ENull
  | EBool (b : bool)
  | EInt (z : Z)
  | ELong (z : Z)
  | EFloat (bits : N)
  | EDouble (bits : N)
  | EBytes (bs : bytes)
  | EString (s : bytes)
  (* blocks: (written with a negative count and a byte size?, items) *)
  | EArray (blocks : list (bool * list evalue))
  | EMap (blocks : list (bool * list (bytes * evalue)))
  | EUnion (branch : nat) (v : evalue)
  | ERecord (fields : list evalue)
  | EEnum (idx : nat)
  | EFixed (bs : bytes)
  | EDecimal (unscaled : Z) (pad : nat)       (* pad: extra sign-extension bytes (bytes repr only) *)
  | EBigDecimal (unscaled : Z) (scale : N) (pad : nat)
  | EDuration (months days millis : N).

Fixpoint erase (e : evalue) : avalue :=
  match e with
  | ENull => ANull | EBool b => ABool b | EInt z => AInt z | ELong z => ALong z
  | EFloat b => AFloat b | EDouble b => ADouble b | EBytes b => ABytes b | EString s => AString s
  | EArray blocks => AArray (flat_map (fun blk => map erase (snd blk)) blocks)
  | EMap blocks => AMap (flat_map (fun blk => map (fun kv => (fst kv, erase (snd kv))) (snd blk)) blocks)
  | EUnion i v => AUnion i (erase v)
  | ERecord fs => ARecord (map erase fs)
  | EEnum i => AEnum i
  | EFixed b => AFixed b
  | EDecimal m _ => ADecimal m
  | EBigDecimal m s _ => ABigDecimal m s
  | EDuration a b c => ADuration a b c
  end.

(* no empty blocks (an empty block is the terminator) *)
Fixpoint layout_ok (e : evalue) : bool :=
  match e with
  | EArray blocks =>
      forallb (fun blk => negb (Nat.eqb (length (snd blk)) 0) && forallb layout_ok (snd blk)) blocks
  | EMap blocks =>
      forallb (fun blk => negb (Nat.eqb (length (snd blk)) 0) &&
                          forallb (fun kv => layout_ok (snd kv)) (snd blk)) blocks
  | EUnion _ v => layout_ok v
  | ERecord fs => forallb layout_ok fs
  | _ => true
  end.

Definition ld (bs : bytes) : bytes := spec_long (Z.of_nat (length bs)) ++ bs.

(* the encoding of a decimal's unscaled value on bytes: minimal length plus padding *)
Definition decimal_bytes (m : Z) (pad : nat) : bytes :=
  spec_twos_be (min_twos_len_fuel 40 m 1 + pad) m.

Section Enc.
Variable Sc : fschema.

Fixpoint encode_e (n : fnode) (e : evalue) {struct e} : bytes :=
  let at_key (k : nat) (e' : evalue) : bytes :=
    match fnode_at Sc k with Some n' => encode_e n' e' | None => [] end in
  let block (A : Type) (enc : A -> bytes) (blk : bool * list A) : bytes :=
    let items := flat_map enc (snd blk) in
    let cnt := Z.of_nat (length (snd blk)) in
    if fst blk then spec_long (- cnt) ++ spec_long (Z.of_nat (length items)) ++ items
    else spec_long cnt ++ items in
  match e with
  | ENull => []
  | EBool b => [if b then 1 else 0]
  | EInt z | ELong z => spec_long z
  | EFloat bits => spec_le 4 bits
  | EDouble bits => spec_le 8 bits
  | EBytes bs | EString bs => ld bs
  | EArray blocks =>
      match n with
      | FArray k => flat_map (block evalue (at_key k)) blocks ++ spec_long 0
      | _ => []
      end
  | EMap blocks =>
      match n with
      | FMap k => flat_map (block (bytes * evalue)%type (fun kv => ld (fst kv) ++ at_key k (snd kv))) blocks ++ spec_long 0
      | _ => []
      end
  | EUnion i v =>
      match n with
      | FUnion ks => spec_long (Z.of_nat i) ++ (match nth_error ks i with Some k => at_key k v | None => [] end)
      | _ => []
      end
  | ERecord fs =>
      match n with
      | FRecord _ fields =>
          (fix go (fields : list (bytes * nat)) (fs : list evalue) {struct fs} : bytes :=
             match fields, fs with
             | (_, k) :: fr, v :: vr => at_key k v ++ go fr vr
             | _, _ => []
             end) fields fs
      | _ => []
      end
  | EEnum i => spec_long (Z.of_nat i)
  | EFixed bs => bs
  | EDecimal m pad =>
      match n with
      | FDecimal _ _ (Some (_, size)) => spec_twos_be (N.to_nat size) m
      | _ => ld (decimal_bytes m pad)
      end
  | EBigDecimal m s pad =>
      ld (ld (decimal_bytes m pad) ++ spec_long (Z.of_N s))
  | EDuration a b c => spec_le 4 a ++ spec_le 4 b ++ spec_le 4 c
  end.

End Enc.

(* the canonical layout: one block per non-empty array/map, no padding *)
Fixpoint canon (v : avalue) : evalue :=
  match v with
  | ANull => ENull | ABool b => EBool b | AInt z => EInt z | ALong z => ELong z
  | AFloat b => EFloat b | ADouble b => EDouble b | ABytes b => EBytes b | AString s => EString s
  | AArray vs => EArray (match vs with [] => [] | _ => [(false, map canon vs)] end)
  | AMap kvs => EMap (match kvs with [] => [] | _ => [(false, map (fun kv => (fst kv, canon (snd kv))) kvs)] end)
  | AUnion i v' => EUnion i (canon v')
  | ARecord fs => ERecord (map canon fs)
  | AEnum i => EEnum i
  | AFixed b => EFixed b
  | ADecimal m => EDecimal m 0
  | ABigDecimal m s => EBigDecimal m s 0
  | ADuration a b c => EDuration a b c
  end.

Definition spec_encode (Sc : fschema) (n : fnode) (v : avalue) : bytes := encode_e Sc n (canon v).

(* bs is a valid encoding of v under node n *)
Definition valid_encoding (Sc : fschema) (n : fnode) (v : avalue) (bs : bytes) : Prop :=
  exists e, erase e = v /\ layout_ok e = true /\ conforms Sc n v = true /\ encode_e Sc n e = bs.
