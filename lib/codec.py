"""Shared batch helpers for the datum codec properties (C01-C04, C11-C14)."""
import common as C
import gen as G
from present import Presenter

def spec_batch(pairs):
    """pairs: [(nodes, evalue_sx)] -> list of dicts with the spec side's answers"""
    lines = ["spec %s %s" % (G.schema_sx(nodes), v) for nodes, v in pairs]
    out = []
    for (nodes, v), s in zip(pairs, C.run_parallel(C.AVROMODEL, lines)):
        p = C.parse_sx(s)
        if not p or p[0][0] != "ok":
            raise RuntimeError("spec failed: %s on %s" % (s[:300], v[:300]))
        p = p[0]
        out.append({"nodes": nodes, "schema": G.schema_sx(nodes), "evalue": v, "enc": p[1], "canon": p[2],
                    "conforms": p[3] == "1", "layout_ok": p[4] == "1", "dany": C.show_sx(p[5]),
                    "present": C.show_sx(p[6]), "ttarget": C.show_sx(p[7]), "dtyped": C.show_sx(p[8]),
                    # the second family of Rust types (spec/DenoteOpt.v): positions kept optional although the union is
                    # not [null,T]: Option<enum of the non-null branches>
                    "otarget": C.show_sx(p[9]), "dopt": C.show_sx(p[10])})
    return out

def both(lines):
    return C.run_parallel(C.AVRODRIVE, lines), C.run_parallel(C.AVROMODEL, lines)

def diff_entry(line, ri, rm):
    return {"impl_case": line, "model_case": line, "impl": ri[:800], "model": rm[:800]}
