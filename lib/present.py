"""Random serde presentations of a conforming value (for C02/C13/C14): every shape the
serializer documents as accepted, plus deliberate breakages whose expected outcome is Err."""
from common import hx, parse_sx, show_sx, unhex
import gen as G

INT_TYPES = [("i8", -2**7, 2**7 - 1), ("i16", -2**15, 2**15 - 1), ("i32", -2**31, 2**31 - 1),
             ("i64", -2**63, 2**63 - 1), ("i128", -2**127, 2**127 - 1), ("u8", 0, 2**8 - 1),
             ("u16", 0, 2**16 - 1), ("u32", 0, 2**32 - 1), ("u64", 0, 2**64 - 1), ("u128", 0, 2**128 - 1)]

def is_utf8(b):
    try:
        b.decode("utf-8")
        return True
    except UnicodeDecodeError:
        return False

def type_name(nodes, k):
    n = nodes[k]
    kind = n.kind()
    if n.t in ("record", "enum", "fixed"):
        if kind == "duration":
            return "Duration"
        return n.name
    return {"null": "Null", "boolean": "Boolean", "int": "Int", "long": "Long", "float": "Float",
            "double": "Double", "bytes": "Bytes", "string": "String", "array": "Array", "map": "Map",
            "union": "Union", "decimal": "Decimal", "big-decimal": "BigDecimal", "uuid": "Uuid",
            "date": "Date", "time-millis": "TimeMillis", "time-micros": "TimeMicros",
            "timestamp-millis": "TimestampMillis", "timestamp-micros": "TimestampMicros",
            "duration": "Duration"}[kind]

class Presenter:
    """expect: 'value' while the presentation still denotes the value; 'err' once a deliberate
    breakage was injected (the serializer must fail); 'unknown' when we cannot tell."""
    def __init__(self, rng, nodes, break_prob=0.0, by_type_prob=0.3, canonical_layout=False, option_prob=0.0):
        # option_prob: unions of exactly null and one other branch presented the way Option<T> is (none / unit for
        # null; (some P) or P alone for the other branch, P being a presentation a Rust value of that type makes).
        # The type then determines the branch, so the expectation is 'value-if-ok': the serializer may only
        # succeed with an encoding of this very value (whether it must succeed is the model's word: model_diffs)
        self.option_prob = option_prob
        self.exact = 0
        self.canonical_layout = canonical_layout
        self.rng, self.nodes = rng, nodes
        self.break_prob = break_prob
        self.by_type_prob = by_type_prob
        self.expect = "value"
        self.needs_slow = False
        self.notes = []

    def note(self, s):
        self.notes.append(s)

    def int_pres(self, z, lo, hi):
        rng = self.rng
        if rng.random() < self.break_prob:
            # out of the Avro type's range
            bad = rng.choice([hi + 1, lo - 1, hi + 2**40, lo - 2**40])
            cands = [t for t, a, b in INT_TYPES if a <= bad <= b]
            if cands:
                self.expect = "err"
                self.note("integer out of range")
                return "(%s %d)" % (rng.choice(cands), bad)
        cands = [t for t, a, b in INT_TYPES if a <= z <= b]
        return "(%s %d)" % (rng.choice(cands), z)

    def pres(self, k, e):
        """k: node index, e: parsed evalue (nested lists)"""
        rng, nodes = self.rng, self.nodes
        n = nodes[k]
        kind = n.kind()
        if kind == "null":
            if self.exact:
                return rng.choice(["unit", "none"])
            return rng.choice(["unit", "none", "(unit_struct %s)" % hx("Anything"),
                               "(unit_variant %s 0 %s)" % (hx("E"), hx("Null"))])
        if kind == "boolean":
            return "(bool %s)" % e[1]
        if kind in ("int", "date", "time-millis"):
            return self.int_pres(int(e[1]), -2**31, 2**31 - 1)
        if kind in ("long", "time-micros", "timestamp-millis", "timestamp-micros"):
            return self.int_pres(int(e[1]), -2**63, 2**63 - 1)
        if kind == "float":
            return "(f32 %s)" % e[1]
        if kind == "double":
            if rng.random() < self.break_prob:
                self.expect = "err"
                self.note("f32 to double")
                return "(f32 0)"
            return "(f64 %s 0)" % e[1]
        if kind == "bytes":
            b = unhex(e[1])
            r = rng.random()
            if r < 0.2 and is_utf8(b):
                return "(str %s)" % e[1]
            if r < 0.35 and len(b) < 40:
                self.needs_slow = True
                ln = rng.choice(["none", str(len(b))])
                if rng.random() < self.break_prob:
                    ln = str(len(b) + 1)
                    self.expect = "err"
                    self.note("advertised byte-seq length not reached")
                return "(seq %s%s)" % (ln, "".join(" (u8 %d)" % x for x in b))
            return "(bytes %s)" % e[1]
        if kind in ("string", "uuid"):
            b = unhex(e[1])
            r = rng.random()
            if r < 0.15 and kind == "string":
                if rng.random() < self.break_prob:
                    self.expect = "err"
                    self.note("invalid utf-8 bytes to string")
                    return "(bytes %s)" % hx(b + b"\xff")
                return "(bytes %s)" % e[1]
            if r < 0.25 and len(b.decode()) == 1:
                return "(char %d)" % ord(b.decode())
            return "(str %s)" % e[1]
        if kind == "array":
            items = [it for blk in e[1:] for it in blk[2:]]
            vs = [self.pres(n.items, it) for it in items]
            r = rng.random()
            if self.canonical_layout and r < 0.25:
                r = 0.3
            if r < 0.25:
                return "(seq none%s)" % "".join(" " + v for v in vs)
            if r < 0.4:
                return "(tuple%s)" % "".join(" " + v for v in vs)
            if r < 0.5:
                return "(tuple_struct %s%s)" % (hx("T"), "".join(" " + v for v in vs))
            ln = len(vs)
            if rng.random() < self.break_prob:
                ln += 1
                self.expect = "err"
                self.note("advertised seq length not reached")
            elif rng.random() < 0.1 and ln > 0 and not self.canonical_layout:
                ln -= 1                 # fewer advertised than given: extra single blocks, still valid
            return "(seq %d%s)" % (ln, "".join(" " + v for v in vs))
        if kind == "map":
            items = [it for blk in e[1:] for it in blk[2:]]
            if rng.random() < 0.2 and items:
                # a struct whose field names are the keys
                return "(struct %s %d%s)" % (hx("M"), len(items),
                                              "".join(" (%s %s)" % (kx, self.pres(n.values, v)) for kx, v in items))
            calls = []
            for kx, v in items:
                pv = self.pres(n.values, v)
                pk = "(str %s)" % kx
                if rng.random() < 0.1:
                    pk = "(bytes %s)" % kx
                if rng.random() < 0.3:
                    calls.append("(key %s)" % pk)
                    calls.append("(value %s)" % pv)
                else:
                    calls.append("(entry %s %s)" % (pk, pv))
            ln = rng.choice(["none", str(len(items))]) if not self.canonical_layout else str(len(items))
            if rng.random() < self.break_prob:
                ln = str(len(items) + 1)
                self.expect = "err"
                self.note("advertised map length not reached")
            return "(map %s%s)" % (ln, "".join(" " + c for c in calls))
        if kind == "union":
            i = int(e[1])
            vk = n.variants[i]
            inner_e = e[2]
            tn = type_name(nodes, vk)
            r = rng.random()
            kinds = [nodes[x].kind() for x in n.variants]
            if self.option_prob and len(kinds) == 2 and kinds.count("null") == 1 and rng.random() < self.option_prob:
                before = self.expect
                if nodes[vk].kind() == "null":
                    p = rng.choice(["none", "none", "unit"])
                else:
                    self.exact += 1
                    p = self.pres(vk, inner_e)
                    self.exact -= 1
                    if rng.random() < 0.7:
                        p = "(some %s)" % p
                if self.expect == "value":
                    self.expect = "value-if-ok"
                elif self.expect == "err" and before != "err":
                    self.expect = "decodable"     # (a breakage of the intended branch may still suit the lookup)
                return p
            if r < self.by_type_prob:
                # type-directed: the outcome depends on the lookup table; we do not know whether it is
                # unambiguous, so the expectation is only "if Ok, it must decode to the value"
                before = self.expect
                p = self.pres(vk, inner_e)
                if self.expect in ("value", "value-if-ok") or (self.expect == "err" and before != "err"):
                    # (a breakage of the intended branch may still suit another branch)
                    self.expect = "decodable"
                if rng.random() < 0.3:
                    return "(some %s)" % p
                return p
            p = self.pres(vk, inner_e)
            if nodes[vk].kind() == "null" and rng.random() < 0.5:
                # a unit variant is resolved by type (String/Bytes/Enum branches are preferred)
                if any(nodes[x].kind() in ("string", "bytes", "enum") for x in n.variants):
                    if self.expect in ("value", "value-if-ok"):
                        self.expect = "decodable"
                return "(unit_variant %s %d %s)" % (hx("U"), i, hx("Null"))
            if r < self.by_type_prob + 0.15:
                return "(newtype_struct %s %s)" % (hx(tn), p)
            return "(newtype_variant %s %d %s %s)" % (hx("U"), i, hx(tn), p)
        if kind == "record":
            fields = [(fname, fk, fe) for (fname, fk), fe in zip(n.fields, e[1:])]
            order = list(range(len(fields)))
            if rng.random() < 0.6:
                rng.shuffle(order)
            present = []
            for idx in order:
                fname, fk, fe = fields[idx]
                fn = nodes[fk]
                nullable_null = (fn.kind() == "null") or (
                    fn.kind() == "union" and fe[0] == "union" and nodes[fn.variants[int(fe[1])]].kind() == "null"
                    and self.first_null_is(fn, int(fe[1])))
                if nullable_null and rng.random() < 0.4:
                    continue            # omitted nullable field holding null
                present.append((fname, self.pres(fk, fe)))
            if rng.random() < self.break_prob and fields:
                c = rng.random()
                if c < 0.34 and present:
                    present.insert(rng.randrange(len(present) + 1), rng.choice(present))
                    self.expect = "err"
                    self.note("duplicate field")
                elif c < 0.67:
                    present.insert(rng.randrange(len(present) + 1), ("nope", "unit"))
                    self.expect = "err"
                    self.note("unknown field")
                else:
                    # omit a non-nullable field
                    cands = [j for j, (fname, fk, fe) in enumerate(fields)
                             if nodes[fk].kind() not in ("null", "union")]
                    if cands:
                        name = fields[rng.choice(cands)][0]
                        present = [p for p in present if p[0] != name]
                        self.expect = "err"
                        self.note("missing field")
            r = rng.random()
            if r < 0.25:
                calls = []
                for fname, pv in present:
                    if rng.random() < 0.3:
                        calls += ["(key (str %s))" % hx(fname), "(value %s)" % pv]
                    else:
                        calls.append("(entry (str %s) %s)" % (hx(fname), pv))
                return "(map %s%s)" % (rng.choice(["none", str(len(present))]), "".join(" " + c for c in calls))
            sname = rng.choice([n.name, "Other", n.name.split(".")[-1]])
            if r < 0.35:
                return "(struct_variant %s 0 %s %d%s)" % (hx("E"), hx(sname), len(present),
                                                            "".join(" (%s %s)" % (hx(f), v) for f, v in present))
            return "(struct %s %d%s)" % (hx(sname), len(present), "".join(" (%s %s)" % (hx(f), v) for f, v in present))
        if kind == "enum":
            i = int(e[1])
            sym = n.symbols[i]
            r = rng.random()
            if rng.random() < self.break_prob:
                self.expect = "err"
                self.note("bad enum symbol/index")
                return rng.choice(["(str %s)" % hx("NOPE"), "(i32 %d)" % len(n.symbols), "(i64 -1)",
                                   "(unit_variant %s 0 %s)" % (hx("E"), hx("NOPE"))])
            if self.exact:
                # what a Rust enum (named like the Avro enum, in full or in short) or a string makes
                if r < 0.2:
                    return "(str %s)" % hx(sym)
                return "(unit_variant %s %d %s)" % (hx(rng.choice([n.name, n.name.split(".")[-1]])), i, hx(sym))
            if r < 0.3:
                return "(str %s)" % hx(sym)
            if r < 0.6:
                return "(unit_variant %s %d %s)" % (hx(n.name), i, hx(sym))
            if r < 0.75:
                return "(unit_struct %s)" % hx(sym)
            return self.int_pres_plain(i)
        if kind == "fixed":
            b = unhex(e[1])
            if rng.random() < self.break_prob:
                self.expect = "err"
                self.note("wrong fixed length")
                if len(b) >= 1 and rng.random() < 0.4:
                    # the right number of CHARS, too many bytes
                    return "(str %s)" % hx("\u00e9" + "a" * (len(b) - 1))
                return "(bytes %s)" % hx(b + b"\x00")
            r = rng.random()
            if r < 0.15 and is_utf8(b):
                return "(str %s)" % e[1]
            if r < 0.3 and len(b) < 40:
                self.needs_slow = True
                return "(seq %s%s)" % (rng.choice(["none", str(len(b))]), "".join(" (u16 %d)" % x for x in b))
            return "(bytes %s)" % e[1]
        if kind == "decimal":
            m = int(e[1])
            scale = n.lt[1]
            if rng.random() < self.break_prob and n.t == "fixed" and 0 < n.size < 16:
                self.expect = "err"
                self.note("decimal does not fit fixed")
                big = 2 ** (8 * n.size - 1)
                if rng.random() < 0.5 and scale == 0:
                    return self.int_pres_plain(big)
                return "(str %s)" % hx(dec_str(big, scale))
            if m % (10 ** scale) == 0 and rng.random() < 0.4:
                return self.int_pres_plain(m // (10 ** scale))
            return "(str %s)" % hx(dec_str(m, scale))
        if kind == "big-decimal":
            m, scale = int(e[1]), int(e[2])
            if scale == 0 and rng.random() < 0.0:
                return self.int_pres_plain(m)
            return "(str %s)" % hx(dec_str(m, scale))
        if kind == "duration":
            a, b, c = int(e[1]), int(e[2]), int(e[3])
            r = rng.random()
            if rng.random() < self.break_prob:
                self.expect = "err"
                self.note("bad duration")
                return rng.choice(["(tuple (u32 1) (u32 2))", "(bytes %s)" % hx(b"\x00" * 11),
                                   "(tuple (u32 1) (u32 2) (i32 3))",
                                   "(struct %s 3 (%s (u32 1)) (%s (u32 2)) (%s (u32 3)))" % (hx("D"), hx("months"), hx("days"), hx("days"))])
            if r < 0.3:
                return "(tuple (u32 %d) (u32 %d) (u32 %d))" % (a, b, c)
            if r < 0.4:
                return "(seq %s (u32 %d) (u32 %d) (u32 %d))" % (rng.choice(["none", "3"]), a, b, c)
            if r < 0.55:
                import struct
                return "(bytes %s)" % hx(struct.pack("<III", a, b, c))
            fs = [("months", a), ("days", b), ("milliseconds", c)]
            rng.shuffle(fs)
            if r < 0.8:
                return "(struct %s 3%s)" % (hx("Duration"), "".join(" (%s (u32 %d))" % (hx(f), v) for f, v in fs))
            return "(map %s%s)" % (rng.choice(["none", "3"]),
                                   "".join(" (entry (str %s) (u32 %d))" % (hx(f), v) for f, v in fs))
        raise ValueError(kind)

    def pres_again(self, k, e):
        return self.pres(k, e)

    def int_pres_plain(self, z):
        cands = [t for t, a, b in INT_TYPES if a <= z <= b]
        return "(%s %d)" % (self.rng.choice(cands), z)

    def first_null_is(self, un, i):
        """the end() null-filling uses the type-directed Null lookup: the first null branch"""
        for j, vk in enumerate(un.variants):
            if self.nodes[vk].kind() == "null":
                return j == i
        return False

def dec_str(m, scale):
    s = str(abs(m))
    if scale > 0:
        s = s.rjust(scale + 1, "0")
        s = s[:-scale] + "." + s[-scale:]
    return ("-" if m < 0 else "") + s
