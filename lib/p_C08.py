"""C08 -- fingerprint = little-endian CRC-64-AVRO of the Parsing Canonical Form."""
import random
import common as C
import gen as G

MODEL_TARGETS = ["model/CanonicalForm.vo", "model/Rabin.vo", "spec/CrcSpec.vo"]
COQ_TARGETS = ["props/C08.vo"]
THEOREMS = [("C08", ["C08_parsed", "C08_respell_regenerated", "C08_table", "C08_step", "C08_rabin", "C08_rabin_bitwise", "C08_pieces", "C08_finish",
                     "C08_le64_inj", "C08_fingerprint", "C08_null_vector"])]
PROOF_FILES = ["proofs/RabinProofs.v", "proofs/CanonicalFormProofs.v", "proofs/ParseResolveProofs.v", "proofs/ParseCf.v", "proofs/ParseLayout.v", "proofs/ParseBridge.v", "proofs/SchemaJsonProofs.v", "props/C08.v"]
TRUSTED_BASE = [
    "Coq 8.16.1 kernel (coqc, vm_compute for the 256-entry table sweep); no native_compute",
    "translators/gen_rabin.py (EMPTY64, FP_TABLE, the per-byte step expression, Default, finish byte order are regenerated from rabin.rs on every run)",
    "hand-written model/CanonicalForm.v of canonical_form.rs, tied by the correspondence run (hook H1 text and fingerprint vs model)",
    "documents: the specification's canonical form (PcfSpec.pcf) is computed by the model from the same TEXT the crate parses, read by the extracted JsonRead.json_of_text "
    "(hand-written reader of serde_json's grammar, tied to serde_json by the C19 run); the generator's AST only cross-checks that reading",
    "extraction (ExtrOcamlBasic only, no Extract Constant/Inductive of ours) + ocaml/driver.ml (parsing and printing)",
    "Rust harness avrodrive (schema construction from the case format; `mutseq` applies the edits of a history through nodes_mut())",
]
ASSUMPTIONS = [
    "families (e)-(g): the expected canonical form is the extracted PcfSpec.pcf of a DOCUMENT spelling the same schema with every definition before its uses (docgen.DocGen(forward=0) on the "
    "generating graph; names there are specification fullnames, no leading dot) and the expected fingerprint the extracted CrcSpec checksum of it; that DocGen spells the graph it is given is "
    "the generator's contract (the same generator is the one p_C07 checks against the built graph's fingerprint; a generator mistake shows as a violation on the unchanged crate); "
    "how Name::from_fully_qualified_name splits `.Name` / `a.b.c.Name` is the model's Schema.name_of_fqn, compared on the very same harness line",
    "CrcSpec.v transcribes the fingerprint64/initFPTable pseudo-code of the Avro specification",
    "canonical form text of the model is tied to canonical_form.rs by differential testing, not by proof",
]


def nodes_of_sx(sx):
    """(schema (node TYPE LOGICAL)...) as printed by the model / the harness -> list of gen.Node"""
    out = []
    for x in sx[1:]:
        ty, lt = x[1], x[2]
        if isinstance(lt, list):
            lt = ("decimal", int(lt[1]), int(lt[2])) if lt[0] == "decimal" else ("unknown", C.unhex(lt[1]).decode("utf-8"))
        elif lt == "none":
            lt = None
        if not isinstance(ty, list):
            out.append(G.Node(ty, lt=lt))
        elif ty[0] == "array":
            out.append(G.Node("array", items=int(ty[1]), lt=lt))
        elif ty[0] == "map":
            out.append(G.Node("map", values=int(ty[1]), lt=lt))
        elif ty[0] == "union":
            out.append(G.Node("union", variants=[int(k) for k in ty[1:]], lt=lt))
        elif ty[0] == "record":
            out.append(G.Node("record", name=C.unhex(ty[1]).decode("utf-8"),
                              fields=[(C.unhex(f[0]).decode("utf-8"), int(f[1])) for f in ty[2:]], lt=lt))
        elif ty[0] == "enum":
            out.append(G.Node("enum", name=C.unhex(ty[1]).decode("utf-8"), symbols=[C.unhex(y).decode("utf-8") for y in ty[2:]], lt=lt))
        else:
            out.append(G.Node("fixed", name=C.unhex(ty[1]).decode("utf-8"), size=int(ty[2]), lt=lt))
    return out

def copy_node(n):
    return G.Node(n.t, name=n.name, fields=list(n.fields) if n.fields is not None else None,
                  symbols=list(n.symbols) if n.symbols is not None else None, size=n.size, items=n.items, values=n.values,
                  variants=list(n.variants) if n.variants is not None else None, lt=n.lt)

def random_edit(rng, nodes):
    """-> ("set", k, node) | ("push", node): one edit of the graph as nodes_mut() allows it -- mostly edits that keep the schema valid
    and change its canonical form (size, symbols, names, fields, element types), some that leave it unchanged (logical type,
    same node again), some arbitrary (any key)"""
    n = len(nodes)
    k = rng.randrange(n)
    old = nodes[k]
    new = copy_node(old)
    r = rng.random()
    if r < 0.08:
        return ("push", G.Node(rng.choice(G.PRIMS)))
    if r < 0.16:
        return ("set", k, new)                                   # same node written again
    if old.t == "fixed":
        if rng.random() < 0.6:
            new.size = old.size + rng.choice([1, 2, 7])
        else:
            new.name = rng.choice([old.name + "_r", "." + old.name.rpartition(".")[2] + "_n"])
    elif old.t == "enum":
        c = rng.random()
        if c < 0.4:
            new.symbols = old.symbols + ["N%d" % len(old.symbols)]
        elif c < 0.6 and old.symbols:
            new.symbols = old.symbols[:-1] + [old.symbols[-1] + "x"]
        elif c < 0.8:
            new.symbols = list(reversed(old.symbols)) if len(old.symbols) > 1 else old.symbols + ["Z"]
        else:
            new.name = old.name + "_r"
    elif old.t == "record":
        c = rng.random()
        if c < 0.35:
            new.fields = old.fields + [("e%d" % len(old.fields), rng.randrange(n))]
        elif c < 0.5 and old.fields:
            new.fields = old.fields[1:]
        elif c < 0.65 and len(old.fields) > 1:
            new.fields = list(reversed(old.fields))
        elif c < 0.8 and old.fields:
            new.fields = [(old.fields[0][0] + "_", old.fields[0][1])] + old.fields[1:]
        else:
            new.name = rng.choice([old.name + "_r", "moved." + old.name.rpartition(".")[2], "." + old.name.rpartition(".")[2] + "_n", "a.b.c." + old.name.rpartition(".")[2]])
    elif old.t == "array":
        new.items = rng.randrange(n)
    elif old.t == "map":
        new.values = rng.randrange(n)
    elif old.t == "union":
        if rng.random() < 0.5 and old.variants:
            new.variants = old.variants[1:] + old.variants[:1]
        else:
            new.variants = old.variants + [rng.randrange(n)]
    else:
        if rng.random() < 0.7:
            new = G.Node(rng.choice([p for p in G.PRIMS if p != old.t]))
        else:
            new.lt = rng.choice([None, "uuid", "date", "timestamp-millis"])
    return ("set", k, new)

def histories(rng, n):
    """operation sequences on ONE SchemaMut: observations (fingerprint + canonical form, JSON, freeze) interleaved with edits through
    nodes_mut(), touches (nodes_mut() without a change) and clones. -> list of (harness line, [(kind, graph at that point, edited?)])"""
    import docgen as D
    out = []
    while len(out) < n:
        if rng.random() < 0.5:
            nodes = D.NameGraphGen(rng, logical=True).build()
        else:
            nodes = G.SchemaGen(rng, max_nodes=rng.choice([3, 8, 16]), max_depth=rng.choice([2, 4])).build()
        start_json = None
        if rng.random() < 0.4:
            doc = D.DocGen(rng, nodes, forward=0.0).gen(0, None)
            start_json = (doc, D.to_text(doc, rng))
        out.append((nodes, start_json, rng.randrange(1 << 30)))
    return out

def cases(rng, n):
    out = []
    # 1. arbitrary strings through names: every byte value reaches the table through the state
    for i in range(n // 3):
        s = G.rand_str(rng, 40) + "".join(chr(rng.randrange(32, 0x2FF)) for _ in range(rng.randint(0, 8)))
        nodes = [G.Node("fixed", name=s if not s.startswith(".") else "x" + s, size=rng.randint(0, 2**40))]
        out.append(G.schema_sx(nodes))
    # 2. random valid schemas (sharing, named references, logical types)
    while len(out) < n:
        g = G.SchemaGen(rng, max_nodes=rng.choice([3, 8, 20]), max_depth=rng.choice([2, 4, 6]))
        out.append(G.schema_sx(g.build()))
    return out

def dotted_spelling(rng, nodes, p=0.6):
    """the same graph with the names of null-namespace named nodes spelled `.Name` (leading dot = the null namespace, the spelling
    Name::from_fully_qualified_name documents), with probability p each -> (nodes', number of names respelled)"""
    out, k = [], 0
    for x in nodes:
        y = copy_node(x)
        if y.t in ("record", "enum", "fixed") and "." not in y.name and rng.random() < p:
            y.name = "." + y.name
            k += 1
        out.append(y)
    return out, k

DEEP_NSS = [None, None, "a.b.c", "a.b", "org.example.deep.ns", "a"]

def name_families(ctx, rng, violations, diffs, distinct, dist):
    """(e) forward references, (f) names as the builder API takes them, (g) shared unnamed nodes -- see the rule text"""
    import docgen as D
    quick = ctx["tier"] == "quick"
    evals = 0
    # ---- (e) documents with use before definition, in particular pending references with the same text for different fullnames:
    #      the fingerprint is the extracted CRC of the extracted PcfSpec.pcf of the forward-reference-free spelling of the same
    #      schema, the canonical form is that pcf, two spellings agree; node vector / canonical form / fingerprint model vs crate
    cases = []
    while len(cases) < (300 if quick else 10000):
        if rng.random() < 0.6:
            nodes = D.forward_twins(rng)
        else:
            nodes = D.NameGraphGen(rng, logical=True).build()
        dg = None
        for attempt in range(4):
            dg = D.DocGen(rng, nodes, forward=rng.choice([0.5, 0.8, 1.0]), extras=rng.choice([0.0, 0.3]))
            doc = dg.gen(0, None)
            if set(dg.occ) == dg.defined:
                break
        else:
            continue
        ref_doc = D.DocGen(rng, nodes, forward=0.0, extras=0.0).gen(0, None)
        cases.append((nodes, doc, ref_doc, dg.has_forward, D.same_text_forward_refs(dg)))
    texts = [D.to_text(c[1], rng) for c in cases]
    impl = C.run_parallel(C.AVRODRIVE, ["parse " + C.hx(t) for t in texts])
    model = C.run_parallel(C.AVROMODEL, ["parse " + D.to_sx(D.norm_numbers(c[1])) for c in cases])
    refm = C.run_parallel(C.AVROMODEL, ["parse " + D.to_sx(c[2]) for c in cases])
    pcfs = [C.parse_sx(r)[0] for r in refm]
    want = C.run_parallel(C.AVROMODEL, ["rabin " + (p[5] if p[0] == "ok" else "x") for p in pcfs])
    for (nodes, doc, ref_doc, fwd, same), text, ri, rm, pr, rw in zip(cases, texts, impl, model, pcfs, want):
        line = "parse " + C.hx(text)
        evals += 1
        pi, pm = C.parse_sx(ri)[0] if ri.startswith("(") else ["crash"], C.parse_sx(rm)[0]
        dist["documents/" + ("forward-refs" if fwd else "definition-first") + ("/same-text-different-targets" if same else "")] += 1
        if pr[0] != "ok":
            diffs.append({"impl_case": line, "model_case": "parse " + D.to_sx(ref_doc), "impl": ri[:300], "model": "reference spelling rejected by the model"})
            continue
        if pi[0] != "ok":
            violations.append({"impl_case": line, "what": "a valid document (definitions after their uses) was rejected: %s" % ri[:200], "document": text[:800]})
            continue
        distinct.add(pr[5])
        exp = C.parse_sx(rw)[0][2]
        if pi[2] != pr[5] or pi[3] != exp:
            violations.append({"impl_case": line, "what": "fingerprint / canonical form of a document with forward references is not the CRC-64-AVRO / "
                               "the specification's Parsing Canonical Form of the same schema spelled with every definition first",
                               "document": text[:800], "fingerprint": pi[3], "expected": exp,
                               "crate_canonical_form": C.unhex(pi[2]).decode("utf-8", "replace")[:500],
                               "spec_canonical_form": C.unhex(pr[5]).decode("utf-8", "replace")[:500]})
        if pm[0] != "ok" or C.show_sx(pi[1]) != C.show_sx(pm[1]) or pi[2] != pm[2] or pi[3] != pm[3]:
            diffs.append({"impl_case": line, "model_case": "parse " + D.to_sx(D.norm_numbers(doc)), "impl": ri[:500], "model": rm[:500]})
    # ---- (f) graphs BUILT through the public API with names as Name::from_fully_qualified_name takes them: `.Name` (leading dot =
    #      null namespace) and namespaces of several components. Expected: the extracted CRC of PcfSpec.pcf of a document spelling the
    #      same schema (names there: fullnames per the specification, no leading dot); the model (Schema.name_of_fqn) on the very
    #      same harness line; the JSON the built schema reports, parsed again, has the same fingerprint
    built = []
    while len(built) < (300 if quick else 10000):
        r = rng.random()
        if r < 0.5:
            nodes = D.NameGraphGen(rng, nss=list(dict.fromkeys(rng.sample(DEEP_NSS, rng.choice([2, 3, 4])))), logical=True).build()
        elif r < 0.6:
            nodes = D.forward_twins(rng)
        elif r < 0.75:
            nodes = [G.Node(rng.choice(["fixed", "enum"]), name=rng.choice(["Item", "a.b.c.Item", "x.Item", "I"]), size=rng.randint(0, 40), symbols=["A"])]
            if nodes[0].t == "enum":
                nodes[0].size = None
            else:
                nodes[0].symbols = None
        else:
            nodes = G.SchemaGen(rng, max_nodes=rng.choice([3, 8, 16]), max_depth=rng.choice([2, 4]),
                                namespaces=rng.choice([("",), ("", "a.b.c"), ("", "ns", "org.example.deep")])).build()
        spelled, k = dotted_spelling(rng, nodes, rng.choice([0.5, 1.0]))
        try:
            doc = D.DocGen(rng, nodes, forward=0.0, extras=0.0).gen(0, None)
        except D.Unspellable:
            continue
        built.append((nodes, spelled, k, doc))
    blines = ["mutseq " + G.schema_sx(b[1]) + " fp json freeze" for b in built]
    bi = C.run_parallel(C.AVRODRIVE, blines)
    bm_fp = C.run_parallel(C.AVROMODEL, ["fp " + G.schema_sx(b[1]) for b in built])
    bm_fz = C.run_parallel(C.AVROMODEL, ["freeze " + G.schema_sx(b[1]) for b in built])
    bspec = [C.parse_sx(r)[0] for r in C.run_parallel(C.AVROMODEL, ["parse " + D.to_sx(b[3]) for b in built])]
    bwant = C.run_parallel(C.AVROMODEL, ["rabin " + (p[5] if p[0] == "ok" else "x") for p in bspec])
    reparse_lines, reparse_at = [], []
    for (nodes, spelled, k, doc), line, ri, mfp, mfz, ps, rw in zip(built, blines, bi, bm_fp, bm_fz, bspec, bwant):
        evals += 1
        dist["built/" + ("leading-dot-names" if k else "plain-names")] += 1
        pi = C.parse_sx(ri)[0] if ri.startswith("(") else ["crash"]
        pf, pz = C.parse_sx(mfp)[0], C.parse_sx(mfz)[0]
        if pi[0] != "ok" or len(pi) != 4 or pi[1][0] != "fp" or pi[3][0] != "frozen" or pi[2][0] != "json":
            if pf[0] == "ok" and ps[0] == "ok":
                violations.append({"impl_case": line, "what": "a valid schema built through from_nodes (names given to Name::from_fully_qualified_name) "
                                   "has no fingerprint / does not freeze: %s" % ri[:200]})
            continue
        if ps[0] != "ok":
            continue
        distinct.add(ps[5])
        exp = C.parse_sx(rw)[0][2]
        got_fp, got_cf = pi[1][1], pi[1][2]
        if got_cf != ps[5] or got_fp != exp or pi[3][1] != exp:
            violations.append({"impl_case": line, "what": "fingerprint / canonical form of a schema built through the API is not the CRC-64-AVRO / "
                               "Parsing Canonical Form of the schema (PcfSpec.pcf of a document spelling the same schema)",
                               "fingerprint": got_fp, "frozen_fingerprint": pi[3][1], "expected": exp,
                               "crate_canonical_form": C.unhex(got_cf).decode("utf-8", "replace")[:500],
                               "spec_canonical_form": C.unhex(ps[5]).decode("utf-8", "replace")[:500]})
        if pf[0] != "ok" or pf[1] != got_fp or pf[2] != got_cf:
            diffs.append({"impl_case": line, "model_case": "fp " + G.schema_sx(spelled), "impl": C.show_sx(pi[1])[:400], "model": mfp[:400]})
        if pz[0] == "ok" and (pz[2] != pi[2][1] or pz[2] != pi[3][2]):
            diffs.append({"impl_case": line, "model_case": "freeze " + G.schema_sx(spelled), "impl": C.show_sx(pi[2])[:400], "model": mfz[:400]})
        reparse_lines.append("parse " + pi[2][1]); reparse_at.append((line, got_fp, pi[2][1]))
    for (line, fp0, js), rr in zip(reparse_at, C.run_parallel(C.AVRODRIVE, reparse_lines)):
        pr = C.parse_sx(rr)[0] if rr.startswith("(") else ["crash"]
        if pr[0] != "ok" or pr[3] != fp0:
            violations.append({"impl_case": line, "what": "the JSON a built schema reports does not parse back to a schema with the same fingerprint",
                               "json": C.unhex(js).decode("utf-8", "replace")[:500], "fingerprint": fp0, "reparsed": rr[:200]})
    # ---- (g) node vectors with SHARED unnamed nodes (one union / array / map node referenced from several places, also from inside
    #      the record it leads to): the canonical form is that of the schema = PcfSpec.pcf of its document (where every occurrence is
    #      written out), permutations of the node vector included
    sh = []
    for _ in range(300 if quick else 10000):
        nodes = D.shared_wrapper_graph(rng)
        re_entered = D.has_reentered_wrapper(nodes)
        doc = D.DocGen(rng, nodes, forward=0.0, extras=0.0).gen(0, None)
        if rng.random() < 0.4:
            nodes = D.permute(rng, nodes)
        if rng.random() < 0.3:
            nodes, _ = dotted_spelling(rng, nodes)
        sh.append((nodes, doc, re_entered))
    slines = ["mutseq " + G.schema_sx(b[0]) + " fp freeze" for b in sh]
    si = C.run_parallel(C.AVRODRIVE, slines)
    sm = C.run_parallel(C.AVROMODEL, ["fp " + G.schema_sx(b[0]) for b in sh])
    sspec = [C.parse_sx(r)[0] for r in C.run_parallel(C.AVROMODEL, ["parse " + D.to_sx(b[1]) for b in sh])]
    swant = C.run_parallel(C.AVROMODEL, ["rabin " + (p[5] if p[0] == "ok" else "x") for p in sspec])
    for (nodes, doc, re_entered), line, ri, mfp, ps, rw in zip(sh, slines, si, sm, sspec, swant):
        evals += 1
        dist["shared-unnamed-node/" + ("re-entered-after-a-named-record" if re_entered else "not-re-entered")] += 1
        pi = C.parse_sx(ri)[0] if ri.startswith("(") else ["crash"]
        pf = C.parse_sx(mfp)[0]
        if ps[0] != "ok":
            diffs.append({"impl_case": line, "model_case": "parse " + D.to_sx(doc), "impl": ri[:200], "model": "the document of the graph is rejected by the model"})
            continue
        exp = C.parse_sx(rw)[0][2]
        ok = pi[0] == "ok" and len(pi) == 3 and pi[1][0] == "fp" and pi[2][0] == "frozen"
        if not ok:
            violations.append({"impl_case": line, "what": "a valid schema whose node vector shares an unnamed node (union / array / map referenced from "
                               "several places, every cycle going through a named record) has no canonical form / fingerprint or does not freeze: %s" % ri[:300],
                               "spec_canonical_form": C.unhex(ps[5]).decode("utf-8", "replace")[:500]})
            continue
        distinct.add(ps[5])
        if pi[1][2] != ps[5] or pi[1][1] != exp or pi[2][1] != exp:
            violations.append({"impl_case": line, "what": "fingerprint / canonical form of a node vector with a shared unnamed node is not that of the schema",
                               "fingerprint": pi[1][1], "expected": exp, "crate_canonical_form": C.unhex(pi[1][2]).decode("utf-8", "replace")[:500],
                               "spec_canonical_form": C.unhex(ps[5]).decode("utf-8", "replace")[:500]})
        if pf[0] != "ok" or pf[1] != pi[1][1] or pf[2] != pi[1][2]:
            diffs.append({"impl_case": line, "model_case": "fp " + G.schema_sx(nodes), "impl": C.show_sx(pi[1])[:400], "model": mfp[:400]})
    return evals

def run(ctx):
    rng = random.Random(ctx["seed"] * 1000003 + 8)
    n = 600 if ctx["tier"] == "quick" else 20000
    schemas = cases(rng, n)
    lines = ["fp " + s for s in schemas]
    impl = C.run_parallel(C.AVRODRIVE, lines)
    model = C.run_parallel(C.AVROMODEL, lines)
    # independent oracle: the specification's checksum (extracted CrcSpec) over the text the crate reports
    texts = []
    for r in impl:
        p = C.parse_sx(r)[0] if r.startswith("(ok") else None
        texts.append(p[2] if p else None)
    spec_lines = ["rabin " + t for t in texts if t is not None]
    spec = iter(C.run_parallel(C.AVROMODEL, spec_lines))
    violations, diffs, distinct, samples = [], [], set(), []
    nontrivial = 0
    for line, ri, rm, t in zip(lines, impl, model, texts):
        if not C.same_outcome(ri, rm):
            diffs.append({"impl_case": line, "model_case": line, "impl": ri[:400], "model": rm[:400]})
        if t is None:
            continue
        rs = C.parse_sx(next(spec))[0]
        fp_impl = C.parse_sx(ri)[0][1]
        if rs[2] != fp_impl:
            violations.append({"impl_case": line, "what": "fingerprint differs from le64(crc64_avro(canonical form))",
                               "fingerprint": fp_impl, "expected": rs[2], "canonical_form": C.unhex(t).decode("utf-8", "replace")})
        distinct.add(t)
        if len(samples) < 5:
            samples.append({"canonical_form": C.unhex(t).decode("utf-8", "replace")[:200], "fingerprint": fp_impl})
    # 3. documents: the fingerprint must be the specification checksum of the SPECIFICATION's canonical form of the document
    #    (PcfSpec.pcf, extracted; computed from the JSON AST, independent of the crate's traversal)
    import docgen as D
    docs = []
    while len(docs) < n // 2:
        g = G.SchemaGen(rng, max_nodes=rng.choice([2, 5, 10, 18]), max_depth=rng.choice([2, 4, 6]),
                        namespaces=rng.choice([("",), ("ns", "ns.sub", "other"), ("", "ns", "ns.sub")]), ref_prob=0.3)
        nodes = g.build()
        try:
            d1 = D.DocGen(rng, nodes, forward=0.0).gen(0, None)
            d2 = D.DocGen(rng, nodes, forward=0.0).gen(0, None)      # another spelling of the same schema
        except D.Unspellable:
            continue
        docs.append((nodes, d1, d2))
    t1 = [D.to_text(d[1], rng) for d in docs]
    t2 = [D.to_text(d[2], rng) for d in docs]
    i1 = C.run_parallel(C.AVRODRIVE, ["parse " + C.hx(t) for t in t1])
    i2 = C.run_parallel(C.AVRODRIVE, ["parse " + C.hx(t) for t in t2])
    # the model reads the same TEXT as the crate (JsonRead.json_of_text, then the parser and PcfSpec.pcf of the document it read)
    sp = C.run_parallel(C.AVROMODEL, ["parse (text %s)" % C.hx(t) for t in t1])
    import jsontext as JT
    diffs.extend(JT.ast_cross_check(t1 + t2, [d[1] for d in docs] + [d[2] for d in docs], "C08 documents"))
    want_lines, want_idx = [], []
    for k, r in enumerate(sp):
        p = C.parse_sx(r)[0]
        if p[0] == "ok":
            want_lines.append("rabin " + p[5]); want_idx.append(k)
    want = dict(zip(want_idx, C.run_parallel(C.AVROMODEL, want_lines)))
    for k, (d, a, b) in enumerate(zip(docs, i1, i2)):
        pa, pb = C.parse_sx(a)[0], C.parse_sx(b)[0]
        line = "parse " + C.hx(t1[k])
        if k not in want or pa[0] != "ok":
            continue
        exp = C.parse_sx(want[k])[0][2]
        spec_pcf = C.parse_sx(sp[k])[0][5]
        distinct.add(spec_pcf)
        if pa[3] != exp:
            violations.append({"impl_case": line, "what": "fingerprint is not the CRC-64-AVRO of the specification's Parsing Canonical Form of the document",
                               "document": t1[k][:500], "fingerprint": pa[3], "expected": exp,
                               "spec_canonical_form": C.unhex(spec_pcf).decode("utf-8", "replace")[:400],
                               "crate_canonical_form": C.unhex(pa[2]).decode("utf-8", "replace")[:400]})
        if pb[0] == "ok" and pb[3] != pa[3]:
            violations.append({"impl_case": "parse " + C.hx(t2[k]), "what": "two JSON spellings of the same schema have different fingerprints",
                               "a": t1[k][:300], "b": t2[k][:300]})
    # 4. histories on one SchemaMut value: fingerprint / canonical form / JSON / freeze observed before and after edits through
    #    nodes_mut(); every observation must be the model's value for the graph as it is AT THAT POINT (and the fingerprint the
    #    specification checksum of the canonical form text reported at that same point)
    nh = 250 if ctx["tier"] == "quick" else 8000
    hs = histories(rng, nh)
    pm = iter(C.run_parallel(C.AVROMODEL, ["parse (text %s)" % C.hx(h[1][1]) for h in hs if h[1] is not None]))
    diffs.extend(JT.ast_cross_check([h[1][1] for h in hs if h[1] is not None], [h[1][0] for h in hs if h[1] is not None], "C08 history start documents"))
    hlines, hobs = [], []
    for nodes, start_json, hseed in hs:
        r2 = random.Random(hseed)
        if start_json is not None:
            p = C.parse_sx(next(pm))[0]
            if p[0] != "ok":
                continue
            cur = nodes_of_sx(p[1])
            start = "(json %s)" % C.hx(start_json[1])
        else:
            cur = [copy_node(x) for x in nodes]
            start = G.schema_sx(cur)
        ops, obs, edited = [], [], False
        plan = [r2.choice(["fp", "fp", "fp", "json", "touch", "clone", "edit", "edit", "edit", "freeze"]) for _ in range(r2.randint(2, 7))] + ["fp", "freeze"]
        if r2.random() < 0.5:
            plan = ["fp"] + plan
        for o in plan:
            if o == "edit":
                e = random_edit(r2, cur)
                cur = [copy_node(x) for x in cur]
                if e[0] == "push":
                    cur.append(e[1]); ops.append("(push %s)" % G.node_sx(e[1]))
                else:
                    cur[e[1]] = e[2]; ops.append("(set %d %s)" % (e[1], G.node_sx(e[2])))
                edited = True
            elif o == "touch":
                ops.append("touch"); edited = True
            elif o == "clone":
                ops.append("clone")
            else:
                ops.append(o)
                obs.append((o, G.schema_sx(cur), None if edited or start_json is None else D.minified(start_json[0])))
        hlines.append("mutseq " + start + " " + " ".join(ops))
        hobs.append(obs)
    hi = C.run_parallel(C.AVRODRIVE, hlines)
    want_fp = {}
    keys = sorted({g for obs in hobs for _, g, _ in obs})
    for g, a, b in zip(keys, C.run_parallel(C.AVROMODEL, ["fp " + g for g in keys]), C.run_parallel(C.AVROMODEL, ["freeze " + g for g in keys])):
        want_fp[g] = (C.parse_sx(a)[0], C.parse_sx(b)[0])
    crc_lines, crc_at = [], []
    nobs = 0
    for line, obs, ri in zip(hlines, hobs, hi):
        pr = C.parse_sx(ri)[0] if ri.startswith("(") else ["crash"]
        if pr[0] != "ok" or len(pr) - 1 != len(obs):
            violations.append({"impl_case": line, "what": "a history of fingerprint / edit operations on a SchemaMut did not complete: %s" % ri[:200]})
            continue
        distinct.add(line)
        for step, ((kind, g, original), got) in enumerate(zip(obs, pr[1:])):
            nobs += 1
            mfp, mfz = want_fp[g]
            if kind == "fp":
                if got[0] == "fp":
                    crc_lines.append("rabin " + got[2]); crc_at.append((line, step, got))
                if mfp[0] == "outoffuel":
                    continue
                if (got[0] == "fp") != (mfp[0] == "ok"):
                    diffs.append({"impl_case": line, "model_case": "fp " + g, "impl": C.show_sx(got)[:300], "model": C.show_sx(mfp)[:300], "step": step})
                elif got[0] == "fp" and (got[1] != mfp[1] or got[2] != mfp[2]):
                    violations.append({"impl_case": line, "what": "fingerprint / canonical form observed at step %d of a history (after edits through nodes_mut) "
                                       "is not that of the graph at that point" % step, "graph_now": g[:600],
                                       "got": [got[1], C.unhex(got[2]).decode("utf-8", "replace")[:300]],
                                       "expected": [mfp[1], C.unhex(mfp[2]).decode("utf-8", "replace")[:300]]})
            elif kind == "freeze":
                if mfz[0] == "outoffuel":
                    continue
                if (got[0] == "frozen") != (mfz[0] == "ok"):
                    diffs.append({"impl_case": line, "model_case": "freeze " + g, "impl": C.show_sx(got)[:300], "model": C.show_sx(mfz)[:300], "step": step})
                elif got[0] == "frozen":
                    if got[1] != mfz[1]:
                        violations.append({"impl_case": line, "what": "fingerprint of the schema frozen at step %d of a history is not that of the graph at that point" % step,
                                           "graph_now": g[:600], "got": got[1], "expected": mfz[1]})
                    want_json = C.hx(original) if original is not None else mfz[2]
                    if got[2] != want_json:
                        diffs.append({"impl_case": line, "model_case": "freeze " + g, "impl": C.show_sx(got)[:400], "model": want_json[:400], "step": step})
            else:
                # serde_json::to_string(&SchemaMut) always regenerates the document from the nodes (the stored text is only used by freeze)
                want_json = mfz[2] if mfz[0] == "ok" else None
                if want_json is not None and (got[0] != "json" or got[1] != want_json):
                    diffs.append({"impl_case": line, "model_case": "freeze " + g, "impl": C.show_sx(got)[:400], "model": want_json[:400], "step": step})
    for (line, step, got), rs in zip(crc_at, C.run_parallel(C.AVROMODEL, crc_lines)):
        exp = C.parse_sx(rs)[0][2]
        if exp != got[1]:
            violations.append({"impl_case": line, "what": "fingerprint observed at step %d of a history differs from le64(crc64_avro(canonical form reported at the same step))" % step,
                               "fingerprint": got[1], "expected": exp, "canonical_form": C.unhex(got[2]).decode("utf-8", "replace")[:400]})
    from collections import Counter
    dist = Counter()
    extra = name_families(ctx, rng, violations, diffs, distinct, dist)
    return {
        "distribution": dict(dist),
        "evaluations": len(lines) + 2 * len(docs) + nobs + extra,
        "distinct_nontrivial": len(distinct),
        "rule": "node graphs (arbitrary UTF-8 names in fixed nodes; random valid schemas with sharing and logical types); "
                "distinct = distinct canonical form texts accepted by the crate; each compared (a) fingerprint and text "
                "model vs crate, (b) crate fingerprint vs extracted specification checksum of the crate's text; (c) generated documents in two "
                "random spellings each: fingerprint = extracted CRC of the extracted PcfSpec.pcf of the document (independent of the crate's "
                "traversal), equal for both spellings; (d) histories on one SchemaMut value (built or parsed): fingerprint + canonical form, JSON, freeze "
                "observed before and after edits through nodes_mut() (sizes, symbols, names, fields, element keys, pushes), no-op nodes_mut() and "
                "clones: every observation = the model's value for the graph at that point, fingerprint = extracted CRC of the text reported there; "
                "(e) documents with use before definition (docgen.forward_twins: one simple name in several namespaces, each referred to by its short spelling "
                "from inside its namespace before any definition; NameGraphGen): canonical form / fingerprint = extracted PcfSpec.pcf / CRC of the "
                "definition-first spelling, node vector model vs crate; (f) graphs built through from_nodes with names spelled `.Name` and with "
                "namespaces of several components: canonical form / fingerprint = extracted PcfSpec.pcf / CRC of a document spelling the same schema, "
                "= the model's (Schema.name_of_fqn) on the same line, reported JSON parses back to the same fingerprint; edits of histories also rename to `.Name`; "
                "(g) node vectors with shared unnamed nodes (docgen.shared_wrapper_graph: the wrapper a recursive record recurses through is the node it is reached through from outside), "
                "permuted: canonical form / fingerprint = PcfSpec.pcf / CRC of the schema's document, freeze succeeds",
        "samples": samples,
        "violations": violations,
        "model_diffs": diffs,
    }
