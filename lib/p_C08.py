"""C08 -- fingerprint = little-endian CRC-64-AVRO of the Parsing Canonical Form."""
import random
import common as C
import gen as G

MODEL_TARGETS = ["model/CanonicalForm.vo", "model/Rabin.vo", "spec/CrcSpec.vo"]
COQ_TARGETS = ["props/C08.vo"]
THEOREMS = [("C08", ["C08_table", "C08_step", "C08_rabin", "C08_rabin_bitwise", "C08_pieces", "C08_finish",
                     "C08_le64_inj", "C08_fingerprint", "C08_null_vector"])]
PROOF_FILES = ["proofs/RabinProofs.v", "proofs/CanonicalFormProofs.v", "props/C08.v"]
TRUSTED_BASE = [
    "Coq 8.16.1 kernel (coqc, vm_compute for the 256-entry table sweep); no native_compute",
    "translators/gen_rabin.py (EMPTY64, FP_TABLE, the per-byte step expression, Default, finish byte order are regenerated from rabin.rs on every run)",
    "hand-written model/CanonicalForm.v of canonical_form.rs, tied by the correspondence run (hook H1 text and fingerprint vs model)",
    "extraction (ExtrOcamlBasic only, no Extract Constant/Inductive of ours) + ocaml/driver.ml (parsing and printing)",
    "Rust harness avrodrive (schema construction from the case format)",
]
ASSUMPTIONS = [
    "CrcSpec.v transcribes the fingerprint64/initFPTable pseudo-code of the Avro specification",
    "canonical form text of the model is tied to canonical_form.rs by differential testing, not by proof",
]

def cases(rng, n):
    out = []
    # 1. arbitrary strings through names: every byte value reaches the table through the state
    for i in range(n // 3):
        s = G.rand_str(rng, 40) + "".join(chr(rng.randrange(32, 0x2FF)) for _ in range(rng.randint(0, 8)))
        nodes = [G.Node("fixed", name=s if not s.startswith(".") else "x" + s, size=rng.randint(0, 2**40))]
        out.append(G.schema_sx(nodes))
    # 2. random valid schemas (sharing, named references, logical types)
    while len(out) < n:
        g = G.SchemaGen(rng, max_nodes=rng.choice([3, 8, 20]), max_depth=rng.choice([2, 4, 6]))
        out.append(G.schema_sx(g.build()))
    return out

def run(ctx):
    rng = random.Random(ctx["seed"] * 1000003 + 8)
    n = 600 if ctx["tier"] == "quick" else 20000
    schemas = cases(rng, n)
    lines = ["fp " + s for s in schemas]
    impl = C.run_parallel(C.AVRODRIVE, lines)
    model = C.run_parallel(C.AVROMODEL, lines)
    # independent oracle: the specification's checksum (extracted CrcSpec) over the text the crate reports
    texts = []
    for r in impl:
        p = C.parse_sx(r)[0] if r.startswith("(ok") else None
        texts.append(p[2] if p else None)
    spec_lines = ["rabin " + t for t in texts if t is not None]
    spec = iter(C.run_parallel(C.AVROMODEL, spec_lines))
    violations, diffs, distinct, samples = [], [], set(), []
    nontrivial = 0
    for line, ri, rm, t in zip(lines, impl, model, texts):
        if not C.same_outcome(ri, rm):
            diffs.append({"impl_case": line, "model_case": line, "impl": ri[:400], "model": rm[:400]})
        if t is None:
            continue
        rs = C.parse_sx(next(spec))[0]
        fp_impl = C.parse_sx(ri)[0][1]
        if rs[2] != fp_impl:
            violations.append({"impl_case": line, "what": "fingerprint differs from le64(crc64_avro(canonical form))",
                               "fingerprint": fp_impl, "expected": rs[2], "canonical_form": C.unhex(t).decode("utf-8", "replace")})
        distinct.add(t)
        if len(samples) < 5:
            samples.append({"canonical_form": C.unhex(t).decode("utf-8", "replace")[:200], "fingerprint": fp_impl})
    return {
        "evaluations": len(lines),
        "distinct_nontrivial": len(distinct),
        "rule": "node graphs (arbitrary UTF-8 names in fixed nodes; random valid schemas with sharing and logical types); "
                "distinct = distinct canonical form texts accepted by the crate; each compared (a) fingerprint and text "
                "model vs crate, (b) crate fingerprint vs extracted specification checksum of the crate's text",
        "samples": samples,
        "violations": violations,
        "model_diffs": diffs,
    }
