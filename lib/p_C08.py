"""C08 -- fingerprint = little-endian CRC-64-AVRO of the Parsing Canonical Form."""
import random
import common as C
import gen as G

MODEL_TARGETS = ["model/CanonicalForm.vo", "model/Rabin.vo", "spec/CrcSpec.vo"]
COQ_TARGETS = ["props/C08.vo"]
THEOREMS = [("C08", ["C08_parsed", "C08_respell_regenerated", "C08_table", "C08_step", "C08_rabin", "C08_rabin_bitwise", "C08_pieces", "C08_finish",
                     "C08_le64_inj", "C08_fingerprint", "C08_null_vector"])]
PROOF_FILES = ["proofs/RabinProofs.v", "proofs/CanonicalFormProofs.v", "proofs/ParseResolveProofs.v", "proofs/ParseCf.v", "proofs/ParseLayout.v", "proofs/ParseBridge.v", "proofs/SchemaJsonProofs.v", "props/C08.v"]
TRUSTED_BASE = [
    "Coq 8.16.1 kernel (coqc, vm_compute for the 256-entry table sweep); no native_compute",
    "translators/gen_rabin.py (EMPTY64, FP_TABLE, the per-byte step expression, Default, finish byte order are regenerated from rabin.rs on every run)",
    "hand-written model/CanonicalForm.v of canonical_form.rs, tied by the correspondence run (hook H1 text and fingerprint vs model)",
    "extraction (ExtrOcamlBasic only, no Extract Constant/Inductive of ours) + ocaml/driver.ml (parsing and printing)",
    "Rust harness avrodrive (schema construction from the case format)",
]
ASSUMPTIONS = [
    "CrcSpec.v transcribes the fingerprint64/initFPTable pseudo-code of the Avro specification",
    "canonical form text of the model is tied to canonical_form.rs by differential testing, not by proof",
]

def cases(rng, n):
    out = []
    # 1. arbitrary strings through names: every byte value reaches the table through the state
    for i in range(n // 3):
        s = G.rand_str(rng, 40) + "".join(chr(rng.randrange(32, 0x2FF)) for _ in range(rng.randint(0, 8)))
        nodes = [G.Node("fixed", name=s if not s.startswith(".") else "x" + s, size=rng.randint(0, 2**40))]
        out.append(G.schema_sx(nodes))
    # 2. random valid schemas (sharing, named references, logical types)
    while len(out) < n:
        g = G.SchemaGen(rng, max_nodes=rng.choice([3, 8, 20]), max_depth=rng.choice([2, 4, 6]))
        out.append(G.schema_sx(g.build()))
    return out

def run(ctx):
    rng = random.Random(ctx["seed"] * 1000003 + 8)
    n = 600 if ctx["tier"] == "quick" else 20000
    schemas = cases(rng, n)
    lines = ["fp " + s for s in schemas]
    impl = C.run_parallel(C.AVRODRIVE, lines)
    model = C.run_parallel(C.AVROMODEL, lines)
    # independent oracle: the specification's checksum (extracted CrcSpec) over the text the crate reports
    texts = []
    for r in impl:
        p = C.parse_sx(r)[0] if r.startswith("(ok") else None
        texts.append(p[2] if p else None)
    spec_lines = ["rabin " + t for t in texts if t is not None]
    spec = iter(C.run_parallel(C.AVROMODEL, spec_lines))
    violations, diffs, distinct, samples = [], [], set(), []
    nontrivial = 0
    for line, ri, rm, t in zip(lines, impl, model, texts):
        if not C.same_outcome(ri, rm):
            diffs.append({"impl_case": line, "model_case": line, "impl": ri[:400], "model": rm[:400]})
        if t is None:
            continue
        rs = C.parse_sx(next(spec))[0]
        fp_impl = C.parse_sx(ri)[0][1]
        if rs[2] != fp_impl:
            violations.append({"impl_case": line, "what": "fingerprint differs from le64(crc64_avro(canonical form))",
                               "fingerprint": fp_impl, "expected": rs[2], "canonical_form": C.unhex(t).decode("utf-8", "replace")})
        distinct.add(t)
        if len(samples) < 5:
            samples.append({"canonical_form": C.unhex(t).decode("utf-8", "replace")[:200], "fingerprint": fp_impl})
    # 3. documents: the fingerprint must be the specification checksum of the SPECIFICATION's canonical form of the document
    #    (PcfSpec.pcf, extracted; computed from the JSON AST, independent of the crate's traversal)
    import docgen as D
    docs = []
    while len(docs) < n // 2:
        g = G.SchemaGen(rng, max_nodes=rng.choice([2, 5, 10, 18]), max_depth=rng.choice([2, 4, 6]),
                        namespaces=rng.choice([("",), ("ns", "ns.sub", "other"), ("", "ns", "ns.sub")]), ref_prob=0.3)
        nodes = g.build()
        try:
            d1 = D.DocGen(rng, nodes, forward=0.0).gen(0, None)
            d2 = D.DocGen(rng, nodes, forward=0.0).gen(0, None)      # another spelling of the same schema
        except D.Unspellable:
            continue
        docs.append((nodes, d1, d2))
    t1 = [D.to_text(d[1], rng) for d in docs]
    t2 = [D.to_text(d[2], rng) for d in docs]
    i1 = C.run_parallel(C.AVRODRIVE, ["parse " + C.hx(t) for t in t1])
    i2 = C.run_parallel(C.AVRODRIVE, ["parse " + C.hx(t) for t in t2])
    sp = C.run_parallel(C.AVROMODEL, ["parse " + D.to_sx(d[1]) for d in docs])
    want_lines, want_idx = [], []
    for k, r in enumerate(sp):
        p = C.parse_sx(r)[0]
        if p[0] == "ok":
            want_lines.append("rabin " + p[5]); want_idx.append(k)
    want = dict(zip(want_idx, C.run_parallel(C.AVROMODEL, want_lines)))
    for k, (d, a, b) in enumerate(zip(docs, i1, i2)):
        pa, pb = C.parse_sx(a)[0], C.parse_sx(b)[0]
        line = "parse " + C.hx(t1[k])
        if k not in want or pa[0] != "ok":
            continue
        exp = C.parse_sx(want[k])[0][2]
        spec_pcf = C.parse_sx(sp[k])[0][5]
        distinct.add(spec_pcf)
        if pa[3] != exp:
            violations.append({"impl_case": line, "what": "fingerprint is not the CRC-64-AVRO of the specification's Parsing Canonical Form of the document",
                               "document": t1[k][:500], "fingerprint": pa[3], "expected": exp,
                               "spec_canonical_form": C.unhex(spec_pcf).decode("utf-8", "replace")[:400],
                               "crate_canonical_form": C.unhex(pa[2]).decode("utf-8", "replace")[:400]})
        if pb[0] == "ok" and pb[3] != pa[3]:
            violations.append({"impl_case": "parse " + C.hx(t2[k]), "what": "two JSON spellings of the same schema have different fingerprints",
                               "a": t1[k][:300], "b": t2[k][:300]})
    return {
        "evaluations": len(lines) + 2 * len(docs),
        "distinct_nontrivial": len(distinct),
        "rule": "node graphs (arbitrary UTF-8 names in fixed nodes; random valid schemas with sharing and logical types); "
                "distinct = distinct canonical form texts accepted by the crate; each compared (a) fingerprint and text "
                "model vs crate, (b) crate fingerprint vs extracted specification checksum of the crate's text; (c) generated documents in two "
                "random spellings each: fingerprint = extracted CRC of the extracted PcfSpec.pcf of the document (independent of the crate's "
                "traversal), equal for both spellings",
        "samples": samples,
        "violations": violations,
        "model_diffs": diffs,
    }
