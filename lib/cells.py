"""The (serde call x schema node kind) cell matrix of the serializer with boundary values."""
import struct
from common import hx
import gen as G

N = G.Node

def single_schemas():
    return {
        "null": [N("null")], "boolean": [N("boolean")], "int": [N("int")], "long": [N("long")], "float": [N("float")],
        "double": [N("double")], "bytes": [N("bytes")], "string": [N("string")],
        "array": [N("array", items=1), N("int")], "map": [N("map", values=1), N("int")],
        "record": [N("record", name="ns.R", fields=[("a", 1), ("b", 2)]), N("int"), N("union", variants=[3, 4]), N("null"), N("string")],
        "enum": [N("enum", name="E", symbols=["A", "B", "Null"])], "fixed": [N("fixed", name="F", size=4)],
        "decimal-bytes": [N("bytes", lt=("decimal", 2, 10))], "decimal-fixed": [N("fixed", name="D", size=2, lt=("decimal", 1, 4))],
        "big-decimal": [N("bytes", lt="big-decimal")], "uuid": [N("string", lt="uuid")], "date": [N("int", lt="date")],
        "time-millis": [N("int", lt="time-millis")], "time-micros": [N("long", lt="time-micros")],
        "timestamp-millis": [N("long", lt="timestamp-millis")], "timestamp-micros": [N("long", lt="timestamp-micros")],
        "duration": [N("fixed", name="Du", size=12, lt="duration")],
    }

def union_of(a_nodes, b_nodes, extra_null=False):
    """union [A, B] (optionally [null, A, B])"""
    import wrap
    nodes = [N("union", variants=[])]
    offs = []
    for part in ([[N("null")]] if extra_null else []) + [a_nodes, b_nodes]:
        off = len(nodes)
        offs.append(off)
        nodes += wrap.shift(part, off)
    nodes[0].variants = offs
    # names must be unique: rename clashes of the second operand
    seen = set()
    for n in nodes:
        if n.name is not None:
            while n.name in seen:
                n.name = n.name + "2"
            seen.add(n.name)
    return nodes

INT_VALUES = [0, 1, -1, 2, 127, 128, 255, 256, -128, -129, 32767, 32768, 65535, 2**31 - 1, 2**31, -2**31, -2**31 - 1, 2**32 - 1,
              2**63 - 1, 2**63, -2**63, -2**63 - 1, 2**64 - 1, 2**127 - 1, -2**127, 300, 1000]
WIDTHS = [("i8", -2**7, 2**7 - 1), ("i16", -2**15, 2**15 - 1), ("i32", -2**31, 2**31 - 1), ("i64", -2**63, 2**63 - 1),
          ("i128", -2**127, 2**127 - 1), ("u8", 0, 2**8 - 1), ("u16", 0, 2**16 - 1), ("u32", 0, 2**32 - 1), ("u64", 0, 2**64 - 1),
          ("u128", 0, 2**128 - 1)]

def svals():
    out = []
    out += ["(bool 0)", "(bool 1)"]
    for w, lo, hi in WIDTHS:
        for z in INT_VALUES:
            if lo <= z <= hi:
                out.append("(%s %d)" % (w, z))
    out += ["(f32 0)", "(f32 1065353216)", "(f32 2143289344)", "(f32 4286578688)"]
    out += ["(f64 0 0)", "(f64 4607182418800017408 1065353216)", "(f64 9221120237041090560 2143289344)"]
    out += ["(char 97)", "(char 233)", "(char 128512)"]
    strs = ["", "A", "B", "Null", "abcd", "12.5", "-0.01", "1", "months", "ns.R", "E", "00000000-0000-0000-0000-000000000000", "é", "123456789012"]
    # strings whose char count differs from their UTF-8 length, at the lengths that matter to some node (fixed of 4,
    # duration's 12): 4 bytes / 2 chars, 4 bytes / 1 char, 4 chars / 8 bytes, 4 chars / 6 bytes, 12 bytes / 6 chars, 12 chars / 36 bytes
    strs += ["\u00e9\u00e9", "\U0001F600", "\u00e9\u00e9\u00e9\u00e9", "a\u20acbc", "\u00e9" * 6, "\u20ac" * 12]
    out += ["(str %s)" % hx(s) for s in strs]
    bts = [b"", b"abcd", b"\x00" * 12, b"\xff\xfe", b"A", b"\x01\x02", struct.pack("<III", 1, 2, 3)]
    out += ["(bytes %s)" % hx(b) for b in bts]
    out += ["none", "unit", "(some (i32 1))", "(some unit)", "(some (str %s))" % hx("A")]
    out += ["(unit_struct %s)" % hx(s) for s in ["A", "Null", "zz"]]
    out += ["(unit_variant %s %d %s)" % (hx("E"), i, hx(s)) for i, s in [(0, "A"), (1, "B"), (2, "Null"), (0, "zz")]]
    for nm in ["Null", "Int", "Long", "String", "Bytes", "Array", "Map", "E", "F", "ns.R", "R", "Decimal", "D", "Duration", "Du", "BigDecimal", "Uuid", "Date", "zz"]:
        out.append("(newtype_struct %s (i32 1))" % hx(nm))
        out.append("(newtype_variant %s 0 %s (str %s))" % (hx("U"), hx(nm), hx("A")))
        out.append("(newtype_variant %s 0 %s unit)" % (hx("U"), hx(nm)))
        out.append("(newtype_variant %s 0 %s (bytes %s))" % (hx("U"), hx(nm), hx(b"abcd")))
    seqs = ["", " (i32 1)", " (i32 1) (i32 2)", " (u8 1) (u8 2) (u8 3) (u8 4)", " (u32 1) (u32 2) (u32 3)", " (u16 300)", " (str %s)" % hx("a")]
    for body in seqs:
        cnt = body.count("(")
        out.append("(seq none%s)" % body)
        out.append("(seq %d%s)" % (cnt, body))
        out.append("(seq %d%s)" % (cnt + 1, body))
        out.append("(tuple%s)" % body)
        out.append("(tuple_struct %s%s)" % (hx("T"), body))
        out.append("(tuple_variant %s 0 %s%s)" % (hx("U"), hx("Array"), body))
    maps = ["", " (entry (str %s) (i32 1))" % hx("k"), " (entry (str %s) (i32 1)) (entry (str %s) (str %s))" % (hx("a"), hx("b"), hx("x")),
            " (key (str %s)) (value (i32 5))" % hx("a"), " (entry (str %s) (u32 1)) (entry (str %s) (u32 2)) (entry (str %s) (u32 3))" % (hx("months"), hx("days"), hx("milliseconds")),
            " (entry (i32 1) (i32 1))", " (entry (bytes %s) (i32 1))" % hx(b"\xff")]
    for body in maps:
        out.append("(map none%s)" % body)
        out.append("(map %d%s)" % (body.count("entry") + body.count("(key"), body))
    structs = [("R", [("a", "(i32 1)"), ("b", "unit")]), ("R", [("b", "(str %s)" % hx("x")), ("a", "(i64 2)")]), ("R", [("a", "(i32 1)")]),
               ("ns.R", [("a", "(i32 1)"), ("b", "none")]), ("X", [("k", "(i32 1)")]), ("X", []),
               ("Duration", [("months", "(u32 1)"), ("days", "(u32 2)"), ("milliseconds", "(u32 3)")]),
               ("X", [("days", "(u32 2)"), ("months", "(u32 1)"), ("milliseconds", "(u32 3)")]), ("X", [("months", "(i32 1)"), ("days", "(u32 2)"), ("milliseconds", "(u32 3)")])]
    for nm, fs in structs:
        body = "".join(" (%s %s)" % (hx(f), v) for f, v in fs)
        out.append("(struct %s %d%s)" % (hx(nm), len(fs), body))
        out.append("(struct_variant %s 0 %s %d%s)" % (hx("U"), hx(nm), len(fs), body))
    out.append("fail")
    return out
